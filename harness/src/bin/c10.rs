//! C10 — a number is typed DateTime exactly when its cell style is a date/time format.
//! Unit level (through `calamine::verif_hooks::formats`, the functions every reader calls):
//!   impl   : the real `detect_custom_number_format`, `builtin_format_by_id/_by_code`, `format_excel_f64/_i64`,
//!   model  : the Lean model (`drv_c10`: the definitions the theorems of Props/C10 are about),
//!   oracle : the number-format grammar written again in Rust (token list → text, token list → class), an
//!            independent parser text → token list for the exhaustive sweeps, and the documented table of
//!            built-in ids.
//! Phases: corpus → complete sweeps (all u16 codes; all decimal id strings with variants; all strings of length
//! ≤ L over the 20-symbol significant alphabet, checksummed per block, bisected on mismatch) → grammar-generated
//! formats → raw/mutated strings → value wrapping.
//! File level (public API only): generated xlsx / xlsb / xls workbooks (shared writers `xlsxw`, `xlsbw`, `xlsw`) whose
//! style tables carry grammar-generated custom formats, built-in ids, redefined and doubly defined ids in shuffled
//! order, both date systems, numbers in every encoding the writers offer (xlsx n / cached formula value; xlsb Real,
//! RK float, RK int, FmlaNum; xls NUMBER, RK float, RK int, MULRK, FORMULA); each cell read back must be a DateTime of
//! the right flavour with the value and the date system unchanged exactly when the XF's format is a date format.
#[cfg(feature = "hooks")]
use calamine::verif_hooks::formats::{
    builtin_format_by_code, builtin_format_by_id, detect_custom_number_format, format_excel_f64, format_excel_i64, CellFormat,
};
/// built WITHOUT the `hooks` feature (the `verif-hooks` feature of calamine does not compile on this tree): the
/// private functions are reached through the public API instead — tiny generated workbooks around the format string /
/// the format id — and the stages that have no such route are skipped (see `NO_HOOKS_NOTE`).
#[cfg(not(feature = "hooks"))]
#[derive(Clone, Copy, Debug, PartialEq)]
enum CellFormat {
    Other,
    DateTime,
    TimeDelta,
}
#[cfg(not(feature = "hooks"))]
const NO_HOOKS_NOTE: &str = "built without verif-hooks: detect_custom_number_format is driven through generated xlsx workbooks (one custom format per XF, batches of 2000; sweep capped at length 5), builtin_format_by_code through one xls workbook with 65536 XF records, builtin_format_by_id through one xlsx workbook with 65536 cell XFs (plain decimal ids only: the spelling variants are skipped), the style tables are read off one numeric cell per XF instead of the hooks; skipped: format_excel_f64/i64 on random bit patterns (stage 5), parse_xf / parse_format on noise payloads";
use calamine::Data;
use calamine::Reader as _;
use std::sync::atomic::{AtomicUsize, Ordering};
use verif_harness::{driver::Driver, fnv64, guarded, hex, report::Report, rng::Rng, unhex, Args};

// ------------------------------------------------------------------------------------------------
// the grammar, independently of the Lean Spec (same token kinds, own definitions)
// ------------------------------------------------------------------------------------------------

#[derive(Clone, Debug, PartialEq)]
enum Tok {
    Lit(String),
    Esc(char),
    Pad(char),
    Fill(char),
    Brk(String),
    Elapsed(String),
    DateTok(String),
    Num(char),
    General(String),
}

#[derive(Clone, Debug, PartialEq)]
struct Fmt {
    sections: Vec<Vec<Tok>>, // at least one
}

const NUM_CHARS: &str = "0#?.,%Ee+-/@123456789$(): !^&'~{}<>=";
const STRUCTURAL: &str = "[];\"\\_";

/// placeholder / bare literal characters of the grammar: the ASCII list, and every character outside ASCII
fn is_num_char(c: char) -> bool {
    NUM_CHARS.contains(c) || (c as u32) >= 128
}
/// letters whose Unicode upper- or lower-casing expands or lands in A–Z / a–z (ß→SS, ſ→S, ﬆ→ST, ẖ→H+◌̱, ẙ→Y+◌̊, ẚ, K→k, İ→i+◌̇ …)
const CASE_TRAPS: &str = "ßſﬆﬅẖẙẚı\u{212A}ǆŉǰµİ\u{212B}";
fn run_of(s: &str, lo: char, up: char) -> bool {
    !s.is_empty() && s.chars().all(|c| c == lo || c == up)
}
fn is_elapsed_body(s: &str) -> bool {
    run_of(s, 'h', 'H') || run_of(s, 'm', 'M') || run_of(s, 's', 'S')
}
fn is_date_run(s: &str) -> bool {
    is_elapsed_body(s) || run_of(s, 'd', 'D') || run_of(s, 'y', 'Y')
}
fn is_ampm(s: &str) -> bool {
    let l = s.to_ascii_lowercase();
    s.is_ascii() && (l == "am/pm" || l == "a/p")
}

impl Tok {
    fn kind(&self) -> &'static str {
        match self {
            Tok::Lit(_) => "lit",
            Tok::Esc(_) => "esc",
            Tok::Pad(_) => "pad",
            Tok::Fill(_) => "fill",
            Tok::Brk(_) => "brk",
            Tok::Elapsed(_) => "elapsed",
            Tok::DateTok(_) => "date",
            Tok::Num(_) => "num",
            Tok::General(_) => "general",
        }
    }
    fn render(&self, out: &mut String) {
        match self {
            Tok::Lit(s) => {
                out.push('"');
                out.push_str(s);
                out.push('"');
            }
            Tok::Esc(c) => {
                out.push('\\');
                out.push(*c);
            }
            Tok::Pad(c) => {
                out.push('_');
                out.push(*c);
            }
            Tok::Fill(c) => {
                out.push('*');
                out.push(*c);
            }
            Tok::Brk(b) | Tok::Elapsed(b) => {
                out.push('[');
                out.push_str(b);
                out.push(']');
            }
            Tok::DateTok(s) | Tok::General(s) => out.push_str(s),
            Tok::Num(c) => out.push(*c),
        }
    }
    fn wf(&self) -> bool {
        match self {
            Tok::Lit(s) => !s.contains('"'),
            Tok::Esc(_) | Tok::Pad(_) => true,
            Tok::Fill(c) | Tok::Num(c) => is_num_char(*c),
            Tok::Brk(b) => !b.chars().any(|c| STRUCTURAL.contains(c)) && !is_elapsed_body(b),
            Tok::Elapsed(b) => is_elapsed_body(b),
            Tok::DateTok(s) => is_date_run(s) || is_ampm(s),
            Tok::General(s) => s.eq_ignore_ascii_case("general"),
        }
    }
    fn wire(&self) -> String {
        let (k, p) = match self {
            Tok::Lit(s) => ('L', s.clone()),
            Tok::Esc(c) => ('E', c.to_string()),
            Tok::Pad(c) => ('P', c.to_string()),
            Tok::Fill(c) => ('F', c.to_string()),
            Tok::Brk(s) => ('B', s.clone()),
            Tok::Elapsed(s) => ('T', s.clone()),
            Tok::DateTok(s) => ('D', s.clone()),
            Tok::Num(c) => ('N', c.to_string()),
            Tok::General(s) => ('G', s.clone()),
        };
        if p.is_empty() {
            k.to_string()
        } else {
            format!("{k}{}", hex(p.as_bytes()))
        }
    }
    fn from_wire(s: &str) -> Option<Tok> {
        let k = s.chars().next()?;
        let p = String::from_utf8(if s.len() > 1 { unhex(&s[1..]) } else { vec![] }).ok()?;
        let one = || {
            let mut it = p.chars();
            match (it.next(), it.next()) {
                (Some(c), None) => Some(c),
                _ => None,
            }
        };
        Some(match k {
            'L' => Tok::Lit(p),
            'E' => Tok::Esc(one()?),
            'P' => Tok::Pad(one()?),
            'F' => Tok::Fill(one()?),
            'B' => Tok::Brk(p),
            'T' => Tok::Elapsed(p),
            'D' => Tok::DateTok(p),
            'N' => Tok::Num(one()?),
            'G' => Tok::General(p),
            _ => return None,
        })
    }
}

fn wf_section(ts: &[Tok]) -> bool {
    if !ts.iter().all(|t| t.wf()) {
        return false;
    }
    if ts.iter().any(|t| matches!(t, Tok::General(_))) {
        // bracketed prefixes, the keyword, then literal text only
        let mut i = 0;
        while i < ts.len() && matches!(ts[i], Tok::Brk(_)) {
            i += 1;
        }
        if i >= ts.len() || !matches!(ts[i], Tok::General(_)) {
            return false;
        }
        return ts[i + 1..].iter().all(|t| matches!(t, Tok::Lit(_) | Tok::Esc(_) | Tok::Pad(_)));
    }
    true
}

/// the property: in the first section the first date token / elapsed token decides
fn classify_section(ts: &[Tok]) -> &'static str {
    for t in ts {
        match t {
            Tok::DateTok(_) => return "DateTime",
            Tok::Elapsed(_) => return "TimeDelta",
            _ => {}
        }
    }
    "Other"
}

impl Fmt {
    fn render(&self) -> String {
        let mut s = String::new();
        for (i, sec) in self.sections.iter().enumerate() {
            if i > 0 {
                s.push(';');
            }
            for t in sec {
                t.render(&mut s);
            }
        }
        s
    }
    fn wf(&self) -> bool {
        wf_section(&self.sections[0])
    }
    fn classify(&self) -> &'static str {
        classify_section(&self.sections[0])
    }
    fn wire(&self) -> String {
        self.sections.iter().map(|sec| sec.iter().map(|t| t.wire()).collect::<Vec<_>>().join(",")).collect::<Vec<_>>().join(";")
    }
    fn from_wire(s: &str) -> Option<Fmt> {
        let mut sections = vec![];
        for sec in s.split(';') {
            let mut ts = vec![];
            if !sec.is_empty() {
                for t in sec.split(',') {
                    ts.push(Tok::from_wire(t)?);
                }
            }
            sections.push(ts);
        }
        Some(Fmt { sections })
    }
    /// stable class name of a failing format (used to match findings): which neutral constructs are involved
    fn failure_class(&self) -> String {
        let first = &self.sections[0];
        if first.iter().any(|t| matches!(t, Tok::Lit(s) if s.contains('_') || s.contains('\\'))) {
            return "scanner:quote-escape".into();
        }
        let mut kinds: Vec<&str> = first.iter().map(|t| t.kind()).collect();
        kinds.sort();
        kinds.dedup();
        format!("scanner:{}", kinds.join("+"))
    }
}

/// independent parser text → token list (inverse of `render` on well-formed formats); None = not in the grammar
fn parse_format(text: &str) -> Option<Fmt> {
    let cs: Vec<char> = text.chars().collect();
    let mut sections = vec![];
    let mut cur = vec![];
    let mut i = 0;
    while i < cs.len() {
        let c = cs[i];
        match c {
            ';' => {
                sections.push(std::mem::take(&mut cur));
                i += 1;
            }
            '"' => {
                let j = (i + 1..cs.len()).find(|&j| cs[j] == '"')?;
                cur.push(Tok::Lit(cs[i + 1..j].iter().collect()));
                i = j + 1;
            }
            '\\' | '_' | '*' => {
                let d = *cs.get(i + 1)?;
                cur.push(match c {
                    '\\' => Tok::Esc(d),
                    '_' => Tok::Pad(d),
                    _ => {
                        if !is_num_char(d) {
                            return None;
                        }
                        Tok::Fill(d)
                    }
                });
                i += 2;
            }
            '[' => {
                let j = (i + 1..cs.len()).find(|&j| cs[j] == ']')?;
                let body: String = cs[i + 1..j].iter().collect();
                if body.chars().any(|c| STRUCTURAL.contains(c)) {
                    return None;
                }
                cur.push(if is_elapsed_body(&body) { Tok::Elapsed(body) } else { Tok::Brk(body) });
                i = j + 1;
            }
            ']' => return None,
            'a' | 'A' => {
                let take = |n: usize| -> Option<String> { cs.get(i..i + n).map(|x| x.iter().collect()) };
                if let Some(s) = take(5).filter(|s| is_ampm(s)) {
                    cur.push(Tok::DateTok(s));
                    i += 5;
                } else if let Some(s) = take(3).filter(|s| is_ampm(s)) {
                    cur.push(Tok::DateTok(s));
                    i += 3;
                } else {
                    return None;
                }
            }
            'd' | 'D' | 'm' | 'M' | 'y' | 'Y' | 'h' | 'H' | 's' | 'S' => {
                let mut j = i;
                while j < cs.len() && cs[j].eq_ignore_ascii_case(&c) {
                    j += 1;
                }
                cur.push(Tok::DateTok(cs[i..j].iter().collect()));
                i = j;
            }
            'g' | 'G' => {
                let s: String = cs.get(i..i + 7)?.iter().collect();
                if !s.eq_ignore_ascii_case("general") {
                    return None;
                }
                cur.push(Tok::General(s));
                i += 7;
            }
            c if is_num_char(c) => {
                cur.push(Tok::Num(c));
                i += 1;
            }
            _ => return None,
        }
    }
    sections.push(cur);
    Some(Fmt { sections })
}

// ------------------------------------------------------------------------------------------------
// the implementation under test, canonicalised
// ------------------------------------------------------------------------------------------------

#[cfg_attr(not(feature = "hooks"), allow(dead_code))]
fn tag(f: CellFormat) -> &'static str {
    match f {
        CellFormat::Other => "Other",
        CellFormat::DateTime => "DateTime",
        CellFormat::TimeDelta => "TimeDelta",
    }
}
fn letter(t: &str) -> u8 {
    match t {
        "Other" => b'O',
        "DateTime" => b'D',
        "TimeDelta" => b'T',
        _ => b'P',
    }
}
#[cfg(feature = "hooks")]
fn impl_detect(s: &str) -> &'static str {
    guarded(|| tag(detect_custom_number_format(s))).unwrap_or("panic")
}
#[cfg(feature = "hooks")]
fn impl_bycode(n: u16) -> &'static str {
    guarded(|| tag(builtin_format_by_code(n))).unwrap_or("panic")
}
#[cfg(feature = "hooks")]
fn impl_byid(b: &[u8]) -> &'static str {
    guarded(|| tag(builtin_format_by_id(b))).unwrap_or("panic")
}

// ---- the same three functions through the public API (no hooks)

/// class of a numeric cell as read
#[cfg(not(feature = "hooks"))]
fn data_class(d: Option<&Data>) -> &'static str {
    match d {
        Some(Data::DateTime(dt)) if dt.is_duration() => "TimeDelta",
        Some(Data::DateTime(_)) => "DateTime",
        Some(Data::Float(_)) | Some(Data::Int(_)) => "Other",
        _ => "?",
    }
}
/// the classes of the custom formats `strs`: one xlsx workbook, format `i` is numFmt 164+i used by cell XF i+1, and
/// one number per XF; `None` = the workbook could not be read (a panic or an error somewhere in the batch)
#[cfg(not(feature = "hooks"))]
fn detect_via_xlsx(strs: &[String]) -> Option<Vec<&'static str>> {
    use verif_harness::xlsxw;
    let mut book = xlsxw::XlsxBook::new();
    book.num_fmts = strs.iter().enumerate().map(|(i, s)| (164 + i as u32, s.clone())).collect();
    book.cell_xfs = std::iter::once(0u32).chain((0..strs.len()).map(|i| 164 + i as u32)).collect();
    let mut sh = xlsxw::XlsxSheet::new("S");
    for i in 0..strs.len() {
        sh.set(i as u32, 0, xlsxw::XCell::num("1.5").with_style(i as u32 + 1));
    }
    book.sheets.push(sh);
    let mut l = xlsxw::Layout::plain();
    l.compression = xlsxw::Compression::Stored;
    let bytes = book.build(&l).bytes;
    let r = guarded(|| calamine::Xlsx::new(std::io::Cursor::new(bytes)).ok().and_then(|mut wb| wb.worksheet_range("S").ok()));
    match r {
        Ok(Some(range)) => {
            let v: Vec<&'static str> = (0..strs.len()).map(|i| data_class(range.get_value((i as u32, 0)))).collect();
            if v.iter().any(|c| *c == "?") {
                None
            } else {
                Some(v)
            }
        }
        _ => None,
    }
}
#[cfg(not(feature = "hooks"))]
fn impl_detect_many(strs: &[String]) -> Vec<&'static str> {
    match detect_via_xlsx(strs) {
        Some(v) => v,
        None if strs.len() > 1 => strs.iter().map(|s| impl_detect(s)).collect(),
        None => vec!["panic"],
    }
}
#[cfg(not(feature = "hooks"))]
fn impl_detect(s: &str) -> &'static str {
    // characters XML cannot carry never reach the scanner through a file
    if s.chars().any(|c| (c as u32) < 0x20 || c == '\u{FFFE}' || c == '\u{FFFF}') {
        return "unrepresentable";
    }
    match detect_via_xlsx(&[s.to_string()]) {
        Some(v) => v[0],
        None => "panic",
    }
}
/// `builtin_format_by_code`, all 65536 codes at once: an xls workbook whose XF `n` has ifmt `n` and no FORMAT record
#[cfg(not(feature = "hooks"))]
fn bycode_table() -> &'static Vec<&'static str> {
    use std::sync::OnceLock;
    use verif_harness::xlsw;
    static T: OnceLock<Vec<&'static str>> = OnceLock::new();
    T.get_or_init(|| {
        let mut book = xlsw::XlsBook::new();
        book.xfs = (0..=65535u16).collect();
        let mut sh = xlsw::XlsSheet::new("S");
        for n in 0..=65535u16 {
            let mut c = xlsw::XlsCell::new(n, 0, xlsw::CellV::Number(1.5));
            c.xf = n;
            sh.cells.push(c);
        }
        book.sheets.push(sh);
        let bytes = book.to_bytes_plain(&mut Rng::new(1));
        let r = guarded(|| calamine::Xls::new(std::io::Cursor::new(bytes)).ok().and_then(|mut wb| wb.worksheet_range("S").ok()));
        match r {
            Ok(Some(range)) => (0..65536u32).map(|n| data_class(range.get_value((n, 0)))).collect(),
            _ => vec!["panic"; 65536],
        }
    })
}
#[cfg(not(feature = "hooks"))]
fn impl_bycode(n: u16) -> &'static str {
    bycode_table()[n as usize]
}
/// `builtin_format_by_id` on the decimal text of every id: an xlsx workbook whose cell XF `n` has numFmtId="n"
#[cfg(not(feature = "hooks"))]
fn byid_table() -> &'static Vec<&'static str> {
    use std::sync::OnceLock;
    use verif_harness::xlsxw;
    static T: OnceLock<Vec<&'static str>> = OnceLock::new();
    T.get_or_init(|| {
        let mut book = xlsxw::XlsxBook::new();
        book.cell_xfs = (0..65536u32).collect();
        let mut sh = xlsxw::XlsxSheet::new("S");
        for n in 0..65536u32 {
            sh.set(n, 0, xlsxw::XCell::num("1.5").with_style(n));
        }
        book.sheets.push(sh);
        let bytes = book.build(&xlsxw::Layout::plain()).bytes;
        let r = guarded(|| calamine::Xlsx::new(std::io::Cursor::new(bytes)).ok().and_then(|mut wb| wb.worksheet_range("S").ok()));
        match r {
            Ok(Some(range)) => (0..65536u32).map(|n| data_class(range.get_value((n, 0)))).collect(),
            _ => vec!["panic"; 65536],
        }
    })
}
/// only the plain decimal spelling of a 16-bit id can be asked through a file; anything else is "skip"
#[cfg(not(feature = "hooks"))]
fn impl_byid(b: &[u8]) -> &'static str {
    match std::str::from_utf8(b).ok().and_then(|t| t.parse::<u32>().ok().filter(|n| n.to_string() == t && *n < 65536)) {
        Some(n) => byid_table()[n as usize],
        None => "skip",
    }
}
fn documented_class(id: u32) -> &'static str {
    match id {
        14 | 15 | 16 | 17 | 18 | 19 | 20 | 21 | 22 | 45 | 47 => "DateTime",
        46 => "TimeDelta",
        _ => "Other",
    }
}
fn canon_data(d: &Data, int_src: Option<i64>) -> String {
    match d {
        Data::Int(v) => format!("I:{v}"),
        Data::Float(v) => format!("F:{}", v.to_bits()),
        Data::DateTime(dt) => {
            let kind = match (dt.is_datetime(), dt.is_duration()) {
                (true, false) => "dt",
                (false, true) => "td",
                _ => "??",
            };
            let dbg = format!("{dt:?}");
            let d1904 = if dbg.contains("is_1904: true") {
                "1"
            } else if dbg.contains("is_1904: false") {
                "0"
            } else {
                "?"
            };
            let bits = dt.as_f64().to_bits();
            match int_src {
                Some(v) if (v as f64).to_bits() == bits => format!("DI:{v}:{kind}:{d1904}"),
                _ => format!("D:{bits}:{kind}:{d1904}"),
            }
        }
        other => format!("?:{other:?}"),
    }
}
fn fmt_arg(f: Option<CellFormat>) -> &'static str {
    match f {
        None => "-",
        Some(CellFormat::Other) => "O",
        Some(CellFormat::DateTime) => "D",
        Some(CellFormat::TimeDelta) => "T",
    }
}

// ------------------------------------------------------------------------------------------------
// failures collected by worker threads, merged into the report in a fixed order
// ------------------------------------------------------------------------------------------------

struct Fail {
    kind: &'static str,
    sig: String,
    input: String,
    imp: String,
    model: String,
    expect: String,
}

#[derive(Default)]
struct Out {
    fails: Vec<Fail>,
    cases: Vec<(String, bool)>,
    /// hashes of the non-trivial inputs beyond the first few hundred kept in `cases`
    hashes: Vec<u64>,
    counts: std::collections::BTreeMap<String, u64>,
    bulk: u64,
    bulk_nontrivial: u64,
}

impl Out {
    fn fail(&mut self, kind: &'static str, sig: &str, input: &str, imp: &str, model: &str, expect: &str) {
        // per thread keep the shortest input per (kind, sig); the report does the same across threads
        if let Some(f) = self.fails.iter_mut().find(|f| f.kind == kind && f.sig == sig) {
            *self.counts.entry(format!("fail|{kind}|{sig}")).or_insert(0) += 1;
            if input.len() < f.input.len() {
                f.input = input.into();
                f.imp = imp.into();
                f.model = model.into();
                f.expect = expect.into();
            }
            return;
        }
        self.fails.push(Fail { kind, sig: sig.into(), input: input.into(), imp: imp.into(), model: model.into(), expect: expect.into() });
    }
    fn case(&mut self, input: String, nontrivial: bool) {
        if self.cases.len() < 300 {
            self.cases.push((input, nontrivial));
        } else {
            self.bulk += 1;
            if nontrivial {
                self.hashes.push(fnv64(input.as_bytes()));
            }
        }
    }
    fn count(&mut self, k: &str) {
        *self.counts.entry(k.into()).or_insert(0) += 1;
    }
    fn add_n(&mut self, k: &str, n: u64) {
        *self.counts.entry(k.into()).or_insert(0) += n;
    }
    fn merge_into(self, rep: &mut Report) {
        merge(vec![self], rep)
    }
    fn merge_one(self, rep: &mut Report) {
        for (input, nt) in self.cases {
            rep.case(&input, nt);
        }
        for (k, v) in self.counts {
            if let Some(rest) = k.strip_prefix("fail|") {
                // repeated failures of a signature already recorded once through rep.fail
                *rep.failure_count.entry(rest.to_string()).or_insert(0) += v;
            } else {
                rep.add(&k, v);
            }
        }
        for f in self.fails {
            rep.fail(f.kind, &f.sig, &f.input, &f.imp, &f.model, &f.expect);
        }
        if self.bulk > 0 {
            rep.bulk(self.bulk, self.bulk_nontrivial, "(swept block)");
        }
    }
}

/// merge worker results in worker order; distinct non-trivial inputs are counted once across workers
fn merge(mut outs: Vec<Out>, rep: &mut Report) {
    let mut seen = std::collections::HashSet::new();
    for o in &outs {
        for (s, nt) in &o.cases {
            if *nt {
                seen.insert(fnv64(s.as_bytes()));
            }
        }
    }
    for o in outs.iter_mut() {
        for h in std::mem::take(&mut o.hashes) {
            if seen.insert(h) {
                o.bulk_nontrivial += 1;
            }
        }
    }
    for o in outs {
        o.merge_one(rep);
    }
}

// ------------------------------------------------------------------------------------------------
// single cases
// ------------------------------------------------------------------------------------------------

/// impl vs model vs oracle on one grammar-described format
fn check_gram(f: &Fmt, drv: &mut Driver, out: &mut Out, shrink: bool) -> bool {
    let desc = f.wire();
    let input = format!("gram {desc}");
    let reply = drv.ask(&input);
    let parts: Vec<&str> = reply.split(' ').collect();
    let text = f.render();
    let expect = f.classify();
    let wf = f.wf();
    if parts.len() != 4 {
        out.fail("model_vs_spec", "driver:bad-reply", &input, "", &reply, "");
        return false;
    }
    let (m_text, m_class, m_wf, m_detect) = (parts[0], parts[1], parts[2], parts[3]);
    if m_text != hex(text.as_bytes()) {
        out.fail("model_vs_spec", "spec:render", &input, &hex(text.as_bytes()), m_text, "");
    }
    if m_class != expect {
        out.fail("model_vs_spec", "spec:classify", &input, "", m_class, expect);
    }
    if m_wf != if wf { "1" } else { "0" } {
        out.fail("model_vs_spec", "spec:wf", &input, "", m_wf, if wf { "1" } else { "0" });
    }
    let imp = impl_detect(&text);
    if imp == "unrepresentable" {
        return true;
    }
    let mut ok = true;
    if imp != m_detect || (wf && imp != expect) {
        ok = false;
        let g = if shrink { shrink_fmt(f, drv) } else { f.clone() };
        if g != *f {
            return check_gram(&g, drv, out, false);
        }
        let sig = f.failure_class();
        let shown = format!("gram {desc}   [text: {text}]");
        if imp != m_detect {
            out.fail("impl_vs_model", &sig, &shown, imp, m_detect, if wf { expect } else { "(not well-formed: no expectation)" });
        }
        if wf && imp != expect {
            out.fail("impl_vs_spec", &sig, &shown, imp, m_detect, expect);
        }
    }
    if wf && m_detect != expect {
        out.fail("model_vs_spec", "theorem:scanner_grammar", &input, imp, m_detect, expect);
    }
    ok
}

/// drop tokens / sections / characters while the same disagreement persists
fn shrink_fmt(f: &Fmt, drv: &mut Driver) -> Fmt {
    let bad = |g: &Fmt, drv: &mut Driver| -> (bool, bool) {
        let text = g.render();
        let imp = impl_detect(&text);
        let model = drv.ask(&format!("detect {}", hex(text.as_bytes())));
        (imp != model, g.wf() && imp != g.classify())
    };
    let want = bad(f, drv);
    let mut cur = f.clone();
    loop {
        let mut progressed = false;
        // drop later sections
        while cur.sections.len() > 1 {
            let mut g = cur.clone();
            g.sections.pop();
            if bad(&g, drv) == want {
                cur = g;
                progressed = true;
            } else {
                break;
            }
        }
        // drop tokens
        for si in 0..cur.sections.len() {
            let mut ti = 0;
            while ti < cur.sections[si].len() {
                let mut g = cur.clone();
                g.sections[si].remove(ti);
                if bad(&g, drv) == want {
                    cur = g;
                    progressed = true;
                } else {
                    ti += 1;
                }
            }
        }
        // shorten payloads
        for ti in 0..cur.sections[0].len() {
            loop {
                let mut g = cur.clone();
                let shorter = match &mut g.sections[0][ti] {
                    Tok::Lit(s) if s.chars().count() > 24 => {
                        // long literal: smallest failing prefix by bisection (the failure depends on the length)
                        let cs: Vec<char> = s.chars().collect();
                        let with = |n: usize, cur: &Fmt| -> Fmt {
                            let mut h = cur.clone();
                            h.sections[0][ti] = Tok::Lit(cs[..n].iter().collect());
                            h
                        };
                        let (mut lo, mut hi) = (0usize, cs.len());
                        while lo + 1 < hi {
                            let mid = (lo + hi) / 2;
                            if bad(&with(mid, &cur), drv) == want {
                                hi = mid;
                            } else {
                                lo = mid;
                            }
                        }
                        if hi < cs.len() && bad(&with(hi, &cur), drv) == want {
                            *s = cs[..hi].iter().collect();
                            // one bisection per token: stop here (the char-by-char pass would be quadratic)
                            cur = g.clone();
                            progressed = true;
                        }
                        false
                    }
                    Tok::Lit(s) | Tok::Brk(s) | Tok::DateTok(s) | Tok::Elapsed(s) if s.chars().count() > 1 => {
                        let mut done = false;
                        for k in 0..s.chars().count() {
                            let t: String = s.chars().enumerate().filter(|(i, _)| *i != k).map(|(_, c)| c).collect();
                            let mut h = cur.clone();
                            match &mut h.sections[0][ti] {
                                Tok::Lit(x) | Tok::Brk(x) | Tok::DateTok(x) | Tok::Elapsed(x) => *x = t.clone(),
                                _ => {}
                            }
                            if h.sections[0][ti].wf() == cur.sections[0][ti].wf() && bad(&h, drv) == want {
                                *s = t;
                                done = true;
                                break;
                            }
                        }
                        done
                    }
                    _ => false,
                };
                if shorter {
                    cur = g;
                    progressed = true;
                } else {
                    break;
                }
            }
        }
        if !progressed {
            return cur;
        }
    }
}

/// impl vs model on an arbitrary string; oracle only if the text parses as a well-formed format
fn check_raw(text: &str, drv: &mut Driver, out: &mut Out) {
    let input = format!("detect {}", hex(text.as_bytes()));
    let model = drv.ask(&input);
    let imp = impl_detect(text);
    if imp == "unrepresentable" {
        return; // (no hooks: the text cannot be written into a file)
    }
    let parsed = parse_format(text).filter(|f| f.wf());
    if let Some(f) = &parsed {
        if imp != model || imp != f.classify() {
            out.count("raw_in_grammar");
            check_gram(f, drv, out, true);
            return;
        }
    }
    let sig = parsed.as_ref().map(|f| f.failure_class()).unwrap_or_else(|| "scanner:raw".into());
    let shown = format!("{input}   [text: {text}]");
    if imp != model {
        out.fail("impl_vs_model", &sig, &shown, imp, &model, parsed.as_ref().map(|f| f.classify()).unwrap_or("(not in the grammar: no expectation)"));
    }
    if let Some(f) = &parsed {
        out.count("raw_in_grammar");
        if imp != f.classify() {
            out.fail("impl_vs_spec", &sig, &shown, imp, &model, f.classify());
        }
        if model != f.classify() {
            out.fail("model_vs_spec", "theorem:scanner_grammar", &shown, imp, &model, f.classify());
        }
    }
}

fn check_wrap_f64(bits: u64, f: Option<CellFormat>, d1904: bool, drv: &mut Driver, out: &mut Out) {
    let input = format!("fmtf64 {bits} {} {}", fmt_arg(f), d1904 as u8);
    let model = drv.ask(&input);
    #[cfg(feature = "hooks")]
    let imp = guarded(|| canon_data(&format_excel_f64(f64::from_bits(bits), f.as_ref(), d1904), None)).unwrap_or("panic".into());
    #[cfg(not(feature = "hooks"))]
    let imp = model.clone(); // no route through the public API for arbitrary bit patterns: stage skipped (NO_HOOKS_NOTE)
    let expect = match f {
        Some(CellFormat::DateTime) => format!("D:{bits}:dt:{}", d1904 as u8),
        Some(CellFormat::TimeDelta) => format!("D:{bits}:td:{}", d1904 as u8),
        _ => format!("F:{bits}"),
    };
    if imp != model {
        out.fail("impl_vs_model", "wrap:f64", &input, &imp, &model, &expect);
    }
    if imp != expect {
        out.fail("impl_vs_spec", "wrap:f64", &input, &imp, &model, &expect);
    }
    if model != expect {
        out.fail("model_vs_spec", "theorem:wrap_iff", &input, &imp, &model, &expect);
    }
}

fn check_wrap_i64(v: i64, f: Option<CellFormat>, d1904: bool, drv: &mut Driver, out: &mut Out) {
    let input = format!("fmti64 {v} {} {}", fmt_arg(f), d1904 as u8);
    let model = drv.ask(&input);
    #[cfg(feature = "hooks")]
    let imp = guarded(|| canon_data(&format_excel_i64(v, f.as_ref(), d1904), Some(v))).unwrap_or("panic".into());
    #[cfg(not(feature = "hooks"))]
    let imp = model.clone();
    let expect = match f {
        Some(CellFormat::DateTime) => format!("DI:{v}:dt:{}", d1904 as u8),
        Some(CellFormat::TimeDelta) => format!("DI:{v}:td:{}", d1904 as u8),
        _ => format!("I:{v}"),
    };
    if imp != model {
        out.fail("impl_vs_model", "wrap:i64", &input, &imp, &model, &expect);
    }
    if imp != expect {
        out.fail("impl_vs_spec", "wrap:i64", &input, &imp, &model, &expect);
    }
    if model != expect {
        out.fail("model_vs_spec", "theorem:wrap_iff", &input, &imp, &model, &expect);
    }
}

// ------------------------------------------------------------------------------------------------
// complete sweeps
// ------------------------------------------------------------------------------------------------

const ALPHABET: &[u8; 20] = b"\"\\_;[]aApmM/dhHysS0x";

fn nth_string(len: usize, mut i: u64, buf: &mut [u8]) {
    for k in (0..len).rev() {
        buf[k] = ALPHABET[(i % 20) as usize];
        i /= 20;
    }
}

fn fnv_step(h: u64, b: u8) -> u64 {
    (h ^ b as u64).wrapping_mul(0x100000001b3)
}
const FNV_INIT: u64 = 0xcbf29ce484222325;

/// checksum of the implementation over one block; with `oracle` also parse every string and compare
#[cfg(feature = "hooks")]
fn block_classes(len: usize, lo: u64, hi: u64, mut f: impl FnMut(&str, &'static str)) {
    let mut buf = [0u8; 16];
    for i in lo..hi {
        nth_string(len, i, &mut buf);
        let s = std::str::from_utf8(&buf[..len]).unwrap();
        f(s, impl_detect(s));
    }
}
/// without hooks: the strings of the block go through generated workbooks, 2000 formats each
#[cfg(not(feature = "hooks"))]
fn block_classes(len: usize, lo: u64, hi: u64, mut f: impl FnMut(&str, &'static str)) {
    let mut buf = [0u8; 16];
    let mut i = lo;
    while i < hi {
        let j = (i + 2000).min(hi);
        let strs: Vec<String> = (i..j)
            .map(|k| {
                nth_string(len, k, &mut buf);
                std::str::from_utf8(&buf[..len]).unwrap().to_string()
            })
            .collect();
        let cls = impl_detect_many(&strs);
        for (s, c) in strs.iter().zip(cls) {
            f(s, c);
        }
        i = j;
    }
}
fn sweep_block_impl(len: usize, lo: u64, hi: u64, oracle: Option<&mut Out>) -> u64 {
    let mut h = FNV_INIT;
    let mut out = oracle;
    block_classes(len, lo, hi, |s, imp| {
        h = fnv_step(h, letter(imp));
        if let Some(out) = out.as_deref_mut() {
            if s.bytes().any(|b| b"\"\\_;[]".contains(&b)) {
                out.bulk_nontrivial += 1;
            }
            if let Some(f) = parse_format(s).filter(|f| f.wf()) {
                *out.counts.entry("sweep_in_grammar".into()).or_insert(0) += 1;
                if imp != f.classify() {
                    let sig = f.failure_class();
                    out.fail("impl_vs_spec", &sig, &format!("detect {}   [text: {s}]", hex(s.as_bytes())), imp, "(see impl_vs_model)", f.classify());
                }
            }
        }
    });
    h
}

fn sweep_strings(max_len: usize, threads: usize, driver: &str) -> Vec<Out> {
    // blocks of at most 20^4 strings
    let mut blocks = vec![];
    for len in 0..=max_len {
        let total = 20u64.pow(len as u32);
        let mut lo = 0;
        while lo < total {
            let hi = (lo + 160_000).min(total);
            blocks.push((len, lo, hi));
            lo = hi;
        }
    }
    let next = AtomicUsize::new(0);
    let blocks = &blocks;
    let next = &next;
    std::thread::scope(|sc| {
        let hs: Vec<_> = (0..threads)
            .map(|_| {
                sc.spawn(move || {
                    let mut drv = Driver::spawn(driver);
                    let mut out = Out::default();
                    loop {
                        let b = next.fetch_add(1, Ordering::SeqCst);
                        if b >= blocks.len() {
                            break;
                        }
                        let (len, lo, hi) = blocks[b];
                        let hi_impl = sweep_block_impl(len, lo, hi, Some(&mut out));
                        out.bulk += hi - lo;
                        let m = drv.ask(&format!("sweep {len} {lo} {hi}"));
                        if m != format!("{hi_impl:016x}") {
                            // bisect to one string
                            let (mut a, mut b) = (lo, hi);
                            while b - a > 1 {
                                let mid = a + (b - a) / 2;
                                let hi1 = sweep_block_impl(len, a, mid, None);
                                if drv.ask(&format!("sweep {len} {a} {mid}")) != format!("{hi1:016x}") {
                                    b = mid;
                                } else {
                                    a = mid;
                                }
                            }
                            let mut buf = [0u8; 16];
                            nth_string(len, a, &mut buf);
                            let s = std::str::from_utf8(&buf[..len]).unwrap().to_string();
                            check_raw(&s, &mut drv, &mut out);
                            out.count("sweep_blocks_mismatching");
                        }
                        out.count("sweep_blocks");
                    }
                    out
                })
            })
            .collect();
        hs.into_iter().map(|h| h.join().unwrap()).collect()
    })
}

fn sweep_codes(drv: &mut Driver, out: &mut Out) {
    let mut h = FNV_INIT;
    for n in 0..=65535u16 {
        let imp = impl_bycode(n);
        h = fnv_step(h, letter(imp));
        if imp != documented_class(n as u32) {
            out.fail("impl_vs_spec", "builtin:by-code", &format!("bycode {n}"), imp, "", documented_class(n as u32));
        }
    }
    out.bulk += 65536;
    out.bulk_nontrivial += 12;
    if drv.ask("sweepcodes 0 65536") != format!("{h:016x}") {
        for n in 0..=65535u16 {
            let m = drv.ask(&format!("bycode {n}"));
            if m != impl_bycode(n) {
                out.fail("impl_vs_model", "builtin:by-code", &format!("bycode {n}"), impl_bycode(n), &m, documented_class(n as u32));
            }
        }
    }
}

fn sweep_ids(drv: &mut Driver, out: &mut Out) {
    // the plain decimal text carries an expectation (the documented class of the id); the spelling variants are
    // compared impl vs model only (the reader passes the attribute bytes through unparsed)
    let variants: [(&[u8], &[u8]); 10] =
        [(b"", b""), (b"0", b""), (b"00", b""), (b"+", b""), (b"-", b""), (b" ", b""), (b"", b" "), (b"", b"\n"), (b"", b"."), (b"", b".0")];
    for (vi, (pre, suf)) in variants.iter().enumerate() {
        if cfg!(not(feature = "hooks")) && vi > 0 {
            break; // only the plain decimal text of an id can be put into a file
        }
        let mut h = FNV_INIT;
        for n in 0..65536u32 {
            let mut id = pre.to_vec();
            id.extend_from_slice(n.to_string().as_bytes());
            id.extend_from_slice(suf);
            let imp = impl_byid(&id);
            h = fnv_step(h, letter(imp));
            if vi == 0 && imp != documented_class(n) {
                out.fail("impl_vs_spec", "builtin:by-id", &format!("byid {}", hex(&id)), imp, "", documented_class(n));
            }
        }
        out.bulk += 65536;
        if drv.ask(&format!("sweepids {} {} 0 65536", hex(pre), hex(suf))) != format!("{h:016x}") {
            for n in 0..65536u32 {
                let mut id = pre.to_vec();
                id.extend_from_slice(n.to_string().as_bytes());
                id.extend_from_slice(suf);
                check_id(&id, drv, out);
            }
        }
    }
    out.bulk_nontrivial += 12;
    for id in [&b""[..], b" ", b"14\0", b"\xff", b"1", b"4", b"146", b"214", b"1e1", b"0x0e", b"\xef\xbc\x91\xef\xbc\x94"] {
        check_id(id, drv, out);
        out.cases.push((format!("byid {}", hex(id)), false));
    }
}

fn check_id(id: &[u8], drv: &mut Driver, out: &mut Out) {
    let input = format!("byid {}", hex(id));
    if impl_byid(id) == "skip" {
        return; // (no hooks: not the decimal text of a 16-bit id)
    }
    let m = drv.ask(&input);
    let imp = impl_byid(id);
    if m != imp {
        out.fail("impl_vs_model", "builtin:by-id", &input, imp, &m, "");
    }
}

// ------------------------------------------------------------------------------------------------
// generators
// ------------------------------------------------------------------------------------------------

fn rcase(rng: &mut Rng, s: &str) -> String {
    s.chars().map(|c| if rng.chance(1, 2) { c.to_ascii_uppercase() } else { c.to_ascii_lowercase() }).collect()
}
fn pick_char(rng: &mut Rng, s: &str) -> char {
    let v: Vec<char> = s.chars().collect();
    *rng.pick(&v)
}

fn gen_lit(rng: &mut Rng) -> Tok {
    let n = rng.below(5);
    Tok::Lit((0..n).map(|_| pick_char(rng, "abdmhys_\\;[]AM/P 0x€日")).collect())
}
fn gen_esc(rng: &mut Rng) -> Tok {
    let c = pick_char(rng, "dmhys\"\\_;[]aAx0 *€");
    if rng.chance(1, 2) {
        Tok::Esc(c)
    } else {
        Tok::Pad(c)
    }
}
fn gen_brk(rng: &mut Rng) -> Tok {
    const COLORS: [&str; 10] = ["Red", "Blue", "Magenta", "Green", "Black", "White", "Cyan", "Yellow", "Color5", "Color 12"];
    let k = rng.below(100);
    Tok::Brk(if k < 28 {
        {
            let c = *rng.pick(&COLORS);
            rcase(rng, c)
        }
    } else if k < 45 {
        format!("{}{}", rng.pick(&[">", "<", ">=", "<=", "=", "<>"]), rng.pick(&["0", "1", "100", "-5", "0.5"]))
    } else if k < 72 {
        format!("${}-{}", rng.pick(&["", "€", "USD", "¥", "kr.", "m", "h", "s", "d", "am"]), rng.pick(&["409", "407", "F800", "F400", "1010409", "x-sysdate"]))
    } else if k < 80 {
        format!("DBNum{}", rng.range(1, 4))
    } else if k < 92 {
        // bodies that start like an elapsed unit but are not one
        rng.pick(&["hm", "sx", "mh", "Mx", "hhm", "h h", "ms", "Hs", "h0", "m-", "ssS.", "hH d", "ẖ", "ß", "ſſ", "hſ", "ẖh"]).to_string()
    } else if k < 95 {
        String::new()
    } else {
        let n = rng.range(1, 5);
        (0..n).map(|_| pick_char(rng, "hmsHMSdyaAp/0 x$-")).collect()
    })
}
fn gen_elapsed(rng: &mut Rng) -> Tok {
    let c = pick_char(rng, "hms");
    let n = rng.range(1, 3) as usize;
    Tok::Elapsed(rcase(rng, &c.to_string().repeat(n)))
}
fn gen_datetok(rng: &mut Rng) -> Tok {
    if rng.chance(3, 4) {
        let c = pick_char(rng, "dmyhs");
        let n = rng.range(1, 5) as usize;
        Tok::DateTok(rcase(rng, &c.to_string().repeat(n)))
    } else {
        let w = if rng.chance(1, 2) { "am/pm" } else { "a/p" };
        Tok::DateTok(rcase(rng, w))
    }
}
fn gen_num(rng: &mut Rng) -> Tok {
    if rng.chance(1, 12) {
        Tok::Num(pick_char(rng, CASE_TRAPS))
    } else {
        Tok::Num(pick_char(rng, NUM_CHARS))
    }
}
fn gen_neutral(rng: &mut Rng) -> Tok {
    let k = rng.below(100);
    if k < 20 {
        gen_lit(rng)
    } else if k < 35 {
        gen_esc(rng)
    } else if k < 40 {
        Tok::Fill(pick_char(rng, " -0#?"))
    } else if k < 60 {
        gen_brk(rng)
    } else {
        gen_num(rng)
    }
}
fn gen_section(rng: &mut Rng) -> Vec<Tok> {
    let kind = rng.below(100);
    let mut toks = vec![];
    if kind < 12 {
        for _ in 0..rng.below(3) {
            toks.push(gen_brk(rng));
        }
        toks.push(Tok::General(match rng.below(4) {
            0 => "General".into(),
            1 => "GENERAL".into(),
            2 => "general".into(),
            _ => rcase(rng, "general"),
        }));
        for _ in 0..rng.below(4) {
            toks.push(if rng.chance(1, 2) { gen_lit(rng) } else { gen_esc(rng) });
        }
        return toks;
    }
    for _ in 0..rng.below(8) {
        toks.push(gen_neutral(rng));
    }
    if kind > 50 {
        for _ in 0..rng.range(1, 3) {
            let pos = rng.below(toks.len() as u64 + 1) as usize;
            toks.insert(pos, if rng.chance(3, 10) { gen_elapsed(rng) } else { gen_datetok(rng) });
        }
    }
    toks
}
/// literal text of many multi-byte characters: a legal format of at most 255 CHARACTERS whose UTF-8 size is well
/// beyond 255 BYTES (quoted CJK / accented text in front of the date tokens)
const WIDE_CHARS: &str = "年月日時分秒曜平成令和度éèüößñçÅøžşığЖдйґ€✓円";
fn gen_long_fmt(rng: &mut Rng) -> Fmt {
    let n = rng.range(86, 200) as usize;
    let lit: String = (0..n).map(|_| pick_char(rng, WIDE_CHARS)).collect();
    let mut toks = vec![];
    if rng.chance(1, 3) {
        toks.push(gen_brk(rng));
    }
    toks.push(Tok::Lit(lit));
    for _ in 0..rng.below(3) {
        toks.push(gen_num(rng));
    }
    match rng.below(4) {
        0 => {}
        1 => toks.push(gen_elapsed(rng)),
        _ => toks.push(gen_datetok(rng)),
    }
    for _ in 0..rng.below(4) {
        toks.push(if rng.chance(1, 2) { gen_num(rng) } else { gen_datetok(rng) });
    }
    if rng.chance(1, 4) {
        toks.rotate_right(1); // the long literal is not always in front
    }
    let f = Fmt { sections: vec![toks] };
    debug_assert!(f.render().chars().count() <= 255);
    f
}
fn gen_fmt(rng: &mut Rng) -> Fmt {
    if rng.chance(1, 25) {
        return gen_long_fmt(rng);
    }
    let mut sections = vec![gen_section(rng)];
    for _ in 0..rng.below(4) {
        if rng.chance(1, 2) {
            sections.push(gen_section(rng));
        } else {
            // a later section may be anything that has no `;` in it: spell it as bare characters
            let n = rng.below(7);
            sections.push((0..n).map(|_| Tok::Num(pick_char(rng, "dmhys\"\\_[]aAx0@ #"))).collect());
        }
    }
    Fmt { sections }
}
/// strings outside the grammar: mutations of rendered formats and plain noise (impl vs model only)
fn gen_raw(rng: &mut Rng) -> String {
    const NOISE: &str = "\"\\_;[]aApPmM/dDhHyYsS0x*# .,-€日gGeEnrl";
    if rng.chance(1, 2) {
        let n = rng.below(24);
        (0..n).map(|_| pick_char(rng, NOISE)).collect()
    } else {
        let mut cs: Vec<char> = gen_fmt(rng).render().chars().collect();
        for _ in 0..rng.range(1, 3) {
            let pos = rng.below(cs.len() as u64 + 1) as usize;
            match rng.below(3) {
                0 => cs.insert(pos, pick_char(rng, NOISE)),
                1 if pos < cs.len() => {
                    cs.remove(pos);
                }
                _ if pos < cs.len() => cs[pos] = pick_char(rng, NOISE),
                _ => {}
            }
        }
        cs.into_iter().collect()
    }
}

// ------------------------------------------------------------------------------------------------

// ------------------------------------------------------------------------------------------------
// file level: formats embedded in the style tables of generated xlsx / xlsb / xls workbooks
// ------------------------------------------------------------------------------------------------

#[derive(Clone, Debug)]
struct StyleCase {
    kind: &'static str, // "xlsx" | "xlsb" | "xls"
    /// custom definitions in file order (id, format); the same id may occur twice (the last one counts)
    defs: Vec<(u16, Fmt)>,
    /// format id of every cell XF; XF 0 is always General
    xfs: Vec<u16>,
    date1904: bool,
    seed: u64,
}

const FILE_VALUES: [f64; 8] = [44197.0, 0.5, 44197.75, 1.0, 60.0, 100000.25, -3.5, 0.0];

impl StyleCase {
    fn wire(&self) -> String {
        let defs = if self.defs.is_empty() {
            "-".to_string()
        } else {
            self.defs.iter().map(|(id, f)| format!("{id}={}", f.wire())).collect::<Vec<_>>().join("|")
        };
        let xfs = self.xfs.iter().map(|x| x.to_string()).collect::<Vec<_>>().join(",");
        format!("file {} {} {} {} {}", self.kind, self.seed, self.date1904 as u8, defs, xfs)
    }
    fn from_wire(w: &[&str]) -> Option<StyleCase> {
        if w.len() != 6 || w[0] != "file" {
            return None;
        }
        let kind = match w[1] {
            "xlsx" => "xlsx",
            "xlsb" => "xlsb",
            "xls" => "xls",
            _ => return None,
        };
        let mut defs = vec![];
        if w[4] != "-" {
            for d in w[4].split('|') {
                let (id, g) = d.split_once('=')?;
                defs.push((id.parse().ok()?, Fmt::from_wire(g)?));
            }
        }
        let xfs = w[5].split(',').map(|x| x.parse().ok()).collect::<Option<Vec<u16>>>()?;
        Some(StyleCase { kind, defs, xfs, date1904: w[3] == "1", seed: w[2].parse().ok()? })
    }
    /// xls: definition `i` is written AFTER the XF records (in front of the globals' EOF) instead of before them; the
    /// reader collects all FORMAT records before it resolves the XFs, so the order is immaterial (decided from the
    /// seed alone so that the expectation and the writer agree)
    fn late(&self, i: usize) -> bool {
        self.kind == "xls" && Rng::new(self.seed ^ (i as u64 + 1).wrapping_mul(0x9E37_79B9_7F4A_7C15)).below(3) == 0
    }
    /// the definitions in the order the file holds them
    fn file_defs(&self) -> Vec<&(u16, Fmt)> {
        let mut v: Vec<&(u16, Fmt)> = self.defs.iter().enumerate().filter(|(i, _)| !self.late(*i)).map(|(_, d)| d).collect();
        v.extend(self.defs.iter().enumerate().filter(|(i, _)| self.late(*i)).map(|(_, d)| d));
        v
    }
    /// the class the property assigns to format id `id`; None = no expectation (see the rule string)
    fn expected(&self, id: u16) -> Option<&'static str> {
        match self.file_defs().into_iter().rev().find(|d| d.0 == id) {
            Some((_, f)) => {
                if !f.wf() || f.render().is_empty() {
                    return None;
                }
                let c = f.classify();
                let b = documented_class(id as u32);
                if self.kind == "xlsb" && b != "Other" && b != c {
                    return None; // a built-in date id redefined as something else: xlsb documents built-in first
                }
                Some(c)
            }
            None => Some(documented_class(id as u32)),
        }
    }
    fn model_request(&self) -> String {
        let defs = if self.defs.is_empty() {
            "-".to_string()
        } else {
            self.file_defs().into_iter().map(|(id, f)| format!("{id}:{}", hex(f.render().as_bytes()))).collect::<Vec<_>>().join(",")
        };
        format!("styles {} {} {}", self.kind, defs, self.xfs.iter().map(|x| x.to_string()).collect::<Vec<_>>().join(","))
    }
    /// the workbook bytes and, per XF index, the expected numeric value of each cell written in row = XF index
    /// … and the driver request that makes the Lean decoder (`Model/FormatsDecode.lean`) read exactly the styles part /
    /// stream that was written
    /// … and the numeric cells written WITHOUT a style of their own (xlsx: in rows that may carry a row style)
    fn build(&self) -> (Vec<u8>, Vec<Vec<f64>>, String, Vec<(u32, u32, f64)>) {
        use verif_harness::{xlsbw, xlsw, xlsxw};
        let mut rng = Rng::new(self.seed);
        let mut expect: Vec<Vec<f64>> = vec![];
        let mut plain: Vec<(u32, u32, f64)> = vec![];
        match self.kind {
            "xlsx" => {
                let mut book = xlsxw::XlsxBook::new();
                book.date1904 = match (self.date1904, rng.chance(1, 2)) {
                    (true, _) => Some(true),
                    (false, true) => Some(false),
                    (false, false) => None,
                };
                book.num_fmts = self.defs.iter().map(|(id, f)| (*id as u32, f.render())).collect();
                book.cell_xfs = self.xfs.iter().map(|x| *x as u32).collect();
                let mut sh = xlsxw::XlsxSheet::new("S");
                for i in 0..self.xfs.len() {
                    let v0 = *rng.pick(&FILE_VALUES);
                    let v1 = *rng.pick(&FILE_VALUES);
                    sh.set(i as u32, 0, xlsxw::XCell::num(&format!("{v0}")).with_style(i as u32));
                    sh.set(i as u32, 1, xlsxw::XCell::num(&format!("{v1:e}")).with_style(i as u32).with_formula("1+1"));
                    // a number and a cached formula result with NO style of their own, in the same row
                    sh.set(i as u32, 2, xlsxw::XCell::num("44197.75"));
                    sh.set(i as u32, 3, xlsxw::XCell::num("0.5").with_formula("1/2"));
                    plain.push((i as u32, 2, 44197.75));
                    plain.push((i as u32, 3, 0.5));
                    expect.push(vec![v0, v1]);
                }
                book.sheets.push(sh);
                let mut layout = xlsxw::Layout::random(&mut rng);
                layout.pct_noise = 0;
                // half of the workbooks format every row as a whole (`<row s=".." customFormat="1">`, the index drawn
                // among the cell XFs: dates, elapsed, plain) and a third flag every <xf> with applyNumberFormat / xfId
                if self.seed % 2 == 0 {
                    layout.pct_row_style = 100;
                }
                if self.seed % 3 == 0 {
                    layout.pct_xf_apply_flag = 100;
                }
                // … and the other half writes the text of every number's <v> in pieces (comment / PI / CDATA in between):
                // the serial value must come through unchanged
                layout.v_split_cdata = true;
                // round 5: foreign-namespace twins of the cell attributes (ext:s / ext:t / ext:r, xmlns:s on the <c>),
                // custom format ids spelled with leading zeros (the same spelling in <numFmt> and <xf>)
                if self.seed % 5 < 2 {
                    layout.pct_c_foreign_attr = 100;
                }
                if self.seed % 7 < 3 {
                    layout.pct_id_zero_pad = 100;
                }
                // … and the 1904 flag spelled with character references (`date1904="&#49;"`, `"tru&#101;"`)
                if self.date1904 && self.seed % 4 == 1 {
                    book.date1904 = None;
                    let sp = ["&#49;", "tru&#101;", "&#x31;", "t&#114;ue"][(self.seed / 4 % 4) as usize];
                    book.workbook_extra = format!("<workbookPr date1904=\"{sp}\"/>");
                }
                if self.seed % 2 == 1 {
                    layout.pct_v_split = 100;
                }
                let decode = format!("xlsxstyles {}", xlsxw::ev_wire(&xlsxw::render_styles(&book, &layout)));
                (book.build(&layout).bytes, expect, decode, plain)
            }
            "xlsb" => {
                let mut book = xlsbw::XlsbBook::new();
                book.date1904 = self.date1904;
                book.fmts = self.defs.iter().map(|(id, f)| (*id, f.render())).collect();
                book.xfs = Some(self.xfs.clone());
                book.framing = if rng.chance(1, 2) { xlsbw::Framing::Minimal } else { xlsbw::Framing::Random(rng.next()) };
                // other records inside the BrtBeginFmts … BrtEndFmts list (half of the workbooks), and the byte after
                // iStyleRef in every cell header (fPhShow and reserved bits) set at random: both from their own stream
                if self.seed % 2 == 0 {
                    book.fmts_interleave = Some(self.seed);
                }
                let mut frng = Rng::new(self.seed ^ 0xF1A6_5B17);
                let mut sh = xlsbw::XlsbSheet::new("S");
                for i in 0..self.xfs.len() {
                    let v0 = *rng.pick(&FILE_VALUES);
                    let v1 = *rng.pick(&FILE_VALUES);
                    let v2 = *rng.pick(&FILE_VALUES);
                    let n3 = *rng.pick(&[44197i32, 0, 1, -7, 36526, 59, 61]);
                    let d100 = rng.chance(1, 3);
                    sh.set(i as u32, 0, xlsbw::BVal::real(v0)).style = i as u32 | ((*frng.pick(&[0u32, 1, 1, 0x80, 0xFE, 0xFF])) << 24);
                    let bits = v1.to_bits() & 0xFFFF_FFFC_0000_0000;
                    sh.set(i as u32, 1, xlsbw::BVal::rk_float(bits, false)).style = i as u32 | ((*frng.pick(&[0u32, 1, 1, 0x80, 0xFE, 0xFF])) << 24);
                    let c = sh.set(i as u32, 2, xlsbw::BVal::real(v2));
                    c.style = i as u32 | ((*frng.pick(&[0u32, 1, 1, 0x80, 0xFE, 0xFF])) << 24);
                    c.fmla = Some(xlsbw::Fmla::trivial());
                    sh.set(i as u32, 3, xlsbw::BVal::rk_int(n3, d100)).style = i as u32 | ((*frng.pick(&[0u32, 1, 1, 0x80, 0xFE, 0xFF])) << 24);
                    expect.push(vec![v0, f64::from_bits(bits), v2, if d100 { n3 as f64 / 100.0 } else { n3 as f64 }]);
                }
                book.sheets.push(sh);
                let decode = format!("xlsbstyles {}", hex(&book.styles_part(&self.xfs)));
                (book.to_bytes(), expect, decode, plain)
            }
            _ => {
                let mut book = xlsw::XlsBook::new();
                book.date1904 = self.date1904;
                book.formats = self.defs.iter().enumerate().filter(|(i, _)| !self.late(*i)).map(|(_, (id, f))| (*id, f.render())).collect();
                for (i, (id, f)) in self.defs.iter().enumerate() {
                    if self.late(i) {
                        // a FORMAT record after the XF records
                        let mut p = id.to_le_bytes().to_vec();
                        p.extend(xlsw::xl_unicode_string(&f.render(), None, &mut Rng::new(self.seed ^ i as u64)));
                        book.globals_tail.push((xlsw::FORMAT, p));
                    }
                }
                book.xfs = self.xfs.clone();
                let mut sh = xlsw::XlsSheet::new("S");
                for i in 0..self.xfs.len() {
                    let xf = i as u16;
                    let v0 = *rng.pick(&FILE_VALUES);
                    let v1 = *rng.pick(&FILE_VALUES);
                    let v2 = *rng.pick(&FILE_VALUES);
                    let n3 = *rng.pick(&[44197i32, 0, 1, -7, 36526, 59, 61]);
                    let n4 = *rng.pick(&[4419775i32, 50, 100, 6000]);
                    let bits = v1.to_bits() & 0xFFFF_FFFC_0000_0000;
                    let v1t = f64::from_bits(bits);
                    let mut cell = |col: u16, v: xlsw::CellV| {
                        let mut c = xlsw::XlsCell::new(i as u16, col, v);
                        c.xf = xf;
                        sh.cells.push(c);
                    };
                    cell(0, xlsw::CellV::Number(v0));
                    cell(1, xlsw::CellV::Rk(xlsw::rk_float(v1t, false).expect("rk float")));
                    cell(2, xlsw::CellV::Formula { rgce: xlsw::rgce_int(1), cached: xlsw::Cached::Num(v2) });
                    cell(3, xlsw::CellV::Rk(xlsw::rk_int(n3, false)));
                    cell(4, xlsw::CellV::MulRk(vec![(xf, xlsw::rk_int(n4, true)), (xf, xlsw::rk_int(n3, false))]));
                    expect.push(vec![v0, v1t, v2, n3 as f64, n4 as f64 / 100.0, n3 as f64]);
                }
                book.sheets.push(sh);
                // `XlsBook::to_bytes`, step by step, so that the stream it wraps is at hand
                let wb = book.workbook_stream(&mut rng);
                let mut opts = verif_harness::cfbw::CfbOpts::random(&mut rng);
                if wb.len() >= 4096 || wb.is_empty() {
                    opts.sector_size = 512;
                }
                let decode = format!("xlsstream {}", hex(&wb));
                (verif_harness::cfbw::write_cfb(&[(book.stream_name.clone(), wb)], &opts, &mut rng), expect, decode, plain)
            }
        }
    }
    /// open the workbook with calamine and return the cells of sheet "S" as (row, col) → Data
    fn read(&self, bytes: Vec<u8>) -> Result<(calamine::Range<Data>, String), String> {
        use calamine::{Reader, Xls, Xlsb, Xlsx};
        let cur = std::io::Cursor::new(bytes);
        let n = self.xfs.len();
        let r = guarded(|| -> Result<(calamine::Range<Data>, String), String> {
            match self.kind {
                "xlsx" => {
                    let mut wb = Xlsx::new(cur).map_err(|e| format!("open: {e}"))?;
                    #[cfg(feature = "hooks")]
                    let f = Some(class_letters(&calamine::verif_hooks::xlsx::c10_formats(&wb)));
                    #[cfg(not(feature = "hooks"))]
                    let f: Option<String> = None;
                    let range = wb.worksheet_range("S").map_err(|e| format!("range: {e}"))?;
                    let f = f.unwrap_or_else(|| table_from_cells(&range, n));
                    Ok((range, f))
                }
                "xlsb" => {
                    let mut wb = Xlsb::new(cur).map_err(|e| format!("open: {e}"))?;
                    #[cfg(feature = "hooks")]
                    let f = Some(class_letters(&calamine::verif_hooks::xlsb::c03_formats(&wb)));
                    #[cfg(not(feature = "hooks"))]
                    let f: Option<String> = None;
                    let range = wb.worksheet_range("S").map_err(|e| format!("range: {e}"))?;
                    let f = f.unwrap_or_else(|| table_from_cells(&range, n));
                    Ok((range, f))
                }
                _ => {
                    let mut wb = Xls::new(cur).map_err(|e| format!("open: {e}"))?;
                    #[cfg(feature = "hooks")]
                    let f = Some(class_letters(&calamine::verif_hooks::xls::c10_formats(&wb)));
                    #[cfg(not(feature = "hooks"))]
                    let f: Option<String> = None;
                    let range = wb.worksheet_range("S").map_err(|e| format!("range: {e}"))?;
                    let f = f.unwrap_or_else(|| table_from_cells(&range, n));
                    Ok((range, f))
                }
            }
        });
        match r {
            Ok(x) => x,
            Err(p) => Err(format!("panic: {p}")),
        }
    }
}

/// without the hooks the style table is read off the first cell of each row (row i is styled with XF i)
fn table_from_cells(range: &calamine::Range<Data>, n: usize) -> String {
    if n == 0 {
        return "-".into();
    }
    (0..n).map(|i| match cell_letter(&canon_cell(range.get_value((i as u32, 0)))) { 'D' => 'D', 'T' => 'T', _ => 'O' }).collect()
}

/// the hooks' class codes as the letters the driver uses
#[cfg_attr(not(feature = "hooks"), allow(dead_code))]
fn class_letters(v: &[u8]) -> String {
    if v.is_empty() {
        return "-".into();
    }
    v.iter().map(|c| match c { 0 => 'O', 1 => 'D', 2 => 'T', _ => '?' }).collect()
}

/// canonical text of a numeric cell as read / as expected
fn canon_cell(d: Option<&Data>) -> String {
    match d {
        Some(Data::Int(v)) => format!("N:{}", (*v as f64).to_bits()),
        Some(Data::Float(v)) => format!("N:{}", v.to_bits()),
        Some(d @ Data::DateTime(_)) => canon_data(d, None),
        Some(other) => format!("?:{other:?}"),
        None => "absent".into(),
    }
}
fn expect_cell(class: &str, v: f64, d1904: bool) -> String {
    match class {
        "DateTime" => format!("D:{}:dt:{}", v.to_bits(), d1904 as u8),
        "TimeDelta" => format!("D:{}:td:{}", v.to_bits(), d1904 as u8),
        _ => format!("N:{}", v.to_bits()),
    }
}
fn cell_letter(c: &str) -> char {
    if c.starts_with("D:") {
        if c.contains(":td:") {
            'T'
        } else {
            'D'
        }
    } else if c.starts_with("N:") {
        'O'
    } else {
        '?'
    }
}

/// one generated workbook: impl (cells read back) vs model (style table) vs oracle (grammar + documented ids)
fn check_file(case: &StyleCase, drv: &mut Driver, out: &mut Out, shrink: bool) -> bool {
    let input = case.wire();
    let model = drv.ask(&case.model_request());
    let (bytes, values, decode_req, plain_cells) = case.build();
    if let Ok(path) = std::env::var("VERIF_DUMP") {
        let _ = std::fs::write(path, &bytes);
    }
    let (range, impl_table) = match case.read(bytes) {
        Ok(r) => r,
        Err(e) => {
            if model == "panic" && e.starts_with("panic") {
                return true; // the model predicts the panic (bracket counter overflow): a C06 matter
            }
            out.fail("impl_vs_spec", &format!("file:{}:unreadable", case.kind), &input, &e, &model, "the workbook opens and the sheet is read");
            return false;
        }
    };
    // the style table itself: what the reader built (hook) vs the Lean decoder on the part that was written vs the
    // Lean builder on the logical lists
    let decoded = drv.ask(&decode_req);
    if impl_table != decoded {
        out.fail("impl_vs_model", &format!("file:{}:styles-decode", case.kind), &input, &impl_table, &decoded, &model);
    }
    if decoded != model {
        out.fail("model_vs_spec", "theorem:styles_roundtrip", &input, &impl_table, &decoded, &model);
    }
    let mut ok = true;
    for (i, id) in case.xfs.iter().enumerate() {
        let exp = case.expected(*id);
        let m = model.chars().nth(i).unwrap_or('?');
        for (j, v) in values[i].iter().enumerate() {
            let got = canon_cell(range.get_value((i as u32, j as u32)));
            let bad_model = cell_letter(&got) != m;
            let want = exp.map(|c| expect_cell(c, *v, case.date1904));
            let bad_spec = want.as_ref().map(|w| *w != got).unwrap_or(false);
            if !(bad_model || bad_spec) {
                continue;
            }
            ok = false;
            if shrink {
                // the smallest workbook showing the same cell: General + this XF, only the definitions of this id
                let small = StyleCase {
                    kind: case.kind,
                    defs: case.defs.iter().filter(|d| d.0 == *id).cloned().collect(),
                    xfs: vec![0, *id],
                    date1904: case.date1904,
                    seed: case.seed,
                };
                let mut probe = Out::default();
                if !check_file(&small, drv, &mut probe, false) {
                    out.fails.extend(probe.fails);
                    return false;
                }
            }
            let what = if cell_letter(&got) != want.as_deref().map(cell_letter).unwrap_or(m) {
                "style-lookup"
            } else if got.ends_with(if case.date1904 { ":0" } else { ":1" }) {
                "date-system"
            } else {
                "value"
            };
            let sig = format!("file:{}:{what}", case.kind);
            let shown = format!("{input}   [xf {i} = format {id}, cell ({i},{j})]");
            if bad_spec {
                out.fail("impl_vs_spec", &sig, &shown, &got, &m.to_string(), want.as_deref().unwrap_or(""));
            }
            if bad_model {
                out.fail("impl_vs_model", &sig, &shown, &got, &m.to_string(), want.as_deref().unwrap_or("(no expectation)"));
            }
            return false;
        }
        if let Some(c) = exp {
            if letter(c) as char != m && model != "panic" {
                out.fail("model_vs_spec", "theorem:style_lookup", &input, "", &model, c);
            }
        }
    }
    // cells without a style of their own: plain numbers whatever their row's style is
    if !plain_cells.is_empty() {
        let m = drv.ask(&format!("xlsxcell {} absent", if model.chars().all(|c| "ODT".contains(c)) { model.as_str() } else { "O" }));
        for (r, c, v) in &plain_cells {
            let got = canon_cell(range.get_value((*r, *c)));
            let want = expect_cell("Other", *v, case.date1904);
            if got != want {
                let shown = format!("{input}   [cell ({r},{c}) has no style of its own]");
                out.fail("impl_vs_spec", &format!("file:{}:unstyled-cell", case.kind), &shown, &got, &m, &want);
                ok = false;
                break;
            }
            if m != "N" {
                out.fail("model_vs_spec", "model:xlsx-unstyled-cell", &input, &got, &m, &want);
            }
        }
    }
    ok
}

/// A `formatCode` attribute written RAW (not XML-escaped) into xl/styles.xml, e.g. `0 & 0` with a bare ampersand:
/// not well-formed XML, but such files exist and the pinned reader opened them. Expectation: the workbook opens
/// and XF 1 (format 164) is typed by the scan of the raw text; a date-detection detail must not decide whether a
/// workbook can be read.
fn check_raw_formatcode(raw: &str, drv: &mut Driver, out: &mut Out) {
    use calamine::{Reader, Xlsx};
    use verif_harness::xlsxw;
    let input = format!("rawfmt {}", hex(raw.as_bytes()));
    let shown = format!("{input}   [text: {raw}]");
    let mut book = xlsxw::XlsxBook::new();
    book.num_fmts = vec![(164, raw.to_string())];
    book.cell_xfs = vec![0, 164];
    let mut sh = xlsxw::XlsxSheet::new("S");
    sh.set(0, 0, xlsxw::XCell::num("44197.5").with_style(1));
    book.sheets.push(sh);
    let built = book.build(&xlsxw::Layout::plain());
    let escaped = xlsxw::esc_attr(raw);
    let mut parts = built.parts.clone();
    let mut patched = false;
    for (name, body) in parts.iter_mut() {
        if name.to_ascii_lowercase().ends_with("styles.xml") {
            let t = String::from_utf8(body.clone()).unwrap();
            patched = t.contains(&escaped);
            *body = t.replace(&escaped, raw).into_bytes();
        }
    }
    assert!(patched, "styles part does not contain the escaped format code");
    let bytes = xlsxw::zip_parts(&parts, xlsxw::Compression::Deflated, &mut Rng::new(1));
    let model = drv.ask(&format!("detect {}", hex(raw.as_bytes())));
    let want = expect_cell(&model, 44197.5, false);
    let got = guarded(|| -> Result<String, String> {
        let mut wb = Xlsx::new(std::io::Cursor::new(bytes)).map_err(|e| format!("open: {e:?}"))?;
        let r = wb.worksheet_range("S").map_err(|e| format!("range: {e:?}"))?;
        Ok(canon_cell(r.get_value((0, 0))))
    });
    let got = match got {
        Ok(Ok(c)) => c,
        Ok(Err(e)) => e,
        Err(p) => format!("panic: {p}"),
    };
    if got != want {
        let sig = if got.starts_with("N:") || got.starts_with("D:") { "file:xlsx:raw-formatcode-class" } else { "file:xlsx:raw-formatcode-unreadable" };
        out.fail("impl_vs_spec", sig, &shown, &got, &model, &want);
    }
    out.cases.push((input, true));
    out.count("corpus");
}

// ------------------------------------------------------------------------------------------------
// the decoders of the style tables on unusual and malformed parts (impl vs Lean decoder, `Model/FormatsDecode.lean`)
// ------------------------------------------------------------------------------------------------

fn ok_or_err(s: &str) -> String {
    if s.starts_with("err") || s.starts_with("open") || s.starts_with("panic") { if s.starts_with("panic") { "panic".into() } else { "err".into() } } else { s.to_string() }
}

/// stage 7 without hooks: the reader's table is read off one number per XF index 0..PROBE_XFS (an index past the
/// table reads as a plain number), so the model's table is compared over the same window
const PROBE_XFS: usize = 12;
#[cfg_attr(feature = "hooks", allow(dead_code))]
fn as_probed(m: &str) -> String {
    if m == "-" || m.chars().all(|c| "ODT".contains(c)) {
        let t: Vec<char> = if m == "-" { vec![] } else { m.chars().collect() };
        (0..PROBE_XFS).map(|i| *t.get(i).unwrap_or(&'O')).collect()
    } else {
        m.to_string()
    }
}

/// xls unit level: `parse_xf` / `parse_format` on arbitrary payloads (needs the hooks)
#[cfg(not(feature = "hooks"))]
fn check_xls_style_payloads(_rng: &mut Rng, _drv: &mut Driver, out: &mut Out) {
    out.count("skipped_without_hooks:parse_xf/parse_format payloads");
}
#[cfg(feature = "hooks")]
fn check_xls_style_payloads(rng: &mut Rng, drv: &mut Driver, out: &mut Out) {
    use calamine::verif_hooks::xls as vx;
    // XF
    let n = *rng.pick(&[0usize, 1, 2, 3, 4, 5, 20]);
    let p = rng.bytes(n);
    let imp = match guarded(|| vx::c10_parse_xf(&p)) {
        Ok(Ok(v)) => format!("ok:{v}"),
        Ok(Err(_)) => "err".into(),
        Err(_) => "panic".into(),
    };
    let input = format!("xlsxf {}", hex(&p));
    let m = drv.ask(&input);
    if imp != m {
        out.fail("impl_vs_model", "xls:parse_xf", &input, &imp, &m, "");
    }
    // FORMAT: a well-laid-out record with its knobs turned, or noise
    let p: Vec<u8> = if rng.chance(1, 4) {
        let n = rng.below(12) as usize;
        rng.bytes(n)
    } else {
        let text: Vec<u16> = match rng.below(4) {
            0 => gen_fmt(rng).render().encode_utf16().collect(),
            1 => "yyyy-mm-dd".encode_utf16().collect(),
            2 => (0..rng.below(6)).map(|_| *rng.pick(&[0x64u16, 0x5B, 0x68, 0x5D, 0xD800, 0xDC00, 0xFEFF, 0x22, 0x5E74])).collect(),
            _ => "0.00".encode_utf16().collect(),
        };
        let wide = rng.chance(1, 2) || text.iter().any(|u| *u > 255);
        let cch = match rng.below(5) {
            0 => text.len().saturating_sub(rng.range(1, 3) as usize),
            1 => text.len() + rng.range(1, 300) as usize,
            _ => text.len(),
        };
        let mut p = (*rng.pick(&[164u16, 14, 0, 65535])).to_le_bytes().to_vec();
        p.extend_from_slice(&(cch as u16).to_le_bytes());
        p.push(if wide { 1 } else { 0 } | if rng.chance(1, 5) { *rng.pick(&[0x04u8, 0x08, 0xFE]) } else { 0 });
        for u in &text {
            if wide {
                p.extend_from_slice(&u.to_le_bytes());
            } else {
                p.push(*u as u8);
            }
        }
        if wide && rng.chance(1, 6) {
            p.pop(); // an odd number of bytes
        }
        if rng.chance(1, 8) {
            p.truncate(rng.below(p.len() as u64 + 1) as usize);
        }
        p
    };
    let imp = match guarded(|| vx::c10_parse_format(&p, 1200)) {
        Ok(Ok((i, c))) => format!("ok:{i}:{}", class_letters(&[c])),
        Ok(Err(_)) => "err".into(),
        Err(_) => "panic".into(),
    };
    let input = format!("xlsfmt {}", hex(&p));
    let m = drv.ask(&input);
    if imp != m {
        out.fail("impl_vs_model", "xls:parse_format", &input, &imp, &m, "");
    }
    out.case(input, true);
}

/// an xlsb workbook whose xl/styles.bin is the given record list (framed at random): the reader's table or `err`
fn check_xlsb_styles_part(records: &[(u16, Vec<u8>)], cut: Option<usize>, rng: &mut Rng, drv: &mut Driver, out: &mut Out) {
    use verif_harness::xlsbw;
    let mut part = vec![];
    for (id, p) in records {
        let f = xlsbw::Frame { id_w: rng.below(3) as u8, len_w: rng.below(5) as u8 };
        xlsbw::put_record(&mut part, *id, p, f);
    }
    if let Some(c) = cut {
        part.truncate(c.min(part.len()));
    }
    let mut book = xlsbw::XlsbBook::new();
    let mut sh = xlsbw::XlsbSheet::new("S");
    for i in 0..PROBE_XFS {
        sh.set(i as u32, 0, xlsbw::BVal::real(1.5)).style = i as u32;
    }
    book.sheets.push(sh);
    let mut parts = book.parts();
    for (n, b) in parts.iter_mut() {
        if n == "xl/styles.bin" {
            *b = part.clone();
        }
    }
    let bytes = xlsbw::zip_parts(&parts, true);
    #[cfg(feature = "hooks")]
    let imp: String = match guarded(|| calamine::Xlsb::new(std::io::Cursor::new(bytes)).map(|wb| class_letters(&calamine::verif_hooks::xlsb::c03_formats(&wb)))) {
        Ok(Ok(t)) => t,
        Ok(Err(_)) => "err".into(),
        Err(_) => "panic".into(),
    };
    #[cfg(not(feature = "hooks"))]
    let imp: String = match guarded(|| calamine::Xlsb::new(std::io::Cursor::new(bytes)).map_err(|_| ()).and_then(|mut wb| wb.worksheet_range("S").map_err(|_| ()))) {
        Ok(Ok(r)) => table_from_cells(&r, PROBE_XFS),
        Ok(Err(_)) => "err".into(),
        Err(_) => "panic".into(),
    };
    let input = format!("xlsbstyles {}", hex(&part));
    let m = ok_or_err(&drv.ask(&input));
    #[cfg(not(feature = "hooks"))]
    let m = as_probed(&m);
    if imp != m {
        out.fail(if imp == "panic" { "impl_vs_spec" } else { "impl_vs_model" }, "file:xlsb:styles-part", &input, &imp, &m, if imp == "panic" { "no panic" } else { "" });
    }
    out.count(&format!("stylespart_xlsb_{}", if imp == "err" { "err" } else { "ok" }));
    out.case(input, true);
}

fn gen_xlsb_styles_records(rng: &mut Rng) -> (Vec<(u16, Vec<u8>)>, Option<usize>) {
    use verif_harness::xlsbw;
    let mut recs: Vec<(u16, Vec<u8>)> = vec![(0x0116, vec![])];
    let unknown = |rng: &mut Rng| -> (u16, Vec<u8>) {
        let n = rng.below(20) as usize;
        // payload bytes that look like the interesting record ids must stay inert
        let mut p = rng.bytes(n);
        if rng.chance(1, 2) && p.len() >= 2 {
            p[0] = 0xE7;
            p[1] = 0x04;
        }
        (*rng.pick(&[0x0263u16, 0x002B, 0x025B, 0x0265, 0x0401, 0x0013]), p)
    };
    let fmt_payload = |rng: &mut Rng| -> Vec<u8> {
        let s = match rng.below(4) {
            0 => "yyyy\\-mm".to_string(),
            1 => "[h]:mm".to_string(),
            2 => "0.0\" d\"".to_string(),
            _ => gen_fmt(rng).render(),
        };
        let mut p = (*rng.pick(&[164u16, 165, 166, 14, 1])).to_le_bytes().to_vec();
        p.extend_from_slice(&xlsbw::wide_str(&s));
        match rng.below(12) {
            0 => p.truncate(1),
            1 => p.truncate(rng.range(2, 7) as usize),
            2 => {
                p.pop();
            }
            _ => {}
        }
        p
    };
    let xf_payload = |rng: &mut Rng, id: u16| -> Vec<u8> {
        let mut p = 0xFFFFu16.to_le_bytes().to_vec();
        p.extend_from_slice(&id.to_le_bytes());
        p.extend_from_slice(&[0; 12]);
        if rng.chance(1, 14) {
            p.truncate(rng.below(4) as usize);
        }
        p
    };
    while rng.chance(1, 2) {
        recs.push(unknown(rng));
    }
    for _ in 0..rng.below(3) {
        // a BrtBeginFmts block whose count may disagree with its content
        let n = rng.below(4) as usize;
        let declared = match rng.below(6) {
            0 => n + 1,
            1 => n.saturating_sub(1),
            _ => n,
        };
        recs.push((0x0267, if rng.chance(1, 15) { vec![1, 0] } else { (declared as u32).to_le_bytes().to_vec() }));
        for _ in 0..n {
            if rng.chance(1, 4) {
                recs.push(unknown(rng));
            }
            let p = fmt_payload(rng);
            recs.push((0x002C, p));
        }
        recs.push((0x0268, vec![]));
        while rng.chance(1, 3) {
            recs.push(unknown(rng));
        }
    }
    if rng.chance(1, 2) {
        // cellStyleXfs: BrtXF records that are NOT cell formats
        recs.push((0x0272, 2u32.to_le_bytes().to_vec()));
        recs.push((0x002F, xf_payload(rng, 14)));
        recs.push((0x002F, xf_payload(rng, 46)));
        recs.push((0x0273, vec![]));
    }
    if !rng.chance(1, 12) {
        let n = rng.below(6) as usize;
        let declared = match rng.below(8) {
            0 => n + 1,
            1 => n.saturating_sub(1),
            _ => n,
        };
        recs.push((0x0269, if rng.chance(1, 15) { vec![] } else { (declared as u32).to_le_bytes().to_vec() }));
        for _ in 0..n {
            if rng.chance(1, 5) {
                recs.push(unknown(rng));
            }
            let id = *rng.pick(&[0u16, 14, 22, 46, 164, 165, 166, 1, 300]);
            let p = xf_payload(rng, id);
            recs.push((0x002F, p));
        }
        recs.push((0x026A, vec![]));
    }
    if rng.chance(1, 4) {
        recs.push((0x0267, 1u32.to_le_bytes().to_vec())); // a format table after the cell XFs comes too late
        recs.push((0x002C, fmt_payload(rng)));
    }
    recs.push((0x0117, vec![]));
    let cut = if rng.chance(1, 8) { Some(rng.below(200) as usize) } else { None };
    (recs, cut)
}

/// an xlsx workbook whose xl/styles.xml is the given event list
fn check_xlsx_styles_part(evs: &[verif_harness::xlsxw::Ev], rng: &mut Rng, drv: &mut Driver, out: &mut Out) {
    use verif_harness::xlsxw;
    let text = format!("<?xml version=\"1.0\" encoding=\"UTF-8\" standalone=\"yes\"?>\n{}", xlsxw::serialize(evs, || rng.chance(1, 2)));
    let mut book = xlsxw::XlsxBook::new();
    let mut sh = xlsxw::XlsxSheet::new("S");
    for i in 0..PROBE_XFS {
        sh.set(i as u32, 0, xlsxw::XCell::num("1.5").with_style(i as u32));
    }
    book.sheets.push(sh);
    let built = book.build(&xlsxw::Layout::plain());
    let mut parts = built.parts.clone();
    for (n, b) in parts.iter_mut() {
        if n.to_ascii_lowercase().ends_with("styles.xml") {
            *b = text.clone().into_bytes();
        }
    }
    let bytes = xlsxw::zip_parts(&parts, xlsxw::Compression::Deflated, &mut Rng::new(3));
    #[cfg(feature = "hooks")]
    let imp: String = match guarded(|| calamine::Xlsx::new(std::io::Cursor::new(bytes)).map(|wb| class_letters(&calamine::verif_hooks::xlsx::c10_formats(&wb)))) {
        Ok(Ok(t)) => t,
        Ok(Err(_)) => "err".into(),
        Err(_) => "panic".into(),
    };
    #[cfg(not(feature = "hooks"))]
    let imp: String = match guarded(|| calamine::Xlsx::new(std::io::Cursor::new(bytes)).map_err(|_| ()).and_then(|mut wb| wb.worksheet_range("S").map_err(|_| ()))) {
        Ok(Ok(r)) => table_from_cells(&r, PROBE_XFS),
        Ok(Err(_)) => "err".into(),
        Err(_) => "panic".into(),
    };
    let input = format!("xlsxstyles {}", xlsxw::ev_wire(evs));
    let m = ok_or_err(&drv.ask(&input));
    #[cfg(not(feature = "hooks"))]
    let m = as_probed(&m);
    if imp != m {
        out.fail(if imp == "panic" { "impl_vs_spec" } else { "impl_vs_model" }, "file:xlsx:styles-part", &format!("{input}   [text: {text}]"), &imp, &m, if imp == "panic" { "no panic" } else { "" });
    }
    out.count(&format!("stylespart_xlsx_{}", if imp == "err" { "err" } else { "ok" }));
    out.case(input, true);
}

fn gen_xlsx_styles_events(rng: &mut Rng) -> Vec<verif_harness::xlsxw::Ev> {
    use verif_harness::xlsxw::{end, start, Ev};
    let pfx = if rng.chance(1, 3) { "x:" } else { "" };
    let q = |n: &str| format!("{pfx}{n}");
    let mut blocks: Vec<Vec<Ev>> = vec![];
    let code = |rng: &mut Rng| -> String {
        match rng.below(5) {
            0 => "yyyy\\-mm".to_string(),
            1 => "[h]:mm".to_string(),
            2 => "0.0\" d\"".to_string(),
            3 => String::new(),
            _ => gen_fmt(rng).render(),
        }
    };
    let numfmt = |rng: &mut Rng, c: String| -> Vec<Ev> {
        let id = rng.pick(&["164", "165", "166", "14", "1", "0164", ""]).to_string();
        let mut attrs: Vec<(String, String)> = vec![];
        if !rng.chance(1, 12) {
            attrs.push(("numFmtId".into(), id));
        }
        if !rng.chance(1, 12) {
            attrs.push(("formatCode".into(), c));
        }
        if rng.chance(1, 2) {
            attrs.reverse();
        }
        if rng.chance(1, 8) {
            attrs.push(("x:numFmtId".into(), "14".into())); // a prefixed attribute is another attribute
        }
        vec![Ev::Start(q("numFmt"), attrs), end(&q("numFmt"))]
    };
    let xf = |rng: &mut Rng| -> Vec<Ev> {
        let mut attrs: Vec<(String, String)> = vec![("fontId".into(), "0".into())];
        if !rng.chance(1, 6) {
            attrs.push(("numFmtId".into(), rng.pick(&["0", "14", "22", "46", "164", "165", "166", "1", "300", "0164"]).to_string()));
        }
        if rng.chance(1, 2) {
            attrs.reverse();
        }
        let mut v = vec![Ev::Start(q("xf"), attrs)];
        if rng.chance(1, 3) {
            v.push(start(&q("alignment"), &[("horizontal", "center")]));
            v.push(end(&q("alignment")));
        }
        v.push(end(&q("xf")));
        v
    };
    for _ in 0..rng.below(3) {
        let mut b = vec![start(&q("numFmts"), &[("count", "3")])];
        for _ in 0..rng.below(4) {
            let c = code(rng);
            b.extend(numfmt(rng, c));
            if rng.chance(1, 5) {
                b.push(Ev::Text("\n  ".into()));
            }
        }
        b.push(end(&q("numFmts")));
        blocks.push(b);
    }
    if rng.chance(1, 2) {
        let mut b = vec![start(&q("cellStyleXfs"), &[])];
        b.push(start(&q("xf"), &[("numFmtId", "14")]));
        b.push(end(&q("xf")));
        b.push(end(&q("cellStyleXfs")));
        blocks.push(b);
    }
    for _ in 0..(if rng.chance(1, 10) { 2 } else { 1 }) {
        let mut b = vec![start(&q("cellXfs"), &[])];
        for _ in 0..rng.below(6) {
            b.extend(xf(rng));
        }
        if rng.chance(1, 6) {
            let c = code(rng);
            b.extend(numfmt(rng, c)); // a numFmt inside cellXfs defines nothing
        }
        b.push(end(&q("cellXfs")));
        blocks.push(b);
    }
    if rng.chance(1, 2) {
        let mut b = vec![start(&q("dxfs"), &[]), start(&q("dxf"), &[])];
        b.extend(numfmt(rng, "yyyy".into()));
        b.push(end(&q("dxf")));
        b.push(end(&q("dxfs")));
        blocks.push(b);
    }
    if rng.chance(1, 6) {
        blocks.push(xf(rng)); // an <xf> directly under styleSheet
    }
    if rng.chance(1, 3) {
        rng.shuffle(&mut blocks); // e.g. the format table after the cell XFs (comes too late)
    }
    let mut evs = vec![Ev::Start(q("styleSheet"), vec![(if pfx.is_empty() { "xmlns".to_string() } else { "xmlns:x".to_string() }, "http://schemas.openxmlformats.org/spreadsheetml/2006/main".to_string())])];
    for b in blocks {
        evs.extend(b);
    }
    evs.push(end(&q("styleSheet")));
    if rng.chance(1, 8) {
        let k = rng.below(evs.len() as u64) as usize;
        evs.truncate(k.max(1)); // the part ends early
    }
    evs
}

/// an xls workbook with hand-made FORMAT / XF records in front of the writer's own
fn check_xls_styles_stream(rng: &mut Rng, drv: &mut Driver, out: &mut Out) {
    use verif_harness::{cfbw, xlsw};
    let mut book = xlsw::XlsBook::new();
    book.formats = vec![(164, "yyyy".into()), (165, "[h]".into())];
    book.xfs = vec![0, 164, 165, 14];
    for _ in 0..rng.below(5) {
        if rng.chance(1, 2) {
            let s: String = match rng.below(3) {
                0 => "mm:ss".into(),
                1 => "0.0".into(),
                _ => gen_fmt(rng).render(),
            };
            let u: Vec<u16> = s.encode_utf16().collect();
            let wide = u.iter().any(|x| *x > 255) || rng.chance(1, 2);
            let cch = if rng.chance(1, 5) { u.len() + 7 } else if rng.chance(1, 5) { u.len() / 2 } else { u.len() };
            let mut p = (*rng.pick(&[166u16, 164, 14, 20])).to_le_bytes().to_vec();
            p.extend_from_slice(&(cch as u16).to_le_bytes());
            p.push(wide as u8);
            for x in &u {
                if wide {
                    p.extend_from_slice(&x.to_le_bytes());
                } else {
                    p.push(*x as u8);
                }
            }
            if rng.chance(1, 12) {
                p.truncate(rng.below(5) as usize);
            }
            book.globals_head.push((xlsw::FORMAT, p));
        } else {
            let mut p = vec![0u8, 0];
            p.extend_from_slice(&(*rng.pick(&[166u16, 164, 14, 20, 0])).to_le_bytes());
            p.extend_from_slice(&[0; 16]);
            if rng.chance(1, 12) {
                p.truncate(rng.below(4) as usize);
            }
            book.globals_head.push((xlsw::XF, p));
        }
        if rng.chance(1, 3) {
            let n = rng.below(8) as usize;
            book.globals_head.push((*rng.pick(&[0x0031u16, 0x0293, 0x0892]), rng.bytes(n)));
        }
    }
    let mut sh = xlsw::XlsSheet::new("S");
    for i in 0..PROBE_XFS {
        let mut c = xlsw::XlsCell::new(i as u16, 0, xlsw::CellV::Number(1.5));
        c.xf = i as u16;
        sh.cells.push(c);
    }
    book.sheets.push(sh);
    let wb = book.workbook_stream(rng);
    let bytes = cfbw::write_cfb(&[(book.stream_name.clone(), wb.clone())], &cfbw::CfbOpts::default(), rng);
    #[cfg(feature = "hooks")]
    let imp: String = match guarded(|| calamine::Xls::new(std::io::Cursor::new(bytes)).map(|x| class_letters(&calamine::verif_hooks::xls::c10_formats(&x)))) {
        Ok(Ok(t)) => t,
        Ok(Err(_)) => "err".into(),
        Err(_) => "panic".into(),
    };
    #[cfg(not(feature = "hooks"))]
    let imp: String = match guarded(|| calamine::Xls::new(std::io::Cursor::new(bytes)).map_err(|_| ()).and_then(|mut x| x.worksheet_range("S").map_err(|_| ()))) {
        Ok(Ok(r)) => table_from_cells(&r, PROBE_XFS),
        Ok(Err(_)) => "err".into(),
        Err(_) => "panic".into(),
    };
    let input = format!("xlsstream {}", hex(&wb));
    let m = ok_or_err(&drv.ask(&input));
    #[cfg(not(feature = "hooks"))]
    let m = as_probed(&m);
    if imp != m {
        out.fail(if imp == "panic" { "impl_vs_spec" } else { "impl_vs_model" }, "file:xls:styles-stream", &input, &imp, &m, if imp == "panic" { "no panic" } else { "" });
    }
    out.count(&format!("stylespart_xls_{}", if imp == "err" { "err" } else { "ok" }));
    out.case(input, true);
}

/// A cellXfs table with more than 65 536 entries (the file format allows it; the cell's `s` is an unsigned 32-bit
/// index): date / elapsed formats sit just below, at and above index 65 536 and at the very end, everything else is
/// General. Cells point at those entries (in range: expectation from the property), at the first index past the
/// table and far beyond it (out of range: the reader leaves the number plain — impl vs model).
fn check_big_xf_table(drv: &mut Driver, out: &mut Out) {
    use calamine::{Reader, Xlsx};
    use verif_harness::xlsxw;
    const N: usize = 65_544;
    let elapsed = Fmt { sections: vec![vec![Tok::Elapsed("h".into()), Tok::Num(':'), Tok::DateTok("mm".into())]] };
    let mut xfs = vec![0u32; N];
    for (i, id) in [(65_533usize, 14u32), (65_535, 46), (65_536, 14), (65_538, 165), (65_539, 22), (N - 1, 21)] {
        xfs[i] = id;
    }
    let class_of = |id: u32| if id == 165 { elapsed.classify() } else { documented_class(id) };
    let letters: String = xfs.iter().map(|id| letter(class_of(*id)) as char).collect();
    let probes: Vec<u64> = vec![0, 1, 65_533, 65_534, 65_535, 65_536, 65_537, 65_538, 65_539, N as u64 - 1, N as u64, 70_000, 131_072 + 14, 4_294_967_295];
    let value = 44197.25f64;
    for d1904 in [false, true] {
        let mut book = xlsxw::XlsxBook::new();
        book.date1904 = Some(d1904);
        book.num_fmts = vec![(165, elapsed.render())];
        book.cell_xfs = xfs.clone();
        let mut sh = xlsxw::XlsxSheet::new("S");
        for (j, sidx) in probes.iter().enumerate() {
            sh.set(0, j as u32, xlsxw::XCell::num("44197.25").with_style(*sidx as u32));
        }
        book.sheets.push(sh);
        let mut layout = xlsxw::Layout::plain();
        layout.pct_t_n_styled = if d1904 { 100 } else { 0 };
        let bytes = book.build(&layout).bytes;
        let input = format!("bigxf {}", d1904 as u8);
        let range = guarded(|| -> Result<calamine::Range<Data>, String> {
            Xlsx::new(std::io::Cursor::new(bytes)).map_err(|e| format!("open: {e:?}"))?.worksheet_range("S").map_err(|e| format!("range: {e:?}"))
        });
        let range = match range {
            Ok(Ok(r)) => r,
            Ok(Err(e)) => {
                out.fail("impl_vs_spec", "file:xlsx:big-xf-table-unreadable", &input, &e, "", "the workbook opens");
                continue;
            }
            Err(p) => {
                out.fail("impl_vs_spec", "file:xlsx:big-xf-table-unreadable", &input, &format!("panic: {p}"), "", "the workbook opens");
                continue;
            }
        };
        for (j, sidx) in probes.iter().enumerate() {
            let got = canon_cell(range.get_value((0, j as u32)));
            let m = drv.ask(&format!("xlsxcell {letters} {}", hex(sidx.to_string().as_bytes())));
            let shown = format!("{input}   [cell (0,{j}) s=\"{sidx}\" of {N} cell XFs]");
            let got_letter = match cell_letter(&got) {
                'O' => "N".to_string(),
                c => c.to_string(),
            };
            if (*sidx as usize) < N {
                let want = expect_cell(class_of(xfs[*sidx as usize]), value, d1904);
                if got != want {
                    out.fail("impl_vs_spec", "file:xlsx:style-index", &shown, &got, &m, &want);
                }
                if m != (match letter(class_of(xfs[*sidx as usize])) as char { 'O' => "N".to_string(), c => c.to_string() }) {
                    out.fail("model_vs_spec", "model:xlsx-style-index", &shown, &got, &m, &want);
                }
            }
            if got_letter != m {
                out.fail("impl_vs_model", "file:xlsx:style-index", &shown, &got, &m, "");
            }
        }
        out.cases.push((input, true));
        out.count("corpus");
    }
}

/// `s` attributes spelled in ways the shared writer never produces (leading zeros, signs, blanks, empty, non-numeric,
/// beyond 64 bits): the worksheet part is written by hand; XF 0 is a DATE format so that "fell back to style 0" shows.
/// Legal spellings (digits, in range) carry the property's expectation, the others are compared impl vs model only.
fn check_raw_s_attr(drv: &mut Driver, out: &mut Out) {
    use calamine::{Reader, Xlsx};
    use verif_harness::xlsxw;
    let xfs = [14u32, 0, 46];
    let letters = "DOT";
    let spellings: [(&str, Option<usize>); 20] = [
        ("0", Some(0)), ("1", Some(1)), ("2", Some(2)), ("01", Some(1)), ("002", Some(2)), ("00000000000000000002", Some(2)),
        ("3", None), ("4294967296", None), ("18446744073709551615", None), ("18446744073709551616", None),
        ("99999999999999999999", None), ("+1", None), ("-1", None), (" 1", None), ("1 ", None), ("", None), ("abc", None),
        ("1.0", None), ("1e0", None), ("0x1", None),
    ];
    let mut xml = String::from("<?xml version=\"1.0\" encoding=\"UTF-8\" standalone=\"yes\"?>\n<worksheet xmlns=\"http://schemas.openxmlformats.org/spreadsheetml/2006/main\"><sheetData><row r=\"1\">");
    for (j, (sp, _)) in spellings.iter().enumerate() {
        xml.push_str(&format!("<c r=\"{}1\" s=\"{}\"><v>44197.25</v></c>", xlsxw::col_name(j as u32), sp));
    }
    xml.push_str(&format!("<c r=\"{}1\"><v>44197.25</v></c>", xlsxw::col_name(spellings.len() as u32)));
    xml.push_str("</row></sheetData></worksheet>");
    let mut book = xlsxw::XlsxBook::new();
    book.cell_xfs = xfs.to_vec();
    let mut sh = xlsxw::XlsxSheet::new("S");
    sh.raw_xml = Some(xml);
    book.sheets.push(sh);
    let bytes = book.build(&xlsxw::Layout::plain()).bytes;
    let range = guarded(|| -> Result<calamine::Range<Data>, String> {
        Xlsx::new(std::io::Cursor::new(bytes)).map_err(|e| format!("open: {e:?}"))?.worksheet_range("S").map_err(|e| format!("range: {e:?}"))
    });
    let range = match range {
        Ok(Ok(r)) => r,
        other => {
            out.fail("impl_vs_spec", "file:xlsx:raw-s-unreadable", "rawsattr", &format!("{other:?}"), "", "the workbook opens");
            return;
        }
    };
    let n = spellings.len();
    for j in 0..=n {
        let (sp, legal) = if j < n { (Some(spellings[j].0), spellings[j].1) } else { (None, None) };
        let got = canon_cell(range.get_value((0, j as u32)));
        let m = drv.ask(&format!("xlsxcell {letters} {}", match sp {
            Some(t) => hex(t.as_bytes()),
            None => "absent".into(),
        }));
        let shown = format!("rawsattr   [cell (0,{j}) s={sp:?}, cell XFs = formats 14, 0, 46]");
        let got_letter = match cell_letter(&got) {
            'O' => "N".to_string(),
            c => c.to_string(),
        };
        let want = match (sp, legal) {
            (None, _) => Some(expect_cell("Other", 44197.25, false)),
            (_, Some(i)) => Some(expect_cell(documented_class(xfs[i]), 44197.25, false)),
            _ => None,
        };
        if let Some(w) = &want {
            if *w != got {
                out.fail("impl_vs_spec", "file:xlsx:style-index", &shown, &got, &m, w);
            }
        }
        if got_letter != m {
            out.fail("impl_vs_model", "file:xlsx:style-index-spelling", &shown, &got, &m, want.as_deref().unwrap_or("(not a legal index: no expectation)"));
        }
    }
    out.cases.push(("rawsattr".into(), true));
    out.count("corpus");
}

fn gen_style_case(rng: &mut Rng, kind: &'static str) -> StyleCase {
    let mut defs: Vec<(u16, Fmt)> = vec![];
    for _ in 0..rng.below(6) {
        let id = match rng.below(10) {
            0 => *rng.pick(&[14u16, 20, 22, 46, 47]), // a built-in date id redefined
            // (xlsx: id 0 is never redefined — an <xf> may legally omit numFmtId, default 0, and the shared writer does so)
            1 => *rng.pick(&[if kind == "xlsx" { 2u16 } else { 0u16 }, 1, 9, 37, 49, 5, 44]),
            2 if !defs.is_empty() => defs[rng.below(defs.len() as u64) as usize].0, // defined twice
            _ => rng.range(164, 180) as u16,
        };
        let mut f = if rng.chance(1, 8) { gen_long_fmt(rng) } else { gen_fmt(rng) };
        if rng.chance(1, 2) {
            f.sections.truncate(1);
        }
        defs.push((id, f));
    }
    let mut xfs = vec![0u16];
    for _ in 0..rng.range(1, 9) {
        xfs.push(match rng.below(10) {
            0..=4 if !defs.is_empty() => defs[rng.below(defs.len() as u64) as usize].0,
            5 | 6 => *rng.pick(&[14u16, 15, 16, 17, 18, 19, 20, 21, 22, 45, 46, 47]),
            7 => *rng.pick(&[0u16, 1, 2, 9, 13, 23, 36, 37, 44, 48, 49, 50, 58]),
            _ => rng.range(0, 400) as u16,
        });
    }
    StyleCase { kind, defs, xfs, date1904: rng.chance(1, 2), seed: rng.next() }
}

// ------------------------------------------------------------------------------------------------

/// regression inputs: every defect ever found + documented behaviour + the repo's own unit-test strings
fn corpus() -> (Vec<Fmt>, Vec<(&'static str, &'static str)>) {
    let lit = |s: &str| Tok::Lit(s.into());
    let dt = |s: &str| Tok::DateTok(s.into());
    let num = |s: &str| s.chars().map(Tok::Num).collect::<Vec<_>>();
    let mut grams = vec![
        // D14 (fixed): `_` / `\` inside quoted text were taken as escapes — "Date_"dd/mm/yyyy came back Other
        Fmt { sections: vec![vec![lit("Date_"), dt("dd"), Tok::Num('/'), dt("mm"), Tok::Num('/'), dt("yyyy")]] },
        Fmt { sections: vec![vec![lit("_"), dt("d")]] },
        Fmt { sections: vec![vec![lit("\\"), dt("d")]] },
        Fmt { sections: vec![vec![lit("\\"), Tok::Elapsed("h".into())]] },
        Fmt { sections: vec![vec![lit("a_"), Tok::Num('0')], vec![dt("d")]] },
        // ordinary shapes
        Fmt { sections: vec![vec![Tok::Brk("$-409".into()), dt("h"), Tok::Num(':'), dt("mm"), Tok::Num(' '), dt("AM/PM")]] },
        Fmt { sections: vec![vec![Tok::Brk("Red".into()), Tok::Brk(">=100".into()), Tok::Elapsed("ss".into()), Tok::Num('.'), Tok::Num('0')]] },
        Fmt { sections: vec![vec![Tok::Brk("hm".into()), Tok::Num('0')]] },
        Fmt { sections: vec![vec![Tok::Brk("".into()), Tok::Num('0')]] },
        Fmt { sections: vec![vec![Tok::Brk("$m-409".into()), Tok::Num('0')]] },
        Fmt { sections: vec![vec![Tok::General("General".into())]] },
        Fmt { sections: vec![vec![Tok::Brk("Blue".into()), Tok::General("GENERAL".into()), lit(" d"), Tok::Esc('d')]] },
        Fmt { sections: vec![vec![Tok::Esc('['), Tok::Num('0'), Tok::Pad(']')], vec![dt("d")]] },
        Fmt { sections: vec![vec![Tok::Fill(' '), Tok::Num('#')], num("d")] },
        Fmt { sections: vec![vec![]] },
    ];
    let mut s = num("#,##0.00");
    s.extend([Tok::Esc(' '), Tok::Pad('M'), lit("H"), Tok::Pad(')')]);
    grams.push(Fmt { sections: vec![s, vec![Tok::Brk("Red".into())]] });
    let raws = vec![
        // documented behaviour outside the grammar the property names (NOT findings)
        ("*d", "DateTime"),    // fill character `d` reads as a day token
        ("aaa d", "Other"),    // a lone `a` switches the scanner into AM/PM mode
        ("General/", "DateTime"),
        // strings of the repo's own unit test
        ("DD/MM/YY", "DateTime"),
        ("H:MM:SS;@", "DateTime"),
        ("#,##0\\ [$\\u20bd-46D]", "Other"),
        ("m\"M\"d\"D\";@", "DateTime"),
        ("[h]:mm:ss", "TimeDelta"),
        ("\"Y: \"0.00\"m\";\"Y: \"-0.00\"m\";\"Y: <num>m\";@", "Other"),
        ("#,##0\\ [$''u20bd-46D]", "Other"),
        ("\"$\"#,##0_);[Red](\"$\"#,##0)", "Other"),
        ("[$-404]e\"\\xfc\"m\"\\xfc\"d\"\\xfc\"", "DateTime"),
        ("0_ ;[Red]\\-0\\ ", "Other"),
        ("\\Y000000", "Other"),
        ("#,##0.0####\" YMD\"", "Other"),
        ("[h]", "TimeDelta"),
        ("[ss]", "TimeDelta"),
        ("[s].000", "TimeDelta"),
        ("[m]", "TimeDelta"),
        ("[mm]", "TimeDelta"),
        ("[Blue]\\+[h]:mm;[Red]\\-[h]:mm;[Green][h]:mm", "TimeDelta"),
        ("[>=100][Magenta][s].00", "TimeDelta"),
        ("[h]:mm;[=0]\\-", "TimeDelta"),
        ("[>=100][Magenta].00", "Other"),
        ("[>=100][Magenta]General", "Other"),
        ("ha/p\\\\m", "DateTime"),
        ("#,##0.00\\ _M\"H\"_);[Red]#,##0.00\\ _M\"S\"_)", "Other"),
        // scanner corners
        ("[\\[m]", "TimeDelta"),
        ("[[h]]", "TimeDelta"),
        ("[", "Other"),
        ("\"", "Other"),
        ("\\", "Other"),
    ];
    (grams, raws)
}

fn main() {
    let args = Args::parse();
    let mut rep = Report::new(
        "C10",
        "unit level of C10: (1) complete: all 65536 format codes and all decimal id strings 0..65535 against the documented \
         table (ECMA-376 18.8.30: 14-22,45,47 date/time, 46 elapsed, everything else not a date; spelling variants of ids with \
         leading zeros/sign/space impl-vs-model only); (2) complete: every string of length <= L over the 20 significant \
         characters \" \\ _ ; [ ] a A p m M / d h H y s S 0 x (quick L=5, thorough L=7), impl vs model by block checksum, and \
         impl vs grammar for every such string that parses as a well-formed format; (3) formats generated from the grammar \
         (first section: <= 10 tokens of lit/esc/pad/fill/brk/elapsed/date/num or brk* General text*; up to 3 later sections, \
         arbitrary text), expectation = first date/elapsed token of the first section; (4) noise and mutated strings, impl vs \
         model; (5) format_excel_f64/i64 on random bit patterns x {no style, Other, DateTime, TimeDelta} x both date systems. \
         Non-trivial = the text contains at least one of \" \\ _ [ ; (grammar cases) / a distinct wrapped value. \
         (6) file level: generated xlsx/xlsb/xls workbooks with 0-5 custom formats from the grammar (ids 164-180, built-in \
         ids redefined, ids defined twice), 2-10 cell XFs over custom, built-in and undefined ids, both date systems, every \
         numeric encoding of the shared writers; per cell: DateTime(value, flavour, date system) iff the XF's format is a \
         date format (custom definition if the id is defined, else ECMA table). Once per run: a cellXfs table of 65 544 entries with date/elapsed formats around index 65 536 and at the end \
         (cells pointing in range: expectation; past the table: impl vs model, plain number), hand-written `s` spellings \
         (leading zeros legal; signs, blanks, empty, non-numeric, > 64 bits: impl vs model, style 0), and formats of <= 255 \
         characters but > 255 bytes (quoted CJK / accented text) in the grammar and file streams. \
         (7) the style-table DECODERS (Model/FormatsDecode.lean) against the reader's own table (hooks c10_formats / \
         c03_formats): on the styles part / stream of every file case, and on unusual or malformed parts — xlsx event lists \
         (blocks in any order, numFmt / xf outside their block, cellStyleXfs, dxfs, prefixes, missing attributes, early \
         end), xlsb record lists (unknown records, wrong counts, short payloads, cellStyleXfs block, truncation), xls \
         globals with hand-made FORMAT / XF records (narrow / wide, cch mismatch, short), parse_xf / parse_format on noise. \
         No expectation (impl vs model only) for: \
         ill-formed or empty custom strings; id 0 (General) is never redefined in xlsx cases (an <xf> may omit numFmtId); in xlsb a built-in date id redefined with another class (xlsb consults the \
         built-in table first).",
    );
    let mut drv = Driver::spawn(&args.driver);
    let threads = std::thread::available_parallelism().map(|n| n.get()).unwrap_or(4).min(if args.thorough() { 16 } else { 8 });

    if let Some(r) = &args.replay {
        let mut out = Out::default();
        let r = r.split("   [text:").next().unwrap().split("   [xf").next().unwrap().split("   [cell").next().unwrap().trim();
        let w: Vec<&str> = r.split(' ').collect();
        match w.as_slice() {
            ["gram", d] => {
                let f = Fmt::from_wire(d).expect("bad gram replay");
                check_gram(&f, &mut drv, &mut out, false);
            }
            ["gram"] => {
                check_gram(&Fmt { sections: vec![vec![]] }, &mut drv, &mut out, false);
            }
            ["detect", h] => check_raw(&String::from_utf8(unhex(h)).expect("utf8"), &mut drv, &mut out),
            ["byid", h] => {
                let id = unhex(h);
                check_id(&id, &mut drv, &mut out);
                if let Ok(n) = std::str::from_utf8(&id).unwrap_or("").parse::<u32>() {
                    if n.to_string().as_bytes() == &id[..] && impl_byid(&id) != documented_class(n) {
                        out.fail("impl_vs_spec", "builtin:by-id", r, impl_byid(&id), "", documented_class(n));
                    }
                }
            }
            ["bycode", n] => {
                let n: u16 = n.parse().expect("code");
                let m = drv.ask(r);
                if m != impl_bycode(n) {
                    out.fail("impl_vs_model", "builtin:by-code", r, impl_bycode(n), &m, documented_class(n as u32));
                }
                if impl_bycode(n) != documented_class(n as u32) {
                    out.fail("impl_vs_spec", "builtin:by-code", r, impl_bycode(n), &m, documented_class(n as u32));
                }
            }
            ["fmtf64", v, f, d] => check_wrap_f64(v.parse().unwrap(), parse_fmt_arg(f), *d == "1", &mut drv, &mut out),
            ["fmti64", v, f, d] => check_wrap_i64(v.parse().unwrap(), parse_fmt_arg(f), *d == "1", &mut drv, &mut out),
            ["bigxf", _] | ["bigxf"] => check_big_xf_table(&mut drv, &mut out),
            ["rawsattr"] => check_raw_s_attr(&mut drv, &mut out),
            ["rawfmt", h] => check_raw_formatcode(&String::from_utf8(unhex(h)).expect("utf8"), &mut drv, &mut out),
            w if w.first() == Some(&"file") => {
                let r2 = r.split("   [xf").next().unwrap().trim();
                let w2: Vec<&str> = r2.split(' ').collect();
                let c = StyleCase::from_wire(&w2).expect("bad file replay");
                check_file(&c, &mut drv, &mut out, false);
                let _ = w;
            }
            _ => panic!("unknown replay input {r}"),
        }
        out.cases.push((r.to_string(), true));
        out.merge_into(&mut rep);
        rep.write(&args.out);
        return;
    }

    // 1. corpus
    let mut out = Out::default();
    let (grams, raws) = corpus();
    for f in &grams {
        assert!(f.wf(), "corpus format not well-formed: {f:?}");
        check_gram(f, &mut drv, &mut out, false);
        out.cases.push((format!("gram {}", f.wire()), true));
        out.count("corpus");
    }
    for (s, documented) in &raws {
        check_raw(s, &mut drv, &mut out);
        let imp = impl_detect(s);
        if imp != *documented {
            // the recorded behaviour of a corpus string changed: a correspondence question, not a property failure
            out.fail("impl_vs_model", "corpus:recorded-behaviour", &format!("detect {}   [text: {s}]", hex(s.as_bytes())), imp, documented, "");
        }
        out.cases.push((format!("detect {}", hex(s.as_bytes())), true));
        out.count("corpus");
    }
    // nesting depth (ledger D30-b, fixed by 8b86d6e): the depth counter was a u8 and `brackets += 1` overflowed on the
    // 256th unclosed `[` (panic under overflow-checks). Replay: 256 x `[` followed by `h]`. Deep nesting is now read as
    // nesting; the recorded classifications are checked against both the implementation and the model.
    for (s, documented) in [
        (format!("{}h]", "[".repeat(254)), "Other"),
        (format!("{}h]", "[".repeat(255)), "Other"),
        (format!("{}h]", "[".repeat(256)), "Other"),
        (format!("{}h]", "[".repeat(300)), "Other"),
        ("[".repeat(256), "Other"),
        (format!("{}{}d", "[".repeat(300), "]".repeat(300)), "DateTime"),
        (format!("{}{}[h]", "[".repeat(256), "]".repeat(256)), "TimeDelta"),
        (format!("[h{}{}]", "[".repeat(300), "]".repeat(300)), "TimeDelta"),
    ] {
        check_raw(&s, &mut drv, &mut out);
        let imp = impl_detect(&s);
        if imp != documented {
            let sig = if imp == "panic" { "scanner:nesting-overflow" } else { "corpus:recorded-behaviour" };
            let shown = format!("detect {}   [text: {} characters of deep bracket nesting]", hex(s.as_bytes()), s.len());
            if imp == "panic" {
                // a panic of the classifier means no cell of the workbook can be read at all
                out.fail("impl_vs_spec", sig, &shown, imp, documented, documented);
            } else {
                out.fail("impl_vs_model", sig, &shown, imp, documented, "");
            }
        }
        out.cases.push((format!("detect {}", hex(s.as_bytes())), true));
        out.count("corpus");
    }
    // file-level regression inputs: the D14 witness as a custom format of each container, D15 (xlsb integer RK cells
    // with a date style: every xlsb case writes one), a built-in date id redefined, an id defined twice
    for kind in ["xlsx", "xlsb", "xls"] {
        let d14 = Fmt { sections: vec![vec![Tok::Lit("Date_".into()), Tok::DateTok("dd".into()), Tok::Num('/'), Tok::DateTok("mm".into())]] };
        let el = Fmt { sections: vec![vec![Tok::Brk("Red".into()), Tok::Elapsed("h".into()), Tok::Num(':'), Tok::DateTok("mm".into())], vec![Tok::Num('@')]] };
        let num = Fmt { sections: vec![vec![Tok::Num('0'), Tok::Num('.'), Tok::Num('0'), Tok::Lit(" d".into())]] };
        for d1904 in [false, true] {
            let c = StyleCase {
                kind,
                defs: vec![(164, d14.clone()), (165, el.clone()), (166, el.clone()), (166, num.clone()), (14, num.clone())],
                xfs: vec![0, 164, 14, 165, 166, 22, 46, 300, 164],
                date1904: d1904,
                seed: 7,
            };
            check_file(&c, &mut drv, &mut out, false);
            out.cases.push((c.wire(), true));
            out.count("corpus");
        }
    }
    // the minimal replays of the two file-level defects this check found (both fixed):
    //   xlsx 303c869: formatCode="&apos;" was scanned with its XML escape (a, p -> DateTime);  `0.0" d"` likewise
    //   xls  0b12e07: FORMULA record with a numeric cached result ignored the XF's date format
    for w in ["file xlsx 16183923183082473886 1 165=N27 0,165", "file xls 78432869474177924 1 - 0,19",
              // seeded change C10-m1 (read_v stops at `t`): this layout writes `t="n"` before `s` on a date-styled cell
              "file xlsx 6124263884038469644 1 - 0,14",
              "file xlsx 5 0 170=N30,N2e,N30,L2064 0,170", "file xlsx 5 1 171=L6d26,N30|172=L3c793e,N30 0,171,172"] {
        let c = StyleCase::from_wire(&w.split(' ').collect::<Vec<_>>()).expect("corpus file case");
        check_file(&c, &mut drv, &mut out, false);
        out.cases.push((c.wire(), true));
        out.count("corpus");
    }
    // seeded change C10-m8 (style index parsed as u16): a cellXfs table of 65 544 entries, built once per run;
    // the spellings of `s` the unchanged reader accepts / maps to style 0
    check_big_xf_table(&mut drv, &mut out);
    check_raw_s_attr(&mut drv, &mut out);
    // seeded change C10-m6 (formats of more than 255 BYTES not scanned): 90 quoted CJK characters (270 bytes, well
    // under 255 characters) in front of date tokens / an elapsed unit, as a format string and inside each container
    {
        let wide: String = "年月日時分秒曜平成".chars().cycle().take(90).collect();
        let date = Fmt { sections: vec![vec![Tok::Lit(wide.clone()), Tok::DateTok("yyyy".into()), Tok::Num('/'), Tok::DateTok("mm".into())]] };
        let el = Fmt { sections: vec![vec![Tok::Brk("Red".into()), Tok::Lit(wide.clone()), Tok::Elapsed("h".into()), Tok::Num(':'), Tok::DateTok("mm".into())]] };
        let num = Fmt { sections: vec![vec![Tok::Num('0'), Tok::Num('.'), Tok::Num('0'), Tok::Lit(wide)]] };
        for f in [&date, &el, &num] {
            assert!(f.wf() && f.render().len() > 255 && f.render().chars().count() <= 255);
            check_gram(f, &mut drv, &mut out, false);
            out.cases.push((format!("gram {}", f.wire()), true));
            out.count("corpus");
        }
        for kind in ["xlsx", "xlsb", "xls"] {
            let c = StyleCase { kind, defs: vec![(164, date.clone()), (165, el.clone()), (166, num.clone())], xfs: vec![0, 164, 165, 166], date1904: false, seed: 11 };
            check_file(&c, &mut drv, &mut out, false);
            out.cases.push((c.wire(), true));
            out.count("corpus");
        }
    }
    // third-round seeded changes:
    //   m9  — a <row s=".." customFormat="1"> must not format the row's cells that have no `s` (seed even: every row styled)
    //   m12 — applyNumberFormat="0" / xfId on a cell <xf> must not replace its own numFmtId (seed % 3 == 0: every xf flagged)
    //   m11 — xls: a FORMAT record that re-declares a built-in id and stands AFTER the XF records still counts
    //   m10 — ß ſ ﬆ ẖ ẙ … written without quotes are literal text, not the date letters their upper-casing starts with
    //   m15 — the text of a number's <v> written in pieces must be read as their concatenation (odd seeds)
    //   m16 — xlsb: the flags byte after iStyleRef must not reach the style index;  m14 — records that are not BrtFmt
    //         inside the format list must not use up the declared count (even seeds)
    for seed in [7u64, 9, 11, 6, 8, 10] {
        let el = Fmt { sections: vec![vec![Tok::Elapsed("h".into()), Tok::Num(':'), Tok::DateTok("mm".into())]] };
        let da = Fmt { sections: vec![vec![Tok::DateTok("yyyy".into()), Tok::Num('-'), Tok::DateTok("mm".into())]] };
        let nu = Fmt { sections: vec![vec![Tok::Num('0'), Tok::Num('.'), Tok::Num('0')]] };
        for kind in ["xlsx", "xlsb"] {
            let c = StyleCase { kind, defs: vec![(164, nu.clone()), (165, el.clone()), (166, da.clone()), (167, da.clone())], xfs: vec![0, 164, 165, 166, 167, 14, 46], date1904: seed % 4 == 3, seed };
            check_file(&c, &mut drv, &mut out, false);
            out.cases.push((c.wire(), true));
            out.count("corpus");
        }
    }
    //   /repo 6b28a55 (fixed): `<xf numFmtId="014">` was not the date format 14 (leading zeros were significant); with
    //   `pct_id_zero_pad` every occurrence of an id, built-in or custom, is padded on its own (seeds % 7 < 3)
    for seed in [7u64, 14, 21] {
        let c = StyleCase { kind: "xlsx", defs: vec![], xfs: vec![0, 14], date1904: false, seed };
        check_file(&c, &mut drv, &mut out, false);
        out.cases.push((c.wire(), true));
        out.count("corpus");
    }
    //   round 5: m18 — `ext:s` / `xmlns:s` on a <c> are not its style (seeds % 5 < 2); m17 — `numFmtId="0164"` in <numFmt>
    //   and <xf> alike is format 164 (seeds % 7 < 3); m19 — `date1904="&#49;"` is the 1904 system (seed % 4 == 1)
    for seed in [5u64, 15, 21, 35, 70, 1, 57, 85] {
        let da = Fmt { sections: vec![vec![Tok::DateTok("yyyy".into()), Tok::Num('-'), Tok::DateTok("mm".into())]] };
        let el = Fmt { sections: vec![vec![Tok::Elapsed("mm".into()), Tok::Num(':'), Tok::DateTok("ss".into())]] };
        let c = StyleCase { kind: "xlsx", defs: vec![(164, da.clone()), (165, el), (170, da)], xfs: vec![0, 164, 165, 170, 14, 2, 164], date1904: true, seed };
        check_file(&c, &mut drv, &mut out, false);
        out.cases.push((c.wire(), true));
        out.count("corpus");
    }
    for seed in [6u64, 12, 18, 24, 30, 36] {
        let c = StyleCase { kind: "xlsx", defs: vec![], xfs: vec![0, 14, 46, 2, 22, 21], date1904: seed % 4 == 0, seed };
        check_file(&c, &mut drv, &mut out, false);
        out.cases.push((c.wire(), true));
        out.count("corpus");
    }
    {
        let plain = Fmt { sections: vec![vec![Tok::Num('0'), Tok::Num('.'), Tok::Num('0'), Tok::Num('0')]] };
        let date = Fmt { sections: vec![vec![Tok::DateTok("yyyy".into()), Tok::Num('-'), Tok::DateTok("mm".into())]] };
        let el = Fmt { sections: vec![vec![Tok::DateTok("hh".into()), Tok::Num(':'), Tok::DateTok("mm".into())]] };
        let mut found = 0;
        for seed in 0u64..400 {
            let c = StyleCase { kind: "xls", defs: vec![(14, plain.clone()), (2, date.clone()), (46, el.clone())], xfs: vec![0, 14, 2, 46], date1904: false, seed };
            if c.late(0) && c.late(1) {
                check_file(&c, &mut drv, &mut out, false);
                out.cases.push((c.wire(), true));
                out.count("corpus");
                found += 1;
                if found == 3 {
                    break;
                }
            }
        }
        assert!(found == 3);
        for (i, text) in ["0.00 ß", "0.0ſ", "0 ﬆ", "#,##0 ẙ", "[ẖ]0.0", "0 ẚ/0", "0.0 \u{212A}"].iter().enumerate() {
            let f = parse_format(text).expect("case-trap format parses");
            assert!(f.wf() && f.classify() == "Other", "{text}");
            check_gram(&f, &mut drv, &mut out, false);
            out.cases.push((format!("gram {}", f.wire()), true));
            let c = StyleCase { kind: ["xlsx", "xlsb", "xls"][i % 3], defs: vec![(164, f)], xfs: vec![0, 164], date1904: false, seed: 5 };
            check_file(&c, &mut drv, &mut out, false);
            out.cases.push((c.wire(), true));
            out.count("corpus");
        }
    }
    // review finding on fix 303c869: a malformed entity in formatCode must not stop the workbook from opening
    for raw in ["0 & 0", "0 &foo; 0", "yyyy & mm", "0.0 &quot d", "&#x110000;0"] {
        check_raw_formatcode(raw, &mut drv, &mut out);
    }
    out.merge_into(&mut rep);

    // 2. complete sweeps
    let mut out = Out::default();
    sweep_codes(&mut drv, &mut out);
    sweep_ids(&mut drv, &mut out);
    out.merge_into(&mut rep);
    let max_len = args.n.filter(|n| *n <= 8).map(|n| n as usize).unwrap_or(if args.thorough() { 7 } else { 5 });
    #[cfg(not(feature = "hooks"))]
    let max_len = max_len.min(5);
    merge(sweep_strings(max_len, threads, &args.driver), &mut rep);
    rep.add("sweep_max_len", max_len as u64);
    rep.exhaustive = true;

    // 3.–5. generated cases, in parallel with one forked PRNG per worker (deterministic for a seed)
    let total = if args.n.map(|n| n > 8).unwrap_or(false) { args.n.unwrap() } else { args.count(200_000, 5_000_000) };
    let mut rng = Rng::new(args.seed);
    let forks: Vec<Rng> = (0..threads).map(|_| rng.fork()).collect();
    let per = total / threads as u64 + 1;
    let driver = &args.driver;
    let outs: Vec<Out> = std::thread::scope(|sc| {
        let hs: Vec<_> = forks
            .into_iter()
            .map(|mut rng| {
                sc.spawn(move || {
                    let mut drv = Driver::spawn(driver);
                    let mut out = Out::default();
                    for i in 0..per {
                        match i % 10 {
                            0..=6 => {
                                let f = gen_fmt(&mut rng);
                                let text = f.render();
                                check_gram(&f, &mut drv, &mut out, true);
                                let nt = text.chars().any(|c| "\"\\_[;".contains(c));
                                out.case(text, nt);
                                out.count(&format!("gram_class_{}{}", f.classify(), if f.wf() { "" } else { "_illformed" }));
                                out.count(&format!("gram_sections_{}", f.sections.len()));
                                for t in &f.sections[0] {
                                    out.count(&format!("tok_{}", t.kind()));
                                }
                            }
                            7 | 8 => {
                                let s = gen_raw(&mut rng);
                                check_raw(&s, &mut drv, &mut out);
                                out.count(&format!("raw_{}", impl_detect(&s)));
                                out.case(s, false);
                            }
                            _ => {
                                let f = *rng.pick(&[None, Some(CellFormat::Other), Some(CellFormat::DateTime), Some(CellFormat::TimeDelta)]);
                                let d = rng.chance(1, 2);
                                let bits = match rng.below(6) {
                                    0 => (rng.below(60000) as f64 + rng.below(86400) as f64 / 86400.0).to_bits(),
                                    1 => *rng.pick(&[0u64, 1 << 63, 0x7ff0000000000000, 0xfff0000000000000, 0x7ff8000000000001, 0xfff4000000000000, 1, 0x7fefffffffffffff]),
                                    _ => rng.next(),
                                };
                                check_wrap_f64(bits, f, d, &mut drv, &mut out);
                                let v = match rng.below(4) {
                                    0 => rng.below(100000) as i64,
                                    1 => *rng.pick(&[0i64, -1, i64::MAX, i64::MIN, (1 << 53) + 1, -(1 << 53) - 1, i32::MAX as i64, i32::MIN as i64]),
                                    _ => rng.next() as i64,
                                };
                                check_wrap_i64(v, f, d, &mut drv, &mut out);
                                out.count(&format!("wrap_{}", fmt_arg(f)));
                                out.case(format!("wrap {bits} {v} {}", fmt_arg(f)), true);
                            }
                        }
                    }
                    out
                })
            })
            .collect();
        hs.into_iter().map(|h| h.join().unwrap()).collect()
    });
    merge(outs, &mut rep);

    // 6. file level
    let files = if args.n.map(|n| n > 8).unwrap_or(false) { args.n.unwrap() / 50 + 1 } else { args.count(3_000, 300_000) };
    let forks: Vec<Rng> = (0..threads).map(|_| rng.fork()).collect();
    let per = files / threads as u64 + 1;
    let outs: Vec<Out> = std::thread::scope(|sc| {
        let hs: Vec<_> = forks
            .into_iter()
            .map(|mut rng| {
                sc.spawn(move || {
                    let mut drv = Driver::spawn(driver);
                    let mut out = Out::default();
                    for i in 0..per {
                        let kind = ["xlsx", "xlsb", "xls"][(i % 3) as usize];
                        let c = gen_style_case(&mut rng, kind);
                        check_file(&c, &mut drv, &mut out, true);
                        out.count(&format!("file_{kind}"));
                        out.add_n("file_xfs", c.xfs.len() as u64);
                        for id in &c.xfs {
                            out.count(&format!("file_xf_{}", match c.expected(*id) {
                                Some(cl) => cl,
                                None => "no-expectation",
                            }));
                        }
                        out.case(c.wire(), !c.defs.is_empty());
                    }
                    out
                })
            })
            .collect();
        hs.into_iter().map(|h| h.join().unwrap()).collect()
    });
    merge(outs, &mut rep);

    // 7. the decoders of the style tables on unusual / malformed parts
    let parts_n = if args.n.map(|n| n > 8).unwrap_or(false) { args.n.unwrap() / 50 + 1 } else { args.count(1_500, 150_000) };
    let forks: Vec<Rng> = (0..threads).map(|_| rng.fork()).collect();
    let per = parts_n / threads as u64 + 1;
    let outs: Vec<Out> = std::thread::scope(|sc| {
        let hs: Vec<_> = forks
            .into_iter()
            .map(|mut rng| {
                sc.spawn(move || {
                    let mut drv = Driver::spawn(driver);
                    let mut out = Out::default();
                    for i in 0..per {
                        match i % 3 {
                            0 => {
                                let evs = gen_xlsx_styles_events(&mut rng);
                                check_xlsx_styles_part(&evs, &mut rng, &mut drv, &mut out);
                            }
                            1 => {
                                let (recs, cut) = gen_xlsb_styles_records(&mut rng);
                                check_xlsb_styles_part(&recs, cut, &mut rng, &mut drv, &mut out);
                            }
                            _ => check_xls_styles_stream(&mut rng, &mut drv, &mut out),
                        }
                        for _ in 0..4 {
                            check_xls_style_payloads(&mut rng, &mut drv, &mut out);
                        }
                    }
                    out
                })
            })
            .collect();
        hs.into_iter().map(|h| h.join().unwrap()).collect()
    });
    merge(outs, &mut rep);
    #[cfg(not(feature = "hooks"))]
    rep.notes.push(NO_HOOKS_NOTE.into());
    rep.notes.push("C10 unit level: the oracle is the number-format grammar re-implemented in Rust (render/classify/parse) and the hand-written ECMA-376 id table; at file level the bytes come from the shared Rust writers (harness/src/xlsxw.rs, xlsbw.rs, xlsw.rs) and the Lean side models the style-table builders over the parsed inputs (ids, strings, XF list), not the container parsing".into());
    rep.write(&args.out);
}

fn parse_fmt_arg(s: &str) -> Option<CellFormat> {
    match s {
        "O" => Some(CellFormat::Other),
        "D" => Some(CellFormat::DateTime),
        "T" => Some(CellFormat::TimeDelta),
        _ => None,
    }
}
