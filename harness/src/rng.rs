//! One PRNG state for every random choice (SplitMix64), so a seed replays exactly.
#[derive(Clone)]
pub struct Rng(pub u64);

impl Rng {
    pub fn new(seed: u64) -> Rng {
        Rng(seed.wrapping_mul(0x9E3779B97F4A7C15) ^ 0xD1B54A32D192ED03)
    }
    pub fn next(&mut self) -> u64 {
        self.0 = self.0.wrapping_add(0x9E3779B97F4A7C15);
        let mut z = self.0;
        z = (z ^ (z >> 30)).wrapping_mul(0xBF58476D1CE4E5B9);
        z = (z ^ (z >> 27)).wrapping_mul(0x94D049BB133111EB);
        z ^ (z >> 31)
    }
    /// uniform in 0..n (n > 0)
    pub fn below(&mut self, n: u64) -> u64 {
        self.next() % n
    }
    /// uniform in lo..=hi
    pub fn range(&mut self, lo: u64, hi: u64) -> u64 {
        lo + self.below(hi - lo + 1)
    }
    pub fn chance(&mut self, num: u64, den: u64) -> bool {
        self.below(den) < num
    }
    pub fn pick<'a, T>(&mut self, xs: &'a [T]) -> &'a T {
        &xs[self.below(xs.len() as u64) as usize]
    }
    pub fn fork(&mut self) -> Rng {
        Rng(self.next())
    }
    pub fn shuffle<T>(&mut self, xs: &mut [T]) {
        for i in (1..xs.len()).rev() {
            let j = self.below(i as u64 + 1) as usize;
            xs.swap(i, j);
        }
    }
    pub fn bytes(&mut self, n: usize) -> Vec<u8> {
        (0..n).map(|_| self.next() as u8).collect()
    }
}
