//! A format-independent *logical workbook* with simple values, written through the four shared writers
//! (`xlsw`, `xlsxw`, `xlsbw`, `odsw`) and opened through calamine's `Sheets` wrapper, for the properties
//! that quantify over all four formats (C07 purity, C08 header row, C06 robustness, C20 converse).
use crate::rng::Rng;
use crate::{odsw, xlsbw, xlsw, xlsxw};
use calamine::{Data, Ods, Reader, Sheets, Xls, Xlsb, Xlsx};
use std::collections::{BTreeMap, BTreeSet};
use std::io::Cursor;

#[derive(Clone, Debug, PartialEq)]
pub enum V {
    /// a non-integral number (so that no format stores it as an integer)
    Num(f64),
    Str(String),
    Bool(bool),
}

impl V {
    pub fn expected(&self) -> Data {
        match self {
            V::Num(f) => Data::Float(*f),
            V::Str(s) => Data::String(s.clone()),
            V::Bool(b) => Data::Bool(*b),
        }
    }
}

#[derive(Clone, Debug, Default)]
pub struct LSheet {
    pub name: String,
    pub cells: BTreeMap<(u32, u32), V>,
    /// plain formula text per cell (written only by formats/writers that take text: xlsx, ods)
    pub formulas: BTreeMap<(u32, u32), String>,
    /// 0 = worksheet, 1 = chart sheet, 2 = dialog sheet (xlsx/xlsb) / macro sheet (xls); ignored for ods
    pub kind: u8,
    /// xlsb only: the sheet is declared by a BrtBundleSh with a NULL relationship id (the reader skips it)
    pub no_rel: bool,
    /// xlsx only: shared-formula groups
    pub shared: Vec<SharedGroup>,
    /// positions stored WITHOUT a value (a styled blank cell: xls BLANK, xlsx `<c r= s=/>`, xlsb BrtCellBlank, ods an
    /// empty `table:table-cell`): present in the file, never a value, never part of the used range
    pub blanks: BTreeSet<(u32, u32)>,
    /// xlsx only: tables declared on this sheet (a relationships part of the sheet + one table part each)
    pub tables: Vec<LTable>,
    /// xlsx only: `<mergeCell ref=…>` values, written as given — an entry that is no reference makes
    /// `load_merged_regions()` fail
    pub merges: Vec<String>,
    /// xlsx only: a cell the reader rejects (`t="e"` with a text that is no error literal): every read of this sheet
    /// fails
    pub poison: Option<(u32, u32)>,
}

/// an xlsx table: display name, `ref` rectangle (header row included), column names
#[derive(Clone, Debug, Default)]
pub struct LTable {
    pub name: String,
    pub rect: ((u32, u32), (u32, u32)),
    pub columns: Vec<String>,
}

/// One xlsx shared-formula group: the cells `members` (in document order) carry `<f t="shared" si=…>`; the one at
/// index `master` (if any) also carries the text and the `ref`. A master that is not the first member, or no master
/// at all, is unusual but must not make reads depend on each other.
#[derive(Clone, Debug, Default)]
pub struct SharedGroup {
    pub si: u32,
    pub members: Vec<(u32, u32)>,
    pub master: Option<usize>,
    pub text: String,
}

#[derive(Clone, Debug, Default)]
pub struct LBook {
    pub sheets: Vec<LSheet>,
    /// bytes of the part `xl/vbaProject.bin` (xlsx, xlsb; the other formats ignore it). The reader only looks at it
    /// when `vba_project()` is called (C07: repeated calls, also on a part that cannot be parsed)
    pub vba: Option<Vec<u8>>,
}

#[derive(Clone, Copy, Debug, PartialEq, Eq)]
pub enum Fmt {
    Xls,
    Xlsx,
    Xlsb,
    Ods,
}

pub const ALL_FORMATS: [Fmt; 4] = [Fmt::Xls, Fmt::Xlsx, Fmt::Xlsb, Fmt::Ods];

impl Fmt {
    pub fn name(&self) -> &'static str {
        match self {
            Fmt::Xls => "xls",
            Fmt::Xlsx => "xlsx",
            Fmt::Xlsb => "xlsb",
            Fmt::Ods => "ods",
        }
    }
    pub fn parse(s: &str) -> Fmt {
        match s {
            "xls" => Fmt::Xls,
            "xlsx" => Fmt::Xlsx,
            "xlsb" => Fmt::Xlsb,
            "ods" => Fmt::Ods,
            x => panic!("format {x}"),
        }
    }
    pub fn max_row(&self) -> u32 {
        match self {
            Fmt::Xls => 65535,
            // OpenDocument has no row limit (office suites stop at 2^20 rows, the format does not)
            Fmt::Ods => 3_000_000,
            _ => 1_048_575,
        }
    }
    pub fn max_col(&self) -> u32 {
        match self {
            Fmt::Xls => 255,
            Fmt::Ods => 1023,
            _ => 16383,
        }
    }
    /// lazy = cells are streamed and windowed at read time (xlsx, xlsb); eager = range built at open (xls, ods)
    pub fn lazy(&self) -> bool {
        matches!(self, Fmt::Xlsx | Fmt::Xlsb)
    }
}

/// Serialise the logical workbook in the given format (physical layout knobs randomised from `rng`).
pub fn write(book: &LBook, fmt: Fmt, rng: &mut Rng) -> Vec<u8> {
    match fmt {
        Fmt::Xls => {
            let mut b = xlsw::XlsBook::new();
            for s in &book.sheets {
                let mut sh = xlsw::XlsSheet::new(&s.name);
                sh.kind = match s.kind {
                    1 => 2,
                    2 => 1,
                    _ => 0,
                };
                for ((r, c), v) in &s.cells {
                    let cv = match v {
                        V::Num(f) => xlsw::CellV::Number(*f),
                        V::Str(t) => xlsw::CellV::Label(t.clone(), None),
                        V::Bool(x) => xlsw::CellV::Bool(*x),
                    };
                    sh.cells.push(xlsw::XlsCell::new(*r as u16, *c as u16, cv));
                }
                for (r, c) in &s.blanks {
                    if !s.cells.contains_key(&(*r, *c)) {
                        sh.cells.push(xlsw::XlsCell::new(*r as u16, *c as u16, xlsw::CellV::Blank));
                    }
                }
                sh.cells.sort_by_key(|c| (c.row, c.col));
                b.sheets.push(sh);
            }
            b.to_bytes(rng)
        }
        Fmt::Xlsx => {
            let mut b = xlsxw::XlsxBook::new();
            for s in &book.sheets {
                let mut sh = xlsxw::XlsxSheet::new(&s.name);
                sh.folder = match s.kind {
                    1 => "chartsheets",
                    2 => "dialogsheets",
                    _ => "worksheets",
                }
                .to_string();
                for ((r, c), v) in &s.cells {
                    let xv = match v {
                        V::Num(f) => xlsxw::XVal::Num(format!("{}", f)),
                        V::Str(t) => {
                            if rng.chance(1, 2) {
                                xlsxw::XVal::SharedStr(t.clone())
                            } else {
                                xlsxw::XVal::InlineStr(t.clone())
                            }
                        }
                        V::Bool(x) => xlsxw::XVal::Bool(*x),
                    };
                    let mut cell = xlsxw::XCell::new(xv);
                    if let Some(f) = s.formulas.get(&(*r, *c)) {
                        cell = cell.with_formula(f);
                    }
                    sh.set(*r, *c, cell);
                }
                for (r, c) in &s.blanks {
                    if !s.cells.contains_key(&(*r, *c)) {
                        sh.set(*r, *c, xlsxw::XCell::new(xlsxw::XVal::Empty));
                    }
                }
                if let Some((r, c)) = s.poison {
                    sh.set(r, c, xlsxw::XCell::new(xlsxw::XVal::Err("#SPILL!".into())));
                }
                if !s.merges.is_empty() {
                    let mut x = format!("<mergeCells count=\"{}\">", s.merges.len());
                    for m in &s.merges {
                        x.push_str(&format!("<mergeCell ref=\"{}\"/>", m));
                    }
                    x.push_str("</mergeCells>");
                    sh.extra_after_sheet_data.push_str(&x);
                }
                if !s.tables.is_empty() {
                    let sheet_no = b.sheets.len() + 1;
                    let mut rels = String::from("<?xml version=\"1.0\" encoding=\"UTF-8\" standalone=\"yes\"?>\n<Relationships xmlns=\"http://schemas.openxmlformats.org/package/2006/relationships\">");
                    for (k, t) in s.tables.iter().enumerate() {
                        let part = format!("xl/tables/table{}_{}.xml", sheet_no, k + 1);
                        rels.push_str(&format!(
                            "<Relationship Id=\"rId{}\" Type=\"http://schemas.openxmlformats.org/officeDocument/2006/relationships/table\" Target=\"../tables/table{}_{}.xml\"/>",
                            k + 1, sheet_no, k + 1
                        ));
                        let mut x = format!(
                            "<?xml version=\"1.0\" encoding=\"UTF-8\" standalone=\"yes\"?>\n<table xmlns=\"http://schemas.openxmlformats.org/spreadsheetml/2006/main\" id=\"{}\" name=\"{}\" displayName=\"{}\" ref=\"{}\" headerRowCount=\"1\"><tableColumns count=\"{}\">",
                            k + 1, t.name, t.name, xlsxw::rect_ref(t.rect), t.columns.len()
                        );
                        for (j, c) in t.columns.iter().enumerate() {
                            x.push_str(&format!("<tableColumn id=\"{}\" name=\"{}\"/>", j + 1, c));
                        }
                        x.push_str("</tableColumns></table>");
                        b.extra_parts.push((part, x.into_bytes()));
                    }
                    rels.push_str("</Relationships>");
                    b.extra_parts.push((format!("xl/{}/_rels/sheet{}.xml.rels", sh.folder, sheet_no), rels.into_bytes()));
                }
                for g in &s.shared {
                    let (r0, c0) = *g.members.iter().min().unwrap();
                    let (r1, c1) = *g.members.iter().max().unwrap();
                    let rf = format!("{}:{}", xlsxw::a1(r0, c0), xlsxw::a1(r1, c1));
                    for (i, (r, c)) in g.members.iter().enumerate() {
                        let is_master = g.master == Some(i);
                        let mut cell = sh.cells.get(&(*r, *c)).cloned().unwrap_or(xlsxw::XCell::new(xlsxw::XVal::Num("1.5".into())));
                        cell.formula = Some(xlsxw::XFormula {
                            text: if is_master { g.text.clone() } else { String::new() },
                            shared: Some((g.si, if is_master { Some(rf.clone()) } else { None })),
                        });
                        sh.set(*r, *c, cell);
                    }
                }
                b.sheets.push(sh);
            }
            let mut l = xlsxw::Layout::random(rng);
            // keep to the encodings every fixed tree reads (prefix / relationship-prefix knobs belong to C01)
            l.prefix = String::new();
            l.rel_prefix = "r".into();
            l.rel_decl = xlsxw::RelDecl::Workbook;
            // rows out of ascending order (schema-valid; what a read must not depend on) — not with shared-formula
            // groups, whose members are given in document order
            l.shuffle_rows = rng.chance(1, 5) && book.sheets.iter().all(|s| s.shared.is_empty());
            if let Some(v) = &book.vba {
                b.extra_parts.push(("xl/vbaProject.bin".into(), v.clone()));
            }
            b.build(&l).bytes
        }
        Fmt::Xlsb => {
            let mut b = xlsbw::XlsbBook::new();
            for s in &book.sheets {
                let mut sh = xlsbw::XlsbSheet::new(&s.name);
                sh.kind = match s.kind {
                    1 => xlsbw::SheetKind::Chart,
                    2 => xlsbw::SheetKind::Dialog,
                    _ => xlsbw::SheetKind::Work,
                };
                sh.no_rel = s.no_rel;
                // rows out of ascending order in the part (each keeps its row header): what a read must not depend on
                if rng.chance(1, 5) {
                    sh.row_order = Some(rng.next());
                }
                for ((r, c), v) in &s.cells {
                    let bv = match v {
                        V::Num(f) => xlsbw::BVal::real(*f),
                        V::Str(t) => xlsbw::BVal::str(t),
                        V::Bool(x) => xlsbw::BVal::Bool(*x as u8),
                    };
                    sh.set(*r, *c, bv);
                }
                for (r, c) in &s.blanks {
                    if !s.cells.contains_key(&(*r, *c)) {
                        sh.set(*r, *c, xlsbw::BVal::Blank);
                    }
                }
                b.sheets.push(sh);
            }
            b.vba = book.vba.clone();
            b.to_bytes()
        }
        Fmt::Ods => {
            let mut sheets = vec![];
            for s in &book.sheets {
                let mut rows: Vec<odsw::RowRun> = vec![];
                let mut next_row = 0u32;
                let mut by_row: BTreeMap<u32, Vec<(u32, Option<&V>)>> = BTreeMap::new();
                for ((r, c), v) in &s.cells {
                    by_row.entry(*r).or_default().push((*c, Some(v)));
                }
                for (r, c) in &s.blanks {
                    if !s.cells.contains_key(&(*r, *c)) {
                        by_row.entry(*r).or_default().push((*c, None));
                    }
                }
                for row in by_row.values_mut() {
                    row.sort_by_key(|x| x.0);
                }
                for (r, cells) in by_row {
                    if r > next_row {
                        rows.push(odsw::RowRun::new(vec![odsw::OdsCell::empty()]).times((r - next_row) as usize));
                    }
                    let mut row = vec![];
                    let mut next_col = 0u32;
                    for (c, v) in cells {
                        if c > next_col {
                            row.push(odsw::OdsCell::empty_run((c - next_col) as usize));
                        }
                        let Some(v) = v else {
                            row.push(odsw::OdsCell::empty());
                            next_col = c + 1;
                            continue;
                        };
                        let mut cell = odsw::OdsCell::new(match v {
                            V::Num(f) => odsw::OdsVal::Float(*f),
                            V::Str(t) => odsw::OdsVal::Str(t.clone()),
                            V::Bool(x) => odsw::OdsVal::Bool(*x),
                        });
                        if let Some(f) = s.formulas.get(&(r, c)) {
                            cell = cell.with_formula(f);
                        }
                        row.push(cell);
                        next_col = c + 1;
                    }
                    rows.push(odsw::RowRun::new(row));
                    next_row = r + 1;
                }
                sheets.push(odsw::OdsSheet::new(&s.name, rows));
            }
            odsw::OdsBook::new(sheets).to_bytes()
        }
    }
}

pub type AnyBook = Sheets<Cursor<Vec<u8>>>;

/// Open with the format's own reader, wrapped in `Sheets` for a uniform `Reader` interface.
pub fn open(bytes: Vec<u8>, fmt: Fmt) -> Result<AnyBook, String> {
    let c = Cursor::new(bytes);
    match fmt {
        Fmt::Xls => Xls::new(c).map(Sheets::Xls).map_err(|e| format!("{e:?}")),
        Fmt::Xlsx => Xlsx::new(c).map(Sheets::Xlsx).map_err(|e| format!("{e:?}")),
        Fmt::Xlsb => Xlsb::new(c).map(Sheets::Xlsb).map_err(|e| format!("{e:?}")),
        Fmt::Ods => Ods::new(c).map(Sheets::Ods).map_err(|e| format!("{e:?}")),
    }
}

const WORDS: [&str; 12] = ["a", "b", "héllo", "x y", "Z", "Σ", "q1", "w", "A1", "tab", "é", "v"];

pub fn gen_value(rng: &mut Rng) -> V {
    match rng.below(10) {
        0..=4 => V::Num(rng.below(2000) as f64 - 1000.0 + 0.5),
        5..=8 => V::Str(format!("{}{}", rng.pick(&WORDS), rng.below(50))),
        _ => V::Bool(rng.chance(1, 2)),
    }
}

/// A sparse sheet inside a small window placed anywhere the format allows (rows incl. 0 and the format's
/// last row), with empty rows/columns inside. `max_cells` cells at most; the window is at most 40 × 12.
pub fn gen_sheet(rng: &mut Rng, fmt: Fmt, name: &str, max_cells: u64) -> LSheet {
    let o = gen_origin(rng, fmt);
    gen_sheet_at(rng, name, max_cells, o)
}

/// a window (r0, c0, h, w) of at most 40 x 12 cells placed anywhere the format allows
pub fn gen_origin(rng: &mut Rng, fmt: Fmt) -> (u32, u32, u32, u32) {
    let h = rng.range(1, 40) as u32;
    let w = rng.range(1, 12) as u32;
    let r0 = match rng.below(6) {
        0 => 0,
        1 => fmt.max_row() - h + 1,
        2 => rng.below(3) as u32,
        _ => rng.below(200) as u32,
    };
    let c0 = match rng.below(6) {
        0 => 0,
        1 => fmt.max_col() - w + 1,
        _ => rng.below(30) as u32,
    };
    (r0, c0, h, w)
}

pub fn gen_sheet_at(rng: &mut Rng, name: &str, max_cells: u64, (r0, c0, h, w): (u32, u32, u32, u32)) -> LSheet {
    let mut s = LSheet { name: name.into(), ..Default::default() };
    let n = rng.below(max_cells + 1);
    for _ in 0..n {
        let r = r0 + rng.below(h as u64) as u32;
        let c = c0 + rng.below(w as u64) as u32;
        s.cells.insert((r, c), gen_value(rng));
    }
    // blank (styled, valueless) cells inside the window: on data rows, on gap rows, above the first and below the
    // last data row — a row may hold nothing but blanks
    if rng.chance(1, 3) {
        for _ in 0..rng.range(1, 8) {
            let p = (r0 + rng.below(h as u64) as u32, c0 + rng.below(w as u64) as u32);
            if !s.cells.contains_key(&p) {
                s.blanks.insert(p);
            }
        }
    }
    s
}

/// like `gen_book`, plus what the reader-API properties need: sheets of other kinds, plain formulas (xlsx, ods),
/// xlsx shared-formula groups (master first / last / absent, `si` reused across sheets), an xlsb sheet entry
/// without relationship
pub fn gen_book_rich(rng: &mut Rng, fmt: Fmt, max_sheets: u64, max_cells: u64) -> LBook {
    let mut b = gen_book_dup(rng, fmt, max_sheets, max_cells);
    let n = b.sheets.len();
    for (i, s) in b.sheets.iter_mut().enumerate() {
        if fmt != Fmt::Ods && n > 1 && rng.chance(1, 5) {
            s.kind = rng.range(1, 2) as u8;
        }
        if fmt == Fmt::Xlsb && n > 1 && i + 1 < n && rng.chance(1, 6) {
            s.no_rel = true;
        }
        if matches!(fmt, Fmt::Xlsx | Fmt::Ods) {
            let keys: Vec<(u32, u32)> = s.cells.keys().cloned().collect();
            for k in keys {
                if rng.chance(1, 5) {
                    let f = if fmt == Fmt::Ods { format!("of:={}+1", rng.below(9)) } else { format!("{}+1", rng.below(9)) };
                    s.formulas.insert(k, f);
                }
            }
        }
        if fmt == Fmt::Xlsx && s.kind == 0 && !s.cells.is_empty() {
            let (r0, c0) = (s.cells.keys().map(|k| k.0).min().unwrap(), s.cells.keys().map(|k| k.1).min().unwrap());
            let (r1, c1) = (s.cells.keys().map(|k| k.0).max().unwrap(), s.cells.keys().map(|k| k.1).max().unwrap());
            if rng.chance(1, 3) {
                // a table over the used range (named T<sheet no>: the histories ask for T1)
                let columns = (c0..=c1).map(|c| format!("c{c}")).collect();
                s.tables.push(LTable { name: format!("T{}", i + 1), rect: ((r0, c0), (r1, c1)), columns });
            }
            if rng.chance(1, 3) {
                s.merges.push(xlsxw::rect_ref(((r0, c0), (r0 + rng.below(2) as u32, c0 + 1 + rng.below(2) as u32))));
                if rng.chance(1, 2) {
                    s.merges.push(xlsxw::rect_ref(((r1 + 1, c0), (r1 + 2, c0))));
                }
                if rng.chance(1, 4) {
                    // not a reference: load_merged_regions() fails on this workbook
                    let at = rng.below(s.merges.len() as u64 + 1) as usize;
                    s.merges.insert(at, (*rng.pick(&["ZZ", "", "A0:B2", "1:2"])).to_string());
                }
            }
            // a sheet that cannot be read — more often when a table lives on it (a table lookup then fails half-way)
            if rng.chance(1, if s.tables.is_empty() { 10 } else { 3 }) {
                s.poison = Some((r1 + 1, c0));
            }
        }
        if fmt == Fmt::Xlsx && s.kind == 0 && rng.chance(1, 2) {
            if let Some(&(r, c)) = s.cells.keys().next() {
                let len = rng.range(2, 4) as u32;
                let members: Vec<(u32, u32)> = (0..len).map(|k| (r + k, c)).collect();
                if members.iter().all(|m| m.0 <= fmt.max_row()) {
                    let master = match rng.below(20) {
                        0..=11 => Some(0),
                        12..=16 => Some(len as usize - 1),
                        _ => None,
                    };
                    for m in &members {
                        s.formulas.remove(m);
                    }
                    s.shared.push(SharedGroup { si: rng.below(2) as u32, members, master, text: format!("{}*2", xlsxw::a1(r, c + 1)) });
                }
            }
        }
    }
    b
}

pub fn gen_book(rng: &mut Rng, fmt: Fmt, max_sheets: u64, max_cells: u64) -> LBook {
    let n = rng.range(1, max_sheets);
    let mut b = LBook::default();
    // all sheets of a book live in the same window, so that a header row taken from one sheet does not make
    // another sheet allocate a huge dense rectangle (ledger D37)
    let o = gen_origin(rng, fmt);
    for i in 0..n {
        let name = format!("S{}{}", i, rng.pick(&["", "x", " y", "é"]));
        b.sheets.push(gen_sheet_at(rng, &name, max_cells, o));
    }
    b
}

/// `gen_book`, where one book in eight has two sheets carrying the SAME name (the readers accept that: a name then
/// resolves to the first sheet that carries it)
pub fn gen_book_dup(rng: &mut Rng, fmt: Fmt, max_sheets: u64, max_cells: u64) -> LBook {
    let mut b = gen_book(rng, fmt, max_sheets, max_cells);
    if b.sheets.len() >= 2 && rng.chance(1, 8) {
        let k = 1 + rng.below(b.sheets.len() as u64 - 1) as usize;
        b.sheets[k].name = b.sheets[0].name.clone();
    }
    b
}
