//! Collects what a run covered and what failed; written as JSON for `./check`.
use serde_json::{json, Value};
use std::collections::{BTreeMap, HashSet};

#[derive(Clone)]
pub struct Failure {
    /// "impl_vs_model" (correspondence), "impl_vs_spec" (property oracle on the implementation),
    /// "model_vs_spec" (machinery inconsistent)
    pub kind: String,
    /// stable signature used to match known findings
    pub sig: String,
    pub input: String,
    pub impl_out: String,
    pub model_out: String,
    pub expect: String,
}

pub struct Report {
    pub property: String,
    pub evaluations: u64,
    distinct: HashSet<u64>,
    pub rule: String,
    pub samples: Vec<String>,
    pub counters: BTreeMap<String, u64>,
    pub failures: Vec<Failure>,
    pub failure_count: BTreeMap<String, u64>,
    pub exhaustive: bool,
    pub notes: Vec<String>,
}

impl Report {
    pub fn new(property: &str, rule: &str) -> Report {
        Report {
            property: property.into(),
            evaluations: 0,
            distinct: HashSet::new(),
            rule: rule.into(),
            samples: vec![],
            counters: BTreeMap::new(),
            failures: vec![],
            failure_count: BTreeMap::new(),
            exhaustive: false,
            notes: vec![],
        }
    }
    /// record one evaluated case; `nontrivial` by the binary's stated rule
    pub fn case(&mut self, input: &str, nontrivial: bool) {
        self.evaluations += 1;
        if nontrivial {
            self.distinct.insert(crate::fnv64(input.as_bytes()));
        }
        if self.samples.len() < 5 || (self.samples.len() < 8 && self.evaluations % 997 == 0) {
            let mut s = input.to_string();
            if s.len() > 600 {
                s.truncate(600);
                s.push('…');
            }
            self.samples.push(s);
        }
    }
    /// count `n` evaluations of a swept block without storing each
    pub fn bulk(&mut self, n: u64, distinct_nontrivial: u64, sample: &str) {
        self.evaluations += n;
        for i in 0..distinct_nontrivial.min(1) {
            let _ = i;
        }
        *self.counters.entry("bulk_distinct".into()).or_insert(0) += distinct_nontrivial;
        if self.samples.len() < 8 {
            self.samples.push(sample.to_string());
        }
    }
    pub fn count(&mut self, key: &str) {
        *self.counters.entry(key.into()).or_insert(0) += 1;
    }
    pub fn add(&mut self, key: &str, n: u64) {
        *self.counters.entry(key.into()).or_insert(0) += n;
    }
    pub fn fail(&mut self, kind: &str, sig: &str, input: &str, impl_out: &str, model_out: &str, expect: &str) {
        *self.failure_count.entry(format!("{kind}|{sig}")).or_insert(0) += 1;
        // keep the shortest input per (kind, sig), at most 40 distinct signatures
        if let Some(f) = self.failures.iter_mut().find(|f| f.kind == kind && f.sig == sig) {
            if input.len() < f.input.len() {
                f.input = input.into();
                f.impl_out = impl_out.into();
                f.model_out = model_out.into();
                f.expect = expect.into();
            }
            return;
        }
        if self.failures.len() < 40 {
            self.failures.push(Failure {
                kind: kind.into(),
                sig: sig.into(),
                input: input.into(),
                impl_out: impl_out.into(),
                model_out: model_out.into(),
                expect: expect.into(),
            });
        }
    }
    pub fn to_json(&self) -> Value {
        let clip = |s: &String| -> String {
            if s.len() > 20000 {
                format!("{}…[{} bytes]", &s[..s.char_indices().map(|(i, _)| i).take_while(|i| *i <= 20000).last().unwrap_or(0)], s.len())
            } else {
                s.clone()
            }
        };
        json!({
            "property": self.property,
            "evaluations": self.evaluations,
            "distinct_nontrivial": self.distinct.len() as u64 + self.counters.get("bulk_distinct").copied().unwrap_or(0),
            "rule": self.rule,
            "samples": self.samples,
            "counters": self.counters,
            "exhaustive": self.exhaustive,
            "notes": self.notes,
            "failure_count": self.failure_count,
            "failures": self.failures.iter().map(|f| json!({
                "kind": f.kind, "sig": f.sig, "input": clip(&f.input),
                "impl": clip(&f.impl_out), "model": clip(&f.model_out), "expect": clip(&f.expect)
            })).collect::<Vec<_>>(),
        })
    }
    pub fn write(&self, path: &str) {
        let s = serde_json::to_string_pretty(&self.to_json()).unwrap();
        if path.is_empty() {
            println!("{s}");
        } else {
            std::fs::write(path, s).expect("write report");
        }
    }
}
