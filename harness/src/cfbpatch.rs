//! Post-processing of compound files produced by `cfbw` (or anything else): an independent, minimal walk of the
//! directory chain plus patches of fields that MS-CFB tells readers to ignore (or that a flat writer cannot
//! express): CLSID, state bits, timestamps, the high half of the stream size in version-3 files
//! (MS-CFB 2.6.3: "parsers must ignore the most significant 32 bits" there), and the object type of an entry
//! (to turn an empty stream entry into a STORAGE entry, e.g. the designer storage of a UserForm that carries
//! the same name as the form's module stream).
use crate::rng::Rng;

fn u32_at(b: &[u8], o: usize) -> u32 {
    u32::from_le_bytes([b[o], b[o + 1], b[o + 2], b[o + 3]])
}

/// byte offsets (in the file) of all 128-byte directory entries, in directory order
pub fn dir_entry_offsets(file: &[u8]) -> Vec<usize> {
    let ss = 1usize << u16::from_le_bytes([file[30], file[31]]);
    let per = ss / 4;
    let sector = |k: u32| (k as usize + 1) * ss;
    // FAT sector ids: 109 in the header, the rest through the DIFAT chain
    let mut fat_ids: Vec<u32> = (0..109).map(|k| u32_at(file, 76 + 4 * k)).filter(|x| *x < 0xFFFF_FFFA).collect();
    let mut dif = u32_at(file, 68);
    let mut guard = 0;
    while dif < 0xFFFF_FFFA && guard < 1 << 16 {
        let o = sector(dif);
        for k in 0..per - 1 {
            let x = u32_at(file, o + 4 * k);
            if x < 0xFFFF_FFFA {
                fat_ids.push(x);
            }
        }
        dif = u32_at(file, o + 4 * (per - 1));
        guard += 1;
    }
    let fat_entry = |i: u32| -> u32 {
        let (s, k) = (i as usize / per, i as usize % per);
        match fat_ids.get(s) {
            Some(id) => u32_at(file, sector(*id) + 4 * k),
            None => 0xFFFF_FFFE,
        }
    };
    let mut out = vec![];
    let mut s = u32_at(file, 48);
    let mut guard = 0;
    while s < 0xFFFF_FFFA && guard < 1 << 20 {
        for e in 0..ss / 128 {
            out.push(sector(s) + 128 * e);
        }
        s = fat_entry(s);
        guard += 1;
    }
    out
}

/// content of the first STREAM entry called `name` that is held in regular sectors (size >= 4096), read through
/// the FAT by this independent walk; `None` for a missing name or a mini-stream entry
pub fn read_regular_stream(file: &[u8], name: &str) -> Option<Vec<u8>> {
    let ss = 1usize << u16::from_le_bytes([file[30], file[31]]);
    let per = ss / 4;
    let sector = |k: u32| (k as usize + 1) * ss;
    let mut fat_ids: Vec<u32> = (0..109).map(|k| u32_at(file, 76 + 4 * k)).filter(|x| *x < 0xFFFF_FFFA).collect();
    let mut dif = u32_at(file, 68);
    let mut guard = 0;
    while dif < 0xFFFF_FFFA && guard < 1 << 16 {
        let o = sector(dif);
        for k in 0..per - 1 {
            let x = u32_at(file, o + 4 * k);
            if x < 0xFFFF_FFFA {
                fat_ids.push(x);
            }
        }
        dif = u32_at(file, o + 4 * (per - 1));
        guard += 1;
    }
    let off = dir_entry_offsets(file).into_iter().find(|o| file[o + 66] == 2 && entry_name(file, *o) == name)?;
    let size = if ss == 512 { u32_at(file, off + 120) as usize } else { u64::from_le_bytes(file[off + 120..off + 128].try_into().ok()?) as usize };
    if size < 4096 {
        return None;
    }
    let mut out = Vec::with_capacity(size);
    let mut s = u32_at(file, off + 116);
    while s < 0xFFFF_FFFA && out.len() < size {
        let o = sector(s);
        out.extend_from_slice(file.get(o..(o + ss).min(file.len()))?);
        let id = *fat_ids.get(s as usize / per)?;
        s = u32_at(file, sector(id) + 4 * (s as usize % per));
    }
    out.truncate(size);
    Some(out)
}

pub fn entry_name(file: &[u8], off: usize) -> String {
    let units: Vec<u16> = (0..32).map(|k| u16::from_le_bytes([file[off + 2 * k], file[off + 2 * k + 1]])).take_while(|u| *u != 0).collect();
    String::from_utf16_lossy(&units)
}

/// random garbage in every field of every used entry that a reader has to ignore; returns what was touched
pub fn garbage_ignored_fields(file: &mut [u8], rng: &mut Rng) -> Vec<&'static str> {
    let v3 = u16::from_le_bytes([file[30], file[31]]) == 9;
    let mut touched = vec!["clsid", "state", "times"];
    if v3 {
        touched.push("size-high-half(v3)");
    }
    for off in dir_entry_offsets(file) {
        let typ = file[off + 66];
        if typ == 0 {
            continue; // unused entry
        }
        for k in 80..116 {
            file[off + k] = rng.next() as u8; // CLSID, state bits, creation and modification time
        }
        if v3 {
            // the most significant 32 bits of the size: never all zero here
            let g = (rng.next() as u32) | 1 << rng.below(32);
            file[off + 124..off + 128].copy_from_slice(&g.to_le_bytes());
        }
    }
    touched
}

/// set the object type (1 storage, 2 stream) of the `nth` entry (0-based, in directory order) called `name`
pub fn set_entry_type(file: &mut [u8], name: &str, nth: usize, typ: u8) -> bool {
    let mut seen = 0;
    for off in dir_entry_offsets(file) {
        if file[off + 66] != 0 && entry_name(file, off) == name {
            if seen == nth {
                file[off + 66] = typ;
                return true;
            }
            seen += 1;
        }
    }
    false
}
