//! Pipe to the compiled Lean driver: one request line, one reply line.
use std::io::{BufRead, BufReader, Write};
use std::process::{Child, ChildStdin, ChildStdout, Command, Stdio};

pub struct Driver {
    child: Child,
    stdin: ChildStdin,
    stdout: BufReader<ChildStdout>,
    pub requests: u64,
}

impl Driver {
    pub fn spawn(path: &str) -> Driver {
        let mut child = Command::new(path)
            .stdin(Stdio::piped())
            .stdout(Stdio::piped())
            .spawn()
            .unwrap_or_else(|e| panic!("cannot start driver {path}: {e}"));
        let stdin = child.stdin.take().unwrap();
        let stdout = BufReader::with_capacity(1 << 20, child.stdout.take().unwrap());
        Driver { child, stdin, stdout, requests: 0 }
    }
    pub fn ask(&mut self, line: &str) -> String {
        debug_assert!(!line.contains('\n'));
        self.stdin.write_all(line.as_bytes()).expect("driver write");
        self.stdin.write_all(b"\n").expect("driver write");
        self.stdin.flush().expect("driver flush");
        let mut reply = String::new();
        let n = self.stdout.read_line(&mut reply).expect("driver read");
        if n == 0 {
            panic!("driver closed its output on request: {}", &line[..line.len().min(200)]);
        }
        self.requests += 1;
        while reply.ends_with('\n') || reply.ends_with('\r') {
            reply.pop();
        }
        reply
    }
}

impl Drop for Driver {
    fn drop(&mut self) {
        let _ = self.child.kill();
        let _ = self.child.wait();
    }
}
