//! Minimal XLSB (Excel binary workbook) writer shared by the property binaries
//! (C03 cells, C07 purity, C08 header row, C10 number formats, C14 formulas, C16 metadata, C20 password).
//!
//! ```ignore
//! let mut b = XlsbBook::new();
//! let mut s = XlsbSheet::new("Sheet1");
//! s.set(0, 0, BVal::Real(1.5f64.to_bits()));
//! s.set(2, 3, BVal::str("héllo"));
//! b.sheets.push(s);
//! let bytes = b.to_bytes();                      // a complete zip
//! let wb = calamine::Xlsb::new(std::io::Cursor::new(bytes));
//! ```
//! Every record goes through [`put_record`], whose [`Frame`] knob picks the width of the record id
//! (1 byte when the id is < 128, or 2 bytes for any id) and of the length varint (1..4 bytes, non-minimal
//! encodings included). [`Framing`] selects the knob per record for a whole book.
use crate::rng::Rng;
use std::collections::BTreeMap;
use std::io::{Cursor, Write};

/// Widths used to frame one record. `0` = minimal.
#[derive(Clone, Copy, Debug, Default, PartialEq)]
pub struct Frame {
    /// 0 or 1 = shortest (1 byte below 128, else 2); 2 = always two bytes
    pub id_w: u8,
    /// 0 = shortest; 1..=4 = that many bytes (falls back to the shortest when the length does not fit)
    pub len_w: u8,
}

/// number of 7-bit groups needed for `n` (at least 1)
pub fn min_len_width(n: usize) -> u8 {
    let mut w = 1;
    let mut m = n >> 7;
    while m != 0 {
        w += 1;
        m >>= 7;
    }
    w
}

/// record id: low 7 bits first, high bit of the first byte = "a second byte follows"
pub fn put_id(out: &mut Vec<u8>, id: u16, wide: bool) {
    assert!(id < 0x4000, "record ids have 14 bits");
    if id < 0x80 && !wide {
        out.push(id as u8);
    } else {
        out.push((id & 0x7F) as u8 | 0x80);
        out.push((id >> 7) as u8);
    }
}

/// record length: `w` groups of 7 bits, low group first, continuation bit on all but the last
pub fn put_len(out: &mut Vec<u8>, n: usize, w: u8) {
    assert!(n < (1 << 28), "record lengths have 28 bits");
    let need = min_len_width(n);
    let w = if w == 0 || w < need || w > 4 { need } else { w };
    for i in 0..w {
        let g = ((n >> (7 * i)) & 0x7F) as u8;
        out.push(if i + 1 < w { g | 0x80 } else { g });
    }
}

pub fn put_record(out: &mut Vec<u8>, id: u16, payload: &[u8], f: Frame) {
    put_id(out, id, f.id_w >= 2);
    put_len(out, payload.len(), f.len_w);
    out.extend_from_slice(payload);
}

/// How the records of a book are framed.
#[derive(Clone, Debug, PartialEq)]
pub enum Framing {
    /// shortest ids and lengths (what Excel writes)
    Minimal,
    /// 2-byte ids and 4-byte lengths everywhere
    Widest,
    /// per record: random legal widths, from this seed
    Random(u64),
}

/// Per-part framing state.
pub struct Framer {
    mode: Framing,
    rng: Rng,
}

impl Framer {
    pub fn new(mode: &Framing, salt: u64) -> Framer {
        let seed = match mode {
            Framing::Random(s) => *s ^ salt.wrapping_mul(0x9E3779B97F4A7C15),
            _ => 0,
        };
        Framer { mode: mode.clone(), rng: Rng::new(seed) }
    }
    pub fn next(&mut self) -> Frame {
        match self.mode {
            Framing::Minimal => Frame { id_w: 0, len_w: 0 },
            Framing::Widest => Frame { id_w: 2, len_w: 4 },
            Framing::Random(_) => Frame { id_w: self.rng.below(3) as u8, len_w: self.rng.below(5) as u8 },
        }
    }
    pub fn rec(&mut self, out: &mut Vec<u8>, id: u16, payload: &[u8]) {
        let f = self.next();
        put_record(out, id, payload, f);
    }
    /// a record framed minimally whatever the mode (for the parts whose reader scans payload bytes as record
    /// ids: `read_styles`, `read_workbook` only consume the payload of the records they know)
    pub fn rec_min(&mut self, out: &mut Vec<u8>, id: u16, payload: &[u8]) {
        put_record(out, id, payload, Frame::default());
    }
}

/// XLWideString: u32 count of UTF-16 units, then the units (little endian)
pub fn wide_units(units: &[u16]) -> Vec<u8> {
    let mut v = (units.len() as u32).to_le_bytes().to_vec();
    for u in units {
        v.extend_from_slice(&u.to_le_bytes());
    }
    v
}
pub fn wide_str(s: &str) -> Vec<u8> {
    wide_units(&s.encode_utf16().collect::<Vec<_>>())
}

/// Value part of a cell record.
#[derive(Clone, Debug, PartialEq)]
pub enum BVal {
    /// BrtCellBlank (not a value: the reader skips it)
    Blank,
    /// BrtCellRk: the raw 32-bit RK word (bit0 = /100, bit1 = integer, bits 2..32 = payload)
    Rk(u32),
    /// BrtCellError / BrtFmlaError: the BErr code (0x00 0x07 0x0F 0x17 0x1D 0x24 0x2A 0x2B)
    Error(u8),
    /// BrtCellBool / BrtFmlaBool (any byte; non-zero = true)
    Bool(u8),
    /// BrtCellReal / BrtFmlaNum: f64 bit pattern
    Real(u64),
    /// BrtCellSt / BrtFmlaString: inline string, UTF-16 units
    Str(Vec<u16>),
    /// BrtCellIsst: index into the shared string table
    Isst(u32),
}

impl BVal {
    pub fn str(s: &str) -> BVal {
        BVal::Str(s.encode_utf16().collect())
    }
    pub fn real(x: f64) -> BVal {
        BVal::Real(x.to_bits())
    }
    /// RK word of a 30-bit signed integer (−2^29 ≤ v < 2^29)
    pub fn rk_int(v: i32, d100: bool) -> BVal {
        assert!((-(1 << 29)..(1 << 29)).contains(&v));
        BVal::Rk(((v as u32) << 2) | 2 | d100 as u32)
    }
    /// RK word holding the top 30 bits of an f64 pattern (the low 34 bits are dropped)
    pub fn rk_float(bits: u64, d100: bool) -> BVal {
        BVal::Rk(((bits >> 32) as u32 & 0xFFFF_FFFC) | d100 as u32)
    }
    /// true when a BrtFmla* record exists for this kind of value
    pub fn has_fmla_record(&self) -> bool {
        matches!(self, BVal::Error(_) | BVal::Bool(_) | BVal::Real(_) | BVal::Str(_))
    }
}

/// Formula part of a BrtFmla* record: grbitFlags, CellParsedFormula (cce rgce cb rgcb).
#[derive(Clone, Debug, PartialEq, Default)]
pub struct Fmla {
    pub flags: u16,
    pub rgce: Vec<u8>,
    pub rgcb: Vec<u8>,
}

impl Fmla {
    /// `=1` (PtgInt 1)
    pub fn trivial() -> Fmla {
        Fmla { flags: 0, rgce: vec![0x1E, 1, 0], rgcb: vec![] }
    }
    pub fn bytes(&self) -> Vec<u8> {
        let mut v = self.flags.to_le_bytes().to_vec();
        v.extend_from_slice(&(self.rgce.len() as u32).to_le_bytes());
        v.extend_from_slice(&self.rgce);
        v.extend_from_slice(&(self.rgcb.len() as u32).to_le_bytes());
        v.extend_from_slice(&self.rgcb);
        v
    }
}

#[derive(Clone, Debug, PartialEq)]
pub struct BCell {
    /// bits 0..24: iStyleRef, index into `XlsbBook::xfs`; bits 24..32: the byte that follows it in the Cell structure
    /// (fPhShow = bit 0, the other bits reserved) — no reader of cell values may look at it (C10, seeded C10-m16)
    pub style: u32,
    pub val: BVal,
    /// `Some` → the BrtFmla* record of the value's kind is written (ignored for Blank/Rk/Isst)
    pub fmla: Option<Fmla>,
}

impl BCell {
    pub fn new(val: BVal) -> BCell {
        BCell { style: 0, val, fmla: None }
    }
    /// record id this cell is written with
    pub fn record_id(&self) -> u16 {
        let f = self.fmla.is_some();
        match (&self.val, f) {
            (BVal::Blank, _) => 1,
            (BVal::Rk(_), _) => 2,
            (BVal::Error(_), false) => 3,
            (BVal::Bool(_), false) => 4,
            (BVal::Real(_), false) => 5,
            (BVal::Str(_), false) => 6,
            (BVal::Isst(_), _) => 7,
            (BVal::Str(_), true) => 8,
            (BVal::Real(_), true) => 9,
            (BVal::Bool(_), true) => 10,
            (BVal::Error(_), true) => 11,
        }
    }
    /// payload of the cell record at column `col`
    pub fn payload(&self, col: u32) -> Vec<u8> {
        let mut v = col.to_le_bytes().to_vec();
        v.extend_from_slice(&self.style.to_le_bytes()); // iStyleRef (3 bytes), then the flags byte
        match &self.val {
            BVal::Blank => {}
            BVal::Rk(w) => v.extend_from_slice(&w.to_le_bytes()),
            BVal::Error(e) => v.push(*e),
            BVal::Bool(b) => v.push(*b),
            BVal::Real(bits) => v.extend_from_slice(&bits.to_le_bytes()),
            BVal::Str(u) => v.extend_from_slice(&wide_units(u)),
            BVal::Isst(i) => v.extend_from_slice(&i.to_le_bytes()),
        }
        if let (Some(f), true) = (&self.fmla, self.val.has_fmla_record()) {
            v.extend_from_slice(&f.bytes());
        }
        v
    }
}

#[derive(Clone, Copy, Debug, PartialEq)]
pub enum SheetKind {
    Work,
    Chart,
    Dialog,
    Macro,
}

impl SheetKind {
    pub fn dir(&self) -> &'static str {
        match self {
            SheetKind::Work => "worksheets",
            SheetKind::Chart => "chartsheets",
            SheetKind::Dialog => "dialogsheets",
            SheetKind::Macro => "macrosheets",
        }
    }
}

/// BrtRowHdr payload for row `r` (17 bytes: rw, ixfe, miyRw, flags, ccolspan = 0)
pub fn row_hdr(r: u32) -> Vec<u8> {
    let mut v = r.to_le_bytes().to_vec();
    v.extend_from_slice(&[0; 13]);
    v
}

/// record ids the cell loop of `XlsbCellsReader::next_cell` interprets: BrtRowHdr, the ten value records and
/// BrtEndSheetData. (BrtCellBlank = 1 is skipped like any unknown id.)
pub fn is_interpreted_id(id: u16) -> bool {
    id == 0 || (2..=11).contains(&id) || id == 0x92
}

#[derive(Clone, Debug)]
pub struct XlsbSheet {
    pub name: String,
    /// hsState: 0 visible, 1 hidden, 2 very hidden (other values make the reader fail)
    pub state: u32,
    pub kind: SheetKind,
    pub cells: BTreeMap<(u32, u32), BCell>,
    /// BrtWsDim `[rwFirst, rwLast, colFirst, colLast]`; `None` = bounding box of `cells` (zeros when empty)
    pub dims: Option<[u32; 4]>,
    /// `Some(seed)`: records the reader ignores are interleaved everywhere in the sheet data (and a column-info
    /// block and a BrtWsProp record are added before it)
    pub noise: Option<u64>,
    /// complete bytes of the sheet part, replacing everything above (the C03 harness lets the Lean encoder write it)
    pub raw: Option<Vec<u8>>,
    /// the BrtBundleSh carries a NULL relationship id (string length 0xFFFFFFFF) and the sheet has no part and no
    /// relationship: the reader skips such an entry entirely (used by C07)
    pub no_rel: bool,
    /// zip entry name of the part below `xl/`, also written as the relationship `Target` (`None` =
    /// `<kind dir>/sheet<n>.bin`)
    pub part: Option<String>,
    /// `Some(seed)`: the rows are written in a permuted order (each row keeps its BrtRowHdr and its cells in
    /// column order) — [MS-XLSB] wants ascending rows, but `Range::from_sparse` accepts any order
    pub row_order: Option<u64>,
}

impl XlsbSheet {
    pub fn new(name: &str) -> XlsbSheet {
        XlsbSheet { name: name.into(), state: 0, kind: SheetKind::Work, cells: BTreeMap::new(), dims: None, noise: None, raw: None, no_rel: false, part: None, row_order: None }
    }
    pub fn set(&mut self, row: u32, col: u32, val: BVal) -> &mut BCell {
        self.cells.insert((row, col), BCell::new(val));
        self.cells.get_mut(&(row, col)).unwrap()
    }
    pub fn bbox(&self) -> [u32; 4] {
        let mut it = self.cells.keys();
        match it.next() {
            None => [0, 0, 0, 0],
            Some(&(r, c)) => {
                let mut d = [r, r, c, c];
                for &(r, c) in it {
                    d[0] = d[0].min(r);
                    d[1] = d[1].max(r);
                    d[2] = d[2].min(c);
                    d[3] = d[3].max(c);
                }
                d
            }
        }
    }
    /// everything before the first BrtRowHdr: BrtBeginSheet … BrtBeginSheetData
    pub fn prologue(&self, fr: &mut Framer) -> Vec<u8> {
        let mut o = vec![];
        let noisy = self.noise.is_some();
        fr.rec(&mut o, 0x0081, &[]); // BrtBeginSheet
        if noisy {
            fr.rec(&mut o, 0x0093, &[0xC9, 0x04, 0x02, 0, 0x40, 0, 0, 0, 0, 0, 0, 0, 0, 0, 0, 0xFF, 0xFF, 0xFF, 0xFF, 0, 0, 0, 0]); // BrtWsProp
        }
        let d = self.dims.unwrap_or_else(|| self.bbox());
        let mut dim = vec![];
        for x in d {
            dim.extend_from_slice(&x.to_le_bytes());
        }
        fr.rec(&mut o, 0x0094, &dim); // BrtWsDim
        fr.rec(&mut o, 0x0085, &[]); // BrtBeginWsViews
        fr.rec(&mut o, 0x0089, &[0; 30]); // BrtBeginWsView
        fr.rec(&mut o, 0x008A, &[]); // BrtEndWsView
        fr.rec(&mut o, 0x0086, &[]); // BrtEndWsViews
        fr.rec(&mut o, 0x01E5, &[0xFF, 0xFF, 0xFF, 0xFF, 8, 0, 0x2C, 1, 0, 0, 0, 0]); // BrtWsFmtInfo
        if noisy {
            fr.rec(&mut o, 0x0186, &[]); // BrtBeginColInfos
            fr.rec(&mut o, 0x003C, &[0, 0, 0, 0, 2, 0, 0, 0, 0, 9, 0, 0, 0, 0, 0, 0, 2, 0]); // BrtColInfo
            fr.rec(&mut o, 0x0187, &[]); // BrtEndColInfos
        }
        fr.rec(&mut o, 0x0091, &[]); // BrtBeginSheetData
        o
    }
    /// BrtEndSheetData … BrtEndSheet
    pub fn epilogue(&self, fr: &mut Framer) -> Vec<u8> {
        let mut o = vec![];
        fr.rec(&mut o, 0x0092, &[]); // BrtEndSheetData
        fr.rec(&mut o, 0x0082, &[]); // BrtEndSheet
        o
    }
    /// the sheet part
    pub fn part(&self, framing: &Framing, salt: u64) -> Vec<u8> {
        if let Some(r) = &self.raw {
            return r.clone();
        }
        let mut fr = Framer::new(framing, salt);
        let mut o = self.prologue(&mut fr);
        let mut noise = self.noise.map(Rng::new);
        // rows in ascending order, or permuted (`row_order`)
        let mut rows: Vec<u32> = self.cells.keys().map(|k| k.0).collect();
        rows.dedup();
        if let Some(seed) = self.row_order {
            Rng::new(seed).shuffle(&mut rows);
        }
        for r in rows {
            noise_records(&mut o, &mut noise, &mut fr);
            fr.rec(&mut o, 0x0000, &row_hdr(r));
            for (&(_, c), cell) in self.cells.range((r, 0)..=(r, u32::MAX)) {
                noise_records(&mut o, &mut noise, &mut fr);
                fr.rec(&mut o, cell.record_id(), &cell.payload(c));
            }
        }
        noise_records(&mut o, &mut noise, &mut fr);
        o.extend_from_slice(&self.epilogue(&mut fr));
        o
    }
}

/// ids of records the cell loop skips (a few real ones and unassigned ones, 1- and 2-byte)
pub const NOISE_IDS: [u16; 10] = [0x0001, 0x000C, 0x0031, 0x007F, 0x0080, 0x01AA, 0x0427, 0x0094, 0x0091, 0x3FFF];
pub const NOISE_LENS: [usize; 8] = [0, 1, 5, 8, 127, 128, 300, 16384];

fn noise_records(o: &mut Vec<u8>, noise: &mut Option<Rng>, fr: &mut Framer) {
    if let Some(rng) = noise {
        while rng.chance(1, 4) {
            let id = *rng.pick(&NOISE_IDS);
            let n = *rng.pick(&NOISE_LENS);
            let payload = rng.bytes(n);
            fr.rec(o, id, &payload);
        }
    }
}

#[derive(Clone, Debug, PartialEq)]
pub struct DefinedName {
    pub name: String,
    /// parsed formula bytes (rgce)
    pub rgce: Vec<u8>,
    /// itab: 0xFFFFFFFF = workbook scope
    pub itab: u32,
}

#[derive(Clone, Debug)]
pub struct XlsbBook {
    pub sheets: Vec<XlsbSheet>,
    pub date1904: bool,
    /// custom number formats (BrtFmt): (ifmt, format string)
    pub fmts: Vec<(u16, String)>,
    /// cell XFs (BrtXF): the ifmt of each; a cell's `style` indexes this list. `None` = no styles part.
    pub xfs: Option<Vec<u16>>,
    /// shared strings (UTF-16 units). `None` = no sharedStrings part.
    pub sst: Option<Vec<Vec<u16>>>,
    /// BrtExternSheet entries (first sheet, last sheet): −2 = this workbook, −1 = invalid, ≥ 0 = sheet index
    pub extern_sheets: Vec<(i32, i32)>,
    pub names: Vec<DefinedName>,
    pub framing: Framing,
    pub deflate: bool,
    /// bytes of `xl/vbaProject.bin`, if any
    pub vba: Option<Vec<u8>>,
    /// extra zip parts (name, bytes)
    pub extra_parts: Vec<(String, Vec<u8>)>,
    /// extra records `(id, payload)` written between BrtWbProp and BrtBeginBundleShs, framed like every other record
    /// (C16: BrtBookView and friends; before fix 889c07c `read_workbook` scanned the payload of records it does not
    /// know as record ids)
    pub workbook_pre: Vec<(u16, Vec<u8>)>,
    /// relationship id of every sheet (an NCName: no XML-special characters); `None` = `rId1`, `rId2`, … (C16)
    pub rel_ids: Option<Vec<String>>,
    /// supporting-link records `(id, payload)` (BrtSupSame 0x0166, BrtSupAddin 0x029B, BrtSupBookSrc 0x0163 …) written
    /// inside BrtBeginExternals … BrtEndExternals before / after BrtSupSelf; the XTIs of `extern_sheets` name the self
    /// link by its index (= `sup_before.len()`). Only written when `extern_sheets` is not empty. (C16)
    pub sup_before: Vec<(u16, Vec<u8>)>,
    pub sup_after: Vec<(u16, Vec<u8>)>,
    /// extra records `(id, payload)` written in styles.bin between BrtEndFmts and BrtBeginCellXFs (where Excel puts
    /// fonts, fills, borders and the cell style XFs), framed by the book's framing
    pub styles_pre: Vec<(u16, Vec<u8>)>,
    /// `Some(seed)`: other records are written INSIDE the BrtBeginFmts … BrtEndFmts list — a BrtACBegin / BrtACEnd pair
    /// around a BrtFmt (alternate content), future records, unknown ids — in front of some of the BrtFmt records. The
    /// count of BrtBeginFmts is the number of BrtFmt records; the others do not take a slot. (C10, seeded C10-m14)
    pub fmts_interleave: Option<u64>,
    /// complete bytes of parts by zip name (e.g. "xl/workbook.bin"): replaces the generated part of that name, or
    /// adds the part (malformed-part tests)
    pub raw_parts: Vec<(String, Vec<u8>)>,
    /// `Some(seed)`: shared string items get rich-text runs (fRichStr) and / or phonetic data (fExtStr) behind the
    /// text, and foreign records / skipped 0x23…0x24 blocks are written between the items — none of which changes
    /// the strings the reader must return
    pub sst_extras: Option<u64>,
}

impl Default for XlsbBook {
    fn default() -> Self {
        XlsbBook::new()
    }
}

impl XlsbBook {
    /// empty book: no sheets, xfs = [General, 14 (a date format)], empty shared string table
    pub fn new() -> XlsbBook {
        XlsbBook {
            sheets: vec![],
            date1904: false,
            fmts: vec![],
            xfs: Some(vec![0, 14]),
            sst: Some(vec![]),
            extern_sheets: vec![],
            names: vec![],
            framing: Framing::Minimal,
            deflate: true,
            vba: None,
            extra_parts: vec![],
            workbook_pre: vec![],
            rel_ids: None,
            sup_before: vec![],
            sup_after: vec![],
            styles_pre: vec![],
            fmts_interleave: None,
            raw_parts: vec![],
            sst_extras: None,
        }
    }
    /// the relationship id of sheet `i`
    pub fn rel_id(&self, i: usize) -> String {
        match &self.rel_ids {
            Some(v) => v[i].clone(),
            None => format!("rId{}", i + 1),
        }
    }
    pub fn sheet_path(&self, i: usize) -> String {
        match &self.sheets[i].part {
            Some(p) => p.clone(),
            None => format!("{}/sheet{}.bin", self.sheets[i].kind.dir(), i + 1),
        }
    }

    pub fn sheet_part(&self, i: usize) -> Vec<u8> {
        self.sheets[i].part(&self.framing, i as u64 + 1)
    }
    pub fn workbook_part(&self) -> Vec<u8> {
        // (before /repo 889c07c `read_workbook` scanned the payload of records it does not know byte by byte as
        // record ids; since that fix every record may carry a payload and any framing)
        let mut fr = Framer::new(&self.framing, 0x77);
        let mut o = vec![];
        fr.rec(&mut o, 0x0083, &[]); // BrtBeginBook
        let mut p = (self.date1904 as u32).to_le_bytes().to_vec();
        p.extend_from_slice(&0u32.to_le_bytes());
        p.extend_from_slice(&wide_str(""));
        fr.rec(&mut o, 0x0099, &p); // BrtWbProp
        for (id, p) in &self.workbook_pre {
            fr.rec(&mut o, *id, p);
        }
        fr.rec(&mut o, 0x008F, &[]); // BrtBeginBundleShs
        for (i, s) in self.sheets.iter().enumerate() {
            let mut p = s.state.to_le_bytes().to_vec();
            p.extend_from_slice(&(i as u32 + 1).to_le_bytes());
            if s.no_rel {
                p.extend_from_slice(&0xFFFF_FFFFu32.to_le_bytes());
            } else {
                p.extend_from_slice(&wide_str(&self.rel_id(i)));
            }
            p.extend_from_slice(&wide_str(&s.name));
            fr.rec(&mut o, 0x009C, &p); // BrtBundleSh
        }
        fr.rec(&mut o, 0x0090, &[]); // BrtEndBundleShs
        if !self.extern_sheets.is_empty() {
            fr.rec(&mut o, 0x0161, &[]); // BrtBeginExternals
            for (id, p) in &self.sup_before {
                fr.rec(&mut o, *id, p);
            }
            fr.rec(&mut o, 0x0165, &[]); // BrtSupSelf
            for (id, p) in &self.sup_after {
                fr.rec(&mut o, *id, p);
            }
            let mut p = (self.extern_sheets.len() as u32).to_le_bytes().to_vec();
            for (a, b) in &self.extern_sheets {
                // first field of an XTI: index of the supporting link (the self link comes after `sup_before`)
                p.extend_from_slice(&(self.sup_before.len() as u32).to_le_bytes());
                p.extend_from_slice(&a.to_le_bytes());
                p.extend_from_slice(&b.to_le_bytes());
            }
            fr.rec(&mut o, 0x016A, &p); // BrtExternSheet
            fr.rec(&mut o, 0x0162, &[]); // BrtEndExternals
        }
        for n in &self.names {
            let mut p = 0u32.to_le_bytes().to_vec(); // flags
            p.push(0); // chKey
            p.extend_from_slice(&n.itab.to_le_bytes());
            p.extend_from_slice(&wide_str(&n.name));
            p.extend_from_slice(&(n.rgce.len() as u32).to_le_bytes());
            p.extend_from_slice(&n.rgce);
            p.extend_from_slice(&0u32.to_le_bytes()); // cb
            p.extend_from_slice(&0xFFFF_FFFFu32.to_le_bytes()); // comment: null string
            fr.rec(&mut o, 0x0027, &p); // BrtName
        }
        fr.rec(&mut o, 0x0084, &[]); // BrtEndBook
        o
    }
    pub fn workbook_rels(&self) -> String {
        let mut s = String::from("<?xml version=\"1.0\" encoding=\"UTF-8\" standalone=\"yes\"?>\n<Relationships xmlns=\"http://schemas.openxmlformats.org/package/2006/relationships\">");
        for i in 0..self.sheets.len() {
            if self.sheets[i].no_rel {
                continue;
            }
            s.push_str(&format!(
                "<Relationship Id=\"{}\" Type=\"http://schemas.openxmlformats.org/officeDocument/2006/relationships/worksheet\" Target=\"{}\"/>",
                self.rel_id(i),
                self.sheet_path(i)
            ));
        }
        s.push_str("</Relationships>");
        s
    }
    pub fn styles_part(&self, xfs: &[u16]) -> Vec<u8> {
        // (same remark as for the workbook part: `read_styles` skips unknown records properly since /repo ca1bc47)
        let mut fr = Framer::new(&self.framing, 0x55);
        let mut o = vec![];
        fr.rec(&mut o, 0x0116, &[]); // BrtBeginStyleSheet
        fr.rec(&mut o, 0x0267, &(self.fmts.len() as u32).to_le_bytes()); // BrtBeginFmts
        let mut il = self.fmts_interleave.map(Rng::new);
        for (id, s) in &self.fmts {
            let mut p = id.to_le_bytes().to_vec();
            p.extend_from_slice(&wide_str(s));
            let mut wrapped = false;
            if let Some(rng) = &mut il {
                match rng.below(4) {
                    0 => {
                        fr.rec(&mut o, 0x0025, &[0x01, 0x00, 0x02, 0x00, 0x00, 0x00]); // BrtACBegin
                        wrapped = true;
                    }
                    1 => {
                        let n = rng.below(9) as usize;
                        let q = rng.bytes(n);
                        fr.rec(&mut o, *rng.pick(&[0x0401u16, 0x0013, 0x3FFD]), &q);
                    }
                    2 => {
                        fr.rec(&mut o, 0x0023, &[0xFF, 0xFF, 0xFF, 0xFF]); // BrtFRTBegin
                        fr.rec(&mut o, 0x0024, &[]); // BrtFRTEnd
                    }
                    _ => {}
                }
            }
            fr.rec(&mut o, 0x002C, &p); // BrtFmt
            if wrapped {
                fr.rec(&mut o, 0x0026, &[]); // BrtACEnd
            }
        }
        fr.rec(&mut o, 0x0268, &[]); // BrtEndFmts
        for (id, p) in &self.styles_pre {
            fr.rec(&mut o, *id, p);
        }
        fr.rec(&mut o, 0x0269, &(xfs.len() as u32).to_le_bytes()); // BrtBeginCellXFs
        for f in xfs {
            let mut p = 0xFFFFu16.to_le_bytes().to_vec(); // ixfeParent
            p.extend_from_slice(&f.to_le_bytes()); // iFmt
            p.extend_from_slice(&[0; 12]);
            fr.rec(&mut o, 0x002F, &p); // BrtXF
        }
        fr.rec(&mut o, 0x026A, &[]); // BrtEndCellXFs
        fr.rec(&mut o, 0x0117, &[]); // BrtEndStyleSheet
        o
    }
    pub fn sst_part(&self, sst: &[Vec<u16>]) -> Vec<u8> {
        let mut fr = Framer::new(&self.framing, 0x33);
        let mut o = vec![];
        let mut p = (sst.len() as u32).to_le_bytes().to_vec(); // cstTotal
        p.extend_from_slice(&(sst.len() as u32).to_le_bytes()); // cstUnique
        fr.rec(&mut o, 0x009F, &p); // BrtBeginSst
        let mut ex = self.sst_extras.map(Rng::new);
        for s in sst {
            let mut flags = 0u8;
            let mut trailer: Vec<u8> = vec![];
            if let Some(rng) = &mut ex {
                // foreign records in front of the item: unknown ids, and a block of future records (which may hold
                // something that looks like an item)
                if rng.chance(1, 12) {
                    // a LONG block of future records (several KiB: crosses the reader's 8 KiB buffer)
                    fr.rec(&mut o, 0x0023, &[0xFF, 0xFF, 0xFF, 0xFF]);
                    let mut total = 0usize;
                    let target = *rng.pick(&[8192usize, 16384, 12000]) + rng.below(64) as usize;
                    while total < target {
                        let n = rng.range(200, 3000) as usize;
                        let p = rng.bytes(n);
                        fr.rec(&mut o, *rng.pick(&[0x0401u16, 0x0013, 0x3FFD]), &p);
                        total += n + 3;
                    }
                    fr.rec(&mut o, 0x0024, &[]);
                }
                while rng.chance(1, 4) {
                    if rng.chance(1, 2) {
                        let id = *rng.pick(&[0x0001u16, 0x0012, 0x0014, 0x00A0, 0x3FFF, 0x0427]);
                        let n = rng.below(12) as usize;
                        let p = rng.bytes(n);
                        fr.rec(&mut o, id, &p);
                    } else {
                        fr.rec(&mut o, 0x0023, &[0xFF, 0xFF, 0xFF, 0xFF]);
                        if rng.chance(1, 2) {
                            let mut p = vec![0u8];
                            p.extend_from_slice(&wide_str("not an item"));
                            fr.rec(&mut o, 0x0013, &p);
                        }
                        fr.rec(&mut o, 0x0024, &[]);
                    }
                }
                if rng.chance(1, 2) {
                    flags |= 1; // fRichStr: dwSizeStrRun, rgsStrRun (ich, ifnt)
                    let n = rng.below(4) as u32;
                    trailer.extend_from_slice(&n.to_le_bytes());
                    for i in 0..n {
                        trailer.extend_from_slice(&(i as u16).to_le_bytes());
                        trailer.extend_from_slice(&(rng.below(5) as u16).to_le_bytes());
                    }
                }
                if rng.chance(1, 2) {
                    flags |= 2; // fExtStr: phoneticStr, dwPhoneticRun, rgsPhRun (ichFirst, ichMom, cchMom)
                    trailer.extend_from_slice(&wide_str(*rng.pick(&["フリガナ", "", "ab"])));
                    let n = rng.below(3) as u32;
                    trailer.extend_from_slice(&n.to_le_bytes());
                    for i in 0..n {
                        trailer.extend_from_slice(&(i as u16).to_le_bytes());
                        trailer.extend_from_slice(&(i as u16).to_le_bytes());
                        trailer.extend_from_slice(&1u16.to_le_bytes());
                    }
                }
            }
            let mut p = vec![flags];
            p.extend_from_slice(&wide_units(s));
            p.extend_from_slice(&trailer);
            fr.rec(&mut o, 0x0013, &p); // BrtSSTItem
        }
        fr.rec(&mut o, 0x00A0, &[]); // BrtEndSst
        o
    }
    pub fn content_types(&self) -> String {
        let mut s = String::from("<?xml version=\"1.0\" encoding=\"UTF-8\" standalone=\"yes\"?>\n<Types xmlns=\"http://schemas.openxmlformats.org/package/2006/content-types\"><Default Extension=\"bin\" ContentType=\"application/vnd.ms-excel.sheet.binary.macroEnabled.main\"/><Default Extension=\"rels\" ContentType=\"application/vnd.openxmlformats-package.relationships+xml\"/>");
        for i in 0..self.sheets.len() {
            s.push_str(&format!("<Override PartName=\"/xl/{}\" ContentType=\"application/vnd.ms-excel.worksheet\"/>", self.sheet_path(i)));
        }
        s.push_str("<Override PartName=\"/xl/styles.bin\" ContentType=\"application/vnd.ms-excel.styles\"/><Override PartName=\"/xl/sharedStrings.bin\" ContentType=\"application/vnd.ms-excel.sharedStrings\"/></Types>");
        s
    }
    /// all parts in zip order
    pub fn parts(&self) -> Vec<(String, Vec<u8>)> {
        let mut v: Vec<(String, Vec<u8>)> = vec![
            ("[Content_Types].xml".into(), self.content_types().into_bytes()),
            (
                "_rels/.rels".into(),
                b"<?xml version=\"1.0\" encoding=\"UTF-8\" standalone=\"yes\"?>\n<Relationships xmlns=\"http://schemas.openxmlformats.org/package/2006/relationships\"><Relationship Id=\"rId1\" Type=\"http://schemas.openxmlformats.org/officeDocument/2006/relationships/officeDocument\" Target=\"xl/workbook.bin\"/></Relationships>".to_vec(),
            ),
            ("xl/workbook.bin".into(), self.workbook_part()),
            ("xl/_rels/workbook.bin.rels".into(), self.workbook_rels().into_bytes()),
        ];
        if let Some(x) = &self.xfs {
            v.push(("xl/styles.bin".into(), self.styles_part(x)));
        }
        if let Some(s) = &self.sst {
            v.push(("xl/sharedStrings.bin".into(), self.sst_part(s)));
        }
        for i in 0..self.sheets.len() {
            if self.sheets[i].no_rel {
                continue;
            }
            v.push((format!("xl/{}", self.sheet_path(i)), self.sheet_part(i)));
        }
        if let Some(b) = &self.vba {
            v.push(("xl/vbaProject.bin".into(), b.clone()));
        }
        for (n, b) in &self.extra_parts {
            v.push((n.clone(), b.clone()));
        }
        for (n, b) in &self.raw_parts {
            match v.iter_mut().find(|(name, _)| name == n) {
                Some(e) => e.1 = b.clone(),
                None => v.push((n.clone(), b.clone())),
            }
        }
        v
    }
    /// the complete workbook file
    pub fn to_bytes(&self) -> Vec<u8> {
        zip_parts(&self.parts(), self.deflate)
    }
}

/// zip the given parts (stored or deflated)
pub fn zip_parts(parts: &[(String, Vec<u8>)], deflate: bool) -> Vec<u8> {
    let mut z = zip::ZipWriter::new(Cursor::new(Vec::new()));
    let method = if deflate { zip::CompressionMethod::Deflated } else { zip::CompressionMethod::Stored };
    let opts = zip::write::SimpleFileOptions::default().compression_method(method);
    for (name, bytes) in parts {
        z.start_file(name.as_str(), opts).expect("zip start_file");
        z.write_all(bytes).expect("zip write");
    }
    z.finish().expect("zip finish").into_inner()
}

#[cfg(test)]
mod tests {
    use super::*;
    use calamine::{Data, Reader, Xlsb};

    fn sample(framing: Framing, noise: Option<u64>) -> XlsbBook {
        let mut b = XlsbBook::new();
        b.framing = framing;
        b.sst = Some(vec!["shared".encode_utf16().collect()]);
        let mut s = XlsbSheet::new("First");
        s.noise = noise;
        s.set(1, 2, BVal::real(1.5));
        s.set(1, 3, BVal::str("héllo"));
        s.set(4, 2, BVal::Isst(0));
        s.set(4, 5, BVal::Bool(1));
        s.set(5, 2, BVal::rk_int(-7, false));
        s.set(5, 3, BVal::Error(0x07));
        s.set(6, 2, BVal::real(2.5)).fmla = Some(Fmla::trivial());
        s.set(6, 3, BVal::Blank);
        b.sheets.push(s);
        let mut s2 = XlsbSheet::new("Second");
        s2.state = 1;
        b.sheets.push(s2);
        b
    }

    #[test]
    fn opens_and_reads_back() {
        for (framing, noise) in [(Framing::Minimal, None), (Framing::Widest, Some(3)), (Framing::Random(7), Some(9)), (Framing::Random(8), None)] {
            let b = sample(framing, noise);
            let mut wb: Xlsb<_> = Xlsb::new(Cursor::new(b.to_bytes())).expect("open");
            assert_eq!(wb.sheet_names(), vec!["First".to_string(), "Second".to_string()]);
            let r = wb.worksheet_range("First").expect("range");
            assert_eq!(r.start(), Some((1, 2)));
            assert_eq!(r.end(), Some((6, 5)));
            assert_eq!(r.get_value((1, 2)), Some(&Data::Float(1.5)));
            assert_eq!(r.get_value((1, 3)), Some(&Data::String("héllo".into())));
            assert_eq!(r.get_value((4, 2)), Some(&Data::String("shared".into())));
            assert_eq!(r.get_value((4, 5)), Some(&Data::Bool(true)));
            assert_eq!(r.get_value((5, 2)), Some(&Data::Int(-7)));
            assert_eq!(r.get_value((6, 2)), Some(&Data::Float(2.5)));
            assert_eq!(r.get_value((6, 3)), Some(&Data::Empty));
            let r2 = wb.worksheet_range("Second").expect("range");
            assert!(r2.is_empty());
        }
    }
}
