//! Shared xlsx writer for the correspondence harness (owner: C01; reused by C07, C08, C10, C15, C16, C17, C19).
//!
//! A *logical* workbook (`XlsxBook`) is rendered under a *layout* (`Layout`: every legal choice of the
//! physical encoding) into XML **event lists** (`Ev`), the events are serialised to text (escaping
//! `& < > " '`) and the parts are zipped (`zip` crate). The event lists are kept in the result so that a
//! harness can send exactly the events it wrote to a Lean model driver (`ev_wire`).
//!
//! Minimal use:
//! ```ignore
//! let mut book = XlsxBook::new();
//! let mut sh = XlsxSheet::new("Sheet1");
//! sh.set(0, 0, XCell::num("1.5"));
//! sh.set(2, 3, XCell::shared("hello"));
//! book.sheets.push(sh);
//! let built = book.build(&Layout::plain());            // or Layout::random(&mut rng)
//! let mut wb = calamine::Xlsx::new(std::io::Cursor::new(built.bytes)).unwrap();
//! ```
//! A caller that writes worksheet XML itself sets `XlsxSheet::raw_xml = Some(whole part text)`; a caller that
//! only wants extra elements uses `extra_before_sheet_data` / `extra_after_sheet_data` (raw XML) and
//! `XlsxBook::extra_parts` (arbitrary zip entries, e.g. tables, sheet rels, vbaProject.bin).
use crate::rng::Rng;
use std::collections::BTreeMap;
use std::io::Write;

pub const NS_MAIN: &str = "http://schemas.openxmlformats.org/spreadsheetml/2006/main";
pub const NS_REL: &str = "http://schemas.openxmlformats.org/officeDocument/2006/relationships";
pub const NS_PKG_REL: &str = "http://schemas.openxmlformats.org/package/2006/relationships";

// ------------------------------------------------------------------------------------------------
// XML events
// ------------------------------------------------------------------------------------------------

/// One XML event as quick-xml reports it with `expand_empty_elements = true` (no `Empty` event).
/// `Text` holds the *unescaped* character data; attribute values are unescaped too (the serialiser escapes).
#[derive(Clone, Debug, PartialEq)]
pub enum Ev {
    Start(String, Vec<(String, String)>),
    Text(String),
    End(String),
    /// verbatim markup that the readers ignore (comment, processing instruction); written as is
    Other(String),
    /// a CDATA section `<![CDATA[…]]>` holding this character data (must not contain `]]>`); quick-xml reports it
    /// as `Event::CData` (C16: defined-name text)
    CData(String),
    /// the same character data as `Text`, but every character is written as a numeric character reference
    /// (`&#49;` / `&#x31;` alternately): quick-xml's `unescape` gives the characters back (C01, seeded C01-m17)
    TextRef(String),
}

pub fn start(name: &str, attrs: &[(&str, &str)]) -> Ev {
    Ev::Start(name.to_string(), attrs.iter().map(|(k, v)| (k.to_string(), v.to_string())).collect())
}
pub fn end(name: &str) -> Ev {
    Ev::End(name.to_string())
}
pub fn text(s: &str) -> Ev {
    Ev::Text(s.to_string())
}

/// character data escaping: the five predefined entities, and CR as a character reference
pub fn esc_text(s: &str) -> String {
    let mut o = String::with_capacity(s.len() + 8);
    for c in s.chars() {
        match c {
            '&' => o.push_str("&amp;"),
            '<' => o.push_str("&lt;"),
            '>' => o.push_str("&gt;"),
            '"' => o.push_str("&quot;"),
            '\'' => o.push_str("&apos;"),
            '\r' => o.push_str("&#13;"),
            c => o.push(c),
        }
    }
    o
}

/// attribute value escaping (additionally TAB / LF as character references: attribute-value normalisation)
pub fn esc_attr(s: &str) -> String {
    let mut o = String::with_capacity(s.len() + 8);
    for c in s.chars() {
        match c {
            '&' => o.push_str("&amp;"),
            '<' => o.push_str("&lt;"),
            '>' => o.push_str("&gt;"),
            '"' => o.push_str("&quot;"),
            '\'' => o.push_str("&apos;"),
            '\r' => o.push_str("&#13;"),
            '\n' => o.push_str("&#10;"),
            '\t' => o.push_str("&#9;"),
            c => o.push(c),
        }
    }
    o
}

/// Events → text. `self_close`: for every `Start` immediately followed by its `End`, decides whether the
/// pair is written `<a/>` (true) or `<a></a>` (false); quick-xml (expand_empty_elements) reports both alike.
pub fn serialize(evs: &[Ev], self_close: impl FnMut() -> bool) -> String {
    serialize_with(evs, self_close, || false)
}

/// `serialize` with one more choice: `end_space()` decides, end tag by end tag, whether it is written `</a >`
pub fn serialize_with(evs: &[Ev], mut self_close: impl FnMut() -> bool, mut end_space: impl FnMut() -> bool) -> String {
    let mut o = String::new();
    let mut i = 0;
    while i < evs.len() {
        match &evs[i] {
            Ev::Start(n, attrs) => {
                o.push('<');
                o.push_str(n);
                for (k, v) in attrs {
                    o.push(' ');
                    o.push_str(k);
                    o.push_str("=\"");
                    o.push_str(&esc_attr(v));
                    o.push('"');
                }
                let closes = matches!(evs.get(i + 1), Some(Ev::End(m)) if m == n);
                if closes && self_close() {
                    o.push_str("/>");
                    i += 1;
                } else {
                    o.push('>');
                }
            }
            Ev::Text(t) => o.push_str(&esc_text(t)),
            Ev::TextRef(t) => {
                for (k, ch) in t.chars().enumerate() {
                    if k % 2 == 0 {
                        o.push_str(&format!("&#{};", ch as u32));
                    } else {
                        o.push_str(&format!("&#x{:X};", ch as u32));
                    }
                }
            }
            Ev::End(n) => {
                o.push_str("</");
                o.push_str(n);
                // white space is allowed between the name and `>` of an end tag (XML 1.0 production [42] ETag)
                if end_space() {
                    o.push_str(" ");
                }
                o.push('>');
            }
            Ev::Other(raw) => o.push_str(raw),
            Ev::CData(t) => {
                assert!(!t.contains("]]>"), "CDATA content must not contain ]]>");
                o.push_str("<![CDATA[");
                o.push_str(t);
                o.push_str("]]>");
            }
        }
        i += 1;
    }
    o
}

/// Wire form of an event list for the Lean drivers: one word per event, no spaces inside a word.
/// `s:<name>:<k>=<hex v>,<k>=<hex v>` | `e:<name>` | `t:<hex>` | `c:<hex>` (CDATA) | `o`   (hex of the UTF-8 bytes, `-` = empty).
/// Element and attribute names are ASCII without `: , =` except the namespace colon, which is written `.`.
pub fn ev_wire(evs: &[Ev]) -> String {
    let nm = |s: &str| s.replace(':', ".");
    let mut words = Vec::with_capacity(evs.len());
    for e in evs {
        words.push(match e {
            Ev::Start(n, attrs) => {
                let a: Vec<String> = attrs.iter().map(|(k, v)| format!("{}={}", nm(k), crate::hex(v.as_bytes()))).collect();
                format!("s:{}:{}", nm(n), if a.is_empty() { "-".to_string() } else { a.join(",") })
            }
            Ev::End(n) => format!("e:{}", nm(n)),
            Ev::Text(t) | Ev::TextRef(t) => format!("t:{}", crate::hex(t.as_bytes())),
            Ev::Other(_) => "o".to_string(),
            Ev::CData(t) => format!("c:{}", crate::hex(t.as_bytes())),
        });
    }
    if words.is_empty() {
        "-".to_string()
    } else {
        words.join(" ")
    }
}

// ------------------------------------------------------------------------------------------------
// logical workbook
// ------------------------------------------------------------------------------------------------

/// The stored value of a cell.
#[derive(Clone, Debug, PartialEq)]
pub enum XVal {
    /// no `<v>`: a styled blank cell
    Empty,
    /// number, given as the text written into `<v>` (e.g. "1.5", "-2E-3"); `t` absent or `t="n"`
    Num(String),
    /// string stored in the shared string table (`t="s"`)
    SharedStr(String),
    /// `t="inlineStr"` `<is><t>…</t></is>`
    InlineStr(String),
    /// cached string result of a formula: `t="str"` `<v>…</v>`
    FormulaStr(String),
    Bool(bool),
    /// error literal, e.g. "#DIV/0!" (`t="e"`)
    Err(String),
    /// ISO 8601 date/time text (`t="d"`)
    IsoDate(String),
}

#[derive(Clone, Debug, PartialEq)]
pub struct XFormula {
    pub text: String,
    /// `t="shared" si=".."`, with `ref=".."` on the master cell
    pub shared: Option<(u32, Option<String>)>,
}

#[derive(Clone, Debug, PartialEq)]
pub struct XCell {
    pub value: XVal,
    /// index into `XlsxBook::cell_xfs` (`s` attribute)
    pub style: Option<u32>,
    pub formula: Option<XFormula>,
}

impl XCell {
    pub fn new(value: XVal) -> XCell {
        XCell { value, style: None, formula: None }
    }
    pub fn num(text: &str) -> XCell {
        XCell::new(XVal::Num(text.to_string()))
    }
    pub fn shared(s: &str) -> XCell {
        XCell::new(XVal::SharedStr(s.to_string()))
    }
    pub fn inline(s: &str) -> XCell {
        XCell::new(XVal::InlineStr(s.to_string()))
    }
    pub fn with_style(mut self, s: u32) -> XCell {
        self.style = Some(s);
        self
    }
    pub fn with_formula(mut self, f: &str) -> XCell {
        self.formula = Some(XFormula { text: f.to_string(), shared: None });
        self
    }
}

#[derive(Clone, Copy, Debug, PartialEq)]
pub enum SheetState {
    Visible,
    Hidden,
    VeryHidden,
}

/// 0-based inclusive rectangle `((r0, c0), (r1, c1))`
pub type Rect = ((u32, u32), (u32, u32));

#[derive(Clone, Debug)]
pub struct XlsxSheet {
    pub name: String,
    pub state: SheetState,
    /// second path segment of the part: "worksheets" (default), "chartsheets", "dialogsheets", "macrosheets"
    pub folder: String,
    /// 0-based (row, col) → cell
    pub cells: BTreeMap<(u32, u32), XCell>,
    pub merges: Vec<Rect>,
    /// `Some(rect)`: write this `<dimension>` whatever the layout says
    pub dimension: Option<Rect>,
    /// raw XML inserted as children of `<worksheet>` before / after `<sheetData>`
    pub extra_before_sheet_data: String,
    pub extra_after_sheet_data: String,
    /// the whole part, verbatim (cells/merges/dimension/extras are then ignored)
    pub raw_xml: Option<String>,
}

impl XlsxSheet {
    pub fn new(name: &str) -> XlsxSheet {
        XlsxSheet {
            name: name.to_string(),
            state: SheetState::Visible,
            folder: "worksheets".to_string(),
            cells: BTreeMap::new(),
            merges: vec![],
            dimension: None,
            extra_before_sheet_data: String::new(),
            extra_after_sheet_data: String::new(),
            raw_xml: None,
        }
    }
    pub fn set(&mut self, row: u32, col: u32, cell: XCell) {
        self.cells.insert((row, col), cell);
    }
    /// tight bounding box of *all* stored cells (including `Empty` ones), as Excel writes `<dimension>`
    pub fn stored_bbox(&self) -> Option<Rect> {
        bbox(self.cells.keys().copied())
    }
}

pub fn bbox(pos: impl Iterator<Item = (u32, u32)>) -> Option<Rect> {
    let mut r: Option<Rect> = None;
    for (a, b) in pos {
        r = Some(match r {
            None => ((a, b), (a, b)),
            Some(((r0, c0), (r1, c1))) => ((r0.min(a), c0.min(b)), (r1.max(a), c1.max(b))),
        });
    }
    r
}

#[derive(Clone, Debug)]
pub struct XlsxBook {
    pub sheets: Vec<XlsxSheet>,
    /// `None`: no `<workbookPr>` at all; `Some(b)`: `<workbookPr date1904="…"/>`
    pub date1904: Option<bool>,
    /// custom number formats `(numFmtId, formatCode)`
    pub num_fmts: Vec<(u32, String)>,
    /// `cellXfs`: the `numFmtId` of every `<xf>`; a cell's `s` attribute indexes this list
    pub cell_xfs: Vec<u32>,
    /// `(name, value)` → `<definedName name="…">value</definedName>`
    pub defined_names: Vec<(String, String)>,
    /// additional zip entries `(part name, content)` written verbatim (part-name case knob still applies)
    pub extra_parts: Vec<(String, Vec<u8>)>,
    /// raw XML children of `<workbook>` written after `<sheets>` / `<definedNames>`
    pub workbook_extra: String,
    /// replace the generated `xl/sharedStrings.xml` by this text (`SharedStr` cells then still get
    /// consecutive indices in first-use order, without de-duplication)
    pub raw_shared_strings: Option<String>,
    /// write the text of every defined name of two or more characters as two text nodes around a comment (C16)
    pub split_defined_names: bool,
    /// write (the middle third of) every defined-name text as a CDATA section (C16)
    pub cdata_defined_names: bool,
    /// events written as the last children of `<workbook>` (after `workbook_extra`), e.g. an `<extLst>`; unlike
    /// `workbook_extra` they are part of `Built::workbook_events` (C16). Names are written as given (no prefixing).
    pub workbook_tail_events: Vec<Ev>,
    /// blocks of events (each a balanced run of elements / comments the readers must skip) inserted at random
    /// positions between the children of `<workbook>`; part of `Built::workbook_events` (C16)
    pub workbook_inert: Vec<Vec<Ev>>,
    /// relationship id of every sheet (an NCName without XML-special characters; must differ from `rId<n+1>`, `rId<n+2>`
    /// used for styles / shared strings); `None` = `rId1`, `rId2`, … (C16)
    pub rel_ids: Option<Vec<String>>,
    /// store the sheet parts in the archive in reverse tab order (a workbook whose tabs were re-ordered); the layout's
    /// random shuffle of all parts may still apply on top (C16)
    pub sheet_parts_reversed: bool,
}

impl Default for XlsxBook {
    fn default() -> Self {
        XlsxBook::new()
    }
}

impl XlsxBook {
    pub fn new() -> XlsxBook {
        XlsxBook {
            sheets: vec![],
            date1904: None,
            num_fmts: vec![],
            cell_xfs: vec![0],
            defined_names: vec![],
            extra_parts: vec![],
            workbook_extra: String::new(),
            raw_shared_strings: None,
            split_defined_names: false,
            cdata_defined_names: false,
            workbook_tail_events: vec![],
            workbook_inert: vec![],
            rel_ids: None,
            sheet_parts_reversed: false,
        }
    }
}

pub fn col_name(c: u32) -> String {
    let mut s = Vec::new();
    let mut n = c as u64 + 1;
    while n > 0 {
        s.push(b'A' + ((n - 1) % 26) as u8);
        n = (n - 1) / 26;
    }
    s.reverse();
    String::from_utf8(s).unwrap()
}

pub fn a1(row: u32, col: u32) -> String {
    format!("{}{}", col_name(col), row as u64 + 1)
}

pub fn rect_ref(r: Rect) -> String {
    if r.0 == r.1 {
        a1(r.0 .0, r.0 .1)
    } else {
        format!("{}:{}", a1(r.0 .0, r.0 .1), a1(r.1 .0, r.1 .1))
    }
}

// ------------------------------------------------------------------------------------------------
// layout
// ------------------------------------------------------------------------------------------------

#[derive(Clone, Copy, Debug, PartialEq)]
pub enum DimMode {
    /// tight box of the stored cells (what Excel writes); absent for a sheet without cells
    Accurate,
    Absent,
    /// some well-ordered rectangle unrelated to the data
    Inaccurate,
    /// a STALE tight box: from the first to the last non-empty cell in the order they are written (their positions
    /// as the two corners) when that is a well-ordered rectangle — the box Excel wrote before a cell was moved out
    /// of it or rows were re-ordered; falls back to `Accurate` otherwise (C01, seeded C01-m9)
    FirstLast,
}

#[derive(Clone, Copy, Debug, PartialEq)]
pub enum TargetStyle {
    /// `worksheets/sheet1.xml`
    Relative,
    /// `/xl/worksheets/sheet1.xml`
    AbsoluteXl,
    /// `xl/worksheets/sheet1.xml`
    XlPrefixed,
}

#[derive(Clone, Copy, Debug, PartialEq)]
pub enum PartCase {
    /// `xl/workbook.xml`, `xl/worksheets/sheet1.xml`
    Canonical,
    /// `xl/Workbook.xml`, `xl/worksheets/Sheet1.xml`, `xl/SharedStrings.xml` (capitalised file names)
    Capitalised,
    /// every part name in upper case: `XL/WORKSHEETS/SHEET1.XML`
    Upper,
}

/// where the prefix of the relationships namespace used by `<sheet …:id>` is declared in `xl/workbook.xml`
#[derive(Clone, Copy, Debug, PartialEq)]
pub enum RelDecl {
    /// on the root `<workbook>` (what Excel writes)
    Workbook,
    /// on `<sheets>` only
    Sheets,
    /// on every `<sheet>` element itself
    Sheet,
    /// `<workbook>` binds another prefix (`r0`) to the namespace, `<sheets>` binds the one the `<sheet>`s use
    Split,
}

#[derive(Clone, Copy, Debug, PartialEq)]
pub enum Compression {
    Stored,
    Deflated,
    /// per part, chosen from the layout's own random stream
    Mixed,
}

/// Every choice of the physical encoding. Percentages are 0..=100 and are drawn, element by element,
/// from a private random stream seeded by `seed`, so one `Layout` value always renders the same bytes.
#[derive(Clone, Debug)]
pub struct Layout {
    pub seed: u64,
    /// namespace prefix of the SpreadsheetML elements: "" (default namespace) or e.g. "x"
    pub prefix: String,
    /// prefix bound to the relationships namespace in workbook.xml: "r", "relationships", or any other
    pub rel_prefix: String,
    pub part_case: PartCase,
    pub target: TargetStyle,
    pub compression: Compression,
    pub dimension: DimMode,
    /// chance that a `<row>` carries `r` when it may legally be omitted
    pub pct_row_ref: u8,
    /// chance that a `<c>` carries `r` when it may legally be omitted
    pub pct_cell_ref: u8,
    /// chance that the column letters of a cell reference are written in lower case
    pub pct_lower_ref: u8,
    /// chance that a logical `SharedStr` is written as an inline string / a logical `InlineStr` is moved to the table
    pub pct_swap_string_store: u8,
    /// chance that a string already in the shared table is re-used (else a duplicate item is appended)
    pub pct_sst_dedupe: u8,
    /// chance that a shared / inline string of ≥ 2 chars is written as rich text runs (+ a phonetic run)
    pub pct_rich: u8,
    /// chance that an *empty* shared string item is written `<si/>` (else `<si><t/></si>`)
    pub pct_empty_si: u8,
    /// chance that a number cell carries an explicit `t="n"`
    pub pct_t_n: u8,
    /// chance that `<a></a>` is written `<a/>`
    pub pct_self_close: u8,
    /// chance of a `\n`-and-spaces text node between two elements (never inside `<v>`, `<t>`, `<f>`)
    pub pct_whitespace: u8,
    /// chance of a `spans`/`ht` style attribute noise on rows and a comment between rows
    pub pct_noise: u8,
    /// chance that an `Empty`-valued stored cell is written at all (else it is omitted from the file)
    pub pct_write_blank: u8,
    /// write `<f>` before `<v>` (Excel's order). `false` is *not* a legal variation for calamine (the last child wins)
    pub formula_first: bool,
    /// chance, element by element, that the attributes of a `<c>`, `<row>`, `<xf>` or `<numFmt>` are written in a
    /// random order instead of the customary one (`r s t`, `r spans ht`, `numFmtId … xfId`, `numFmtId formatCode`);
    /// attribute order carries no meaning in XML. Drawn from a private stream (`seed`), so the other knobs render
    /// the same bytes whatever this one says.
    pub pct_attr_shuffle: u8,
    /// chance, element by element, of inert extra attributes: `cm vm ph` on `<c>`, `customHeight customFormat hidden`
    /// on `<row>`, `fontId fillId borderId applyNumberFormat` on `<xf>` (values that change nothing a reader of cell
    /// values may look at)
    pub pct_attr_extra: u8,
    /// chance that a number cell WITH a style carries an explicit `t="n"` (on top of `pct_t_n`)
    pub pct_t_n_styled: u8,
    /// chance, `<xf>` by `<xf>`, that an entry of `cellXfs` whose format id is 0 (General) is written WITHOUT the
    /// optional `numFmtId` attribute (its default is 0: §18.8.45). The entry still occupies its slot: style
    /// indices count `<xf>` elements, not `numFmtId` attributes. Private stream, `plain()` = 0. (C01, seeded C01-m4)
    pub pct_xf_omit_general: u8,
    /// chance (per styles part, then element by element) of legal structure around the format table that a reader
    /// must not mistake for cell formats: several `<xf>` in `<cellStyleXfs>` (with date ids / without `numFmtId`;
    /// they are NOT cell formats), `<alignment/>`/`<protection/>` children inside `<xf>`, `<fonts>`/`<fills>`/
    /// `<borders>` blocks, a `<cellStyles>` block, `<dxfs>` holding `<numFmt>` elements whose ids collide with real
    /// ones (they do not define number formats), and `count` attributes that are wrong or missing.
    /// Private stream, `plain()` = 0. (C01)
    pub pct_styles_noise: u8,
    /// chance, row by row, that the `<row>` is formatted as a whole: `s="<xf index>" customFormat="1"` plus further
    /// row attributes (`outlineLevel collapsed thickTop hidden x14ac:dyDescent`). A row style is the format of the
    /// row's EMPTY cells only: a cell without `s` has style 0, never the row's (§18.3.1.73). Private stream,
    /// `plain()` = 0. (C01, seeded C01-m6)
    pub pct_row_style: u8,
    /// chance, cell `<xf>` by cell `<xf>`, that it carries an explicit `applyNumberFormat` (`0`, `false`, `1` or `true`)
    /// and an `xfId` pointing at any of the cell-STYLE xfs (whose number format usually differs from its own). The
    /// flag is a hint for editing applications: the cell is formatted by the `numFmtId` of its own `<xf>` whatever the
    /// flag says (§18.8.45). The cell-style xfs then also get date / elapsed formats. Private stream, `plain()` = 0.
    /// (C10, seeded C10-m12)
    pub pct_xf_apply_flag: u8,
    /// chance, number cell by number cell, that the text of its `<v>` is written in several pieces: split by a comment,
    /// by a processing instruction, or with one piece in a CDATA section (`<v>45000<!-- c -->.5</v>`,
    /// `<v>4<![CDATA[5000.5]]></v>`). The value of the element is the concatenation of its character data. Private
    /// stream, `plain()` = 0. (C10, seeded C10-m15)
    pub pct_v_split: u8,
    /// let `pct_v_split` also use CDATA sections for the pieces (`false` in `plain()` AND in `random()`: the worksheet
    /// models of C01 have no CDATA event; C10 and C19 switch it on)
    pub v_split_cdata: bool,
    /// chance, `<c>` by `<c>`, of attributes from a FOREIGN namespace whose local names are those of the real ones —
    /// `ext:s`, `ext:t`, `ext:r` with other values (prefix `ext` bound on the root) — and of a namespace declaration
    /// `xmlns:s="…"` on the cell itself, written before and/or after the real attributes. An attribute in another
    /// namespace is another attribute; only the unprefixed `s`, `t`, `r` are the cell's. Private stream, `plain()` = 0.
    /// (C10, seeded C10-m18)
    pub pct_c_foreign_attr: u8,
    /// chance, occurrence by occurrence, that a number-format id — built-in or custom, in a `<numFmt>` or in an `<xf>`,
    /// each on its own — is written with leading zeros (`numFmtId="014"`, `"0164"`): leading zeros of an
    /// `xsd:unsignedInt` are not significant, mixed spellings of one id must agree. Decided from `seed`, the id and the
    /// place. `plain()` = 0. (C10, seeded C10-m17; /repo fix 6b28a55)
    pub pct_id_zero_pad: u8,
    /// row styles are drawn from `0..row_style_count`; 0 = the length of the book's `cellXfs` (set by `build`)
    pub row_style_count: u32,
    /// where `xl/workbook.xml` declares the relationships-namespace prefix (`rel_prefix`) that `<sheet>` uses.
    /// Namespace declarations are in scope on the element and all its descendants. `plain()` = `Workbook`.
    /// (C01, seeded C01-m8)
    pub rel_decl: RelDecl,
    /// write the `<row>` elements in a shuffled order (each then carries its `r`): schema-valid, and what the readers
    /// must not depend on. Off in `plain()` and in `random()`; set by the callers whose oracle is order-free.
    pub shuffle_rows: bool,
    /// chance (per file, then element by element) of legal variation inside `xl/_rels/workbook.xml.rels`: attributes of
    /// `<Relationship>` in another order, `TargetMode="Internal"`, a namespace prefix on the elements, a further
    /// relationship (theme) in front of / between the sheets', white space between the elements. Private stream,
    /// `plain()` = 0. (C01 container glue)
    pub pct_rels_noise: u8,
    /// chance, row by row, of a `spans="first:last"` hint (§18.3.1.73: an optimisation only) with any content: the
    /// true column span of the row, a stale one, one whose first column is > 1 although the row starts at A, several
    /// spans, the last column of the grid. The position of a cell without `r` is "previous + 1" / column A whatever
    /// the hint says. Private stream, `plain()` = 0. (C01, seeded C01-m11)
    pub pct_spans: u8,
    /// chance, cell by cell, that the text of a `<v>` (shared-string index, boolean, error literal, ISO date, formula
    /// string, number) is written as numeric character references (`<v>&#49;&#x32;</v>` for `12`). Drawn from the
    /// attribute stream; `plain()` = 0. (C01, seeded C01-m17)
    pub pct_char_ref: u8,
    /// chance, end tag by end tag and in every generated part, of white space before the `>` (`</row >`, `</c >`):
    /// legal XML, the same event. Private stream, `plain()` = 0. (C01, seeded C01-m18)
    pub pct_end_tag_space: u8,
}

impl Layout {
    /// what Excel writes: no prefix, `r:id`, explicit references everywhere, accurate dimension
    pub fn plain() -> Layout {
        Layout {
            seed: 0,
            prefix: String::new(),
            rel_prefix: "r".into(),
            part_case: PartCase::Canonical,
            target: TargetStyle::Relative,
            compression: Compression::Deflated,
            dimension: DimMode::Accurate,
            pct_row_ref: 100,
            pct_cell_ref: 100,
            pct_lower_ref: 0,
            pct_swap_string_store: 0,
            pct_sst_dedupe: 100,
            pct_rich: 0,
            pct_empty_si: 0,
            pct_t_n: 0,
            pct_self_close: 100,
            pct_whitespace: 0,
            pct_noise: 0,
            pct_write_blank: 100,
            formula_first: true,
            pct_attr_shuffle: 0,
            pct_attr_extra: 0,
            pct_t_n_styled: 0,
            pct_xf_omit_general: 0,
            pct_styles_noise: 0,
            pct_row_style: 0,
            pct_xf_apply_flag: 0,
            pct_v_split: 0,
            v_split_cdata: false,
            pct_c_foreign_attr: 0,
            pct_id_zero_pad: 0,
            row_style_count: 0,
            rel_decl: RelDecl::Workbook,
            shuffle_rows: false,
            pct_rels_noise: 0,
            pct_spans: 0,
            pct_char_ref: 0,
            pct_end_tag_space: 0,
        }
    }
    /// every knob randomised (legal variations only)
    pub fn random(rng: &mut Rng) -> Layout {
        let mut l = Layout::random_base(rng);
        // later additions are drawn from a stream of their own so that earlier cases keep their other choices
        let mut own2 = Rng(l.seed ^ 0x0D1A_5EED_F1A5_7001);
        if own2.chance(1, 6) {
            l.dimension = DimMode::FirstLast;
        }
        l.pct_spans = *own2.pick(&[0u8, 0, 50, 100]);
        l.pct_char_ref = *own2.pick(&[0u8, 0, 30, 100]);
        l.pct_end_tag_space = *own2.pick(&[0u8, 0, 30, 100]);
        l
    }
    fn random_base(rng: &mut Rng) -> Layout {
        let pct = |rng: &mut Rng| *rng.pick(&[0u8, 0, 20, 50, 80, 100, 100]);
        let seed = rng.next();
        // the attribute knobs are derived from `seed`, not drawn from the caller's stream: every case generated
        // before these knobs existed keeps its other choices
        let mut own = Rng(seed ^ 0xA77A_0D3E_51F7_2B19);
        Layout {
            seed,
            prefix: if rng.chance(1, 3) { "x".into() } else { String::new() },
            rel_prefix: rng.pick(&["r", "r", "relationships", "rel"]).to_string(),
            part_case: *rng.pick(&[PartCase::Canonical, PartCase::Canonical, PartCase::Capitalised, PartCase::Upper]),
            target: *rng.pick(&[TargetStyle::Relative, TargetStyle::Relative, TargetStyle::AbsoluteXl, TargetStyle::XlPrefixed]),
            compression: *rng.pick(&[Compression::Stored, Compression::Deflated, Compression::Mixed]),
            dimension: *rng.pick(&[DimMode::Accurate, DimMode::Absent, DimMode::Inaccurate]),
            pct_row_ref: pct(rng),
            pct_cell_ref: pct(rng),
            pct_lower_ref: *rng.pick(&[0u8, 0, 0, 30, 100]),
            pct_swap_string_store: *rng.pick(&[0u8, 0, 30, 100]),
            pct_sst_dedupe: pct(rng),
            pct_rich: *rng.pick(&[0u8, 0, 30, 100]),
            pct_empty_si: *rng.pick(&[0u8, 50, 100]),
            pct_t_n: pct(rng),
            pct_self_close: pct(rng),
            pct_whitespace: *rng.pick(&[0u8, 0, 0, 40]),
            pct_noise: *rng.pick(&[0u8, 0, 30]),
            pct_write_blank: pct(rng),
            formula_first: true,
            pct_attr_shuffle: *own.pick(&[0u8, 0, 50, 100, 100]),
            pct_attr_extra: *own.pick(&[0u8, 0, 30, 100]),
            pct_t_n_styled: *own.pick(&[0u8, 50, 100]),
            pct_xf_omit_general: *own.pick(&[0u8, 50, 100, 100]),
            pct_styles_noise: *own.pick(&[0u8, 0, 60, 100]),
            pct_row_style: *own.pick(&[0u8, 0, 40, 100]),
            row_style_count: 0,
            rel_decl: *own.pick(&[RelDecl::Workbook, RelDecl::Workbook, RelDecl::Sheets, RelDecl::Sheet, RelDecl::Split]),
            shuffle_rows: false,
            pct_rels_noise: *own.pick(&[0u8, 0, 50, 100]),
            pct_spans: 0,
            pct_char_ref: 0,
            pct_end_tag_space: 0,
            // (drawn last from `own`: the knobs above keep the values they had before this one existed)
            pct_xf_apply_flag: *own.pick(&[0u8, 0, 50, 100]),
            pct_v_split: *own.pick(&[0u8, 0, 30, 100]),
            v_split_cdata: false,
            pct_c_foreign_attr: *own.pick(&[0u8, 0, 30, 100]),
            pct_id_zero_pad: *own.pick(&[0u8, 0, 50, 100]),
        }
    }
    /// short description for counters / failure signatures
    pub fn describe(&self) -> String {
        format!(
            "pre={} rel={} case={:?} target={:?} zip={:?} dim={:?} rowref={} cellref={} lower={} swap={} dedupe={} rich={} emptysi={} tn={} selfclose={} ws={} noise={} blank={} attrshuffle={} attrextra={} tnstyled={} xfomit={} stylesnoise={} rowstyle={} reldecl={:?} relsnoise={} applyflag={} spans={} charref={} endspace={}",
            if self.prefix.is_empty() { "-" } else { &self.prefix },
            self.rel_prefix, self.part_case, self.target, self.compression, self.dimension, self.pct_row_ref,
            self.pct_cell_ref, self.pct_lower_ref, self.pct_swap_string_store, self.pct_sst_dedupe, self.pct_rich,
            self.pct_empty_si, self.pct_t_n, self.pct_self_close, self.pct_whitespace, self.pct_noise, self.pct_write_blank,
            self.pct_attr_shuffle, self.pct_attr_extra, self.pct_t_n_styled, self.pct_xf_omit_general, self.pct_styles_noise,
            self.pct_row_style, self.rel_decl, self.pct_rels_noise, self.pct_xf_apply_flag, self.pct_spans, self.pct_char_ref, self.pct_end_tag_space
        )
    }
    fn q(&self, n: &str) -> String {
        if self.prefix.is_empty() {
            n.to_string()
        } else {
            format!("{}:{}", self.prefix, n)
        }
    }
    fn ns_attr(&self) -> (String, String) {
        if self.prefix.is_empty() {
            ("xmlns".to_string(), NS_MAIN.to_string())
        } else {
            (format!("xmlns:{}", self.prefix), NS_MAIN.to_string())
        }
    }
}

fn roll(rng: &mut Rng, pct: u8) -> bool {
    pct >= 100 || (pct > 0 && rng.below(100) < pct as u64)
}

/// private stream for the attribute knobs of one part (keeps the main stream, hence every other choice, unchanged)
fn attr_rng(l: &Layout, salt: &str) -> Rng {
    Rng(l.seed ^ 0x5DEE_CE66_D1CE_4E5B ^ crate::fnv64(salt.as_bytes()))
}

/// the attribute list of one element under the attribute knobs: inert extras (each with chance 1/2 once the element
/// was picked), then possibly a random order
fn arrange(l: &Layout, arng: &mut Rng, mut attrs: Vec<(String, String)>, extras: &[(&str, &str)]) -> Vec<(String, String)> {
    if roll(arng, l.pct_attr_extra) {
        for (k, v) in extras {
            if arng.chance(1, 2) && !attrs.iter().any(|(k0, _)| k0 == k) {
                attrs.push((k.to_string(), v.to_string()));
            }
        }
    }
    if roll(arng, l.pct_attr_shuffle) {
        arng.shuffle(&mut attrs);
    }
    attrs
}

/// the spelling of a number-format id at `place` (0 = its `<numFmt>`, k + 1 = the k-th `<xf>`) under `pct_id_zero_pad`
pub fn id_text(l: &Layout, id: u32, place: u64) -> String {
    if l.pct_id_zero_pad > 0 {
        let mut r = Rng(l.seed ^ 0x1D0_9AD ^ (id as u64).wrapping_mul(0x9E37_79B9_7F4A_7C15) ^ place.wrapping_mul(0xD1B5_4A32_D192_ED03));
        r.next();
        if roll(&mut r, l.pct_id_zero_pad) {
            let w = id.to_string().len() + r.range(1, 3) as usize;
            return format!("{:0w$}", id, w = w);
        }
    }
    id.to_string()
}

/// foreign-namespace twins of the cell's own attributes and a misleading namespace declaration (`pct_c_foreign_attr`)
fn with_foreign(l: &Layout, frng: &mut Rng, attrs: Vec<(String, String)>) -> Vec<(String, String)> {
    if !roll(frng, l.pct_c_foreign_attr) {
        return attrs;
    }
    let mut twins: Vec<(String, String)> = vec![];
    if frng.chance(2, 3) {
        twins.push(("ext:s".into(), (*frng.pick(&["0", "1", "2", "3", "65536"])).into()));
    }
    if frng.chance(1, 3) {
        twins.push(("ext:t".into(), (*frng.pick(&["s", "b", "e", "str", "n"])).into()));
    }
    if frng.chance(1, 3) {
        twins.push(("ext:r".into(), (*frng.pick(&["XFD1", "A1", "B7"])).into()));
    }
    if twins.is_empty() || frng.chance(1, 3) {
        twins.push(("xmlns:s".into(), "urn:verif:s".into()));
    }
    let mut out = vec![];
    let k = frng.below(twins.len() as u64 + 1) as usize;
    out.extend(twins[..k].iter().cloned());
    out.extend(attrs);
    out.extend(twins[k..].iter().cloned());
    out
}

const C_EXTRAS: [(&str, &str); 3] = [("cm", "0"), ("vm", "0"), ("ph", "0")];
const ROW_EXTRAS: [(&str, &str); 3] = [("customHeight", "1"), ("customFormat", "0"), ("hidden", "0")];
const XF_EXTRAS: [(&str, &str); 4] = [("fontId", "0"), ("fillId", "0"), ("borderId", "0"), ("applyNumberFormat", "1")];

// ------------------------------------------------------------------------------------------------
// rendering
// ------------------------------------------------------------------------------------------------

/// Shared string table under construction: the items in file order, each with the events of its `<si>`.
#[derive(Default, Clone, Debug)]
pub struct Sst {
    pub items: Vec<String>,
}

impl Sst {
    fn index_of(&mut self, s: &str, dedupe: bool) -> usize {
        if dedupe {
            if let Some(i) = self.items.iter().position(|x| x == s) {
                return i;
            }
        }
        self.items.push(s.to_string());
        self.items.len() - 1
    }
}

/// `<t>s</t>` or rich-text runs for the string `s` (children of `<si>` / `<is>`)
fn string_item_events(l: &Layout, rng: &mut Rng, s: &str, out: &mut Vec<Ev>) {
    let t = l.q("t");
    let chars: Vec<char> = s.chars().collect();
    let preserve = s.starts_with(' ') || s.ends_with(' ') || s.contains('\n');
    let t_attrs: Vec<(&str, &str)> = if preserve { vec![("xml:space", "preserve")] } else { vec![] };
    if chars.len() >= 2 && roll(rng, l.pct_rich) {
        let m = rng.range(1, chars.len() as u64 - 1) as usize;
        let a: String = chars[..m].iter().collect();
        let b: String = chars[m..].iter().collect();
        for (k, part) in [a, b].iter().enumerate() {
            out.push(start(&l.q("r"), &[]));
            if k == 0 {
                out.push(start(&l.q("rPr"), &[]));
                out.push(start(&l.q("b"), &[]));
                out.push(end(&l.q("b")));
                out.push(end(&l.q("rPr")));
            }
            out.push(start(&t, &[("xml:space", "preserve")]));
            if !part.is_empty() {
                out.push(text(part));
            }
            out.push(end(&t));
            out.push(end(&l.q("r")));
        }
        // phonetic run: its text is not part of the string
        out.push(start(&l.q("rPh"), &[("sb", "0"), ("eb", "1")]));
        out.push(start(&t, &[]));
        out.push(text("PHON"));
        out.push(end(&t));
        out.push(end(&l.q("rPh")));
    } else {
        out.push(start(&t, &t_attrs));
        if !s.is_empty() {
            out.push(text(s));
        }
        out.push(end(&t));
    }
}

fn ws(l: &Layout, rng: &mut Rng, out: &mut Vec<Ev>) {
    if roll(rng, l.pct_whitespace) {
        out.push(text(*rng.pick(&["\n", "\n  ", " ", "\r\n\t"])));
    }
}

/// The events of one worksheet part. Implicit references are used only where the reader's cursor
/// (`row_index`, `col_index`) already equals the intended position — the legality condition of the format.
pub fn render_sheet(sheet: &XlsxSheet, l: &Layout, rng: &mut Rng, sst: &mut Sst) -> Vec<Ev> {
    let mut out = Vec::new();
    let mut arng = attr_rng(l, &sheet.name);
    // row-style knob: its own stream
    let mut rsrng = attr_rng(l, &format!("{}#rowstyle", sheet.name));
    // <v>-splitting knob: its own stream
    let mut vrng = attr_rng(l, &format!("{}#vsplit", sheet.name));
    // foreign-attribute knob: its own stream
    let mut frng = attr_rng(l, &format!("{}#foreign", sheet.name));
    let mut sprng = attr_rng(l, &format!("{}#spans", sheet.name));
    let (nk, nv) = l.ns_attr();
    let mut root_attrs = vec![(nk, nv)];
    root_attrs.push((format!("xmlns:{}", if l.rel_prefix.is_empty() { "r" } else { &l.rel_prefix }), NS_REL.to_string()));
    if l.pct_c_foreign_attr > 0 {
        root_attrs.push(("xmlns:ext".into(), "urn:verif:foreign".into()));
    }
    if l.pct_row_style > 0 {
        root_attrs.push(("xmlns:x14ac".into(), "http://schemas.microsoft.com/office/spreadsheetml/2009/9/ac".into()));
    }
    out.push(Ev::Start(l.q("worksheet"), root_attrs));
    ws(l, rng, &mut out);
    // which stored cells are written at all
    let written: Vec<(&(u32, u32), &XCell)> = sheet
        .cells
        .iter()
        .filter(|(_, c)| !(c.value == XVal::Empty && c.formula.is_none()) || roll(rng, l.pct_write_blank))
        .collect();
    // the rows in the order they are written
    let mut row_spans: Vec<(usize, usize)> = vec![];
    {
        let mut i = 0;
        while i < written.len() {
            let r = written[i].0 .0;
            let mut j = i;
            while j < written.len() && written[j].0 .0 == r {
                j += 1;
            }
            row_spans.push((i, j));
            i = j;
        }
    }
    if l.shuffle_rows {
        let mut own = Rng::new(l.seed ^ 0x5a17_0f0f ^ sheet.name.len() as u64);
        own.shuffle(&mut row_spans);
    }
    let dim: Option<Rect> = match sheet.dimension {
        Some(d) => Some(d),
        None => match l.dimension {
            DimMode::Absent => None,
            DimMode::Accurate => bbox(written.iter().map(|(p, _)| **p)),
            DimMode::FirstLast => {
                let order: Vec<(u32, u32)> = row_spans
                    .iter()
                    .flat_map(|(i, j)| written[*i..*j].iter())
                    .filter(|(_, c)| c.value != XVal::Empty)
                    .map(|(p, _)| **p)
                    .collect();
                match (order.first(), order.last()) {
                    (Some(a), Some(b)) if a.0 <= b.0 && a.1 <= b.1 => Some((*a, *b)),
                    _ => bbox(written.iter().map(|(p, _)| **p)),
                }
            }
            DimMode::Inaccurate => {
                let r0 = *rng.pick(&[0u32, 0, 1, 5, 1000, 1_048_575]);
                let c0 = *rng.pick(&[0u32, 0, 2, 30, 16_383]);
                let r1 = r0 + rng.below(((1_048_575 - r0) as u64).min(50) + 1) as u32;
                let c1 = c0 + rng.below(((16_383 - c0) as u64).min(50) + 1) as u32;
                let (r1, c1) = if rng.chance(1, 8) { (1_048_575, 16_383) } else { (r1, c1) };
                match bbox(written.iter().map(|(p, _)| **p)) {
                    // related to the data but wrong: a LARGE declared area (all 16384 columns from row 0) whose
                    // last row under- or overstates the real last row (a stale dimension after rows were appended
                    // or deleted)
                    Some(((dr0, _), (dr1, _))) if rng.chance(1, 3) => {
                        let lo = dr0.saturating_sub(2);
                        let hi = (dr1 + 2).min(1_048_575);
                        let last = lo + rng.below((hi - lo) as u64 + 1) as u32;
                        Some(((0, 0), (last, 16_383)))
                    }
                    _ => Some(((r0, c0), (r1, c1))),
                }
            }
        },
    };
    if let Some(d) = dim {
        out.push(Ev::Start(l.q("dimension"), vec![("ref".into(), rect_ref(d))]));
        out.push(end(&l.q("dimension")));
        ws(l, rng, &mut out);
    }
    if !sheet.extra_before_sheet_data.is_empty() {
        out.push(Ev::Other(sheet.extra_before_sheet_data.clone()));
    }
    out.push(start(&l.q("sheetData"), &[]));
    // reader cursor
    let mut row_index: u32 = 0;
    for (i, j) in row_spans {
        let r = written[i].0 .0;
        ws(l, rng, &mut out);
        if roll(rng, l.pct_noise) {
            out.push(Ev::Other("<!-- row -->".into()));
        }
        let row_explicit = r != row_index || roll(rng, l.pct_row_ref);
        let mut attrs: Vec<(String, String)> = vec![];
        if roll(rng, l.pct_noise) {
            attrs.push(("spans".into(), "1:3".into()));
        }
        if row_explicit {
            attrs.push(("r".into(), (r as u64 + 1).to_string()));
        }
        if roll(rng, l.pct_noise) {
            attrs.push(("ht".into(), "15".into()));
        }
        let mut attrs = arrange(l, &mut arng, attrs, &ROW_EXTRAS);
        if roll(&mut sprng, l.pct_spans) {
            attrs.retain(|(k, _)| k != "spans");
            let c0 = written[i].0 .1 as u64 + 1;
            let c1 = written[j - 1].0 .1 as u64 + 1;
            let k = sprng.range(2, 9);
            let v = match sprng.below(6) {
                0 => format!("{c0}:{c1}"),
                1 => format!("{}:{}", c0 + k, c1 + k),
                2 => format!("{}:{}", k, k + sprng.below(6)),
                3 => format!("1:{} {}:{}", k, k + 2, k + 4),
                4 => "16384:16384".to_string(),
                _ => format!("{}:{}", c0.saturating_sub(1).max(1), c1),
            };
            let at = sprng.below(attrs.len() as u64 + 1) as usize;
            attrs.insert(at, ("spans".into(), v));
        }
        if roll(&mut rsrng, l.pct_row_style) {
            // the row is formatted as a whole; its cells keep their own style (absent = 0)
            attrs.retain(|(k, _)| k != "customFormat" && k != "hidden");
            let idx = rsrng.below(l.row_style_count.max(1) as u64);
            let mut extra: Vec<(String, String)> = vec![("s".into(), idx.to_string()), ("customFormat".into(), (*rsrng.pick(&["1", "true"])).into())];
            for (k, v) in [("hidden", "0"), ("outlineLevel", "1"), ("collapsed", "0"), ("thickTop", "1"), ("x14ac:dyDescent", "0.25")] {
                if rsrng.chance(1, 3) {
                    extra.push((k.into(), v.into()));
                }
            }
            if rsrng.chance(1, 2) {
                extra.extend(attrs.drain(..));
                attrs = extra;
            } else {
                attrs.extend(extra);
            }
        }
        out.push(Ev::Start(l.q("row"), attrs));
        // after an explicit `r` on the row, or on a sequential row, the row cursor is `r`
        let mut col_index: u32 = 0;
        for (pos, cell) in &written[i..j] {
            let c = pos.1;
            ws(l, rng, &mut out);
            let explicit = c != col_index || roll(rng, l.pct_cell_ref);
            let mut attrs: Vec<(String, String)> = vec![];
            if explicit {
                let letters = if roll(rng, l.pct_lower_ref) { col_name(c).to_lowercase() } else { col_name(c) };
                attrs.push(("r".into(), format!("{}{}", letters, r as u64 + 1)));
            }
            if let Some(s) = cell.style {
                attrs.push(("s".into(), s.to_string()));
            }
            let attrs = with_foreign(l, &mut frng, attrs);
            render_cell(cell, l, rng, &mut arng, &mut vrng, sst, attrs, &mut out);
            col_index = c + 1;
        }
        ws(l, rng, &mut out);
        out.push(end(&l.q("row")));
        row_index = r + 1;
    }
    ws(l, rng, &mut out);
    out.push(end(&l.q("sheetData")));
    if !sheet.merges.is_empty() {
        out.push(Ev::Start(l.q("mergeCells"), vec![("count".into(), sheet.merges.len().to_string())]));
        for m in &sheet.merges {
            out.push(Ev::Start(l.q("mergeCell"), vec![("ref".into(), rect_ref(*m))]));
            out.push(end(&l.q("mergeCell")));
        }
        out.push(end(&l.q("mergeCells")));
    }
    if !sheet.extra_after_sheet_data.is_empty() {
        out.push(Ev::Other(sheet.extra_after_sheet_data.clone()));
    }
    ws(l, rng, &mut out);
    out.push(end(&l.q("worksheet")));
    out
}

fn render_cell(cell: &XCell, l: &Layout, rng: &mut Rng, arng: &mut Rng, vrng: &mut Rng, sst: &mut Sst, mut attrs: Vec<(String, String)>, out: &mut Vec<Ev>) {
    // the character data of a number's <v>, possibly in pieces
    let v_content = |val: &str, vrng: &mut Rng, out: &mut Vec<Ev>| {
        let cs: Vec<char> = val.chars().collect();
        if cs.len() >= 2 && roll(vrng, l.pct_v_split) {
            let k = vrng.range(1, cs.len() as u64 - 1) as usize;
            let a: String = cs[..k].iter().collect();
            let b: String = cs[k..].iter().collect();
            match if l.v_split_cdata { vrng.below(5) } else { vrng.below(2) } {
                0 => {
                    out.push(text(&a));
                    out.push(Ev::Other("<!-- c -->".into()));
                    out.push(text(&b));
                }
                1 => {
                    out.push(text(&a));
                    out.push(Ev::Other("<?keep together?>".into()));
                    out.push(text(&b));
                }
                2 => {
                    out.push(Ev::CData(a));
                    out.push(text(&b));
                }
                3 => {
                    out.push(text(&a));
                    out.push(Ev::CData(b));
                }
                _ => {
                    out.push(Ev::CData(a));
                    out.push(Ev::Other("<!---->".into()));
                    out.push(Ev::CData(b));
                }
            }
        } else {
            out.push(text(val));
        }
    };
    let c = l.q("c");
    let v = l.q("v");
    let f_events = |out: &mut Vec<Ev>| {
        if let Some(f) = &cell.formula {
            let mut fa: Vec<(String, String)> = vec![];
            if let Some((si, r)) = &f.shared {
                fa.push(("t".into(), "shared".into()));
                if let Some(r) = r {
                    fa.push(("ref".into(), r.clone()));
                }
                fa.push(("si".into(), si.to_string()));
            }
            out.push(Ev::Start(l.q("f"), fa));
            if !f.text.is_empty() {
                out.push(text(&f.text));
            }
            out.push(end(&l.q("f")));
        }
    };
    let simple_v = |t: Option<&str>, val: &str, mut attrs: Vec<(String, String)>, arng: &mut Rng, num: Option<&mut Rng>, out: &mut Vec<Ev>| {
        if let Some(t) = t {
            attrs.push(("t".into(), t.into()));
        }
        out.push(Ev::Start(c.clone(), arrange(l, arng, attrs, &C_EXTRAS)));
        if l.formula_first {
            f_events(out);
        }
        out.push(start(&v, &[]));
        match num {
            // a number: its text may be written in pieces
            Some(vrng) if !val.is_empty() => v_content(val, vrng, out),
            _ => {
                if !val.is_empty() {
                    if roll(arng, l.pct_char_ref) {
                        out.push(Ev::TextRef(val.to_string()));
                    } else {
                        out.push(text(val));
                    }
                }
            }
        }
        out.push(end(&v));
        if !l.formula_first {
            f_events(out);
        }
        out.push(end(&c));
    };
    let simple = |t: Option<&str>, val: &str, attrs: Vec<(String, String)>, arng: &mut Rng, out: &mut Vec<Ev>| {
        simple_v(t, val, attrs, arng, None, out)
    };
    let shared = |s: &str, attrs: Vec<(String, String)>, rng: &mut Rng, arng: &mut Rng, sst: &mut Sst, out: &mut Vec<Ev>| {
        let idx = sst.index_of(s, roll(rng, l.pct_sst_dedupe));
        simple(Some("s"), &idx.to_string(), attrs, arng, out);
    };
    let inline = |s: &str, mut attrs: Vec<(String, String)>, rng: &mut Rng, arng: &mut Rng, out: &mut Vec<Ev>| {
        attrs.push(("t".into(), "inlineStr".into()));
        out.push(Ev::Start(c.clone(), arrange(l, arng, attrs, &C_EXTRAS)));
        f_events(out);
        out.push(start(&l.q("is"), &[]));
        string_item_events(l, rng, s, out);
        out.push(end(&l.q("is")));
        out.push(end(&c));
    };
    match &cell.value {
        XVal::Empty => {
            out.push(Ev::Start(c.clone(), arrange(l, arng, std::mem::take(&mut attrs), &C_EXTRAS)));
            f_events(out);
            out.push(end(&c));
        }
        XVal::Num(t) => {
            let tn = roll(rng, l.pct_t_n) || (cell.style.is_some() && roll(arng, l.pct_t_n_styled));
            simple_v(if tn { Some("n") } else { None }, t, attrs, arng, Some(vrng), out)
        }
        XVal::SharedStr(s) => {
            if roll(rng, l.pct_swap_string_store) {
                inline(s, attrs, rng, arng, out)
            } else {
                shared(s, attrs, rng, arng, sst, out)
            }
        }
        XVal::InlineStr(s) => {
            if roll(rng, l.pct_swap_string_store) {
                shared(s, attrs, rng, arng, sst, out)
            } else {
                inline(s, attrs, rng, arng, out)
            }
        }
        XVal::FormulaStr(s) => simple(Some("str"), s, attrs, arng, out),
        XVal::Bool(b) => simple(Some("b"), if *b { "1" } else { "0" }, attrs, arng, out),
        XVal::Err(e) => simple(Some("e"), e, attrs, arng, out),
        XVal::IsoDate(d) => simple(Some("d"), d, attrs, arng, out),
    }
}

/// events of `xl/sharedStrings.xml`
pub fn render_sst(sst: &Sst, l: &Layout, rng: &mut Rng) -> Vec<Ev> {
    let mut out = Vec::new();
    let (nk, nv) = l.ns_attr();
    let n = sst.items.len().to_string();
    out.push(Ev::Start(l.q("sst"), vec![(nk, nv), ("count".into(), n.clone()), ("uniqueCount".into(), n)]));
    for s in &sst.items {
        ws(l, rng, &mut out);
        out.push(start(&l.q("si"), &[]));
        if !(s.is_empty() && roll(rng, l.pct_empty_si)) {
            string_item_events(l, rng, s, &mut out);
        }
        out.push(end(&l.q("si")));
    }
    ws(l, rng, &mut out);
    out.push(end(&l.q("sst")));
    out
}

pub fn render_styles(book: &XlsxBook, l: &Layout) -> Vec<Ev> {
    let mut out = Vec::new();
    let mut arng = attr_rng(l, "xl/styles.xml");
    // structure knobs (`pct_xf_omit_general`, `pct_styles_noise`): their own stream, so that the bytes of every
    // other knob stay what they were
    let mut srng = attr_rng(l, "xl/styles.xml#structure");
    let noise = roll(&mut srng, l.pct_styles_noise);
    let (nk, nv) = l.ns_attr();
    out.push(Ev::Start(l.q("styleSheet"), vec![(nk, nv)]));
    // a `count` attribute: right, wrong or missing (it is informative only)
    let count_attr = |srng: &mut Rng, n: usize| -> Vec<(String, String)> {
        if !noise {
            return vec![("count".into(), n.to_string())];
        }
        match srng.below(4) {
            0 => vec![],
            1 => vec![("count".into(), "0".into())],
            2 => vec![("count".into(), (n + 3).to_string())],
            _ => vec![("count".into(), n.to_string())],
        }
    };
    let empty_elem = |out: &mut Vec<Ev>, name: &str, attrs: Vec<(String, String)>| {
        out.push(Ev::Start(l.q(name), attrs));
        out.push(end(&l.q(name)));
    };
    // children an `<xf>` may carry (§18.8.45): never a format
    let xf_children = |out: &mut Vec<Ev>, srng: &mut Rng| {
        if noise && srng.chance(1, 2) {
            empty_elem(out, "alignment", vec![("horizontal".into(), "center".into())]);
        }
        if noise && srng.chance(1, 3) {
            empty_elem(out, "protection", vec![("locked".into(), "0".into())]);
        }
    };
    if !book.num_fmts.is_empty() {
        let ca = count_attr(&mut srng, book.num_fmts.len());
        out.push(Ev::Start(l.q("numFmts"), ca));
        for (id, code) in &book.num_fmts {
            let attrs = arrange(l, &mut arng, vec![("numFmtId".into(), id_text(l, *id, 0)), ("formatCode".into(), code.clone())], &[]);
            out.push(Ev::Start(l.q("numFmt"), attrs));
            out.push(end(&l.q("numFmt")));
        }
        out.push(end(&l.q("numFmts")));
    }
    if noise {
        for (blk, item) in [("fonts", "font"), ("fills", "fill"), ("borders", "border")] {
            if srng.chance(2, 3) {
                let ca = count_attr(&mut srng, 1);
                out.push(Ev::Start(l.q(blk), ca));
                empty_elem(&mut out, item, vec![]);
                out.push(end(&l.q(blk)));
            }
        }
    }
    // a cellStyleXfs block first: its <xf> elements are NOT cell formats and must not be counted
    let style_xfs: Vec<Option<u32>> = if noise {
        (0..srng.range(1, 4)).map(|_| *srng.pick(&[Some(0u32), Some(14), Some(22), Some(46), None, Some(164)])).collect()
    } else {
        vec![Some(0)]
    };
    // apply-flag knob: its own stream; with it the cell-style table holds date / elapsed / plain formats to point at
    let mut afrng = attr_rng(l, "xl/styles.xml#applyflag");
    let style_xfs: Vec<Option<u32>> = if l.pct_xf_apply_flag > 0 && !noise {
        vec![Some(0), Some(14), Some(46), Some(2)]
    } else {
        style_xfs
    };
    let ca = if noise { count_attr(&mut srng, style_xfs.len()) } else { vec![("count".into(), style_xfs.len().to_string())] };
    out.push(Ev::Start(l.q("cellStyleXfs"), ca));
    for id in &style_xfs {
        let attrs: Vec<(String, String)> = match id {
            Some(id) => vec![("numFmtId".into(), id.to_string())],
            None => vec![("fontId".into(), "0".into())],
        };
        out.push(Ev::Start(l.q("xf"), attrs));
        xf_children(&mut out, &mut srng);
        out.push(end(&l.q("xf")));
    }
    out.push(end(&l.q("cellStyleXfs")));
    let ca = count_attr(&mut srng, book.cell_xfs.len());
    out.push(Ev::Start(l.q("cellXfs"), ca));
    for (xi, id) in book.cell_xfs.iter().enumerate() {
        let mut base: Vec<(String, String)> = vec![];
        // `numFmtId` is optional and defaults to 0: a General entry may come without it and still owns its index
        if !(*id == 0 && roll(&mut srng, l.pct_xf_omit_general)) {
            base.push(("numFmtId".into(), id_text(l, *id, xi as u64 + 1)));
        }
        let flagged = roll(&mut afrng, l.pct_xf_apply_flag);
        if flagged {
            base.push(("xfId".into(), afrng.below(style_xfs.len() as u64).to_string()));
            base.push(("applyNumberFormat".into(), (*afrng.pick(&["0", "false", "0", "1", "true"])).into()));
        } else {
            base.push(("xfId".into(), "0".into()));
        }
        let attrs = arrange(l, &mut arng, base, &XF_EXTRAS);
        out.push(Ev::Start(l.q("xf"), attrs));
        xf_children(&mut out, &mut srng);
        out.push(end(&l.q("xf")));
    }
    out.push(end(&l.q("cellXfs")));
    if noise {
        if srng.chance(1, 2) {
            let ca = count_attr(&mut srng, 1);
            out.push(Ev::Start(l.q("cellStyles"), ca));
            empty_elem(&mut out, "cellStyle", vec![("name".into(), "Normal".into()), ("xfId".into(), "0".into()), ("builtinId".into(), "0".into())]);
            out.push(end(&l.q("cellStyles")));
        }
        // differential formats: their <numFmt> elements (ids colliding with real ones, other format class) define nothing
        let ca = count_attr(&mut srng, 2);
        out.push(Ev::Start(l.q("dxfs"), ca));
        for (id, code) in [(165u32, "yyyy\\-mm\\-dd"), (164, "0.00"), (0, "[h]:mm:ss"), (14, "0")] {
            if srng.chance(1, 2) {
                out.push(start(&l.q("dxf"), &[]));
                empty_elem(&mut out, "numFmt", vec![("numFmtId".into(), id.to_string()), ("formatCode".into(), code.to_string())]);
                out.push(end(&l.q("dxf")));
            }
        }
        out.push(end(&l.q("dxfs")));
    }
    out.push(end(&l.q("styleSheet")));
    out
}

/// events of `xl/_rels/workbook.xml.rels` for the relationships `(Id, Type, Target)` in this order
pub fn render_rels(rel_list: &[(String, String, String)], l: &Layout) -> Vec<Ev> {
    let mut srng = attr_rng(l, "xl/_rels/workbook.xml.rels");
    let noise = roll(&mut srng, l.pct_rels_noise);
    let pre = if noise && srng.chance(1, 3) { "pr:" } else { "" };
    let mut out = vec![Ev::Start(
        format!("{pre}Relationships"),
        vec![(if pre.is_empty() { "xmlns".to_string() } else { "xmlns:pr".to_string() }, NS_PKG_REL.to_string())],
    )];
    let mut list: Vec<(String, String, String)> = rel_list.to_vec();
    if noise && srng.chance(1, 2) {
        // a further relationship somewhere among the others
        let at = srng.below(list.len() as u64 + 1) as usize;
        list.insert(at, ("rIdTheme".into(), format!("{}/theme", NS_REL), "theme/theme1.xml".into()));
    }
    for (id, typ, target) in &list {
        if noise && srng.chance(1, 3) {
            out.push(text("\n  "));
        }
        let mut attrs: Vec<(String, String)> = vec![("Id".into(), id.clone()), ("Type".into(), typ.clone()), ("Target".into(), target.clone())];
        if noise {
            if srng.chance(1, 2) {
                attrs.push(("TargetMode".into(), "Internal".into()));
            }
            srng.shuffle(&mut attrs);
        }
        out.push(Ev::Start(format!("{pre}Relationship"), attrs));
        out.push(Ev::End(format!("{pre}Relationship")));
    }
    out.push(Ev::End(format!("{pre}Relationships")));
    out
}

fn part_name(canonical: &str, case: PartCase) -> String {
    match case {
        PartCase::Canonical => canonical.to_string(),
        PartCase::Upper => canonical.to_uppercase(),
        PartCase::Capitalised => {
            // capitalise the first letter of the file name
            match canonical.rfind('/') {
                Some(i) => {
                    let (dir, file) = canonical.split_at(i + 1);
                    let mut cs = file.chars();
                    match cs.next() {
                        Some(f) => format!("{}{}{}", dir, f.to_uppercase(), cs.as_str()),
                        None => canonical.to_string(),
                    }
                }
                None => canonical.to_string(),
            }
        }
    }
}

/// Result of `XlsxBook::build`
pub struct Built {
    /// the .xlsx file
    pub bytes: Vec<u8>,
    /// `(part name as written, content)` in zip order
    pub parts: Vec<(String, Vec<u8>)>,
    /// events of every worksheet part (empty for `raw_xml` sheets), in sheet order
    pub sheet_events: Vec<Vec<Ev>>,
    /// events of `xl/sharedStrings.xml` (empty when the part is not written or raw)
    pub sst_events: Vec<Ev>,
    /// the shared string items in file order
    pub strings: Vec<String>,
    /// canonical (lower-case) part name of every sheet, e.g. `xl/worksheets/sheet1.xml`
    pub sheet_paths: Vec<String>,
    /// events of `xl/workbook.xml` as written (C16)
    pub workbook_events: Vec<Ev>,
    /// `(Id, Target)` of the sheet relationships in `xl/_rels/workbook.xml.rels`, in sheet order (C16)
    pub sheet_rels: Vec<(String, String)>,
    /// events of `xl/_rels/workbook.xml.rels` as written (C01 container glue)
    pub rels_events: Vec<Ev>,
}

impl XlsxBook {
    pub fn build(&self, l: &Layout) -> Built {
        let mut rng = Rng(l.seed ^ 0x5851F42D4C957F2D);
        let mut sst = Sst::default();
        let mut parts: Vec<(String, Vec<u8>)> = vec![];
        let sc = |rng: &mut Rng, evs: &[Ev]| -> Vec<u8> {
            let mut r2 = rng.fork();
            let pct = l.pct_self_close;
            // end-tag white space: a stream of its own (seeded from the part's size, not from `rng`)
            let mut r3 = Rng(l.seed ^ 0xE7D5_9ACE ^ evs.len() as u64);
            let pes = l.pct_end_tag_space;
            let body = serialize_with(evs, || roll(&mut r2, pct), || roll(&mut r3, pes));
            format!("<?xml version=\"1.0\" encoding=\"UTF-8\" standalone=\"yes\"?>\n{}", body).into_bytes()
        };
        // content types (calamine does not read it; Excel does)
        let mut ct = String::from("<?xml version=\"1.0\" encoding=\"UTF-8\" standalone=\"yes\"?>\n<Types xmlns=\"http://schemas.openxmlformats.org/package/2006/content-types\"><Default Extension=\"rels\" ContentType=\"application/vnd.openxmlformats-package.relationships+xml\"/><Default Extension=\"xml\" ContentType=\"application/xml\"/><Override PartName=\"/xl/workbook.xml\" ContentType=\"application/vnd.openxmlformats-officedocument.spreadsheetml.sheet.main+xml\"/>");
        let mut sheet_events = vec![];
        let mut sheet_paths = vec![];
        let mut sheet_parts = vec![];
        for (i, sh) in self.sheets.iter().enumerate() {
            let path = format!("xl/{}/sheet{}.xml", sh.folder, i + 1);
            ct.push_str(&format!("<Override PartName=\"/{}\" ContentType=\"application/vnd.openxmlformats-officedocument.spreadsheetml.worksheet+xml\"/>", path));
            match &sh.raw_xml {
                Some(raw) => {
                    sheet_events.push(vec![]);
                    sheet_parts.push((path.clone(), raw.clone().into_bytes()));
                }
                None => {
                    let evs = if l.row_style_count == 0 && l.pct_row_style > 0 {
                        // row styles range over the book's own cell formats
                        let mut l2 = l.clone();
                        l2.row_style_count = self.cell_xfs.len().max(1) as u32;
                        render_sheet(sh, &l2, &mut rng, &mut sst)
                    } else {
                        render_sheet(sh, l, &mut rng, &mut sst)
                    };
                    sheet_parts.push((path.clone(), sc(&mut rng, &evs)));
                    sheet_events.push(evs);
                }
            }
            sheet_paths.push(path);
        }
        ct.push_str("</Types>");
        parts.push(("[Content_Types].xml".into(), ct.into_bytes()));
        parts.push(("_rels/.rels".into(), format!("<?xml version=\"1.0\" encoding=\"UTF-8\" standalone=\"yes\"?>\n<Relationships xmlns=\"{}\"><Relationship Id=\"rId1\" Type=\"{}/officeDocument\" Target=\"xl/workbook.xml\"/></Relationships>", NS_PKG_REL, NS_REL).into_bytes()));
        // workbook
        let mut wb = Vec::new();
        let (nk, nv) = l.ns_attr();
        let rel_ns = (format!("xmlns:{}", l.rel_prefix), NS_REL.to_string());
        let mut wb_attrs = vec![(nk, nv)];
        match l.rel_decl {
            RelDecl::Workbook => wb_attrs.push(rel_ns.clone()),
            // another prefix for the same namespace on the root; the one in use is declared further down
            RelDecl::Split => wb_attrs.push((format!("xmlns:{}", if l.rel_prefix == "r0" { "r1" } else { "r0" }), NS_REL.to_string())),
            RelDecl::Sheets | RelDecl::Sheet => {}
        }
        wb.push(Ev::Start(l.q("workbook"), wb_attrs));
        if let Some(d) = self.date1904 {
            // `date1904="0"`/`"false"` are equally legal spellings of false
            let val = if d { *rng.pick(&["1", "true"]) } else { *rng.pick(&["0", "false"]) };
            wb.push(Ev::Start(l.q("workbookPr"), vec![("date1904".into(), val.to_string())]));
            wb.push(end(&l.q("workbookPr")));
        }
        wb.push(Ev::Start(
            l.q("sheets"),
            if matches!(l.rel_decl, RelDecl::Sheets | RelDecl::Split) { vec![rel_ns.clone()] } else { vec![] },
        ));
        // (Id, Type, Target) of every relationship of xl/_rels/workbook.xml.rels, in file order
        let mut rel_list: Vec<(String, String, String)> = vec![];
        let mut sheet_rels: Vec<(String, String)> = vec![];
        for (i, sh) in self.sheets.iter().enumerate() {
            let mut attrs: Vec<(String, String)> = vec![("name".into(), sh.name.clone()), ("sheetId".into(), (i + 1).to_string())];
            match sh.state {
                SheetState::Visible => {
                    if roll(&mut rng, 20) {
                        attrs.push(("state".into(), "visible".into()))
                    }
                }
                SheetState::Hidden => attrs.push(("state".into(), "hidden".into())),
                SheetState::VeryHidden => attrs.push(("state".into(), "veryHidden".into())),
            }
            if l.rel_decl == RelDecl::Sheet {
                attrs.push(rel_ns.clone());
            }
            let rid = match &self.rel_ids {
                Some(v) => v[i].clone(),
                None => format!("rId{}", i + 1),
            };
            attrs.push((format!("{}:id", l.rel_prefix), rid.clone()));
            wb.push(Ev::Start(l.q("sheet"), attrs));
            wb.push(end(&l.q("sheet")));
            let rel_target = &sheet_paths[i]["xl/".len()..];
            let target = match l.target {
                TargetStyle::Relative => rel_target.to_string(),
                TargetStyle::AbsoluteXl => format!("/xl/{}", rel_target),
                TargetStyle::XlPrefixed => format!("xl/{}", rel_target),
            };
            let typ = match sh.folder.as_str() {
                "chartsheets" => "chartsheet",
                "dialogsheets" => "dialogsheet",
                "macrosheets" => "xlMacrosheet",
                _ => "worksheet",
            };
            rel_list.push((rid.clone(), format!("{}/{}", NS_REL, typ), target.clone()));
            sheet_rels.push((rid, target));
        }
        wb.push(end(&l.q("sheets")));
        if !self.defined_names.is_empty() {
            wb.push(start(&l.q("definedNames"), &[]));
            for (n, v) in &self.defined_names {
                wb.push(Ev::Start(l.q("definedName"), vec![("name".into(), n.clone())]));
                if !v.is_empty() {
                    let chars: Vec<char> = v.chars().collect();
                    if self.cdata_defined_names && !v.contains("]]>") {
                        // part of the text (all of it when it is short) sits in a CDATA section (C16)
                        let k = chars.len() / 3;
                        let m = chars.len() - chars.len() / 3;
                        if k > 0 {
                            wb.push(text(&chars[..k].iter().collect::<String>()));
                        }
                        wb.push(Ev::CData(chars[k..m].iter().collect::<String>()));
                        if m < chars.len() {
                            wb.push(text(&chars[m..].iter().collect::<String>()));
                        }
                    } else if self.split_defined_names && chars.len() >= 2 {
                        // the text arrives in two Text events around a comment (C16)
                        let k = chars.len() / 2;
                        wb.push(text(&chars[..k].iter().collect::<String>()));
                        wb.push(Ev::Other("<!--c-->".into()));
                        wb.push(text(&chars[k..].iter().collect::<String>()));
                    } else {
                        wb.push(text(v));
                    }
                }
                wb.push(end(&l.q("definedName")));
            }
            wb.push(end(&l.q("definedNames")));
        }
        if !self.workbook_extra.is_empty() {
            wb.push(Ev::Other(self.workbook_extra.clone()));
        }
        wb.extend(self.workbook_tail_events.iter().cloned());
        if !self.workbook_inert.is_empty() {
            // inert blocks go to random boundaries between the children of <workbook>: after its start tag or after
            // an end tag that closes a child (depth back to 1)
            let mut wb2 = wb.clone();
            for block in &self.workbook_inert {
                let mut depth = 0i32;
                let mut slots = vec![];
                for (i, e) in wb2.iter().enumerate() {
                    match e {
                        Ev::Start(..) => {
                            depth += 1;
                            if depth == 1 {
                                slots.push(i + 1);
                            }
                        }
                        Ev::End(_) => {
                            depth -= 1;
                            if depth == 1 {
                                slots.push(i + 1);
                            }
                        }
                        _ => {}
                    }
                }
                let at = *rng.pick(&slots);
                wb2.splice(at..at, block.iter().cloned());
            }
            wb = wb2;
        }
        wb.push(end(&l.q("workbook")));
        let n = self.sheets.len();
        rel_list.push((format!("rId{}", n + 1), format!("{}/styles", NS_REL), "styles.xml".into()));
        rel_list.push((format!("rId{}", n + 2), format!("{}/sharedStrings", NS_REL), "sharedStrings.xml".into()));
        let rels_events = render_rels(&rel_list, l);
        let rels = format!("<?xml version=\"1.0\" encoding=\"UTF-8\" standalone=\"yes\"?>\n{}", serialize(&rels_events, || true));
        parts.push(("xl/workbook.xml".into(), sc(&mut rng, &wb)));
        parts.push(("xl/_rels/workbook.xml.rels".into(), rels.into_bytes()));
        if self.sheet_parts_reversed {
            sheet_parts.reverse();
        }
        parts.extend(sheet_parts);
        parts.push(("xl/styles.xml".into(), sc(&mut rng, &render_styles(self, l))));
        let mut sst_events = vec![];
        match &self.raw_shared_strings {
            Some(raw) => parts.push(("xl/sharedStrings.xml".into(), raw.clone().into_bytes())),
            None => {
                if !sst.items.is_empty() || roll(&mut rng, 50) {
                    sst_events = render_sst(&sst, l, &mut rng);
                    parts.push(("xl/sharedStrings.xml".into(), sc(&mut rng, &sst_events)));
                }
            }
        }
        for (n, b) in &self.extra_parts {
            parts.push((n.clone(), b.clone()));
        }
        // the parts are not written in a fixed order: calamine looks entries up by name
        if roll(&mut rng, 50) {
            rng.shuffle(&mut parts);
        }
        let parts: Vec<(String, Vec<u8>)> = parts
            .into_iter()
            .map(|(n, b)| (if n.starts_with("xl/") { part_name(&n, l.part_case) } else { n }, b))
            .collect();
        let bytes = zip_parts(&parts, l.compression, &mut rng);
        Built { bytes, parts, sheet_events, sst_events, strings: sst.items, sheet_paths, workbook_events: wb, sheet_rels, rels_events }
    }
}

/// zip the parts in the given order
pub fn zip_parts(parts: &[(String, Vec<u8>)], compression: Compression, rng: &mut Rng) -> Vec<u8> {
    let mut zw = zip::ZipWriter::new(std::io::Cursor::new(Vec::new()));
    for (name, body) in parts {
        let deflate = match compression {
            Compression::Stored => false,
            Compression::Deflated => true,
            Compression::Mixed => rng.chance(1, 2),
        };
        let opts = zip::write::SimpleFileOptions::default().compression_method(if deflate {
            zip::CompressionMethod::Deflated
        } else {
            zip::CompressionMethod::Stored
        });
        zw.start_file(name.as_str(), opts).expect("zip start_file");
        zw.write_all(body).expect("zip write");
    }
    zw.finish().expect("zip finish").into_inner()
}

#[cfg(test)]
mod tests {
    use super::*;
    use calamine::{Data, Reader, Xlsx};

    #[test]
    fn plain_roundtrip() {
        let mut book = XlsxBook::new();
        let mut sh = XlsxSheet::new("A & <B>");
        sh.set(0, 0, XCell::num("1.5"));
        sh.set(2, 3, XCell::shared("he&llo <w> \"q\" 'a'"));
        sh.set(2, 4, XCell::inline("in"));
        sh.set(4, 1, XCell::new(XVal::Bool(true)));
        book.sheets.push(sh);
        for seed in 0..200u64 {
            let mut rng = Rng::new(seed);
            let mut l = if seed == 0 { Layout::plain() } else { Layout::random(&mut rng) };
            // knobs that expose known calamine defects are exercised by the C01 binary, not by this smoke test
            l.rel_prefix = "r".into();
            l.pct_rich = 0;
            let built = book.build(&l);
            let mut wb = Xlsx::new(std::io::Cursor::new(built.bytes)).unwrap_or_else(|e| panic!("{e} {}", l.describe()));
            let r = wb.worksheet_range("A & <B>").unwrap();
            assert_eq!(r.start(), Some((0, 0)), "{}", l.describe());
            assert_eq!(r.end(), Some((4, 4)));
            assert_eq!(r.get_value((0, 0)), Some(&Data::Float(1.5)));
            assert_eq!(r.get_value((2, 3)), Some(&Data::String("he&llo <w> \"q\" 'a'".into())));
            assert_eq!(r.get_value((2, 4)), Some(&Data::String("in".into())));
            assert_eq!(r.get_value((4, 1)), Some(&Data::Bool(true)));
        }
    }
}
