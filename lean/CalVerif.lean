import CalVerif.Lemmas.Range
import CalVerif.Model.Range
import CalVerif.Prim.Res
import CalVerif.Prim.Wire
import CalVerif.Props.C05
