import CalVerif.Prim.Res
import CalVerif.Prim.Wire
import CalVerif.Model.Range
import CalVerif.Lemmas.Range
import CalVerif.Props.C05
