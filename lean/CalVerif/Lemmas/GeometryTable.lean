import CalVerif.Lemmas.Geometry
import CalVerif.Model.DataConv
/-! Helper lemmas for the table accessors of `Props/C17.lean`: `Range::range` commutes with a cell-wise
    conversion that keeps the default value (so the owned and the borrowed table agree cell by cell). -/
namespace Geometry
open Range (Rng)
set_option linter.unusedSectionVars false

variable {α β : Type} [Inhabited α] [Inhabited β]

/-- cell-wise conversion of a range, corners kept -/
def mapRng (f : α → β) (r : Rng α) : Rng β := ⟨r.sr, r.sc, r.er, r.ec, r.inner.map f⟩

/-- conversion of an outcome -/
def mapRes {γ δ : Type} (g : γ → δ) : Res γ → Res δ
  | .ok a => .ok (g a)
  | .err e => .err e
  | .panic s => .panic s
  | .outOfFuel => .outOfFuel

theorem toOwnedRange_eq (r : Rng DataConv.DataRef) : DataConv.toOwnedRange r = mapRng DataConv.toData r := rfl

theorem mapRng_width (f : α → β) (r : Rng α) : (mapRng f r).width = r.width := by
  simp [mapRng, Range.Rng.width]

theorem new_map (f : α → β) (hf : f default = default) (sr sc er ec : Nat) :
    (Range.new sr sc er ec : Res (Rng β)) = mapRes (mapRng f) (Range.new sr sc er ec : Res (Rng α)) := by
  unfold Range.new
  split; · rfl
  split; · rfl
  split; · rfl
  split; · rfl
  simp [mapRes, mapRng, hf]

theorem copySlice_map (f : α → β) (dst src : List α) (a b n : Nat) :
    (Range.copySlice dst src a b n).map f = Range.copySlice (dst.map f) (src.map f) a b n := by
  simp [Range.copySlice, List.map_take, List.map_drop]

theorem copyRows_map (f : α → β) (src : List α) (dw sw dr sr_ dc sc_ nc : Nat) :
    ∀ (k : Nat) (dst : List α),
      (Range.copyRows src dw sw dr sr_ dc sc_ nc k dst).map f =
        Range.copyRows (src.map f) dw sw dr sr_ dc sc_ nc k (dst.map f)
  | 0, _ => rfl
  | k + 1, dst => by
    simp only [Range.copyRows]
    rw [copyRows_map f src dw sw dr sr_ dc sc_ nc k, copySlice_map]

/-- `Range::range` on the converted range is the conversion of `Range::range` -/
theorem range_map (f : α → β) (hf : f default = default) (r : Rng α) (sr sc er ec : Nat) :
    Range.range (mapRng f r) sr sc er ec = mapRes (mapRng f) (Range.range r sr sc er ec) := by
  unfold Range.range
  rw [new_map f hf sr sc er ec]
  cases hn : (Range.new sr sc er ec : Res (Rng α)) with
  | ok other =>
    simp only [mapRes]
    have hlen : (mapRng f r).inner.length = r.inner.length := by simp [mapRng]
    rw [hlen]
    split
    · rfl
    · have e1 : (mapRng f r).sr = r.sr := rfl
      have e2 : (mapRng f r).er = r.er := rfl
      have e3 : (mapRng f r).sc = r.sc := rfl
      have e4 : (mapRng f r).ec = r.ec := rfl
      simp only [e1, e2, e3, e4, mapRng_width]
      split
      · rfl
      · simp only [mapRes, mapRng]
        congr 2
        rw [copyRows_map]
  | err e => rfl
  | panic e => rfl
  | outOfFuel => rfl

theorem tableData_map (f : α → β) (hf : f default = default) (r : Rng α) (d : Rect) :
    tableData (mapRng f r) d = mapRes (mapRng f) (tableData r d) := by
  unfold tableData
  split
  · simp [mapRes, mapRng, Range.empty]
  · exact range_map f hf r d.sr d.sc d.er d.ec

theorem worksheetMergeCellsAt_nth {κ γ : Type} (a b : List κ) (k : κ) (byName : κ → Option γ) :
    worksheetMergeCellsAt (a ++ k :: b) byName a.length = byName k := by
  simp [worksheetMergeCellsAt]

end Geometry
