import CalVerif.Lemmas.Xlsb
import CalVerif.Model.XmlText
import CalVerif.Model.Biff
import CalVerif.Props.C05
/-! Cross-model lemmas for C03: the places where another property models the same code or the same table
    (`wide_str` in C19's `Model/XmlText.lean`, the BErr byte in C02's `Model/Biff.lean`). -/

namespace Xlsb

theorem unitsOf_eq_units : ∀ (n : Nat) (b : Bytes), b.length ≤ n → (XmlText.unitsOf b).map (·.toNat) = units b
  | 0, b, h => by
    have : b = [] := List.eq_nil_of_length_eq_zero (by omega)
    subst this; rfl
  | n+1, [], _ => rfl
  | n+1, [_], _ => rfl
  | n+1, a :: b :: r, h => by
    simp only [XmlText.unitsOf, units, List.map_cons]
    rw [unitsOf_eq_units n r (by simp at h; omega)]
    congr 1
    have ha := a.toNat_lt; have hb := b.toNat_lt
    simp [UInt16.toNat_ofNat]; omega

/-- G3: `wide_str` is modelled twice — here and in `Model/XmlText.lean` (C19, result in `UInt16` units). On every
    buffer that holds at least the 4-byte character count the two copies agree (units compared as numbers). On a
    shorter buffer this model returns `Err(WideStr)` (the code since fix cbbeadd) while the C19 copy still says
    `panic` (the pinned code). -/
theorem xmlText_wideStr_eq (buf : Bytes) (h : 4 ≤ buf.length) :
    (match XmlText.wideStr buf with
      | .ok (us, n) => Res.ok (us.map (·.toNat), n)
      | .err e => .err e
      | .panic s => .panic s
      | .outOfFuel => .outOfFuel) = wideStr buf := by
  match buf, h with
  | b0 :: b1 :: b2 :: b3 :: rest, _ =>
    have hu : XmlText.u32le b0 b1 b2 b3 = u32le (b0 :: b1 :: b2 :: b3 :: rest) := by
      rw [u32le_cons4]; rfl
    have h4 : ¬ (b0 :: b1 :: b2 :: b3 :: rest).length < 4 := by simp
    simp only [XmlText.wideStr, wideStr, hu, if_neg h4]
    by_cases hl : (b0 :: b1 :: b2 :: b3 :: rest).length < 4 + u32le (b0 :: b1 :: b2 :: b3 :: rest) * 2
    · rw [if_pos hl, if_pos hl]
    · rw [if_neg hl, if_neg hl]
      simp only [List.drop_succ_cons, List.drop_zero]
      rw [unitsOf_eq_units _ _ (Nat.le_refl _)]

/-- the xls model's error kinds as `CellErrorType` -/
def ofBiffErr : BiffCells.ErrKind → CellErrorType
  | .null => .null | .div0 => .div0 | .value => .value | .ref => .ref | .name => .name | .num => .num | .na => .nA
  | .gettingData => .gettingData

/-- xls `parse_err` (the model of C02, `boolerr_bijective`) decodes a byte to an error kind exactly when the BErr
    table of this property does, and to the same kind: BrtCellError / BrtFmlaError and BOOLERR share one table -/
theorem biff_parseErr_eq_berr (e : Nat) (k : BiffCells.ErrKind) :
    BiffCells.parseErr e = .ok (.error k) ↔ berrKind e = some (ofBiffErr k) := by
  unfold BiffCells.parseErr berrKind berrTable
  simp only [List.lookup]
  constructor
  · intro h
    repeat' split at h
    all_goals first
      | (injection h with h; injection h with h; subst h; simp_all [ofBiffErr])
      | cases h
  · intro h
    repeat' split at h
    all_goals first
      | (injection h with h; cases k <;> simp_all [ofBiffErr])
      | cases h

/-- positions pairwise distinct: every cell of the list is at its position -/
theorem valAt_of_lastAt_mem (S : List (Nat × Nat × Val)) (r : Range.Rng Val)
    (hv : ∀ p q, r.valAt p q = (Range.lastAt S p q).getD Val.empty)
    (hdist : S.Pairwise (fun a b => ¬ (a.1 = b.1 ∧ a.2.1 = b.2.1))) :
    ∀ c ∈ S, r.valAt c.1 c.2.1 = c.2.2 := by
  intro c hc
  obtain ⟨l1, l2, rfl⟩ := List.append_of_mem hc
  rw [hv, Range.lastAt_append_cons l1 l2 c]
  · rfl
  · intro c' hc' hpos
    have := List.pairwise_append.mp hdist
    have h2 := (List.pairwise_cons.mp this.2.1).1 c' hc'
    exact h2 ⟨hpos.1.symm, hpos.2.symm⟩

/-- a position no cell addresses reads as empty -/
theorem valAt_of_lastAt_none (S : List (Nat × Nat × Val)) (r : Range.Rng Val)
    (hv : ∀ p q, r.valAt p q = (Range.lastAt S p q).getD Val.empty) (p q : Nat)
    (hno : ∀ c ∈ S, ¬ (c.1 = p ∧ c.2.1 = q)) : r.valAt p q = Val.empty := by
  rw [hv]
  have : Range.lastAt S p q = none := by
    unfold Range.lastAt
    rw [Option.map_eq_none_iff, List.find?_eq_none]
    intro c hc
    simpa using hno c (List.mem_reverse.mp hc)
  rw [this]; rfl

end Xlsb
