import CalVerif.Lemmas.PtgBytes
/-! Totality of the decoders (Props/C14 `parseFormulaXls_no_panic`, `parseFormulaXlsb_no_panic`, `…_fuel`):
    no arm panics (every token length is checked, table lookups use `get`), the offset edits cannot panic on the
    states a run reaches (`applyAct_inv`), and every arm consumes its input, so the loop budget suffices. -/
namespace Formula
open Ptg

/-- a decoder arm applied to the bytes `r`: it does not panic, does not run out of fuel, and what it leaves is
    no longer than `r` -/
def Good {α : Type} (r : Bytes) (x : Res (α × Bytes)) : Prop :=
  (∀ m, x ≠ .panic m) ∧ x ≠ .outOfFuel ∧ ∀ a r', x = .ok (a, r') → r'.length ≤ r.length

theorem good_ok {α : Type} (r : Bytes) (a : α) (r' : Bytes) (h : r'.length ≤ r.length) : Good r (Res.ok (a, r')) := by
  refine ⟨by simp, by simp, ?_⟩
  intro a' r'' he; simp at he; rw [← he.2]; exact h
theorem good_drop {α : Type} (r : Bytes) (a : α) (k : Nat) : Good r (Res.ok (a, r.drop k)) :=
  good_ok r a _ (by simp)
theorem good_same {α : Type} (r : Bytes) (a : α) : Good r (Res.ok (a, r)) := good_ok r a r (Nat.le_refl _)
theorem good_err {α : Type} (r : Bytes) (e : String) : Good r (Res.err e : Res (α × Bytes)) :=
  ⟨by simp, by simp, by simp⟩
theorem good_need {α : Type} (f : Bool) (r b : Bytes) (n : Nat) (k : Unit → Res (α × Bytes)) (h : Good r (k ())) :
    Good r (need f b n >>= k) := by
  unfold need; split
  · exact good_err r _
  · simpa using h
theorem good_ite {α : Type} (r : Bytes) (c : Prop) [Decidable c] (x y : Res (α × Bytes)) (hx : Good r x) (hy : Good r y) :
    Good r (if c then x else y) := by split <;> assumption
/-- an arm that first drops bytes -/
theorem good_of_drop {α : Type} (r : Bytes) (k : Nat) (x : Res (α × Bytes)) (h : Good (r.drop k) x) : Good r x := by
  refine ⟨h.1, h.2.1, ?_⟩
  intro a r' he
  have := h.2.2 a r' he
  simp at this; omega

theorem decodeFuncFixed_good (r : Bytes) (c : Bool) : Good r (decodeFuncFixed r c) := by
  unfold decodeFuncFixed
  apply good_need
  by_cases hlt : u16 r 0 ≥ Gen.ftabLen
  · simp only [hlt, if_true]; exact good_err r _
  · have hs : Gen.ftabArgc.size = Gen.ftabLen := by decide +kernel
    have hi : u16 r 0 < Gen.ftabArgc.size := by omega
    simp only [hlt, if_false, hi, Array.getElem?_eq_getElem]
    exact good_drop r _ 2

theorem decodeFuncVar_good (r : Bytes) (c : Bool) : Good r (decodeFuncVar r c) := by
  unfold decodeFuncVar
  apply good_need
  exact good_drop r _ 3

theorem decodeXls_good (ctx : Ctx) (b : Bool) (p : Nat) (r : Bytes) : Good r (decodeXls ctx b p r) := by
  unfold decodeXls
  split
  all_goals try (first | exact good_same r _ | exact good_err r _ | exact decodeFuncVar_good _ _ | exact decodeFuncFixed_good _ _)
  all_goals try (apply good_need; first | exact good_drop r _ _ | exact good_err r _)
  case h_34 => apply good_need; apply good_need; exact good_drop r _ _
  case h_36 =>
    apply good_need
    dsimp only
    apply good_of_drop r 1
    split
    all_goals repeat (first | exact good_drop _ _ _ | exact good_err _ _ | apply good_need | apply good_ite)
  case h_37 => apply good_need; split; exact good_drop r _ _; exact good_err r _

theorem sheetless_good {α : Type} (r : Bytes) (x : Res (α × Bytes)) (h : Good r x) : Good r x := h

theorem decodeXlsb_good (ctx : Ctx) (p : Nat) (r : Bytes) : Good r (decodeXlsb ctx p r) := by
  unfold decodeXlsb
  split
  all_goals try (first | exact good_same r _ | exact good_err r _ | exact decodeFuncVar_good _ _ | exact decodeFuncFixed_good _ _)
  all_goals try (apply good_need; first | exact good_drop r _ _ | exact good_err r _)
  case h_34 => apply good_need; apply good_need; exact good_drop r _ _
  case h_35 =>
    apply good_need
    dsimp only
    apply good_of_drop r 1
    split
    all_goals repeat (first | exact good_drop _ _ _ | exact good_err _ _ | apply good_need | apply good_ite)
  case h_36 =>
    apply good_need
    dsimp only
    apply good_of_drop r 1
    split
    all_goals repeat (first | exact good_drop _ _ _ | exact good_err _ _ | apply good_need | apply good_ite)
  case h_37 => apply good_need; split; exact good_drop r _ _; exact good_err r _

/-! ### the edits never run out of fuel -/

theorem joinArgs_ne_fuel (fargs : List Char) : ∀ (l : List Nat), joinArgs fargs l ≠ .outOfFuel
  | [] => by simp [joinArgs]
  | [_] => by simp [joinArgs]
  | a :: b :: rest => by
    rw [joinArgs]
    split
    · simp
    · split
      · simp
      · have ih := joinArgs_ne_fuel fargs (b :: rest)
        cases h : joinArgs fargs (b :: rest) with
        | ok t => simp
        | err e => simp
        | panic e => simp
        | outOfFuel => exact absurd h ih

theorem applyAct_ne_fuel (a : Act) (s : St) : applyAct a s ≠ .outOfFuel := by
  cases a with
  | push t => simp [applyAct]
  | binop op => simp only [applyAct]; split <;> (try split) <;> simp
  | pre c => simp only [applyAct]; split <;> (try split) <;> simp
  | percent => simp [applyAct]
  | paren => simp only [applyAct]; split <;> (try split) <;> simp
  | sum => simp only [applyAct]; split <;> (try split) <;> simp
  | spaces c n => simp only [applyAct]; split <;> (try split) <;> simp
  | nop => simp [applyAct]
  | func iftab argc chk =>
    simp only [applyAct]
    split
    · simp
    split
    · split
      · simp
      split
      · simp
      split
      · simp
      · rename_i name _
        have := joinArgs_ne_fuel (List.drop (List.headD (List.drop (s.stk.length - argc) s.stk) 0) s.buf)
          (List.map (fun x => x - List.headD (List.drop (s.stk.length - argc) s.stk) 0) (List.drop (s.stk.length - argc) s.stk) ++
            [(List.drop (List.headD (List.drop (s.stk.length - argc) s.stk) 0) s.buf).length])
        split <;> simp_all
    · split <;> simp

/-! ### the loops -/

theorem runXls_total (ctx : Ctx) (fuel : Nat) : ∀ (rgce : Bytes) (st : St), Inv st → rgce.length ≤ fuel →
    (∀ st', runXls ctx fuel rgce st = .ok st' → Inv st') ∧ (∀ m, runXls ctx fuel rgce st ≠ .panic m) ∧
    runXls ctx fuel rgce st ≠ .outOfFuel := by
  induction fuel with
  | zero =>
    intro rgce st hinv hlen
    have : rgce = [] := List.length_eq_zero_iff.mp (by omega)
    subst this
    simp [runXls]; exact hinv
  | succ f ih =>
    intro rgce st hinv hlen
    cases rgce with
    | nil => simp [runXls]; exact hinv
    | cons p r =>
      simp only [runXls]
      have hg := decodeXls_good ctx st.stk.isEmpty p.toNat r
      cases hd : decodeXls ctx st.stk.isEmpty p.toNat r with
      | ok ar =>
        obtain ⟨a, r'⟩ := ar
        simp only
        have hr' : r'.length ≤ f := by
          have := hg.2.2 a r' hd
          simp at hlen; omega
        have hai := applyAct_inv a st hinv
        cases ha : applyAct a st with
        | ok st' => simp only; exact ih r' st' (hai.1 st' ha) hr'
        | err e => simp
        | panic m' => exact absurd ha (fun h => hai.2 m' h)
        | outOfFuel => exact absurd ha (applyAct_ne_fuel a st)
      | err e => simp
      | panic m' => exact absurd hd (hg.1 m')
      | outOfFuel => exact absurd hd hg.2.1

/-- what a total function returns: a value or an error -/
def Total {α : Type} (x : Res α) : Prop := (∀ m, x ≠ .panic m) ∧ x ≠ .outOfFuel

theorem needLen_bind_total {α : Type} (typ : String) (b : Bytes) (n : Nat) (k : Unit → Res α) (h : Total (k ())) :
    Total (needLen typ b n >>= k) := by
  unfold needLen; split
  · exact ⟨by simp, by simp⟩
  · simpa using h

theorem parseFormulaXls_total (ctx : Ctx) (rgce : Bytes) : Total (parseFormulaXls ctx rgce) := by
  unfold parseFormulaXls
  apply needLen_bind_total
  apply needLen_bind_total
  dsimp only
  have hr := runXls_total ctx ((rgce.drop 2).take (u16 rgce 0)).length ((rgce.drop 2).take (u16 rgce 0)) ⟨[], []⟩
    inv_init (Nat.le_refl _)
  cases hrun : runXls ctx ((rgce.drop 2).take (u16 rgce 0)).length ((rgce.drop 2).take (u16 rgce 0)) ⟨[], []⟩ with
  | ok st => simp only; split <;> exact ⟨by simp, by simp⟩
  | err e => exact ⟨by simp, by simp⟩
  | panic m => exact absurd hrun (hr.2.1 m)
  | outOfFuel => exact absurd hrun hr.2.2

theorem runXlsb_total (ctx : Ctx) (fuel : Nat) : ∀ (d : Nat) (rgce : Bytes) (st : St), Inv st → rgce.length ≤ fuel →
    (∀ st', runXlsb ctx d fuel rgce st = .ok st' → Inv st') ∧ (∀ m, runXlsb ctx d fuel rgce st ≠ .panic m) ∧
    runXlsb ctx d fuel rgce st ≠ .outOfFuel := by
  induction fuel with
  | zero =>
    intro d rgce st hinv hlen
    have : rgce = [] := List.length_eq_zero_iff.mp (by omega)
    subst this
    simp [runXlsb]; exact hinv
  | succ f ih =>
    intro d rgce st hinv hlen
    cases rgce with
    | nil => simp [runXlsb]; exact hinv
    | cons p r =>
      have hrl : r.length ≤ f := by simp at hlen; omega
      simp only [runXlsb]
      by_cases hm : isMemFunc p.toNat = true
      · simp only [hm, if_true]
        cases h1 : need false r 2 with
        | err e => simp
        | panic m => simp [need] at h1; split at h1 <;> simp at h1
        | outOfFuel => simp [need] at h1; split at h1 <;> simp at h1
        | ok u =>
          simp only
          cases h2 : need false (r.drop 2) (u16 r 0) with
          | err e => simp
          | panic m => simp [need] at h2; split at h2 <;> simp at h2
          | outOfFuel => simp [need] at h2; split at h2 <;> simp at h2
          | ok u2 =>
            simp only
            by_cases hdep : d ≥ maxMemDepth
            · simp only [hdep, if_true]; simp
            simp only [hdep, if_false]
            have hsub : ((r.drop 2).take (u16 r 0)).length ≤ f := by simp; omega
            have hrest : ((r.drop 2).drop (u16 r 0)).length ≤ f := by simp; omega
            by_cases he : ((r.drop 2).take (u16 r 0)).isEmpty = true
            · simp only [he, if_true]
              exact ih d _ _ (inv_push [] hinv) hrest
            · have he' : ((r.drop 2).take (u16 r 0)).isEmpty = false := by simpa using he
              simp only [he', Bool.false_eq_true, if_false]
              have hs := ih (d + 1) ((r.drop 2).take (u16 r 0)) ⟨[], []⟩ inv_init hsub
              cases hr : runXlsb ctx (d + 1) f ((r.drop 2).take (u16 r 0)) ⟨[], []⟩ with
              | ok s =>
                simp only [finishXlsb]
                by_cases hl : s.stk.length = 1
                · simp only [hl, if_true]
                  exact ih d _ _ (inv_push s.buf hinv) hrest
                · simp only [hl, if_false]; simp
              | err e => simp
              | panic m' => exact absurd hr (hs.2.1 m')
              | outOfFuel => exact absurd hr hs.2.2
      · have hm' : isMemFunc p.toNat = false := by simpa using hm
        simp only [hm', Bool.false_eq_true, if_false]
        have hg := decodeXlsb_good ctx p.toNat r
        cases hd : decodeXlsb ctx p.toNat r with
        | ok ar =>
          obtain ⟨a, r'⟩ := ar
          simp only
          have hr' : r'.length ≤ f := by
            have := hg.2.2 a r' hd
            omega
          have hai := applyAct_inv a st hinv
          cases ha : applyAct a st with
          | ok st' => simp only; exact ih d r' st' (hai.1 st' ha) hr'
          | err e => simp
          | panic m' => exact absurd ha (fun h => hai.2 m' h)
          | outOfFuel => exact absurd ha (applyAct_ne_fuel a st)
        | err e => simp
        | panic m' => exact absurd hd (hg.1 m')
        | outOfFuel => exact absurd hd hg.2.1

theorem parseFormulaXlsb_total (ctx : Ctx) (rgce : Bytes) : Total (parseFormulaXlsb ctx rgce) := by
  unfold parseFormulaXlsb
  split
  · exact ⟨by simp, by simp⟩
  have hr := runXlsb_total ctx rgce.length 0 rgce ⟨[], []⟩ inv_init (Nat.le_refl _)
  cases hrun : runXlsb ctx 0 rgce.length rgce ⟨[], []⟩ with
  | ok st => simp only [finishXlsb]; split <;> exact ⟨by simp, by simp⟩
  | err e => exact ⟨by simp, by simp⟩
  | panic m => exact absurd hrun (hr.2.1 m)
  | outOfFuel => exact absurd hrun hr.2.2

theorem definedNameXls_total (rgce : Bytes) : Total (definedNameXls rgce) := by
  unfold definedNameXls
  split
  · exact ⟨by simp, by simp⟩
  · dsimp only
    split
    all_goals first
      | (unfold needDn; apply needLen_bind_total; exact ⟨by simp, by simp⟩)
      | exact ⟨by simp, by simp⟩
/-! ### nesting depth of PtgMemFunc sub-expressions -/

theorem depthUsed_le (ctx : Ctx) (fuel : Nat) : ∀ (d : Nat) (rgce : Bytes) (st : St),
    depthUsed ctx d fuel rgce st ≤ max d maxMemDepth := by
  induction fuel with
  | zero => intro d rgce st; cases rgce <;> simp [depthUsed] <;> omega
  | succ f ih =>
    intro d rgce st
    cases rgce with
    | nil => simp [depthUsed]; omega
    | cons p r =>
      simp only [depthUsed]
      split
      · split
        · split
          · split
            · omega
            · rename_i hd
              have hd' : d + 1 ≤ maxMemDepth := by omega
              split
              · exact ih d _ _
              · have h1 := ih (d + 1) ((r.drop 2).take (u16 r 0)) ⟨[], []⟩
                have hm : max (d + 1) maxMemDepth = maxMemDepth := by omega
                split
                · rename_i f' _
                  have h2 := ih d ((r.drop 2).drop (u16 r 0)) ⟨st.buf ++ f', st.stk ++ [st.buf.length]⟩
                  have hmd : max d maxMemDepth = maxMemDepth := by omega
                  rw [hm] at h1
                  rw [hmd] at h2 ⊢
                  exact Nat.max_le.mpr ⟨h1, h2⟩
                · omega
          · omega
        · omega
      · split
        · split
          · exact ih d _ _
          · omega
        · omega

/-- from the top-level call the recursion never goes deeper than `maxMemDepth` -/
theorem depthUsed_top (ctx : Ctx) (rgce : Bytes) : depthUsed ctx 0 rgce.length rgce ⟨[], []⟩ ≤ maxMemDepth := by
  have := depthUsed_le ctx rgce.length 0 rgce ⟨[], []⟩
  omega
end Formula
