import CalVerif.Lemmas.PtgBytes
/-! Which panics the decoders can raise (Props/C14 `xls_panics_classified`, `xlsb_panics_classified`). -/
namespace Formula
open Ptg

/-- the only panics a decoder arm can raise: a short slice, `iname - 1`, the (unreachable) table index -/
def OkPanics {α : Type} (x : Res α) : Prop :=
  ∀ m, x = .panic m → m = "slice" ∨ m = "iname - 1" ∨ m = "FTAB_ARGC index"

@[simp] theorem okp_ok {α : Type} (a : α) : OkPanics (Res.ok a) := by intro m h; simp at h
@[simp] theorem okp_err {α : Type} (e : String) : OkPanics (Res.err e : Res α) := by intro m h; simp at h
@[simp] theorem okp_slice {α : Type} : OkPanics (Res.panic "slice" : Res α) := by
  intro m h; simp at h; exact Or.inl h.symm
@[simp] theorem okp_iname {α : Type} : OkPanics (Res.panic "iname - 1" : Res α) := by
  intro m h; simp at h; exact Or.inr (Or.inl h.symm)
@[simp] theorem okp_argc {α : Type} : OkPanics (Res.panic "FTAB_ARGC index" : Res α) := by
  intro m h; simp at h; exact Or.inr (Or.inr h.symm)
theorem okp_need {α : Type} (r : Bytes) (n : Nat) (f : Unit → Res α) (h : OkPanics (f ())) :
    OkPanics (need r n >>= f) := by
  unfold need; split <;> simp [h]
theorem okp_ite {α : Type} (c : Prop) [Decidable c] (x y : Res α) (hx : OkPanics x) (hy : OkPanics y) :
    OkPanics (if c then x else y) := by split <;> assumption

theorem bind_need_panic' {α : Type} (r : Bytes) (n : Nat) (f : Unit → Res α) (m : String)
    (h : (need r n >>= f) = .panic m) : m = "slice" ∨ f () = .panic m := by
  unfold need at h
  split at h
  · simp at h; exact Or.inl h.symm
  · simp at h; exact Or.inr h

/-- a checked read never panics: a panic of the whole comes from what follows -/
theorem bind_needLen_panic {α : Type} (typ : String) (r : Bytes) (n : Nat) (f : Unit → Res α) (m : String)
    (h : (needLen typ r n >>= f) = .panic m) : f () = .panic m := by
  unfold needLen at h
  split at h
  · simp at h
  · simpa using h

theorem decodeFuncFixed_okp (r : Bytes) (c : Bool) : OkPanics (decodeFuncFixed r c) := by
  unfold decodeFuncFixed
  apply okp_need
  apply okp_ite
  · exact okp_err _
  · split <;> simp

theorem decodeFuncVar_okp (r : Bytes) (c : Bool) : OkPanics (decodeFuncVar r c) := by
  unfold decodeFuncVar
  apply okp_need
  exact okp_ok _

theorem decodeXls_okp (ctx : Ctx) (b : Bool) (p : Nat) (r : Bytes) : OkPanics (decodeXls ctx b p r) := by
  unfold decodeXls
  split
  all_goals try (first | exact okp_ok _ | exact okp_err _ | exact decodeFuncVar_okp _ _)
  all_goals try (apply okp_need; first | exact okp_ok _ | exact okp_err _)
  case h_34 => apply okp_need; apply okp_need; exact okp_ok _
  case h_36 =>
    apply okp_need
    dsimp only
    split
    all_goals repeat (first | exact okp_ok _ | exact okp_err _ | apply okp_need | apply okp_ite)
  case h_37 => apply okp_need; split <;> simp
  case h_47 => exact decodeFuncFixed_okp _ _
  case h_48 => exact decodeFuncFixed_okp _ _
  case h_49 => exact decodeFuncFixed_okp _ _
  case h_50 => apply okp_need; apply okp_ite <;> simp
  case h_51 => apply okp_need; apply okp_ite <;> simp
  case h_52 => apply okp_need; apply okp_ite <;> simp

/-- the panics the xls decoder can raise at all: unchecked slices of `rgce`, `iname - 1`, and the two unchecked
    table indices. In particular never a `split_off` / `insert` / slice-of-`fargs` / offset-subtraction panic. -/
def XlsPanic (m : String) : Prop := m = "slice" ∨ m = "iname - 1" ∨ m = "FTAB_ARGC index" ∨ m = "FTAB index"

theorem runXls_panic (ctx : Ctx) (fuel : Nat) : ∀ (rgce : Bytes) (st : St), Inv st →
    (∀ st', runXls ctx fuel rgce st = .ok st' → Inv st') ∧ (∀ m, runXls ctx fuel rgce st = .panic m → XlsPanic m) := by
  induction fuel with
  | zero => intro rgce st hinv; cases rgce <;> simp [runXls]; exact hinv
  | succ f ih =>
    intro rgce st hinv
    cases rgce with
    | nil => simp [runXls]; exact hinv
    | cons p r =>
      simp only [runXls]
      cases hd : decodeXls ctx st.stk.isEmpty p.toNat r with
      | ok ar =>
        obtain ⟨a, r'⟩ := ar
        simp only
        have hai := applyAct_inv a st hinv
        cases ha : applyAct a st with
        | ok st' => simp only; exact ih r' st' (hai.1 st' ha)
        | err e => simp
        | panic m' =>
          simp only [Res.panic.injEq]
          refine ⟨by simp, ?_⟩
          intro m hm; subst hm
          exact Or.inr (Or.inr (Or.inr (hai.2 _ ha)))
        | outOfFuel => simp
      | err e => simp
      | panic m' =>
        simp only [Res.panic.injEq]
        refine ⟨by simp, ?_⟩
        intro m hm; subst hm
        rcases decodeXls_okp ctx _ _ _ _ hd with h | h | h
        · exact Or.inl h
        · exact Or.inr (Or.inl h)
        · exact Or.inr (Or.inr (Or.inl h))
      | outOfFuel => simp

theorem parseFormulaXls_panic (ctx : Ctx) (rgce : Bytes) (m : String) (h : parseFormulaXls ctx rgce = .panic m) :
    XlsPanic m := by
  unfold parseFormulaXls at h
  have h1 := bind_needLen_panic _ _ _ _ _ h
  have h2 := bind_needLen_panic _ _ _ _ _ h1
  dsimp only at h2
  have hr := runXls_panic ctx ((rgce.drop 2).take (u16 rgce 0)).length ((rgce.drop 2).take (u16 rgce 0)) ⟨[], []⟩ inv_init
  cases hrun : runXls ctx ((rgce.drop 2).take (u16 rgce 0)).length ((rgce.drop 2).take (u16 rgce 0)) ⟨[], []⟩ with
  | ok st => rw [hrun] at h2; simp only at h2; split at h2 <;> simp at h2
  | err e => rw [hrun] at h2; simp at h2
  | panic m' => rw [hrun] at h2; simp only [Res.panic.injEq] at h2; subst h2; exact hr.2 _ hrun
  | outOfFuel => rw [hrun] at h2; simp at h2
/-- xlsb arms additionally index the extern-sheet table unchecked -/
def OkPanicsB {α : Type} (x : Res α) : Prop :=
  ∀ m, x = .panic m → m = "slice" ∨ m = "iname - 1" ∨ m = "FTAB_ARGC index" ∨ m = "sheets index"

theorem okpb_of {α : Type} (x : Res α) (h : OkPanics x) : OkPanicsB x := by
  intro m hm; rcases h m hm with h | h | h
  · exact Or.inl h
  · exact Or.inr (Or.inl h)
  · exact Or.inr (Or.inr (Or.inl h))
theorem okpb_need {α : Type} (r : Bytes) (n : Nat) (f : Unit → Res α) (h : OkPanicsB (f ())) :
    OkPanicsB (need r n >>= f) := by
  unfold need; split
  · intro m hm; simp at hm; exact Or.inl hm.symm
  · simpa using h
theorem okpb_ite {α : Type} (c : Prop) [Decidable c] (x y : Res α) (hx : OkPanicsB x) (hy : OkPanicsB y) :
    OkPanicsB (if c then x else y) := by split <;> assumption
theorem okpb_sheet {α : Type} (ctx : Ctx) (i : Nat) (f : List Char → Res α) (h : ∀ s, OkPanicsB (f s)) :
    OkPanicsB (sheetXlsb ctx i >>= f) := by
  unfold sheetXlsb; split
  · simpa using h _
  · intro m hm; simp at hm; exact Or.inr (Or.inr (Or.inr hm.symm))
theorem okpb_ok {α : Type} (a : α) : OkPanicsB (Res.ok a) := okpb_of _ (okp_ok a)
theorem okpb_err {α : Type} (e : String) : OkPanicsB (Res.err e : Res α) := okpb_of _ (okp_err e)

theorem decodeXlsb_okp (ctx : Ctx) (p : Nat) (r : Bytes) : OkPanicsB (decodeXlsb ctx p r) := by
  unfold decodeXlsb
  split
  all_goals try (first | exact okpb_ok _ | exact okpb_err _ | exact okpb_of _ (decodeFuncVar_okp _ _) | exact okpb_of _ (decodeFuncFixed_okp _ _))
  all_goals try (apply okpb_need; first | exact okpb_ok _ | exact okpb_err _)
  all_goals try (apply okpb_need; apply okpb_sheet; intro s; apply okpb_need; exact okpb_ok _)
  case h_34 => apply okpb_need; apply okpb_need; exact okpb_ok _
  case h_35 =>
    apply okpb_need
    dsimp only
    split
    all_goals repeat (first | exact okpb_ok _ | exact okpb_err _ | apply okpb_need | apply okpb_ite)
  case h_36 =>
    apply okpb_need
    dsimp only
    split
    all_goals repeat (first | exact okpb_ok _ | exact okpb_err _ | apply okpb_need | apply okpb_ite)
  case h_37 => apply okpb_need; split; exact okpb_ok _; exact okpb_err _
  case h_50 => apply okpb_need; apply okpb_ite; exact okpb_of _ okp_iname; exact okpb_ok _
  case h_51 => apply okpb_need; apply okpb_ite; exact okpb_of _ okp_iname; exact okpb_ok _
  case h_52 => apply okpb_need; apply okpb_ite; exact okpb_of _ okp_iname; exact okpb_ok _

/-- the panics the xlsb decoder can raise -/
def XlsbPanic (m : String) : Prop :=
  m = "slice" ∨ m = "iname - 1" ∨ m = "FTAB_ARGC index" ∨ m = "sheets index" ∨ m = "FTAB index"

theorem runXlsb_panic (ctx : Ctx) (fuel : Nat) : ∀ (rgce : Bytes) (st : St), Inv st →
    (∀ st', runXlsb ctx fuel rgce st = .ok st' → Inv st') ∧ (∀ m, runXlsb ctx fuel rgce st = .panic m → XlsbPanic m) := by
  induction fuel with
  | zero => intro rgce st hinv; cases rgce <;> simp [runXlsb]; exact hinv
  | succ f ih =>
    intro rgce st hinv
    cases rgce with
    | nil => simp [runXlsb]; exact hinv
    | cons p r =>
      simp only [runXlsb]
      by_cases hm : isMemFunc p.toNat = true
      · simp only [hm, if_true]
        by_cases h1 : r.length < 2
        · simp only [h1, if_true]
          exact ⟨by simp, fun m h => by simp at h; exact Or.inl h.symm⟩
        simp only [h1, if_false]
        by_cases h2 : (r.drop 2).length < u16 r 0
        · simp only [h2, if_true]
          exact ⟨by simp, fun m h => by simp at h; exact Or.inl h.symm⟩
        simp only [h2, if_false]
        by_cases he : ((r.drop 2).take (u16 r 0)).isEmpty = true
        · simp only [he, if_true]
          exact ih _ _ (inv_push [] hinv)
        · have he' : ((r.drop 2).take (u16 r 0)).isEmpty = false := by simpa using he
          simp only [he', Bool.false_eq_true, if_false]
          have hsub := ih ((r.drop 2).take (u16 r 0)) ⟨[], []⟩ inv_init
          cases hr : runXlsb ctx f ((r.drop 2).take (u16 r 0)) ⟨[], []⟩ with
          | ok s =>
            simp only [finishXlsb]
            by_cases hl : s.stk.length = 1
            · simp only [hl, if_true]
              exact ih _ _ (inv_push s.buf hinv)
            · simp only [hl, if_false]; simp
          | err e => simp
          | panic m' =>
            simp only [Res.panic.injEq]
            exact ⟨by simp, fun m h => by subst h; exact hsub.2 _ hr⟩
          | outOfFuel => simp
      · have hm' : isMemFunc p.toNat = false := by simpa using hm
        simp only [hm', Bool.false_eq_true, if_false]
        cases hd : decodeXlsb ctx p.toNat r with
        | ok ar =>
          obtain ⟨a, r'⟩ := ar
          simp only
          have hai := applyAct_inv a st hinv
          cases ha : applyAct a st with
          | ok st' => simp only; exact ih r' st' (hai.1 st' ha)
          | err e => simp
          | panic m' =>
            simp only [Res.panic.injEq]
            refine ⟨by simp, ?_⟩
            intro m hm; subst hm
            exact Or.inr (Or.inr (Or.inr (Or.inr (hai.2 _ ha))))
          | outOfFuel => simp
        | err e => simp
        | panic m' =>
          simp only [Res.panic.injEq]
          refine ⟨by simp, ?_⟩
          intro m hm; subst hm
          rcases decodeXlsb_okp ctx _ _ _ hd with h | h | h | h
          · exact Or.inl h
          · exact Or.inr (Or.inl h)
          · exact Or.inr (Or.inr (Or.inl h))
          · exact Or.inr (Or.inr (Or.inr (Or.inl h)))
        | outOfFuel => simp

theorem parseFormulaXlsb_panic (ctx : Ctx) (rgce : Bytes) (m : String) (h : parseFormulaXlsb ctx rgce = .panic m) :
    XlsbPanic m := by
  unfold parseFormulaXlsb at h
  split at h
  · simp at h
  have hr := runXlsb_panic ctx rgce.length rgce ⟨[], []⟩ inv_init
  cases hrun : runXlsb ctx rgce.length rgce ⟨[], []⟩ with
  | ok st => rw [hrun] at h; simp only [finishXlsb] at h; split at h <;> simp at h
  | err e => rw [hrun] at h; simp at h
  | panic m' => rw [hrun] at h; simp only [Res.panic.injEq] at h; subst h; exact hr.2 _ hrun
  | outOfFuel => rw [hrun] at h; simp at h
end Formula
