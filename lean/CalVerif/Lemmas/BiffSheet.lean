import CalVerif.Lemmas.BiffSteps
namespace BiffCells
open Biff

def textOk (s : List Nat) : Prop := validText s ∧ (toUnits s).length ≤ 4000

/-- the value the reader shows for a planned cell -/
def pcVal (env : Env) (p : PC) : Val :=
  match p.phys with
  | .number x => fmtF64 x env.fmts[p.xf]? env.is1904
  | .rk w => fmtNum (rkNum env.ops w) env.fmts[p.xf]? env.is1904
  | .label _ s => .str s
  | .labelSst i => .str (env.strings[i]?.getD [])
  | .bool b => .bool b
  | .err k => .error k
  | .formula c _ =>
    match c with
    | .num x => fmtF64 x env.fmts[p.xf]? env.is1904
    | .str _ s _ => .str s
    | .bool b => .bool b
    | .err k => .error k
    | .blank => .str []

def pcCell (env : Env) (p : PC) : Cell := (p.row, p.col, pcVal env p)

/-- a planned cell the encoder can represent -/
def PCok (env : Env) (p : PC) : Prop :=
  p.row < 65536 ∧ p.col < 256 ∧ p.xf < 65536 ∧ (∀ r ∈ p.before, ignorable r = true) ∧
  match p.phys with
  | .number x => x < 18446744073709551616
  | .rk w => w < 4294967296
  | .label _ s => textOk s
  | .labelSst i => i < 4294967296 ∧ ∃ s, env.strings[i]? = some s
  | .bool _ => True
  | .err _ => True
  | .formula c rgce => rgce.length ≤ 255 ∧
    match c with
    | .num x => x < 18446744073709551616 ∧ x / 281474976710656 ≠ 65535
    | .str _ s btw => textOk s ∧ ∀ r ∈ btw, ignorable r = true
    | _ => True

/-- `step` folded over records (none of which is EOF) -/
def runRecs (env : Env) : List Rec → St → Res St
  | [], st => .ok st
  | r :: rs, st =>
    match step env st r with
    | .ok st' => runRecs env rs st'
    | .err e => .err e
    | .panic s => .panic s
    | .outOfFuel => .outOfFuel

theorem runRecs_append (env : Env) : ∀ (rs rs' : List Rec) (st st1 : St), runRecs env rs st = .ok st1 →
    runRecs env (rs ++ rs') st = runRecs env rs' st1
  | [], _, st, st1, h => by simp only [runRecs] at h; injection h with h; subst h; rfl
  | r :: rs, rs', st, st1, h => by
    simp only [runRecs, List.cons_append] at h ⊢
    cases hs : step env st r with
    | ok st' => rw [hs] at h; simp only at h ⊢; exact runRecs_append env rs rs' st' st1 h
    | err e => rw [hs] at h; cases h
    | panic e => rw [hs] at h; cases h
    | outOfFuel => rw [hs] at h; cases h

theorem runRecs_ignorable (env : Env) (st : St) : ∀ (rs : List Rec), (∀ r ∈ rs, ignorable r = true) →
    runRecs env rs st = .ok st
  | [], _ => rfl
  | r :: rs, h => by
    simp only [runRecs, step_ignorable env st r (h r (by simp))]
    exact runRecs_ignorable env st rs (fun x hx => h x (by simp [hx]))

theorem runRecs_one (env : Env) (st st' : St) (r : Rec) (h : step env st r = .ok st') :
    runRecs env [r] st = .ok st' := by simp [runRecs, h]

theorem parseErr_errCode (k : ErrKind) : parseErr (errCode k) = .ok (.error k) := by cases k <;> rfl

theorem errCode_lt (k : ErrKind) : errCode k < 256 := by cases k <;> decide

theorem textOk_len {s : List Nat} (h : textOk s) : (toUnits s).length < 65536 := by
  have := h.2; omega

/-- the records of one planned cell put exactly that cell on the list -/
theorem runRecs_phys (env : Env) (st : St) (p : PC) (h : PCok env p) :
    ∃ f, runRecs env (physRecs p) st = .ok ⟨st.cells ++ [pcCell env p], f⟩ := by
  obtain ⟨hr, hc, hx, _, hp⟩ := h
  have hc' : p.col < 65536 := by omega
  unfold physRecs pcCell pcVal
  cases hph : p.phys with
  | number x =>
    rw [hph] at hp; simp only at hp ⊢
    exact ⟨st.fmla, runRecs_one _ _ _ _ (step_number env st p x hr hc' hx hp)⟩
  | rk w =>
    rw [hph] at hp; simp only at hp ⊢
    exact ⟨st.fmla, runRecs_one _ _ _ _ (step_rk env st p w hr hc' hx hp)⟩
  | label wide s =>
    rw [hph] at hp; simp only at hp ⊢
    exact ⟨st.fmla, runRecs_one _ _ _ _ (step_label env st p wide s hr hc' hx hp.1 (textOk_len hp))⟩
  | labelSst i =>
    rw [hph] at hp; simp only at hp ⊢
    obtain ⟨hi, s, hs⟩ := hp
    refine ⟨st.fmla, ?_⟩
    rw [runRecs_one _ _ _ _ (step_labelSst env st p i s hr hc' hx hi hs), hs]; rfl
  | bool b =>
    simp only
    refine ⟨st.fmla, runRecs_one _ _ _ _ ?_⟩
    rw [step_boolerr env st p _ 0 hr hc' hx (by split <;> omega) (by omega)]
    cases b <;> simp
  | err k =>
    simp only
    refine ⟨st.fmla, runRecs_one _ _ _ _ ?_⟩
    rw [step_boolerr env st p _ 1 hr hc' hx (errCode_lt k) (by omega)]
    simp [parseErr_errCode]
  | formula c rgce =>
    rw [hph] at hp; simp only at hp ⊢
    obtain ⟨hg, hcv⟩ := hp
    have hg' : rgce.length < 65536 := by omega
    cases c with
    | num x =>
      simp only at hcv
      exact ⟨_, runRecs_one _ _ _ _ (step_formula_num env st p x rgce hg' hr hc' hx hcv.1 hcv.2)⟩
    | str wide s btw =>
      simp only at hcv
      obtain ⟨hs, hb⟩ := hcv
      refine ⟨(p.row, p.col), ?_⟩
      have h1 := step_formula_special env st p 0 0 rgce hg' hr hc' hx (by omega) (by omega)
      simp only [if_true] at h1
      simp only [runRecs, cachedBytes]
      rw [show (cellHdr p ++ (special 0 0 ++ (le16 0 ++ (le32 0 ++ (le16 rgce.length ++ rgce))))) =
        fmlaData p (special 0 0) rgce from rfl, h1]
      simp only
      rw [runRecs_append env btw _ _ _ (runRecs_ignorable env _ btw hb)]
      rw [runRecs_one _ _ _ _ (step_string env _ wide s hs.1 (textOk_len hs))]
    | bool b =>
      refine ⟨(p.row, p.col), runRecs_one _ _ _ _ ?_⟩
      have h1 := step_formula_special env st p 1 (if b then 1 else 0) rgce hg' hr hc' hx (by omega) (by split <;> omega)
      simp only [cachedBytes]
      rw [show (cellHdr p ++ (special 1 (if b then 1 else 0) ++ (le16 0 ++ (le32 0 ++ (le16 rgce.length ++ rgce))))) =
        fmlaData p (special 1 (if b then 1 else 0)) rgce from rfl, h1]
      cases b <;> simp
    | err k =>
      refine ⟨(p.row, p.col), runRecs_one _ _ _ _ ?_⟩
      have h1 := step_formula_special env st p 2 (errCode k) rgce hg' hr hc' hx (by omega) (errCode_lt k)
      simp only [cachedBytes]
      rw [show (cellHdr p ++ (special 2 (errCode k) ++ (le16 0 ++ (le32 0 ++ (le16 rgce.length ++ rgce))))) =
        fmlaData p (special 2 (errCode k)) rgce from rfl, h1]
      simp [parseErr_errCode, typeCached]
    | blank =>
      refine ⟨(p.row, p.col), runRecs_one _ _ _ _ ?_⟩
      have h1 := step_formula_special env st p 3 0 rgce hg' hr hc' hx (by omega) (by omega)
      simp only [cachedBytes]
      rw [show (cellHdr p ++ (special 3 0 ++ (le16 0 ++ (le32 0 ++ (le16 rgce.length ++ rgce))))) =
        fmlaData p (special 3 0) rgce from rfl, h1]
      simp

/-! ### groups -/

/-- a chain of adjacent RK cells of one row with nothing between them (what `chunk` groups) -/
def isRun : List PC → Prop
  | [] => True
  | [_] => True
  | p :: q :: g => isRk p = true ∧ isRk q = true ∧ q.before = [] ∧ q.row = p.row ∧ q.col = p.col + 1 ∧ isRun (q :: g)

theorem chunk_flatten : ∀ (ps : List PC), (chunk ps).flatten = ps
  | [] => rfl
  | p :: rest => by
    have ih := chunk_flatten rest
    simp only [chunk]
    cases hc : chunk rest with
    | nil => rw [hc] at ih; simp at ih; simp [← ih]
    | cons g gs =>
      rw [hc] at ih
      simp only
      split
      · simp only [List.flatten_cons, List.cons_append] at ih ⊢; rw [ih]
      · simp only [List.flatten_cons, List.cons_append, List.nil_append] at ih ⊢; rw [ih]

theorem chunk_groups : ∀ (ps : List PC), ∀ g ∈ chunk ps, g ≠ [] ∧ isRun g
  | [] => by simp [chunk]
  | p :: rest => by
    have ih := chunk_groups rest
    simp only [chunk]
    cases hc : chunk rest with
    | nil => intro g hg; simp at hg; subst hg; exact ⟨by simp, trivial⟩
    | cons g0 gs =>
      rw [hc] at ih
      simp only
      split
      next hj =>
        intro g hg
        simp only [List.mem_cons] at hg
        rcases hg with rfl | hg
        · refine ⟨by simp, ?_⟩
          obtain ⟨hne, hrun⟩ := ih g0 (by simp)
          cases g0 with
          | nil => exact absurd rfl hne
          | cons q g' =>
            simp only [joinable, Bool.and_eq_true, beq_iff_eq, List.isEmpty_iff] at hj
            obtain ⟨⟨⟨⟨⟨h1, h2⟩, _⟩, h4⟩, h5⟩, h6⟩ := hj
            exact ⟨h1, h2, h4, h5, h6, hrun⟩
        · exact ih g (by simp [hg])
      next =>
        intro g hg
        simp only [List.mem_cons] at hg
        rcases hg with rfl | hg
        · exact ⟨by simp, trivial⟩
        · exact ih g (by simpa using hg)

theorem isRun_allRk : ∀ (p q : PC) (g : List PC), isRun (p :: q :: g) → ∀ x ∈ p :: q :: g, isRk x = true
  | p, q, [], h => by
    intro x hx
    simp only [List.mem_cons, List.not_mem_nil, or_false] at hx
    rcases hx with rfl | rfl
    · exact h.1
    · exact h.2.1
  | p, q, r :: g, h => by
    intro x hx
    simp only [List.mem_cons] at hx
    rcases hx with rfl | hx
    · exact h.1
    · exact isRun_allRk q r g h.2.2.2.2.2 x (by simpa using hx)

theorem runVal_eq (env : Env) (q : PC) (h : isRk q = true) : runVal env q = pcVal env q := by
  unfold runVal pcVal rkWord
  cases hq : q.phys <;> simp_all [isRk]

theorem runCells_eq (env : Env) : ∀ (g : List PC) (row col : Nat), (∀ x ∈ g, isRk x = true) →
    (match g with | [] => True | p :: _ => p.row = row ∧ p.col = col) → isRun g →
    runCells env row col g = g.map (pcCell env)
  | [], _, _, _, _, _ => rfl
  | [p], row, col, hk, hp, _ => by
    simp only [runCells, List.map, pcCell, runVal_eq env p (hk p (by simp))]
    obtain ⟨h1, h2⟩ := hp; rw [h1, h2]
  | p :: q :: g, row, col, hk, hp, hr => by
    obtain ⟨h1, h2⟩ := hp
    obtain ⟨_, _, _, h4, h5, h6⟩ := hr
    have ih := runCells_eq env (q :: g) row (col + 1) (fun x hx => hk x (by simp [hx])) ⟨by omega, by omega⟩ h6
    simp only [runCells, List.map_cons, pcCell, runVal_eq env p (hk p (by simp))] at ih ⊢
    rw [ih, h1, h2]

/-! ### decoding groups, the loop -/

theorem isRun_span : ∀ (p : PC) (g : List PC), isRun (p :: g) → (∀ x ∈ p :: g, x.col < 256) →
    p.col + (p :: g).length ≤ 256
  | p, [], _, h => by have := h p (by simp); simp; omega
  | p, q :: g, hr, h => by
    have ih := isRun_span q g hr.2.2.2.2.2 (fun x hx => h x (by simp [hx]))
    have := hr.2.2.2.2.1
    simp only [List.length_cons] at ih ⊢; omega

theorem step_mulrk (env : Env) (st : St) (d : Bytes) (cs : List Cell) (h : parseMulRk env d = .ok cs) :
    step env st ⟨0x00BD, d, []⟩ = .ok { st with cells := st.cells ++ cs } := by
  simp [step, h]

theorem runRecs_group (env : Env) (st : St) (g : List PC) (hne : g ≠ []) (hrun : isRun g)
    (hok : ∀ p ∈ g, PCok env p) :
    ∃ f, runRecs env (groupRecs g) st = .ok ⟨st.cells ++ g.map (pcCell env), f⟩ := by
  match g, hne, hrun, hok with
  | [p], _, _, hok =>
    have hp := hok p (by simp)
    obtain ⟨f, hf⟩ := runRecs_phys env st p hp
    refine ⟨f, ?_⟩
    simp only [groupRecs]
    rw [runRecs_append env p.before _ st st (runRecs_ignorable env st p.before hp.2.2.2.1), hf]; rfl
  | p :: q :: g', _, hrun, hok =>
    have hp := hok p (by simp)
    have hall := isRun_allRk p q g' hrun
    have hspan := isRun_span p (q :: g') hrun (fun x hx => (hok x hx).2.1)
    have hg : ∀ x ∈ p :: q :: g', x.xf < 65536 ∧ rkWord x < 4294967296 := by
      intro x hx
      have hx1 := hok x hx
      have hx2 := hall x hx
      refine ⟨hx1.2.2.1, ?_⟩
      have := hx1.2.2.2.2
      unfold rkWord
      cases hph : x.phys <;> simp_all [isRk]
    have hpm := parseMulRk_run env p.row p.col (p :: q :: g') (by simp) hp.1 (by omega) hg
    rw [runCells_eq env (p :: q :: g') p.row p.col hall ⟨rfl, rfl⟩ hrun] at hpm
    refine ⟨st.fmla, ?_⟩
    simp only [groupRecs]
    rw [runRecs_append env p.before _ st st (runRecs_ignorable env st p.before hp.2.2.2.1)]
    exact runRecs_one _ _ _ _ (step_mulrk env st _ _ hpm)

theorem runRecs_groups (env : Env) : ∀ (gs : List (List PC)) (st : St), (∀ g ∈ gs, g ≠ [] ∧ isRun g) →
    (∀ g ∈ gs, ∀ p ∈ g, PCok env p) →
    ∃ f, runRecs env (gs.flatMap groupRecs) st = .ok ⟨st.cells ++ gs.flatten.map (pcCell env), f⟩
  | [], st, _, _ => ⟨st.fmla, by simp [runRecs]⟩
  | g :: gs, st, h1, h2 => by
    obtain ⟨f, hf⟩ := runRecs_group env st g (h1 g (by simp)).1 (h1 g (by simp)).2 (h2 g (by simp))
    obtain ⟨f', hf'⟩ := runRecs_groups env gs ⟨st.cells ++ g.map (pcCell env), f⟩
      (fun x hx => h1 x (by simp [hx])) (fun x hx => h2 x (by simp [hx]))
    refine ⟨f', ?_⟩
    rw [List.flatMap_cons, runRecs_append env _ _ _ _ hf, hf']
    simp [List.append_assoc]

/-- decoding what `encodeSheet` emitted gives the planned cells in order -/
theorem runRecs_encode (env : Env) (ps : List PC) (st : St) (hok : ∀ p ∈ ps, PCok env p) :
    ∃ f, runRecs env ((chunk ps).flatMap groupRecs) st = .ok ⟨st.cells ++ ps.map (pcCell env), f⟩ := by
  have hmem : ∀ g ∈ chunk ps, ∀ p ∈ g, p ∈ ps := by
    intro g hg p hp
    rw [← chunk_flatten ps]; exact List.mem_flatten.mpr ⟨g, hg, hp⟩
  obtain ⟨f, hf⟩ := runRecs_groups env (chunk ps) st (chunk_groups ps) (fun g hg p hp => hok p (hmem g hg p hp))
  exact ⟨f, by rw [hf, chunk_flatten]⟩

theorem sheetLoop_records (env : Env) : ∀ (rs : List Rec) (rest : List Item) (st st' : St),
    (∀ r ∈ rs, r.typ ≠ 0x000A) → runRecs env rs st = .ok st' →
    sheetLoop env (rs.map .record ++ rest) st = sheetLoop env rest st'
  | [], _, st, st', _, h => by simp only [runRecs] at h; injection h with h; subst h; rfl
  | r :: rs, rest, st, st', hne, h => by
    simp only [runRecs] at h
    simp only [List.map_cons, List.cons_append, sheetLoop, if_neg (hne r (by simp))]
    cases hs : step env st r with
    | ok st1 =>
      rw [hs] at h; simp only at h ⊢
      exact sheetLoop_records env rs rest st1 st' (fun x hx => hne x (by simp [hx])) h
    | err e => rw [hs] at h; cases h
    | panic e => rw [hs] at h; cases h
    | outOfFuel => rw [hs] at h; cases h

/-! ### the framed substream -/

/-- what the framing and the loop need of an emitted record -/
def goodRec (r : Rec) : Prop := plainRec r ∧ r.typ ≠ 0x000A

theorem ignorable_good (r : Rec) (h : ignorable r = true) : goodRec r := by
  simp only [ignorable, Bool.and_eq_true, Bool.or_eq_true, decide_eq_true_eq, Bool.not_eq_true',
    beq_iff_eq, List.isEmpty_iff] at h
  obtain ⟨⟨⟨h1, h2⟩, h3⟩, h4⟩ := h
  have hn : r.typ ≠ 0x3C ∧ r.typ ≠ 0x0A := by
    rcases h4 with h4 | ⟨h4, _⟩
    · constructor <;> intro heq <;> rw [heq] at h4 <;> simp [handledIds] at h4
    · omega
  exact ⟨⟨h1, hn.1, by omega, h3⟩, hn.2⟩

theorem xlString_length_le (wide : Bool) (s : List Nat) : (xlString wide s).length ≤ 3 + 2 * (toUnits s).length := by
  simp only [xlString]
  split
  · simp only [List.length_append, le16_length, List.length_cons, List.length_nil, flatMap_le16_length]; omega
  · simp; omega

theorem good_of (t : Nat) (d : Bytes) (ht : t < 65536) (h3c : t ≠ 0x3C) (ha : t ≠ 0x0A) (hd : d.length < 65536) :
    goodRec ⟨t, d, []⟩ := ⟨⟨ht, h3c, hd, rfl⟩, ha⟩

theorem cachedBytes_length (c : Cached) : (cachedBytes c).length = 8 := by
  cases c <;> simp [cachedBytes, special]

theorem physRecs_good (env : Env) (p : PC) (h : PCok env p) : ∀ r ∈ physRecs p, goodRec r := by
  obtain ⟨_, _, _, _, hp⟩ := h
  unfold physRecs
  cases hph : p.phys with
  | number x => intro r hr; simp only [List.mem_singleton] at hr; subst hr
                exact good_of _ _ (by decide) (by decide) (by decide) (by simp [cellHdr_length])
  | rk w => intro r hr; simp only [List.mem_singleton] at hr; subst hr
            exact good_of _ _ (by decide) (by decide) (by decide) (by simp [cellHdr_length])
  | label wide s =>
    rw [hph] at hp; simp only at hp
    intro r hr; simp only [List.mem_singleton] at hr; subst hr
    have := xlString_length_le wide s; have := hp.2
    exact good_of _ _ (by decide) (by decide) (by decide) (by simp [cellHdr_length]; omega)
  | labelSst i => intro r hr; simp only [List.mem_singleton] at hr; subst hr
                  exact good_of _ _ (by decide) (by decide) (by decide) (by simp [cellHdr_length])
  | bool b => intro r hr; simp only [List.mem_singleton] at hr; subst hr
              exact good_of _ _ (by decide) (by decide) (by decide) (by simp [cellHdr_length])
  | err k => intro r hr; simp only [List.mem_singleton] at hr; subst hr
             exact good_of _ _ (by decide) (by decide) (by decide) (by simp [cellHdr_length])
  | formula c rgce =>
    rw [hph] at hp; simp only at hp
    obtain ⟨hg, hcv⟩ := hp
    have hf : goodRec ⟨0x0006, cellHdr p ++ (cachedBytes c ++ (le16 0 ++ (le32 0 ++ (le16 rgce.length ++ rgce)))), []⟩ :=
      good_of _ _ (by decide) (by decide) (by decide) (by simp [cellHdr_length, cachedBytes_length]; omega)
    intro r hr
    simp only [List.mem_cons] at hr
    rcases hr with rfl | hr
    · exact hf
    · cases c with
      | str wide s btw =>
        simp only at hcv hr
        rcases List.mem_append.mp hr with hr | hr
        · exact ignorable_good r (hcv.2 r hr)
        · simp only [List.mem_singleton] at hr; subst hr
          have := xlString_length_le wide s; have := hcv.1.2
          exact good_of _ _ (by decide) (by decide) (by decide) (by omega)
      | num x => simp at hr
      | bool b => simp at hr
      | err k => simp at hr
      | blank => simp at hr

theorem groupRecs_good (env : Env) (g : List PC) (hrun : isRun g) (hok : ∀ p ∈ g, PCok env p) :
    ∀ r ∈ groupRecs g, goodRec r := by
  match g, hrun, hok with
  | [], _, _ => simp [groupRecs]
  | [p], _, hok =>
    have hp := hok p (by simp)
    intro r hr
    simp only [groupRecs] at hr
    rcases List.mem_append.mp hr with hr | hr
    · exact ignorable_good r (hp.2.2.2.1 r hr)
    · exact physRecs_good env p hp r hr
  | p :: q :: g', hrun, hok =>
    have hp := hok p (by simp)
    have hspan := isRun_span p (q :: g') hrun (fun x hx => (hok x hx).2.1)
    intro r hr
    simp only [groupRecs] at hr
    rcases List.mem_append.mp hr with hr | hr
    · exact ignorable_good r (hp.2.2.2.1 r hr)
    · simp only [List.mem_singleton] at hr; subst hr
      refine good_of _ _ (by decide) (by decide) (by decide) ?_
      simp only [mulRkData, List.length_append, le16_length, runBody_length]
      simp only [List.length_cons] at hspan ⊢; omega

theorem encode_good (env : Env) (ps : List PC) (hok : ∀ p ∈ ps, PCok env p) :
    ∀ r ∈ (chunk ps).flatMap groupRecs, goodRec r := by
  intro r hr
  obtain ⟨g, hg, hr⟩ := List.mem_flatMap.mp hr
  have hmem : ∀ p ∈ g, p ∈ ps := by
    intro p hp; rw [← chunk_flatten ps]; exact List.mem_flatten.mpr ⟨g, hg, hp⟩
  exact groupRecs_good env g (chunk_groups ps g hg).2 (fun p hp => hok p (hmem p hp)) r hr

theorem bofRec_ignorable : ignorable bofRec = true := by decide

/-- the worksheet loop over the framed substream yields the planned cells, in order -/
theorem decode_substream (env : Env) (ps : List PC) (hok : ∀ p ∈ ps, PCok env p) :
    decodeSheet env (items (frame (bofRec :: (chunk ps).flatMap groupRecs ++ [eofRec]))) =
      .ok (ps.map (pcCell env)) := by
  have hgood := encode_good env ps hok
  have hplain : ∀ r ∈ bofRec :: (chunk ps).flatMap groupRecs ++ [eofRec], plainRec r := by
    intro r hr
    simp only [List.cons_append, List.mem_cons, List.mem_append, List.not_mem_nil, or_false] at hr
    rcases hr with rfl | hr | rfl
    · exact (ignorable_good _ bofRec_ignorable).1
    · exact (hgood r hr).1
    · exact ⟨by decide, by decide, by decide, rfl⟩
  rw [items_frame _ hplain]
  obtain ⟨f, hf⟩ := runRecs_encode env ps ⟨[], (0, 0)⟩ hok
  have hrun : runRecs env (bofRec :: (chunk ps).flatMap groupRecs) ⟨[], (0, 0)⟩ = .ok ⟨ps.map (pcCell env), f⟩ := by
    simp only [runRecs, step_ignorable env _ bofRec bofRec_ignorable]
    simpa using hf
  have hne : ∀ r ∈ bofRec :: (chunk ps).flatMap groupRecs, r.typ ≠ 0x000A := by
    intro r hr
    simp only [List.mem_cons] at hr
    rcases hr with rfl | hr
    · decide
    · exact (hgood r hr).2
  unfold decodeSheet
  rw [show (bofRec :: (chunk ps).flatMap groupRecs ++ [eofRec]).map Item.record =
      (bofRec :: (chunk ps).flatMap groupRecs).map Item.record ++ [Item.record eofRec] by simp]
  rw [sheetLoop_records env _ _ _ _ hne hrun]
  simp [sheetLoop, eofRec]

/-! ### from the logical sheet to the planned cells -/

def lvalOk : LVal → Prop
  | .num x => x < 18446744073709551616
  | .str s => textOk s
  | _ => True

/-- a logical cell inside the BIFF8 grid with a representable value -/
def cellOk (c : LCell) : Prop := c.row < 65536 ∧ c.col < 256 ∧ lvalOk c.val

theorem filter_ignorable (l : List Rec) : ∀ r ∈ l.filter ignorable, ignorable r = true := by
  intro r hr; exact (List.mem_filter.mp hr).2

theorem planCell_ok (env : Env) (c : LCell) (l : Lay) (h : cellOk c) : PCok env (planCell env c l) := by
  obtain ⟨hr, hc, hv⟩ := h
  refine ⟨hr, hc, Nat.mod_lt _ (by decide), filter_ignorable _, ?_⟩
  simp only [planCell]
  cases hval : c.val with
  | num x =>
    rw [hval] at hv; simp only [lvalOk] at hv
    cases henc : l.enc with
    | num e =>
      cases e with
      | number => simp [choose]; exact hv
      | rk w =>
        by_cases hcond : w < 4294967296 ∧ numBits (rkSpec env.ops w) = x
        · simp only [choose, if_pos hcond]; exact hcond.1
        · simp only [choose, if_neg hcond]; exact hv
    | label w => simp [choose]; exact hv
    | labelSst i => simp [choose]; exact hv
    | boolerr => simp [choose]; exact hv
    | formula rgce w b b3 =>
      by_cases hcond : x / 281474976710656 = 65535
      · simp only [choose, if_pos hcond]; exact hv
      · simp only [choose, if_neg hcond]
        exact ⟨by simp [List.length_take]; omega, hv, hcond⟩
  | str s =>
    rw [hval] at hv; simp only [lvalOk] at hv
    cases henc : l.enc with
    | num e => simp [choose]; exact hv
    | label w => simp [choose]; exact hv
    | labelSst i =>
      by_cases hcond : i < 4294967296 ∧ env.strings[i]? = some s
      · simp only [choose, if_pos hcond]; exact ⟨hcond.1, s, hcond.2⟩
      · simp only [choose, if_neg hcond]; exact hv
    | boolerr => simp [choose]; exact hv
    | formula rgce w b b3 =>
      by_cases hcond : s = [] ∧ b3 = true
      · simp only [choose, if_pos hcond]
        exact ⟨by simp [List.length_take]; omega, trivial⟩
      · simp only [choose, if_neg hcond]
        exact ⟨by simp [List.length_take]; omega, hv, filter_ignorable _⟩
  | bool b =>
    cases henc : l.enc with
    | formula rgce w bt b3 => simp only [choose]; exact ⟨by simp [List.length_take]; omega, trivial⟩
    | num e => simp [choose]
    | label w => simp [choose]
    | labelSst i => simp [choose]
    | boolerr => simp [choose]
  | err k =>
    cases henc : l.enc with
    | formula rgce w bt b3 => simp only [choose]; exact ⟨by simp [List.length_take]; omega, trivial⟩
    | num e => simp [choose]
    | label w => simp [choose]
    | labelSst i => simp [choose]
    | boolerr => simp [choose]

theorem fmtNum_typeNum (n : Num) (fmt : Option CellFormat) (d : Bool) : fmtNum n fmt d = typeNum fmt d n := by
  cases n <;> (cases fmt with | none => rfl | some f => cases f <;> rfl)

theorem fmtF64_typeNum (x : Nat) (fmt : Option CellFormat) (d : Bool) : fmtF64 x fmt d = typeNum fmt d (.float x) :=
  fmtNum_typeNum (.float x) fmt d

/-- what the model reads for a planned cell is what the specification expects for the logical cell under its
    layout entry: the RkNumber reading for a valid RK word (integers as `Int`), the double otherwise, typed by the
    XF's format class; strings, booleans and errors as they are -/
theorem planCell_expect (env : Env) (c : LCell) (l : Lay) :
    pcVal env (planCell env c l) = expectVal env c l := by
  simp only [planCell, pcVal, expectVal]
  cases hval : c.val with
  | num x =>
    cases henc : l.enc with
    | num e =>
      cases e with
      | number => simp [choose, numContent, fmtF64_typeNum]
      | rk w =>
        by_cases hcond : w < 4294967296 ∧ numBits (rkSpec env.ops w) = x
        · simp only [choose, numContent, if_pos hcond]
          rw [fmtNum_typeNum, rkNum_eq_rkSpec]
        · simp [choose, numContent, hcond, fmtF64_typeNum]
    | label w => simp [choose, numContent, fmtF64_typeNum]
    | labelSst i => simp [choose, numContent, fmtF64_typeNum]
    | boolerr => simp [choose, numContent, fmtF64_typeNum]
    | formula rgce w b b3 =>
      by_cases hcond : x / 281474976710656 = 65535
      · simp [choose, numContent, hcond, fmtF64_typeNum]
      · simp [choose, numContent, hcond, fmtF64_typeNum]
  | str s =>
    cases henc : l.enc with
    | num e => simp [choose, LVal.toVal]
    | label w => simp [choose, LVal.toVal]
    | labelSst i =>
      by_cases hcond : i < 4294967296 ∧ env.strings[i]? = some s
      · simp [choose, hcond, LVal.toVal]
      · simp [choose, hcond, LVal.toVal]
    | boolerr => simp [choose, LVal.toVal]
    | formula rgce w b b3 =>
      by_cases hcond : s = [] ∧ b3 = true
      · simp [choose, hcond, LVal.toVal]
      · simp [choose, hcond, LVal.toVal]
  | bool b => cases henc : l.enc <;> simp [choose, LVal.toVal]
  | err k => cases henc : l.enc <;> simp [choose, LVal.toVal]

/-- `plan` by index: cell `i` is planned under layout entry `i`, the default entry beyond the list -/
theorem plan_getElem (env : Env) : ∀ (S : List LCell) (lays : List Lay) (i : Nat),
    (plan env S lays)[i]? = S[i]?.map (fun c => planCell env c (lays[i]?.getD default))
  | [], _, _ => by simp [plan]
  | c :: cs, [], 0 => by simp [plan]
  | c :: cs, [], i + 1 => by simp [plan, plan_getElem env cs [] i]
  | c :: cs, l :: ls, 0 => by simp [plan]
  | c :: cs, l :: ls, i + 1 => by simp [plan, plan_getElem env cs ls i]

/-- every planned cell is `planCell` of a cell of the sheet under a layout entry (the default one beyond the list) -/
theorem plan_mem (env : Env) : ∀ (S : List LCell) (lays : List Lay), ∀ p ∈ plan env S lays,
    ∃ c ∈ S, ∃ l, (l ∈ lays ∨ l = default) ∧ p = planCell env c l
  | [], _, p, hp => by simp [plan] at hp
  | c :: cs, [], p, hp => by
    simp only [plan, List.mem_cons] at hp
    rcases hp with rfl | hp
    · exact ⟨c, by simp, default, Or.inr rfl, rfl⟩
    · obtain ⟨c', hc', l, hl, e⟩ := plan_mem env cs [] p hp
      exact ⟨c', by simp [hc'], l, hl, e⟩
  | c :: cs, l :: ls, p, hp => by
    simp only [plan, List.mem_cons] at hp
    rcases hp with rfl | hp
    · exact ⟨c, by simp, l, Or.inl (by simp), rfl⟩
    · obtain ⟨c', hc', l', hl', e⟩ := plan_mem env cs ls p hp
      refine ⟨c', by simp [hc'], l', ?_, e⟩
      rcases hl' with h | h
      · exact Or.inl (by simp [h])
      · exact Or.inr h

theorem plan_pos (env : Env) : ∀ (S : List LCell) (lays : List Lay),
    (plan env S lays).map (fun p => (p.row, p.col)) = S.map (fun c => (c.row, c.col))
  | [], _ => by simp [plan]
  | c :: cs, [] => by simp [plan, planCell, plan_pos env cs []]
  | c :: cs, l :: ls => by simp [plan, planCell, plan_pos env cs ls]

theorem pairwise_inj : ∀ (S : List LCell), S.Pairwise cellLt → ∀ a ∈ S, ∀ b ∈ S,
    a.row = b.row → a.col = b.col → a = b
  | [], _, a, ha, _, _, _, _ => by simp at ha
  | x :: xs, hp, a, ha, b, hb, hr, hc => by
    have hp' := List.pairwise_cons.mp hp
    simp only [List.mem_cons] at ha hb
    rcases ha with rfl | ha <;> rcases hb with rfl | hb
    · rfl
    · have := hp'.1 b hb; unfold cellLt at this; omega
    · have := hp'.1 a ha; unfold cellLt at this; omega
    · exact pairwise_inj xs hp'.2 a ha b hb hr hc

end BiffCells
