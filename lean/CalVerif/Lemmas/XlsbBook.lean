import CalVerif.Spec.XlsbBookEnc
import CalVerif.Lemmas.Utf8Inv
import CalVerif.Lemmas.Xlsb
import CalVerif.Lemmas.Metadata
/-! Lemmas for the xlsb container glue (C03): the relationship reader on described events, the byte / text join,
    the resolution of a sheet name to its part. -/

namespace XlsbBook
open Meta MetaEnc MetaLemmas

/-- C16's `sheets_in_order_xlsb` (Props/C16 imports Props/C03, so the statement is re-derived here from the same
    lemmas of `Lemmas/Metadata.lean`) -/
theorem readWorkbookXlsb_encoded (pf : Bytes → List Text → List (Text × Text) → Res Text) (rels : List (Text × String))
    (recs : List WRec) (hall : ∀ r ∈ recs, r.ok rels) (ew : Bool) (el : Nat)
    (nrecs : List NRec) (hok : namesOk pf ((declaredW recs).map (XlsbSheet.decoded rels)) ([], []) nrecs)
    (t : Nat) (ht : isAfterNames t = true) (tw : Bool) (tl : Nat) (rest : Bytes) :
    readWorkbookXlsb pf rels (encodeWorkbookBin recs ew el (nrecs.flatMap NRec.bytes ++ (Xlsb.frame t [] tw tl ++ rest))) =
      .ok (⟨(declaredW recs).map (fun s => (s.decoded rels).1),
            (nrecs.foldl (applyN pf ((declaredW recs).map (XlsbSheet.decoded rels))) ([], [])).2, flagW recs⟩,
           (declaredW recs).map (fun s => (s.decoded rels).2)) := by
  obtain ⟨fuel, hf⟩ := encodeWorkbookBin_fuel recs ew el (nrecs.flatMap NRec.bytes ++ (Xlsb.frame t [] tw tl ++ rest))
  unfold readWorkbookXlsb readWorkbookXlsbWith
  have h1 := loop1_encode rels recs hall ew el (nrecs.flatMap NRec.bytes ++ (Xlsb.frame t [] tw tl ++ rest)) fuel
  unfold xlsbLoop1 at h1
  rw [hf, h1]
  simp only
  rw [foldl_applyW]
  simp only [List.nil_append]
  rw [loop2_encode pf _ nrecs hok t ht tw tl rest]
  simp [flagW, List.map_map, Function.comp_def]

/-- UTF-8 bytes of a text of scalar values: what `relid.as_bytes()` is for the decoded BrtBundleSh id -/
def encText (t : Text) : Rels.B := t.flatMap Utf8.encodeNat

theorem map_toNat_inj : ∀ (a b : List Char), a.map Char.toNat = b.map Char.toNat → a = b
  | [], [], _ => rfl
  | [], _ :: _, h => by simp at h
  | _ :: _, [], h => by simp at h
  | x :: a, y :: b, h => by
    simp only [List.map_cons, List.cons.injEq] at h
    have hx : x = y := Char.ext (by
      have := h.1
      exact UInt32.toNat_inj.mp this)
    rw [hx, map_toNat_inj a b h.2]

theorem encText_map (cs : List Char) : encText (cs.map Char.toNat) = Utf8.utf8Encode cs := by
  unfold encText Utf8.utf8Encode
  induction cs with
  | nil => rfl
  | cons c cs ih => simp only [List.map_cons, List.flatMap_cons, ih]

/-- **the join compares bytes**: looking a decoded relationship id up in `relsTable` (ids as texts) gives what
    comparing its UTF-8 bytes with the `Id` attribute bytes gives — `relationships.get(relid.as_bytes())` -/
theorem relsTable_lookup (cs : List Char) : ∀ (rels : List (Rels.B × Rels.B)),
    (∀ r ∈ rels, (∀ b ∈ r.1, b < 256) ∧ (Utf8.utf8Decode r.2).isSome) →
    (relsTable rels).lookup (cs.map Char.toNat) =
      (rels.lookup (Utf8.utf8Encode cs)).map (fun tg => String.ofList ((Utf8.utf8Decode tg).getD []))
  | [], _ => rfl
  | (k, tg) :: rels, h => by
    obtain ⟨hk, htg⟩ := h (k, tg) (List.mem_cons_self ..)
    have ih := relsTable_lookup cs rels (fun r hr => h r (List.mem_cons_of_mem _ hr))
    obtain ⟨t, ht⟩ := Option.isSome_iff_exists.mp htg
    simp only at ht
    unfold relsTable at ih ⊢
    simp only [List.filterMap_cons, relEntry, ht]
    cases hd : Utf8.utf8Decode k with
    | none =>
      simp only
      have hne : ¬ (Utf8.utf8Encode cs = k) := by
        intro he
        rw [← he, Utf8.utf8Decode_encode] at hd
        cases hd
      rw [List.lookup_cons, ih]
      have : (Utf8.utf8Encode cs == k) = false := by simpa using hne
      rw [this]
    | some kc =>
      simp only
      have henc := Utf8.encode_of_decode k kc hk hd
      rw [List.lookup_cons, List.lookup_cons]
      by_cases he : cs = kc
      · subst he
        simp [henc, ht]
      · have h1 : (cs.map Char.toNat == kc.map Char.toNat) = false := by
          simp only [beq_eq_false_iff_ne, ne_eq]
          exact fun hh => he (map_toNat_inj _ _ hh)
        have h2 : (Utf8.utf8Encode cs == k) = false := by
          simp only [beq_eq_false_iff_ne, ne_eq]
          intro hh
          apply he
          have := Utf8.utf8Decode_encode cs
          rw [hh, hd] at this
          exact (Option.some.inj this).symm
        rw [h1, h2, ih]

theorem attrsStep_others (cfg : Rels.Cfg) (rest : List (Option (Rels.B × Rels.B))) (acc : Option Rels.B × Option Rels.B) :
    ∀ (l : List (Rels.B × Rels.B)), otherAttrs l → Rels.attrsStep cfg (l.map some ++ rest) acc = Rels.attrsStep cfg rest acc
  | [], _ => rfl
  | a :: l, h => by
    obtain ⟨h1, h2⟩ := h a (List.mem_cons_self ..)
    obtain ⟨k, v⟩ := a
    obtain ⟨id, tg⟩ := acc
    simp only [List.map_cons, List.cons_append, Rels.attrsStep]
    simp only at h1 h2
    rw [if_neg h1, if_neg h2]
    exact attrsStep_others cfg rest (id, tg) l (fun x hx => h x (List.mem_cons_of_mem _ hx))

theorem attrsStep_rel (r : RelDesc) (h : r.OK) :
    Rels.attrsStep Rels.xlsbCfg r.attrs (none, none) = .ok (some r.id, some r.target) := by
  obtain ⟨_, h1, h2, h3, h4⟩ := h
  have hne : Rels.nmTarget ≠ Rels.nmId := by decide
  have ha : Rels.xlsbCfg.appendId = false := rfl
  have hpost : ∀ acc, Rels.attrsStep Rels.xlsbCfg (r.post.map some) acc = .ok acc := by
    intro acc
    have := attrsStep_others Rels.xlsbCfg [] acc r.post h3
    simp only [List.append_nil] at this
    rw [this]; rfl
  unfold RelDesc.attrs
  rw [attrsStep_others _ _ _ r.pre h1]
  cases r.idFirst with
  | true =>
    simp only [if_true]
    rw [Rels.attrsStep, if_pos rfl, ha]
    simp only [Bool.false_eq_true, if_false]
    rw [attrsStep_others _ _ _ r.mid h2, Rels.attrsStep, if_neg hne, if_pos rfl, if_pos h4, hpost]
  | false =>
    simp only [Bool.false_eq_true, if_false]
    rw [Rels.attrsStep, if_neg hne, if_pos rfl, if_pos h4, attrsStep_others _ _ _ r.mid h2, Rels.attrsStep, if_pos rfl, ha]
    simp only [Bool.false_eq_true, if_false]
    rw [hpost]

theorem readRelsGo_items : ∀ (items : List RelItem) (acc : List (Rels.B × Rels.B)), (∀ i ∈ items, i.OK) →
    Rels.readRelsGo Rels.xlsbCfg (relEvents items) acc = .ok (declaredRels items acc)
  | [], acc, _ => by simp [relEvents, Rels.readRelsGo, Rels.xlsbCfg, declaredRels]
  | i :: items, acc, h => by
    have hi := h i (List.mem_cons_self ..)
    have ih := fun acc' => readRelsGo_items items acc' (fun x hx => h x (List.mem_cons_of_mem _ hx))
    unfold relEvents at ih ⊢
    cases i with
    | rel r =>
      simp only [List.map_cons, List.cons_append, RelItem.ev, Rels.readRelsGo]
      have : Rels.isRel Rels.xlsbCfg r.name = true := by
        simp only [Rels.isRel, Rels.xlsbCfg, if_true, hi.1, beq_self_eq_true]
      rw [this, if_pos rfl, attrsStep_rel r hi]
      simp only [Rels.xlsbCfg, if_true, declaredRels]
      exact ih _
    | close n =>
      simp only [List.map_cons, List.cons_append, RelItem.ev, Rels.readRelsGo, Rels.xlsbCfg, Bool.false_and, declaredRels]
      exact ih _
    | elem n a =>
      have hn : Rels.isRel Rels.xlsbCfg n = false := by
        simp only [Rels.isRel, Rels.xlsbCfg, if_true, beq_eq_false_iff_ne, ne_eq]
        exact hi
      simp only [List.map_cons, List.cons_append, RelItem.ev, Rels.readRelsGo, hn, Bool.false_eq_true, if_false, declaredRels]
      exact ih _
    | other =>
      simp only [List.map_cons, List.cons_append, RelItem.ev, Rels.readRelsGo, declaredRels]
      exact ih _

theorem readRels_ne_panic (cfg : Rels.Cfg) (m : String) : ∀ (evs : List Rels.Ev) (acc : List (Rels.B × Rels.B)), Rels.readRelsGo cfg evs acc ≠ .panic m := by
  have hattr : ∀ (l : List (Option (Rels.B × Rels.B))) (a : Option Rels.B × Option Rels.B) (m : String), Rels.attrsStep cfg l a ≠ .panic m := by
    intro l
    induction l with
    | nil => intro a m; simp [Rels.attrsStep]
    | cons x l ih =>
      intro a m
      obtain ⟨id, tg⟩ := a
      cases x with
      | none => simp [Rels.attrsStep]
      | some kv =>
        obtain ⟨k, v⟩ := kv
        simp only [Rels.attrsStep]
        split
        · exact ih _ m
        · split
          · split
            · exact ih _ m
            · simp
          · exact ih _ m
  intro evs
  induction evs with
  | nil => intro acc; simp only [Rels.readRelsGo]; split <;> simp
  | cons e evs ih =>
    intro acc
    cases e with
    | eof => simp only [Rels.readRelsGo]; split <;> simp
    | err => simp [Rels.readRelsGo]
    | other => simp only [Rels.readRelsGo]; exact ih acc
    | end_ n => simp only [Rels.readRelsGo]; split; simp; exact ih acc
    | start n attrs =>
      simp only [Rels.readRelsGo]
      split
      · cases ha : Rels.attrsStep cfg attrs (none, none) with
        | ok v =>
          obtain ⟨id, tg⟩ := v
          simp only
          split
          · split
            · exact ih _
            · exact ih _
          · exact ih _
        | err e => simp
        | panic s => exact absurd ha (hattr attrs _ s)
        | outOfFuel => simp
      · exact ih acc

theorem char_isScalar (cs : List Char) : ∀ c ∈ cs.map Char.toNat, isScalar c := by
  intro c hc
  obtain ⟨ch, _, rfl⟩ := List.mem_map.mp hc
  exact Utf8.char_valid ch

theorem declaredW_recs : ∀ (items : List WItem), declaredW (items.map WItem.toRec) = (declsOf items).map SheetDecl.sheet
  | [] => rfl
  | .sheet d _ _ :: r => by simp only [List.map_cons, WItem.toRec, declaredW, declsOf, declaredW_recs r]
  | .wbprop _ _ _ :: r => by simp only [List.map_cons, WItem.toRec, declaredW, declsOf, declaredW_recs r]
  | .other _ _ _ _ :: r => by simp only [List.map_cons, WItem.toRec, declaredW, declsOf, declaredW_recs r]

theorem decl_lookup (rels : List (Rels.B × Rels.B))
    (hr : ∀ r ∈ rels, (∀ b ∈ r.1, b < 256) ∧ (Utf8.utf8Decode r.2).isSome) (d : SheetDecl) (h : d.resolves rels) :
    (relsTable rels).lookup (Biff.decodeUtf16 d.sheet.relUnits) = some (String.ofList d.target) := by
  unfold SheetDecl.sheet
  simp only
  rw [MetaLemmas.decodeUtf16_utf16 _ (char_isScalar d.relId), relsTable_lookup d.relId rels hr, h]
  simp [Utf8.utf8Decode_encode]

theorem decl_decoded (rels : List (Rels.B × Rels.B))
    (hr : ∀ r ∈ rels, (∀ b ∈ r.1, b < 256) ∧ (Utf8.utf8Decode r.2).isSome) (d : SheetDecl) (h : d.resolves rels) :
    (d.sheet.decoded (relsTable rels)).2 = d.path ∧ (d.sheet.decoded (relsTable rels)).1.name = d.name := by
  unfold XlsbSheet.decoded XlsbSheet.pathOf
  rw [decl_lookup rels hr d h]
  exact ⟨by simp [SheetDecl.path], rfl⟩

theorem declaredRels_targets : ∀ (items : List RelItem) (acc : List (Rels.B × Rels.B)), (∀ i ∈ items, i.OK) →
    (∀ r ∈ acc, (Utf8.utf8Decode r.2).isSome) → ∀ r ∈ declaredRels items acc, (Utf8.utf8Decode r.2).isSome
  | [], acc, _, ha => ha
  | .rel d :: rest, acc, h, ha => by
    simp only [declaredRels]
    apply declaredRels_targets rest _ (fun x hx => h x (List.mem_cons_of_mem _ hx))
    intro r hr
    rcases List.mem_cons.mp hr with rfl | hr'
    · exact (h (.rel d) (List.mem_cons_self ..)).2.2.2.2
    · exact ha r hr'
  | .close _ :: rest, acc, h, ha => declaredRels_targets rest acc (fun x hx => h x (List.mem_cons_of_mem _ hx)) ha
  | .elem _ _ :: rest, acc, h, ha => declaredRels_targets rest acc (fun x hx => h x (List.mem_cons_of_mem _ hx)) ha
  | .other :: rest, acc, h, ha => declaredRels_targets rest acc (fun x hx => h x (List.mem_cons_of_mem _ hx)) ha

theorem toRec_ok (rels : List (Rels.B × Rels.B)) (hr : ∀ r ∈ rels, (∀ b ∈ r.1, b < 256) ∧ (Utf8.utf8Decode r.2).isSome)
    (it : WItem) (h : it.OK rels) : it.toRec.ok (relsTable rels) := by
  cases it with
  | sheet d w l =>
    obtain ⟨h1, h2, h3, h4, h5, ⟨kind, h6⟩, h7⟩ := h
    refine ⟨⟨h1, h2, h3, ?_, h4, String.ofList d.target, kind, decl_lookup rels hr d h5, ?_⟩, h7⟩
    · exact MetaLemmas.utf16_lt _ (char_isScalar d.relId)
    · simpa [SheetDecl.path] using h6
  | wbprop f w l => exact h
  | other id p w l => exact h

theorem find_decl (rels : List (Rels.B × Rels.B)) (hr : ∀ r ∈ rels, (∀ b ∈ r.1, b < 256) ∧ (Utf8.utf8Decode r.2).isSome) :
    ∀ (decls : List SheetDecl), (∀ d ∈ decls, d.resolves rels) → decls.Pairwise (fun a b => a.name ≠ b.name) →
    ∀ d ∈ decls,
      ((decls.map fun x => (x.sheet.decoded (relsTable rels)).1).zip (decls.map fun x => (x.sheet.decoded (relsTable rels)).2)).find?
        (fun p => p.1.name == d.name) = some ((d.sheet.decoded (relsTable rels)).1, d.path)
  | [], _, _, d, hd => nomatch hd
  | x :: decls, hres, hp, d, hd => by
    have hx := decl_decoded rels hr x (hres x (List.mem_cons_self ..))
    simp only [List.map_cons, List.zip_cons_cons, List.find?_cons]
    rcases List.mem_cons.mp hd with rfl | hd'
    · rw [hx.2]; simp [hx.1]
    · have hne : x.name ≠ d.name := (List.pairwise_cons.mp hp).1 d hd'
      rw [hx.2]
      have : (x.name == d.name) = false := by simpa using hne
      rw [this]
      exact find_decl rels hr decls (fun y hy => hres y (List.mem_cons_of_mem _ hy)) (List.pairwise_cons.mp hp).2 d hd'

/-- the relationship table of a described .rels part -/
theorem relsOf_items (items : List RelItem) (h : ∀ i ∈ items, i.OK) :
    relsOf (some (relEvents items)) = .ok (declaredRels items []) := by
  unfold relsOf Rels.readRels
  exact readRelsGo_items items [] h

/-! ### totality of the glue -/

theorem wideText_ne_panic (b : Bytes) (m : String) : wideText b ≠ .panic m := by
  unfold wideText
  cases h : Xlsb.wideStr b with
  | ok v => obtain ⟨us, n⟩ := v; simp
  | err e => simp
  | panic s => exact absurd h (Xlsb.wideStr_ne_panic b s)
  | outOfFuel => simp

theorem wideText_ne_fuel (b : Bytes) : wideText b ≠ .outOfFuel := by
  unfold wideText
  cases h : Xlsb.wideStr b with
  | ok v => obtain ⟨us, n⟩ := v; simp
  | err e => simp
  | panic s => simp
  | outOfFuel => exact absurd h (Xlsb.wideStr_ne_fuel b)

theorem bundleSh_cases (rels : List (Text × String)) (buf : Bytes) :
    (∃ v, bundleSh rels buf = .ok v) ∨ (∃ e, bundleSh rels buf = .err e) := by
  unfold bundleSh
  by_cases h1 : buf.length < 12
  · rw [if_pos h1]; exact Or.inr ⟨_, rfl⟩
  · rw [if_neg h1]
    simp only
    by_cases h2 : u32At buf 8 = 0xFFFFFFFF
    · rw [if_pos h2]; exact Or.inl ⟨_, rfl⟩
    · rw [if_neg h2]
      by_cases h3 : buf.length < 12 + u32At buf 8 * 2
      · rw [if_pos h3]; exact Or.inr ⟨_, rfl⟩
      · rw [if_neg h3]
        cases rels.lookup (Biff.decodeUtf16 (Xlsb.units ((buf.drop 12).take (u32At buf 8 * 2)))) with
        | none => exact Or.inr ⟨_, rfl⟩
        | some target =>
          simp only
          cases Gen.xlsbVisTable.lookup (Xlsb.u32le buf) with
          | none => exact Or.inr ⟨_, rfl⟩
          | some vis =>
            simp only
            cases kindOfPath Gen.xlsbKindTable (xlsxPath target.toList) with
            | none => exact Or.inr ⟨_, rfl⟩
            | some typ =>
              simp only
              cases hw : wideText (buf.drop (12 + u32At buf 8 * 2)) with
              | ok v => obtain ⟨name, n⟩ := v; exact Or.inl ⟨_, rfl⟩
              | err e => exact Or.inr ⟨_, rfl⟩
              | panic s => exact absurd hw (wideText_ne_panic _ s)
              | outOfFuel => exact absurd hw (wideText_ne_fuel _)

theorem bundleSh_ne_panic (rels : List (Text × String)) (buf : Bytes) (m : String) : bundleSh rels buf ≠ .panic m := by
  rcases bundleSh_cases rels buf with ⟨v, h⟩ | ⟨e, h⟩ <;> rw [h] <;> simp

theorem bundleSh_ne_fuel (rels : List (Text × String)) (buf : Bytes) : bundleSh rels buf ≠ .outOfFuel := by
  rcases bundleSh_cases rels buf with ⟨v, h⟩ | ⟨e, h⟩ <;> rw [h] <;> simp

theorem skipPayload_ne_panic (r : Bytes) (m : String) : skipPayload r ≠ .panic m := by
  intro h
  unfold skipPayload at h
  split at h
  all_goals first
    | contradiction
    | simp_all [Xlsb.fillBuffer_ne_panic]

theorem xlsbLoop1With_ne_panic (sk : Bool) (rels : List (Text × String)) (m : String) :
    ∀ (fuel : Nat) (bs : Bytes) (st : XlsbSt), xlsbLoop1With sk rels fuel bs st ≠ .panic m
  | 0, _, _ => by simp [xlsbLoop1With]
  | f + 1, bs, st => by
    have ih := xlsbLoop1With_ne_panic sk rels m f
    intro h
    rw [xlsbLoop1With] at h
    repeat' split at h
    all_goals first
      | contradiction
      | exact ih _ _ h
      | simp_all [Xlsb.readType_ne_panic, Xlsb.fillBuffer_ne_panic, bundleSh_ne_panic, skipPayload_ne_panic]


theorem skipPayload_ne_fuel (r : Bytes) : skipPayload r ≠ .outOfFuel := by
  intro h
  unfold skipPayload at h
  split at h
  all_goals first
    | contradiction
    | simp_all [Xlsb.fillBuffer_ne_fuel]

theorem skipPayload_shrinks (r r' : Bytes) (h : skipPayload r = .ok r') : r'.length + 1 ≤ r.length := by
  unfold skipPayload at h
  split at h
  · rename_i n b r'' hf
    injection h with h; subst h
    exact Xlsb.fillBuffer_shrinks [] r n b r'' hf
  all_goals contradiction

/-- first loop of `read_workbook`: never out of fuel with more fuel than bytes, and what is left is no longer -/
theorem xlsbLoop1With_fuel (sk : Bool) (rels : List (Text × String)) :
    ∀ (fuel : Nat) (bs : Bytes) (st : XlsbSt), bs.length < fuel →
      xlsbLoop1With sk rels fuel bs st ≠ .outOfFuel ∧
      ∀ st' r, xlsbLoop1With sk rels fuel bs st = .ok (st', r) → r.length ≤ bs.length
  | 0, _, _, h => by omega
  | f + 1, bs, st, hf => by
    rw [xlsbLoop1With]
    cases ht : Xlsb.readType bs with
    | ok v =>
      obtain ⟨typ, r⟩ := v
      have hs := Xlsb.readType_shrinks bs typ r ht
      simp only
      by_cases h99 : typ = 0x0099
      · rw [if_pos h99]
        cases hb : Xlsb.fillBuffer [] r with
        | ok w =>
          obtain ⟨n, buf, r'⟩ := w
          have hs2 := Xlsb.fillBuffer_shrinks [] r n buf r' hb
          simp only
          split
          · exact ⟨by simp, fun _ _ h => by cases h⟩
          · obtain ⟨i1, i2⟩ := xlsbLoop1With_fuel sk rels f r' _ (by omega)
            exact ⟨i1, fun st' r'' h => by have := i2 st' r'' h; omega⟩
        | err e => exact ⟨by simp, fun _ _ h => by cases h⟩
        | panic e => exact ⟨by simp, fun _ _ h => by cases h⟩
        | outOfFuel => exact absurd hb (Xlsb.fillBuffer_ne_fuel _ _)
      · rw [if_neg h99]
        by_cases h9c : typ = 0x009C
        · rw [if_pos h9c]
          cases hb : Xlsb.fillBuffer [] r with
          | ok w =>
            obtain ⟨n, buf, r'⟩ := w
            have hs2 := Xlsb.fillBuffer_shrinks [] r n buf r' hb
            simp only
            rcases bundleSh_cases rels buf with ⟨v, hv⟩ | ⟨e, hv⟩
            · rw [hv]
              cases v with
              | none =>
                obtain ⟨i1, i2⟩ := xlsbLoop1With_fuel sk rels f r' st (by omega)
                exact ⟨i1, fun st' r'' h => by have := i2 st' r'' h; omega⟩
              | some s =>
                obtain ⟨i1, i2⟩ := xlsbLoop1With_fuel sk rels f r' { st with sheets := st.sheets ++ [s] } (by omega)
                exact ⟨i1, fun st' r'' h => by have := i2 st' r'' h; omega⟩
            · rw [hv]; exact ⟨by simp, fun _ _ h => by cases h⟩
          | err e => exact ⟨by simp, fun _ _ h => by cases h⟩
          | panic e => exact ⟨by simp, fun _ _ h => by cases h⟩
          | outOfFuel => exact absurd hb (Xlsb.fillBuffer_ne_fuel _ _)
        · rw [if_neg h9c]
          by_cases h90 : typ = 0x0090
          · rw [if_pos h90]
            cases sk with
            | true =>
              simp only [if_true]
              cases hp : skipPayload r with
              | ok r' =>
                have := skipPayload_shrinks r r' hp
                exact ⟨by simp, fun st' r'' h => by injection h with h; injection h with _ h; subst h; omega⟩
              | err e => exact ⟨by simp, fun _ _ h => by cases h⟩
              | panic e => exact ⟨by simp, fun _ _ h => by cases h⟩
              | outOfFuel => exact absurd hp (skipPayload_ne_fuel _)
            | false =>
              simp only [Bool.false_eq_true, if_false]
              exact ⟨by simp, fun st' r'' h => by injection h with h; injection h with _ h; subst h; omega⟩
          · rw [if_neg h90]
            cases sk with
            | true =>
              simp only [if_true]
              cases hp : skipPayload r with
              | ok r' =>
                have := skipPayload_shrinks r r' hp
                obtain ⟨i1, i2⟩ := xlsbLoop1With_fuel true rels f r' st (by omega)
                exact ⟨i1, fun st' r'' h => by have := i2 st' r'' h; omega⟩
              | err e => exact ⟨by simp, fun _ _ h => by cases h⟩
              | panic e => exact ⟨by simp, fun _ _ h => by cases h⟩
              | outOfFuel => exact absurd hp (skipPayload_ne_fuel _)
            | false =>
              simp only [Bool.false_eq_true, if_false]
              obtain ⟨i1, i2⟩ := xlsbLoop1With_fuel false rels f r st (by omega)
              exact ⟨i1, fun st' r'' h => by have := i2 st' r'' h; omega⟩
    | err e => exact ⟨by simp, fun _ _ h => by cases h⟩
    | panic e => exact ⟨by simp, fun _ _ h => by cases h⟩
    | outOfFuel => exact absurd ht (Xlsb.readType_ne_fuel _)


theorem externLoop_cases (sheets : List (Sheet Text × List Char)) : ∀ (n : Nat) (d : Bytes),
    (∃ v, externLoop sheets n d = .ok v) ∨ (∃ e, externLoop sheets n d = .err e)
  | 0, _ => Or.inl ⟨_, rfl⟩
  | n + 1, d => by
    rw [externLoop]
    split
    · exact Or.inl ⟨_, rfl⟩
    · split
      · exact Or.inr ⟨_, rfl⟩
      · rcases externLoop_cases sheets n (d.drop 12) with ⟨v, h⟩ | ⟨e, h⟩ <;> rw [h]
        · exact Or.inl ⟨_, rfl⟩
        · exact Or.inr ⟨_, rfl⟩

theorem brtName_cases (buf : Bytes) (len : Nat) : (∃ v, brtName buf len = .ok v) ∨ (∃ e, brtName buf len = .err e) := by
  unfold brtName
  split
  · exact Or.inr ⟨_, rfl⟩
  · cases hw : wideText ((buf.take len).drop 9) with
    | ok v =>
      obtain ⟨name, strLen⟩ := v
      simp only
      split
      · exact Or.inr ⟨_, rfl⟩
      · split
        · exact Or.inr ⟨_, rfl⟩
        · exact Or.inl ⟨_, rfl⟩
    | err e => exact Or.inr ⟨_, rfl⟩
    | panic s => exact absurd hw (wideText_ne_panic _ s)
    | outOfFuel => exact absurd hw (wideText_ne_fuel _)

theorem xlsbLoop2With_cases (sk : Bool) (pf : Bytes → List Text → List (Text × Text) → Res Text) (hpf : PfTotal pf)
    (sheets : List (Sheet Text × List Char)) :
    ∀ (fuel : Nat) (bs buf : Bytes) (ext : List Text) (names : List (Text × Text)), bs.length < fuel →
      (∃ v, xlsbLoop2With sk pf sheets fuel bs buf ext names = .ok v) ∨
      (∃ e, xlsbLoop2With sk pf sheets fuel bs buf ext names = .err e)
  | 0, _, _, _, _, h => by omega
  | f + 1, bs, buf, ext, names, hf => by
    rw [xlsbLoop2With]
    cases ht : Xlsb.readType bs with
    | ok v =>
      obtain ⟨typ, r⟩ := v
      have hs := Xlsb.readType_shrinks bs typ r ht
      simp only
      by_cases h1 : typ = 0x016A
      · rw [if_pos h1]
        cases hb : Xlsb.fillBuffer buf r with
        | ok w =>
          obtain ⟨n, buf', r'⟩ := w
          have hs2 := Xlsb.fillBuffer_shrinks buf r n buf' r' hb
          simp only
          split
          · exact Or.inr ⟨_, rfl⟩
          · rcases externLoop_cases sheets (Xlsb.u32le buf') (buf'.drop 4) with ⟨v, hv⟩ | ⟨e, hv⟩ <;> rw [hv]
            · exact xlsbLoop2With_cases sk pf hpf sheets f r' buf' v names (by omega)
            · exact Or.inr ⟨_, rfl⟩
        | err e => exact Or.inr ⟨_, rfl⟩
        | panic e => exact absurd hb (Xlsb.fillBuffer_ne_panic _ _ _)
        | outOfFuel => exact absurd hb (Xlsb.fillBuffer_ne_fuel _ _)
      · rw [if_neg h1]
        by_cases h2 : typ = 0x0027
        · rw [if_pos h2]
          cases hb : Xlsb.fillBuffer buf r with
          | ok w =>
            obtain ⟨n, buf', r'⟩ := w
            have hs2 := Xlsb.fillBuffer_shrinks buf r n buf' r' hb
            simp only
            rcases brtName_cases buf' n with ⟨v, hv⟩ | ⟨e, hv⟩ <;> rw [hv]
            · obtain ⟨name, rgce⟩ := v
              simp only
              rcases hpf rgce ext names with ⟨fv, hfv⟩ | ⟨x, hfv⟩ <;> rw [hfv]
              · exact xlsbLoop2With_cases sk pf hpf sheets f r' buf' ext _ (by omega)
              · exact Or.inr ⟨_, rfl⟩
            · exact Or.inr ⟨_, rfl⟩
          | err e => exact Or.inr ⟨_, rfl⟩
          | panic e => exact absurd hb (Xlsb.fillBuffer_ne_panic _ _ _)
          | outOfFuel => exact absurd hb (Xlsb.fillBuffer_ne_fuel _ _)
        · rw [if_neg h2]
          split
          · exact Or.inl ⟨_, rfl⟩
          · cases sk with
            | true =>
              simp only [if_true]
              cases hb : Xlsb.fillBuffer buf r with
              | ok w =>
                obtain ⟨n, buf', r'⟩ := w
                have hs2 := Xlsb.fillBuffer_shrinks buf r n buf' r' hb
                exact xlsbLoop2With_cases true pf hpf sheets f r' buf' ext names (by omega)
              | err e => exact Or.inr ⟨_, rfl⟩
              | panic e => exact absurd hb (Xlsb.fillBuffer_ne_panic _ _ _)
              | outOfFuel => exact absurd hb (Xlsb.fillBuffer_ne_fuel _ _)
            | false =>
              simp only [Bool.false_eq_true, if_false]
              exact xlsbLoop2With_cases false pf hpf sheets f r buf ext names (by omega)
    | err e => exact Or.inr ⟨_, rfl⟩
    | panic e => exact absurd ht (Xlsb.readType_ne_panic _ _)
    | outOfFuel => exact absurd ht (Xlsb.readType_ne_fuel _)


theorem readRelsGo_cases (cfg : Rels.Cfg) : ∀ (evs : List Rels.Ev) (acc : List (Rels.B × Rels.B)),
    (∃ v, Rels.readRelsGo cfg evs acc = .ok v) ∨ (∃ e, Rels.readRelsGo cfg evs acc = .err e) := by
  have hattr : ∀ (l : List (Option (Rels.B × Rels.B))) (a : Option Rels.B × Option Rels.B),
      (∃ v, Rels.attrsStep cfg l a = .ok v) ∨ (∃ e, Rels.attrsStep cfg l a = .err e) := by
    intro l
    induction l with
    | nil => intro a; exact Or.inl ⟨_, rfl⟩
    | cons x l ih =>
      intro a
      obtain ⟨id, tg⟩ := a
      cases x with
      | none => exact Or.inr ⟨_, rfl⟩
      | some kv =>
        obtain ⟨k, v⟩ := kv
        simp only [Rels.attrsStep]
        split
        · exact ih _
        · split
          · split
            · exact ih _
            · exact Or.inr ⟨_, rfl⟩
          · exact ih _
  intro evs
  induction evs with
  | nil => intro acc; simp only [Rels.readRelsGo]; split; exact Or.inr ⟨_, rfl⟩; exact Or.inl ⟨_, rfl⟩
  | cons e evs ih =>
    intro acc
    cases e with
    | eof => simp only [Rels.readRelsGo]; split; exact Or.inr ⟨_, rfl⟩; exact Or.inl ⟨_, rfl⟩
    | err => exact Or.inr ⟨_, rfl⟩
    | other => simp only [Rels.readRelsGo]; exact ih acc
    | end_ n => simp only [Rels.readRelsGo]; split; exact Or.inl ⟨_, rfl⟩; exact ih acc
    | start n attrs =>
      simp only [Rels.readRelsGo]
      split
      · rcases hattr attrs (none, none) with ⟨v, hv⟩ | ⟨e, hv⟩ <;> rw [hv]
        · obtain ⟨id, tg⟩ := v
          simp only
          split
          · split
            · exact ih _
            · exact ih _
          · exact ih _
        · exact Or.inr ⟨_, rfl⟩
      · exact ih acc

theorem readWorkbookXlsb_cases (pf : Bytes → List Text → List (Text × Text) → Res Text) (hpf : PfTotal pf)
    (rels : List (Text × String)) (bs : Bytes) :
    (∃ v, readWorkbookXlsb pf rels bs = .ok v) ∨ (∃ e, readWorkbookXlsb pf rels bs = .err e) := by
  unfold readWorkbookXlsb readWorkbookXlsbWith
  obtain ⟨f1, _⟩ := xlsbLoop1With_fuel true rels (bs.length + 1) bs {} (by omega)
  cases h1 : xlsbLoop1With true rels (bs.length + 1) bs {} with
  | ok v =>
    obtain ⟨st, rest⟩ := v
    simp only
    rcases xlsbLoop2With_cases true pf hpf st.sheets (rest.length + 1) rest [] [] [] (by omega) with ⟨v, hv⟩ | ⟨e, hv⟩ <;> rw [hv]
    · exact Or.inl ⟨_, rfl⟩
    · exact Or.inr ⟨_, rfl⟩
  | err e => exact Or.inr ⟨_, rfl⟩
  | panic s => exact absurd h1 (xlsbLoop1With_ne_panic true rels s _ _ _)
  | outOfFuel => exact absurd h1 f1

theorem stringsOf_cases (parts : Parts) : (∃ v, stringsOf parts = .ok v) ∨ (∃ e, stringsOf parts = .err e) := by
  unfold stringsOf
  cases partOf parts sstPath with
  | none => exact Or.inl ⟨_, rfl⟩
  | some b =>
    simp only
    cases h : Xlsb.readSharedStrings b with
    | ok v => exact Or.inl ⟨_, rfl⟩
    | err e => exact Or.inr ⟨_, rfl⟩
    | panic s => exact absurd h (Xlsb.readSharedStrings_ne_panic b s)
    | outOfFuel => exact absurd h (Xlsb.readSharedStrings_ne_fuel b)

theorem openBook_cases (pf : Bytes → List Text → List (Text × Text) → Res Text) (hpf : PfTotal pf) (parts : Parts)
    (relsEvents : Option (List Rels.Ev)) :
    (∃ bk, openBook pf parts relsEvents = .ok bk) ∨ (∃ e, openBook pf parts relsEvents = .err e) := by
  unfold openBook
  rcases stringsOf_cases parts with ⟨strs, hs⟩ | ⟨e, hs⟩ <;> rw [hs]
  · simp only
    have hr : (∃ v, relsOf relsEvents = .ok v) ∨ (∃ e, relsOf relsEvents = .err e) := by
      unfold relsOf
      cases relsEvents with
      | none => exact Or.inl ⟨_, rfl⟩
      | some evs => exact readRelsGo_cases _ evs []
    rcases hr with ⟨rels, hr⟩ | ⟨e, hr⟩ <;> rw [hr]
    · simp only
      cases partOf parts wbPath with
      | none => exact Or.inr ⟨_, rfl⟩
      | some b =>
        simp only
        rcases readWorkbookXlsb_cases pf hpf (relsTable rels) b with ⟨v, hv⟩ | ⟨e, hv⟩ <;> rw [hv]
        · obtain ⟨wb, paths⟩ := v; exact Or.inl ⟨_, rfl⟩
        · exact Or.inr ⟨_, rfl⟩
    · exact Or.inr ⟨_, rfl⟩
  · exact Or.inr ⟨_, rfl⟩

theorem sheetPart_cases (bk : Book) (parts : Parts) (name : Text) :
    (∃ b, sheetPart bk parts name = .ok b) ∨ (∃ e, sheetPart bk parts name = .err e) := by
  unfold sheetPart
  split
  · exact Or.inr ⟨_, rfl⟩
  · split
    · exact Or.inr ⟨_, rfl⟩
    · exact Or.inl ⟨_, rfl⟩

end XlsbBook
