import CalVerif.Lemmas.BiffStrings
import CalVerif.Model.Biff
/-! C12 ∘ C02: the shared-string table read by the globals loop of `parse_workbook` (C12's `Biff.parseSst`)
    is the table the worksheet loop indexes for LABELSST cells (C02's `BiffCells.parseLabelSst`,
    `env.strings[i]`). This file composes the two models — nothing of `Model/Biff.lean` or
    `Model/BiffStrings.lean` is changed — and proves that the cells see the stored text under every legal
    SST layout.

    `wbStrings` mirrors, of `parse_workbook`'s globals loop (`for record in RecordIter { match r.typ … }`), exactly
    what concerns the variable `strings`: it is assigned by the SST arm (`strings = parse_sst(&mut r, &encoding)?`)
    and by no other arm, the EOF record breaks the loop, a framing or parser error ends the open. What the other
    arms do (code page, formats, sheet table, names …) is the parameter `arm`: it can fail, it cannot touch
    `strings`. `workbookSheet` then hands the table to the worksheet loop of C02 (`sheetRange`, on
    `stream.get(pos..)`); everything else the worksheet loop reads from the globals (formats, 1904 flag — C10 /
    C16 own them) is the parameter `env0`, of which only the field `strings` is replaced. Only
    `Model/Biff.lean` is imported from C02 (its definitions `Env`, `parseLabelSst`, `sheetRange`), none of its
    lemma files. -/

namespace BiffWorkbook
open Biff (Bytes Rec)

/-- the globals loop as far as `strings` goes; `fuel` bounds the number of records -/
def wbStrings (arm : Rec → Res Unit) : Nat → Bytes → List (List Nat) → Res (List (List Nat))
  | 0, _, _ => .outOfFuel
  | fuel + 1, s, strs =>
    match Biff.nextRecord s with
    | none => .ok strs
    | some x => do
      let (r, rest) ← x
      if r.typ = 0x000A then .ok strs
      else if r.typ = 0x00FC then do
        let ss ← Biff.parseSst r
        wbStrings arm fuel rest ss
      else do
        arm r
        wbStrings arm fuel rest strs

/-- `parse_workbook` for the sheet whose BoundSheet8 offset is `pos`: the strings of the globals loop, then
    the worksheet loop over `stream.get(pos..)` -/
def workbookSheet (arm : Rec → Res Unit) (env0 : BiffCells.Env) (stream : Bytes) (pos : Nat) :
    Res (Range.Rng BiffCells.Val) := do
  let strs ← wbStrings arm (stream.length + 1) stream []
  if stream.length < pos then .err "EoStream:sheet substream offset"
  else BiffCells.sheetRange { env0 with strings := strs } (stream.drop pos)

/-- records without CONTINUE, as stream bytes -/
def framePlain : List (Nat × Bytes) → Bytes
  | [] => []
  | (t, d) :: rs => Biff.frameRec t d [] ++ framePlain rs

/-- a globals record other than SST / EOF / CONTINUE that fits the framing and whose arm succeeds -/
def inertRec (arm : Rec → Res Unit) (p : Nat × Bytes) : Prop :=
  p.1 < 65536 ∧ p.1 ≠ 0x3C ∧ p.1 ≠ 0xFC ∧ p.1 ≠ 0x0A ∧ p.2.length < 65536 ∧ arm ⟨p.1, p.2, []⟩ = .ok ()

theorem notCont_frameRec (t : Nat) (d : Bytes) (cs : List Bytes) (X : Bytes) (ht : t < 65536) (hne : t ≠ 0x3C) :
    Biff.notCont (Biff.frameRec t d cs ++ X) := by
  unfold Biff.notCont Biff.frameRec
  rw [List.append_assoc, List.append_assoc, Biff.u16_recHdr t _ ht]
  intro h; exact hne h.2

theorem notCont_framePlain (arm : Rec → Res Unit) (rs : List (Nat × Bytes)) (X : Bytes)
    (h : ∀ p ∈ rs, inertRec arm p) (hX : Biff.notCont X) : Biff.notCont (framePlain rs ++ X) := by
  cases rs with
  | nil => simpa [framePlain] using hX
  | cons p rs =>
    obtain ⟨t, d⟩ := p
    have hp := h (t, d) (by simp)
    simp only [framePlain, List.append_assoc]
    exact notCont_frameRec t d [] _ hp.1 hp.2.1

theorem nextRecord_plain (t : Nat) (d more : Bytes) (ht : t < 65536) (hd : d.length < 65536)
    (hmore : Biff.notCont more) :
    Biff.nextRecord (Biff.frameRec t d [] ++ more) = some (.ok (⟨t, d, []⟩, more)) :=
  Biff.nextRecord_frameRec t d [] more ht hd (by intro f hf; simp at hf) hmore

/-- inert records before the point of interest are stepped over -/
theorem wbStrings_skip (arm : Rec → Res Unit) : ∀ (rs : List (Nat × Bytes)) (X : Bytes) (strs : List (List Nat))
    (fuel : Nat), (∀ p ∈ rs, inertRec arm p) → Biff.notCont X →
    wbStrings arm (rs.length + fuel) (framePlain rs ++ X) strs = wbStrings arm fuel X strs
  | [], X, strs, fuel, _, _ => by simp [framePlain]
  | (t, d) :: rs, X, strs, fuel, h, hX => by
    obtain ⟨ht, h3c, hfc, h0a, hd, harm⟩ := h (t, d) (by simp)
    have hrest : ∀ p ∈ rs, inertRec arm p := fun p hp => h p (by simp [hp])
    have hn := nextRecord_plain t d (framePlain rs ++ X) ht hd (notCont_framePlain arm rs X hrest hX)
    have hf : ((t, d) :: rs).length + fuel = (rs.length + fuel) + 1 := by simp only [List.length_cons]; omega
    rw [hf]
    simp only [framePlain, List.append_assoc]
    rw [wbStrings, hn]
    simp only [Res.bind_ok, h0a, hfc, if_false, harm]
    exact wbStrings_skip arm rs X strs fuel hrest hX

/-- **the table the cells index**: a globals substream made of any inert records, the SST + CONTINUE records of
    `table` under ANY legal layout, more inert records and the EOF record (then the sheet substreams `after`,
    which do not start with a CONTINUE record) leaves `strings` = the text of every table entry, in order -/
theorem wbStrings_encode (arm : Rec → Res Unit) (cstTotal : Nat) (table : List Biff.Entry)
    (lys : List Biff.EntryLayout) (h : Biff.Legal cstTotal table lys)
    (pre post : List (Nat × Bytes)) (hpre : ∀ p ∈ pre, inertRec arm p) (hpost : ∀ p ∈ post, inertRec arm p)
    (after : Bytes) (hafter : Biff.notCont after) (init : List (List Nat)) (fuel : Nat) :
    wbStrings arm (pre.length + (post.length + (fuel + 2)))
        (framePlain pre ++ (Biff.frameSst (Biff.encodeSst cstTotal table lys) ++
          (framePlain post ++ (Biff.frameRec 0x0A [] [] ++ after)))) init
      = .ok (table.map fun e => Biff.decodeUtf16 e.units) := by
  have hEof : Biff.notCont (Biff.frameRec 0x0A [] [] ++ after) := notCont_frameRec 0x0A [] [] after (by omega) (by omega)
  have hPost : Biff.notCont (framePlain post ++ (Biff.frameRec 0x0A [] [] ++ after)) :=
    notCont_framePlain arm post _ hpost hEof
  have hgood : Biff.goodToks (.b (Biff.le32 cstTotal ++ Biff.le32 table.length) :: Biff.tableToks table lys) := by
    simp only [Biff.goodToks]; exact Biff.goodToks_tableToks table lys h.entries
  have hne := Biff.lay_good _ hgood
  have hsz : ∀ f ∈ Biff.encodeSst cstTotal table lys, f.length < 65536 :=
    fun f hf => Nat.lt_of_le_of_lt (h.sizes f hf) (by omega)
  have hSstNC : Biff.notCont (Biff.frameSst (Biff.encodeSst cstTotal table lys) ++
      (framePlain post ++ (Biff.frameRec 0x0A [] [] ++ after))) := by
    unfold Biff.encodeSst; simp only [Biff.frameSst]
    exact notCont_frameRec 0xFC _ _ _ (by omega) (by omega)
  rw [wbStrings_skip arm pre _ init _ hpre hSstNC]
  -- the SST record, gathered with its CONTINUE records
  have hnr : Biff.nextRecord (Biff.frameSst (Biff.encodeSst cstTotal table lys) ++
      (framePlain post ++ (Biff.frameRec 0x0A [] [] ++ after))) =
      some (.ok (⟨0xFC, (Biff.encodeSst cstTotal table lys).headD [], (Biff.encodeSst cstTotal table lys).tail⟩,
        framePlain post ++ (Biff.frameRec 0x0A [] [] ++ after))) := by
    unfold Biff.encodeSst at hsz ⊢
    simp only [Biff.frameSst, List.headD_cons, List.tail_cons]
    exact Biff.nextRecord_frameRec 0xFC _ _ _ (by omega) (hsz _ (List.mem_cons_self ..))
      (fun f hf => ⟨hne f hf, hsz f (List.mem_cons_of_mem _ hf)⟩) hPost
  have hps : Biff.parseSst ⟨0xFC, (Biff.encodeSst cstTotal table lys).headD [], (Biff.encodeSst cstTotal table lys).tail⟩
      = .ok (table.map fun e => Biff.decodeUtf16 e.units) := by
    have := Biff.parseSst_encode cstTotal table lys h.entries h.count 0xFC
    unfold Biff.encodeSst; simpa using this
  have hf : post.length + (fuel + 2) = (post.length + (fuel + 1)) + 1 := by omega
  rw [hf, wbStrings, hnr]
  simp only [Res.bind_ok, hps]
  have h1 : ¬ (252 : Nat) = 10 := by omega
  simp only [h1, if_false, if_true]
  -- the records after it, then EOF
  rw [wbStrings_skip arm post _ _ _ hpost hEof]
  have hn := nextRecord_plain 0x0A [] after (by omega) (by simp) hafter
  rw [wbStrings, hn]
  simp

theorem framePlain_length_ge (rs : List (Nat × Bytes)) : rs.length ≤ (framePlain rs).length := by
  induction rs with
  | nil => simp [framePlain]
  | cons p rs ih =>
    obtain ⟨t, d⟩ := p
    simp only [framePlain, Biff.frameRec, Biff.frameConts, List.length_append, Biff.recHdr_length, List.length_cons,
      List.length_nil]
    omega

/-- the workbook stream: globals (inert records, the SST under layout `lys`, inert records, EOF) then `after` -/
def wbStream (cstTotal : Nat) (table : List Biff.Entry) (lys : List Biff.EntryLayout)
    (pre post : List (Nat × Bytes)) (after : Bytes) : Bytes :=
  framePlain pre ++ (Biff.frameSst (Biff.encodeSst cstTotal table lys) ++
    (framePlain post ++ (Biff.frameRec 0x0A [] [] ++ after)))

/-- the worksheet loop of a workbook whose SST holds `table` under any legal layout runs with
    `strings` = the stored texts -/
theorem workbookSheet_encode (arm : Rec → Res Unit) (env0 : BiffCells.Env) (cstTotal : Nat) (table : List Biff.Entry)
    (lys : List Biff.EntryLayout) (h : Biff.Legal cstTotal table lys)
    (pre post : List (Nat × Bytes)) (hpre : ∀ p ∈ pre, inertRec arm p) (hpost : ∀ p ∈ post, inertRec arm p)
    (after : Bytes) (hafter : Biff.notCont after) (pos : Nat)
    (hpos : pos ≤ (wbStream cstTotal table lys pre post after).length) :
    workbookSheet arm env0 (wbStream cstTotal table lys pre post after) pos =
      BiffCells.sheetRange { env0 with strings := table.map fun e => Biff.decodeUtf16 e.units }
        ((wbStream cstTotal table lys pre post after).drop pos) := by
  have hlen : pre.length + post.length + 4 ≤ (wbStream cstTotal table lys pre post after).length := by
    have h1 := framePlain_length_ge pre
    have h2 := framePlain_length_ge post
    unfold wbStream
    simp only [List.length_append, Biff.frameRec, Biff.frameConts, Biff.recHdr_length, List.length_nil]
    omega
  obtain ⟨fuel, hfuel⟩ : ∃ fuel, (wbStream cstTotal table lys pre post after).length + 1 =
      pre.length + (post.length + (fuel + 2)) :=
    ⟨(wbStream cstTotal table lys pre post after).length + 1 - (pre.length + post.length + 2), by omega⟩
  unfold workbookSheet
  rw [hfuel]
  have := wbStrings_encode arm cstTotal table lys h pre post hpre hpost after hafter [] fuel
  unfold wbStream at this ⊢
  rw [this]
  simp only [Res.bind_ok]
  rw [if_neg (by unfold wbStream at hpos; omega)]

/-! ### the LABELSST cell -/

/-- payload of a LABELSST record: row, column, ixfe, index into the shared-string table -/
def labelSstData (row col xf i : Nat) : Bytes := Biff.le16 row ++ (Biff.le16 col ++ (Biff.le16 xf ++ Biff.le32 i))

/-- `parse_label_sst` with `strings[i] = s`: the cell at (row, col) holds exactly `s` (the empty string
    included, since fix b90dd43) -/
theorem parseLabelSst_entry (env : BiffCells.Env) (row col xf i : Nat) (s : List Nat)
    (hr : row < 65536) (hc : col < 65536) (hi : i < 4294967296) (hs : env.strings[i]? = some s) :
    BiffCells.parseLabelSst env (labelSstData row col xf i) =
      .ok (some (row, col, BiffCells.Val.str s)) := by
  have hl : (labelSstData row col xf i).length = 10 := rfl
  have h0 : BiffCells.u16At (labelSstData row col xf i) 0 = row := by
    unfold BiffCells.u16At labelSstData; rw [List.drop_zero]; exact Biff.u16_le16 row hr _
  have h2 : BiffCells.u16At (labelSstData row col xf i) 2 = col := by
    have : (labelSstData row col xf i).drop 2 = Biff.le16 col ++ (Biff.le16 xf ++ Biff.le32 i) := rfl
    unfold BiffCells.u16At; rw [this]; exact Biff.u16_le16 col hc _
  have h6 : BiffCells.u32At (labelSstData row col xf i) 6 = i := by
    have : (labelSstData row col xf i).drop 6 = Biff.le32 i ++ [] := rfl
    unfold BiffCells.u32At; rw [this]; exact Biff.u32_le32 i hi _
  unfold BiffCells.parseLabelSst
  rw [if_neg (by rw [hl]; omega), h0, h2, h6, hs]

/-- the sheet substreams sit right after the globals: offset = length of the globals + offset inside `after` -/
theorem wbStream_drop (cstTotal : Nat) (table : List Biff.Entry) (lys : List Biff.EntryLayout)
    (pre post : List (Nat × Bytes)) (after : Bytes) (k : Nat) :
    (wbStream cstTotal table lys pre post after).drop ((wbStream cstTotal table lys pre post []).length + k)
      = after.drop k := by
  have : wbStream cstTotal table lys pre post after = wbStream cstTotal table lys pre post [] ++ after := by
    unfold wbStream; simp only [List.append_assoc, List.append_nil]
  rw [this, ← List.drop_drop, List.drop_left' rfl]

/-! ### the LABEL cell (inline XLUnicodeString) -/

/-- `parse_label` on row, column, ixfe and an XLUnicodeString in either packing: the cell holds the string's text -/
theorem parseLabel_text (row col xf : Nat) (wide : Bool) (us : List Nat) (trail : Bytes)
    (hr : row < 65536) (hc : col < 65536)
    (hlt : ∀ u ∈ us, u < 65536) (hcch : us.length < 65536) (hpack : wide = false → ∀ u ∈ us, u < 256) :
    BiffCells.parseLabel (Biff.le16 row ++ (Biff.le16 col ++ (Biff.le16 xf ++ (Biff.xlUnicodeString wide us ++ trail))))
      = .ok (row, col, BiffCells.Val.str (Biff.decodeUtf16 us)) := by
  have hs := Biff.parseString_roundtrip wide us trail hlt hcch hpack
  have hs' : Biff.parseStringWith 3 (Biff.xlUnicodeString wide us ++ trail) true = .ok (Biff.decodeUtf16 us) := hs
  have hd : (Biff.le16 row ++ (Biff.le16 col ++ (Biff.le16 xf ++ (Biff.xlUnicodeString wide us ++ trail)))).drop 6
      = Biff.xlUnicodeString wide us ++ trail := rfl
  have hl : ¬ (Biff.le16 row ++ (Biff.le16 col ++ (Biff.le16 xf ++ (Biff.xlUnicodeString wide us ++ trail)))).length < 6 := by
    simp; omega
  have h0 : BiffCells.u16At (Biff.le16 row ++ (Biff.le16 col ++ (Biff.le16 xf ++ (Biff.xlUnicodeString wide us ++ trail)))) 0 = row := by
    unfold BiffCells.u16At; rw [List.drop_zero]; exact Biff.u16_le16 row hr _
  have h2 : BiffCells.u16At (Biff.le16 row ++ (Biff.le16 col ++ (Biff.le16 xf ++ (Biff.xlUnicodeString wide us ++ trail)))) 2 = col := by
    unfold BiffCells.u16At
    have : (Biff.le16 row ++ (Biff.le16 col ++ (Biff.le16 xf ++ (Biff.xlUnicodeString wide us ++ trail)))).drop 2
        = Biff.le16 col ++ (Biff.le16 xf ++ (Biff.xlUnicodeString wide us ++ trail)) := rfl
    rw [this]; exact Biff.u16_le16 col hc _
  unfold BiffCells.parseLabel
  rw [if_neg hl, hd, hs', h0, h2]

end BiffWorkbook
