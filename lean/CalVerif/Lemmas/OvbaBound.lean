import CalVerif.Lemmas.Ovba
/-! Lemmas for C18 / C06: the output of `decompress_stream` is bounded by a multiple of the input length. -/
namespace Ovba

/-- potential: bytes produced so far + 2049 × bytes still to read (a copy token: 2 bytes in, ≤ 4098 out) -/
def pot (st : St) : Nat := st.out.length + 2049 * st.rest.length

theorem copyLoop_len_le (off : Nat) : ∀ (fuel len : Nat) (out : Bytes) (olen : Nat) (out' : Bytes) (olen' : Nat),
    copyLoop off fuel len out olen = .ok (out', olen') → out'.length ≤ out.length + len
  | 0, _, _, _, _, _, h => by simp [copyLoop] at h
  | fuel + 1, len, out, olen, out', olen', h => by
    simp only [copyLoop] at h
    split at h
    · have := copyLoop_len_le off fuel _ _ _ _ _ h
      simp only [List.length_append, List.length_take] at this
      omega
    · simp only [Res.ok.injEq, Prod.mk.injEq] at h
      rw [← h.1]
      simp only [List.length_append, List.length_take, List.length_drop]
      omega

theorem bitCount?_ge4 {d bc : Nat} (h : bitCount? d = some bc) : 4 ≤ bc := by
  unfold bitCount? at h
  have := (List.find?_range'_eq_some.1 h).2.1
  rw [List.mem_range'_1] at this
  exact this.1

theorem lenField_le (tok bc : Nat) (h : 4 ≤ bc) : (tok &&& 0xFFFF >>> bc) + 3 ≤ 4098 := by
  have h1 : tok &&& 0xFFFF >>> bc ≤ 0xFFFF >>> bc := Nat.and_le_right
  have h2 : 0xFFFF >>> bc ≤ 4095 := by
    rw [Nat.shiftRight_eq_div_pow]
    have : 2 ^ 4 ≤ 2 ^ bc := Nat.pow_le_pow_right (by omega) h
    calc 0xFFFF / 2 ^ bc ≤ 0xFFFF / 2 ^ 4 := Nat.div_le_div_left this (by omega)
      _ = 4095 := by decide
  omega

theorem tokenLoop_pot (size start : Nat) : ∀ (n flags : Nat) (st st' : St) (b : Bool),
    tokenLoop size start n flags st = .ok (st', b) → pot st' ≤ pot st
  | 0, flags, st, st', b, h => by
    simp only [tokenLoop] at h; cases h; exact Nat.le_refl _
  | n + 1, flags, st, st', b, h => by
    simp only [tokenLoop] at h
    split at h
    · cases h; exact Nat.le_refl _
    · split at h
      · cases hr : st.rest with
        | nil => rw [hr] at h; simp at h
        | cons x r =>
          rw [hr] at h
          have := tokenLoop_pot size start n _ _ _ _ h
          simp only [pot, List.length_cons, hr] at this ⊢
          omega
      · cases hr : st.rest with
        | nil => rw [hr] at h; simp at h
        | cons lo r1 =>
          cases r1 with
          | nil => rw [hr] at h; simp at h
          | cons hi r =>
            rw [hr] at h
            simp only at h
            cases hb : bitCount? (st.olen - start) with
            | none => rw [hb] at h; simp at h
            | some bc =>
              rw [hb] at h
              simp only at h
              split at h
              · simp at h
              · cases hc : copyLoop (((u16le lo hi &&& (0xFFFF ^^^ 0xFFFF >>> bc)) >>> (16 - bc)) + 1)
                    ((u16le lo hi &&& 0xFFFF >>> bc) + 3 + 1) ((u16le lo hi &&& 0xFFFF >>> bc) + 3) st.out st.olen with
                | ok p =>
                  obtain ⟨out', olen'⟩ := p
                  rw [hc] at h
                  simp only at h
                  have h1 := tokenLoop_pot size start n _ _ _ _ h
                  have h2 := copyLoop_len_le _ _ _ _ _ _ _ hc
                  have h3 := lenField_le (u16le lo hi) bc (bitCount?_ge4 hb)
                  simp only [pot, List.length_cons, hr] at h1 ⊢
                  omega
                | err e => rw [hc] at h; simp at h
                | panic e => rw [hc] at h; simp at h
                | outOfFuel => rw [hc] at h; simp at h

theorem chunkLoop_pot (size start : Nat) : ∀ (fuel : Nat) (st st' : St),
    chunkLoop size start fuel st = .ok st' → pot st' ≤ pot st
  | 0, _, _, h => by simp [chunkLoop] at h
  | fuel + 1, st, st', h => by
    simp only [chunkLoop] at h
    cases hr : st.rest with
    | nil => rw [hr] at h; cases h; exact Nat.le_refl _
    | cons b r =>
      rw [hr] at h
      simp only at h
      split at h
      · cases h; exact Nat.le_refl _
      · cases hl : tokenLoop size start 8 b.toNat { rest := r, out := st.out, olen := st.olen, clen := st.clen + 1 } with
        | ok p =>
          obtain ⟨st1, brk⟩ := p
          rw [hl] at h
          have h1 := tokenLoop_pot _ _ _ _ _ _ _ hl
          simp only [pot] at h1
          cases brk with
          | true =>
            simp only at h; cases h
            simp only [pot, hr, List.length_cons] at h1 ⊢; omega
          | false =>
            simp only at h
            have h2 := chunkLoop_pot size start fuel _ _ h
            simp only [pot, hr, List.length_cons] at h1 h2 ⊢; omega
        | err e => rw [hl] at h; simp at h
        | panic e => rw [hl] at h; simp at h
        | outOfFuel => rw [hl] at h; simp at h

theorem mainLoop_pot : ∀ (fuel : Nat) (rest out : Bytes) (olen : Nat) (res : Bytes),
    mainLoop fuel rest out olen = .ok res → res.length ≤ out.length + 2049 * rest.length
  | 0, _, _, _, _, h => by simp [mainLoop] at h
  | fuel + 1, rest, out, olen, res, h => by
    match rest with
    | [] => simp only [mainLoop] at h; cases h; simp
    | [_] => simp [mainLoop] at h
    | lo :: hi :: r =>
      simp only [mainLoop] at h
      split at h
      · simp at h
      · split at h
        · split at h
          · simp at h
          · have := mainLoop_pot fuel _ _ _ _ h
            simp only [List.length_append, List.length_reverse, List.length_take, List.length_drop,
              List.length_cons] at this ⊢
            omega
        · cases hl : chunkLoop (u16le lo hi &&& 0x0FFF) olen (r.length + 1) { rest := r, out := out, olen := olen, clen := 0 } with
          | ok st =>
            rw [hl] at h
            simp only at h
            have h1 := chunkLoop_pot _ _ _ _ _ hl
            have h2 := mainLoop_pot fuel _ _ _ _ h
            simp only [pot, List.length_cons] at h1 ⊢
            omega
          | err e => rw [hl] at h; simp at h
          | panic e => rw [hl] at h; simp at h
          | outOfFuel => rw [hl] at h; simp at h

theorem decompress_out_le (s out : Bytes) (h : decompress s = .ok out) : out.length ≤ 2049 * s.length := by
  unfold decompress at h
  cases s with
  | nil => simp at h
  | cons b rest =>
    simp only at h
    split at h
    · simp at h
    · cases hm : mainLoop (rest.length + 1) rest [] 0 with
      | ok o =>
        rw [hm] at h
        simp only [Res.ok.injEq] at h
        have := mainLoop_pot _ _ _ _ _ hm
        rw [← h]
        simp only [List.length_reverse, List.length_nil, List.length_cons] at this ⊢
        omega
      | err e => rw [hm] at h; simp at h
      | panic e => rw [hm] at h; simp at h
      | outOfFuel => rw [hm] at h; simp at h

end Ovba
