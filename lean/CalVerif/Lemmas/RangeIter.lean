import CalVerif.Model.RangeIter
/-! Lemmas about the double-ended iterator models (`Model/RangeIter.lean`). -/

namespace Range

variable {α : Type}

theorem enumFrom_map_yield (w : Nat) : ∀ (i : Nat) (l : List α),
    (enumFrom i l).map (fun p => (p.1 / w, p.1 % w, p.2)) = cellsFrom w i l
  | _, [] => rfl
  | i, v :: rest => by simp [enumFrom, cellsFrom, enumFrom_map_yield w (i + 1) rest]

theorem enumFrom_length : ∀ (i : Nat) (l : List α), (enumFrom i l).length = l.length
  | _, [] => rfl
  | i, _ :: rest => by simp [enumFrom, enumFrom_length (i + 1) rest]

theorem cellsIter_items [Inhabited α] (r : Rng α) : (cellsIter r).rest.map (cellsIter r).yield = cells r := by
  unfold cellsIter cells
  exact enumFrom_map_yield r.width 0 r.inner

theorem dropLast_getLast? {β : Type} (l : List β) (a : β) (h : l.getLast? = some a) : l.dropLast ++ [a] = l := by
  obtain ⟨ys, rfl⟩ := List.getLast?_eq_some_iff.mp h
  simp

theorem fronts_cons_true {β : Type} (o : Option β) (tr : List (Bool × Option β)) :
    fronts ((true, o) :: tr) = o.toList ++ fronts tr := by
  cases o <;> simp [fronts]

theorem fronts_cons_false {β : Type} (o : Option β) (tr : List (Bool × Option β)) :
    fronts ((false, o) :: tr) = fronts tr := by
  simp [fronts]

theorem backs_cons_true {β : Type} (o : Option β) (tr : List (Bool × Option β)) :
    backs ((true, o) :: tr) = backs tr := by
  simp [backs]

theorem backs_cons_false {β : Type} (o : Option β) (tr : List (Bool × Option β)) :
    backs ((false, o) :: tr) = o.toList ++ backs tr := by
  cases o <;> simp [backs]

/-- the selected items still in the window -/
def CellIt.pending (sel : Nat × Nat × α → Bool) (it : CellIt α) : List (Nat × Nat × α) :=
  (it.rest.map it.yield).filter sel

/-- one-step contract of a `next`-like function: it keeps the width, and the selected items of the window are
    the yielded item followed by those of the new window; `None` leaves nothing selected behind -/
structure FrontOk (sel : Nat × Nat × α → Bool) (f : CellIt α → Option (Nat × Nat × α) × CellIt α) : Prop where
  width : ∀ it, (f it).2.width = it.width
  split : ∀ it, it.pending sel = (f it).1.toList ++ (f it).2.pending sel
  done : ∀ it, (f it).1 = none → (f it).2.pending sel = []

/-- one-step contract of a `next_back`-like function -/
structure BackOk (sel : Nat × Nat × α → Bool) (f : CellIt α → Option (Nat × Nat × α) × CellIt α) : Prop where
  width : ∀ it, (f it).2.width = it.width
  split : ∀ it, it.pending sel = (f it).2.pending sel ++ (f it).1.toList
  done : ∀ it, (f it).1 = none → (f it).2.pending sel = []

theorem consume_split (sel : Nat × Nat × α → Bool) (nx nb : CellIt α → Option (Nat × Nat × α) × CellIt α)
    (hx : FrontOk sel nx) (hb : BackOk sel nb) :
    ∀ (pat : List Bool) (it : CellIt α),
      fronts (CellIt.consume nx nb pat it).1 ++ (CellIt.consume nx nb pat it).2.pending sel ++
        (backs (CellIt.consume nx nb pat it).1).reverse = it.pending sel
  | [], it => by simp [CellIt.consume, fronts, backs]
  | true :: ds, it => by
    have ih := consume_split sel nx nb hx hb ds (nx it).2
    simp only [CellIt.consume, if_true]
    rw [fronts_cons_true, backs_cons_true, hx.split it, ← ih]
    simp [List.append_assoc]
  | false :: ds, it => by
    have ih := consume_split sel nx nb hx hb ds (nb it).2
    simp only [CellIt.consume, Bool.false_eq_true, if_false]
    rw [fronts_cons_false, backs_cons_false, hb.split it, ← ih]
    cases (nb it).1 <;> simp [List.append_assoc]

/-- after a `None` from either end, every later call returns `None` too (both iterators are fused), stated on the
    pending items: nothing selected is left -/
theorem consume_done (sel : Nat × Nat × α → Bool) (nx nb : CellIt α → Option (Nat × Nat × α) × CellIt α)
    (hx : FrontOk sel nx) (hb : BackOk sel nb) (it : CellIt α) (h : it.pending sel = []) :
    ∀ (pat : List Bool), fronts (CellIt.consume nx nb pat it).1 = [] ∧ backs (CellIt.consume nx nb pat it).1 = [] := by
  intro pat
  have hs := consume_split sel nx nb hx hb pat it
  rw [h] at hs
  have h1 := List.append_eq_nil_iff.mp hs
  have h2 := List.append_eq_nil_iff.mp h1.1
  exact ⟨h2.1, by simpa using h1.2⟩

/-! ### `Cells` -/

def selAll (_ : Nat × Nat × α) : Bool := true

theorem pending_all (it : CellIt α) : it.pending selAll = it.rest.map it.yield := by
  simp [CellIt.pending, selAll]

theorem next_ok : FrontOk (α := α) selAll CellIt.next where
  width it := by unfold CellIt.next; split <;> rfl
  split it := by
    rw [pending_all, pending_all]
    unfold CellIt.next
    split <;> rename_i h <;> simp [h, CellIt.yield]
  done it h := by
    rw [pending_all]
    unfold CellIt.next at h ⊢
    split at h <;> rename_i hr
    · simp [hr]
    · simp at h

theorem nextBack_ok : BackOk (α := α) selAll CellIt.nextBack where
  width it := by unfold CellIt.nextBack; split <;> rfl
  split it := by
    rw [pending_all, pending_all]
    unfold CellIt.nextBack
    split <;> rename_i h
    · simp [List.getLast?_eq_none_iff.mp h]
    · rename_i q
      have := dropLast_getLast? _ _ h
      have e : List.map it.yield it.rest = List.map it.yield it.rest.dropLast ++ [it.yield q] := by
        conv => lhs; rw [← this]
        rw [List.map_append]; rfl
      exact e
  done it h := by
    rw [pending_all]
    unfold CellIt.nextBack at h ⊢
    split at h <;> rename_i hr
    · simp [List.getLast?_eq_none_iff.mp hr]
    · simp at h

/-! ### `UsedCells` -/

variable [Inhabited α] [DecidableEq α]

def selUsed (c : Nat × Nat × α) : Bool := !decide (c.2.2 = default)

def nd (p : Nat × α) : Bool := !decide (p.2 = default)

theorem pending_used (it : CellIt α) : it.pending selUsed = (it.rest.filter nd).map it.yield := by
  unfold CellIt.pending
  generalize it.rest = l
  induction l with
  | nil => rfl
  | cons p tl ih =>
    by_cases h : p.2 = default <;> simp [List.filter_cons, selUsed, nd, CellIt.yield, h] at ih ⊢ <;> exact ih

theorem filter_dropWhile_default (l : List (Nat × α)) :
    (l.dropWhile fun p => decide (p.2 = default)).filter nd = l.filter nd := by
  induction l with
  | nil => rfl
  | cons p tl ih =>
    by_cases h : p.2 = default
    · simp only [List.dropWhile_cons, h, decide_true, if_true, List.filter_cons, nd, Bool.not_true,
        Bool.false_eq_true, if_false]
      exact ih
    · simp [List.dropWhile_cons, h]

theorem head_dropWhile_default (l : List (Nat × α)) (p : Nat × α) (tl : List (Nat × α))
    (h : l.dropWhile (fun p => decide (p.2 = default)) = p :: tl) : nd p = true := by
  induction l with
  | nil => simp at h
  | cons q r ih =>
    by_cases hq : q.2 = default
    · simp only [List.dropWhile_cons, hq, decide_true, if_true] at h
      exact ih h
    · simp only [List.dropWhile_cons, hq, decide_false, Bool.false_eq_true, if_false] at h
      cases h
      simp [nd, hq]

theorem nextUsed_ok : FrontOk (α := α) selUsed CellIt.nextUsed where
  width it := by unfold CellIt.nextUsed; split <;> rfl
  split it := by
    rw [pending_used, pending_used, ← filter_dropWhile_default]
    unfold CellIt.nextUsed
    split <;> rename_i h
    · simp [h]
    · have hp := head_dropWhile_default _ _ _ h
      rw [h]
      simp [List.filter_cons, hp, CellIt.yield]
  done it h := by
    rw [pending_used]
    unfold CellIt.nextUsed at h ⊢
    split at h <;> rename_i hr
    · simp
    · simp at h

theorem filter_reverse_dropWhile_default (l : List (Nat × α)) :
    ((l.reverse.dropWhile fun p => decide (p.2 = default)).reverse).filter nd = l.filter nd := by
  rw [List.filter_reverse, filter_dropWhile_default, ← List.filter_reverse, List.reverse_reverse]

theorem nextBackUsed_ok : BackOk (α := α) selUsed CellIt.nextBackUsed where
  width it := by unfold CellIt.nextBackUsed; split <;> rfl
  split it := by
    rw [pending_used, pending_used, ← filter_reverse_dropWhile_default]
    unfold CellIt.nextBackUsed
    split <;> rename_i h
    · simp [h]
    · have hp := head_dropWhile_default _ _ _ h
      rw [h]
      simp [List.filter_append, List.filter_cons, hp, CellIt.yield]
  done it h := by
    rw [pending_used]
    unfold CellIt.nextBackUsed at h ⊢
    split at h <;> rename_i hr
    · simp
    · simp at h

/-! ### `Rows` -/

omit [Inhabited α] [DecidableEq α] in
theorem rowsConsume_split : ∀ (pat : List Bool) (w : List (List α)),
    fronts (rowsConsume pat w).1 ++ (rowsConsume pat w).2 ++ (backs (rowsConsume pat w).1).reverse = w
  | [], w => by simp [rowsConsume, fronts, backs]
  | true :: ds, [] => by
    have ih := rowsConsume_split ds ([] : List (List α))
    simp only [rowsConsume]
    rw [fronts_cons_true, backs_cons_true]
    simpa using ih
  | true :: ds, x :: tl => by
    have ih := rowsConsume_split ds tl
    simp only [rowsConsume]
    rw [fronts_cons_true, backs_cons_true]
    simp only [Option.toList_some, List.cons_append, List.nil_append, List.append_assoc] at ih ⊢
    rw [ih]
  | false :: ds, w => by
    unfold rowsConsume
    split <;> rename_i h
    · have ih := rowsConsume_split ds w
      simp only []
      rw [fronts_cons_false, backs_cons_false]
      simpa using ih
    · have ih := rowsConsume_split ds w.dropLast
      have hl := dropLast_getLast? _ _ h
      simp only []
      rw [fronts_cons_false, backs_cons_false]
      simp only [Option.toList_some, List.reverse_append, List.reverse_cons, List.reverse_nil, List.nil_append,
        List.singleton_append] at ih ⊢
      rw [← List.append_assoc, ih, hl]

end Range
