import CalVerif.Lemmas.Ptg
/-! Byte layer for Props/C14: readers over encoded fields, per-token decode lemmas. -/
namespace Formula
open Ptg

/-! byte readers over encoded fields -/

theorem byteAt_zero (x : UInt8) (r : Bytes) : byteAt (x :: r) 0 = x.toNat := by simp [byteAt]
theorem byteAt_succ (x : UInt8) (r : Bytes) (i : Nat) : byteAt (x :: r) (i + 1) = byteAt r i := by simp [byteAt]

theorem u16_succ (x : UInt8) (r : Bytes) (i : Nat) : u16 (x :: r) (i + 1) = u16 r i := by
  simp [u16, byteAt_succ]
theorem u32_succ (x : UInt8) (r : Bytes) (i : Nat) : u32 (x :: r) (i + 1) = u32 r i := by
  simp [u32, u16_succ]
theorem u64_succ (x : UInt8) (r : Bytes) (i : Nat) : u64 (x :: r) (i + 1) = u64 r i := by
  simp [u64, u32_succ]

theorem le16_append (n : Nat) (r : Bytes) :
    le16 n ++ r = UInt8.ofNat (n % 256) :: UInt8.ofNat (n / 256 % 256) :: r := by simp [le16]

theorem u16_le16 (n : Nat) (r : Bytes) (h : n < 65536) : u16 (le16 n ++ r) 0 = n := by
  simp [le16_append, u16, byteAt_zero, byteAt_succ]; omega
theorem u16_skip16 (m : Nat) (r : Bytes) (i : Nat) : u16 (le16 m ++ r) (i + 2) = u16 r i := by
  simp [le16_append, u16_succ]
theorem u32_skip16 (m : Nat) (r : Bytes) (i : Nat) : u32 (le16 m ++ r) (i + 2) = u32 r i := by
  simp [le16_append, u32_succ]

theorem le32_append (n : Nat) (r : Bytes) : le32 n ++ r = le16 (n % 65536) ++ (le16 (n / 65536 % 65536) ++ r) := by
  simp [le32]
theorem u32_le32 (n : Nat) (r : Bytes) (h : n < 4294967296) : u32 (le32 n ++ r) 0 = n := by
  rw [le32_append, u32, u16_le16 _ _ (by omega), u16_skip16, u16_le16 _ _ (by omega)]; omega
theorem u16_skip32 (m : Nat) (r : Bytes) (i : Nat) : u16 (le32 m ++ r) (i + 4) = u16 r i := by
  rw [le32_append, show i + 4 = (i + 2) + 2 from rfl, u16_skip16, u16_skip16]
theorem u32_skip32 (m : Nat) (r : Bytes) (i : Nat) : u32 (le32 m ++ r) (i + 4) = u32 r i := by
  rw [le32_append, show i + 4 = (i + 2) + 2 from rfl, u32_skip16, u32_skip16]

theorem le64_append (n : Nat) (r : Bytes) :
    le64 n ++ r = le32 (n % 4294967296) ++ (le32 (n / 4294967296 % 4294967296) ++ r) := by simp [le64]
theorem u64_le64 (n : Nat) (r : Bytes) (h : n < 18446744073709551616) : u64 (le64 n ++ r) 0 = n := by
  rw [le64_append, u64, u32_le32 _ _ (by omega), u32_skip32, u32_le32 _ _ (by omega)]; omega

/-! `need` / `drop` over encoded fields -/

/-- the test of `need`: fewer than `n` bytes left -/
def needB (b : Bytes) (n : Nat) : Bool := decide (b.length < n)

/-- the error text of `need` -/
def needMsg (xls : Bool) (b : Bytes) (n : Nat) : String :=
  if xls then "Len { expected: " ++ toString n ++ ", found: " ++ toString b.length ++ ", typ: \"formula token\" }"
  else "Unrecognized { typ: \"formula token\", val: \"" ++ toString b.length ++ "\" }"

/-- `need` through its test: on encoded tokens the test evaluates to `false` by peeling (lemmas below) -/
theorem need_unfold (f : Bool) (b : Bytes) (n : Nat) :
    need f b n = if needB b n = true then .err (needMsg f b n) else .ok () := by
  unfold need needB needMsg
  by_cases h : b.length < n <;> simp [h]

theorem need_ok (f : Bool) (b : Bytes) (n : Nat) (h : n ≤ b.length) : need f b n = .ok () := by
  have : ¬ b.length < n := by omega
  simp [need, this]

theorem need_of_needB (f : Bool) (b : Bytes) (n : Nat) (h : needB b n = false) : need f b n = .ok () := by
  unfold needB at h
  have : ¬ b.length < n := by simpa using h
  simp [need, this]

theorem need_zero (r : Bytes) : needB r 0 = false := by simp [needB]
theorem need_succ (x : UInt8) (r : Bytes) (n : Nat) : needB (x :: r) (n + 1) = needB r n := by simp [needB]
theorem need_16 (m : Nat) (r : Bytes) (n : Nat) : needB (le16 m ++ r) (n + 2) = needB r n := by
  simp [le16_append, need_succ]
theorem need_32 (m : Nat) (r : Bytes) (n : Nat) : needB (le32 m ++ r) (n + 4) = needB r n := by
  rw [le32_append, show n + 4 = (n + 2) + 2 from rfl, need_16, need_16]
theorem need_64 (m : Nat) (r : Bytes) (n : Nat) : needB (le64 m ++ r) (n + 8) = needB r n := by
  rw [le64_append, show n + 8 = (n + 4) + 4 from rfl, need_32, need_32]
theorem drop_16 (m : Nat) (r : Bytes) (n : Nat) : (le16 m ++ r).drop (n + 2) = r.drop n := by
  simp [le16_append]
theorem drop_32 (m : Nat) (r : Bytes) (n : Nat) : (le32 m ++ r).drop (n + 4) = r.drop n := by
  rw [le32_append, show n + 4 = (n + 2) + 2 from rfl, drop_16, drop_16]
theorem drop_64 (m : Nat) (r : Bytes) (n : Nat) : (le64 m ++ r).drop (n + 8) = r.drop n := by
  rw [le64_append, show n + 8 = (n + 4) + 4 from rfl, drop_32, drop_32]

theorem toNat_ofNat8 (n : Nat) (h : n < 256) : (UInt8.ofNat n).toNat = n := by
  simp; omega

/-! references -/

theorem cellRef_colRel (row : Nat) (a : CellRef) (h : a.col < 0x4000) (hr : row = a.row) :
    cellRef row (colRel a) = cellText a := by
  subst hr
  obtain ⟨row, col, ca, ra⟩ := a
  simp only at h
  unfold cellRef colRel cellText
  rw [← pushColumn_eq_colName]
  cases ca <;> cases ra <;> simp only [Bool.false_eq_true, if_false, if_true, Nat.add_zero]
  · have h1 : (col + 16384 + 32768) / 16384 % 2 = 1 := by omega
    have h2 : (col + 16384 + 32768) % 16384 = col := by omega
    have h3 : (col + 16384 + 32768) / 32768 % 2 = 1 := by omega
    rw [h1, h2, h3]; simp
  · have h1 : (col + 16384) / 16384 % 2 = 1 := by omega
    have h2 : (col + 16384) % 16384 = col := by omega
    have h3 : (col + 16384) / 32768 % 2 = 0 := by omega
    rw [h1, h2, h3]; simp
  · have h1 : (col + 32768) / 16384 % 2 = 0 := by omega
    have h2 : (col + 32768) % 16384 = col := by omega
    have h3 : (col + 32768) / 32768 % 2 = 1 := by omega
    rw [h1, h2, h3]; simp
  · have h1 : col / 16384 % 2 = 0 := by omega
    have h2 : col % 16384 = col := by omega
    have h3 : col / 32768 % 2 = 0 := by omega
    rw [h1, h2, h3]; simp

theorem colRel_lt (a : CellRef) (h : a.col < 0x4000) : colRel a < 65536 := by
  unfold colRel; split <;> split <;> omega

/-! strings -/

theorem units_succ (x : UInt8) (r : Bytes) (off n : Nat) : units (x :: r) (off + 1) n = units r off n := by
  induction n generalizing off with
  | zero => rfl
  | succ n ih => simp only [units, u16_succ]; rw [show off + 1 + 2 = (off + 2) + 1 from by omega, ih]

theorem units_skip16 (m : Nat) (r : Bytes) (off n : Nat) : units (le16 m ++ r) (off + 2) n = units r off n := by
  rw [le16_append, show off + 2 = (off + 1) + 1 from rfl, units_succ, units_succ]

theorem narrow_succ (x : UInt8) (r : Bytes) (off n : Nat) : narrow (x :: r) (off + 1) n = narrow r off n := by
  induction n generalizing off with
  | zero => rfl
  | succ n ih => simp only [narrow, byteAt_succ]; rw [ih]

theorem unitsLe_cons (u : Nat) (us : List Nat) : unitsLe (u :: us) = le16 u ++ unitsLe us := by
  simp [unitsLe]

theorem unitsLe_length (us : List Nat) : (unitsLe us).length = 2 * us.length := by
  induction us with
  | nil => rfl
  | cons u us ih => rw [unitsLe_cons]; simp [le16, ih]; omega

theorem units_unitsLe (us : List Nat) (h : ∀ u ∈ us, u < 65536) (rest : Bytes) :
    units (unitsLe us ++ rest) 0 us.length = us := by
  induction us with
  | nil => rfl
  | cons u us ih =>
    rw [unitsLe_cons, List.append_assoc]
    simp only [List.length_cons, units]
    rw [u16_le16 _ _ (h u (by simp)), units_skip16, ih (fun v hv => h v (by simp [hv]))]

theorem narrow_map (us : List Nat) (h : ∀ u ∈ us, u < 256) (rest : Bytes) :
    narrow (us.map UInt8.ofNat ++ rest) 0 us.length = us := by
  induction us with
  | nil => rfl
  | cons u us ih =>
    simp only [List.map_cons, List.cons_append, List.length_cons, narrow, byteAt_zero, narrow_succ]
    rw [toNat_ofNat8 _ (h u (by simp)), ih (fun v hv => h v (by simp [hv]))]

theorem char_valid (c : Char) : c.toNat < 0xD800 ∨ (0xDFFF < c.toNat ∧ c.toNat < 0x110000) := c.valid

theorem utf16Units_lt (s : List Char) : ∀ u ∈ utf16Units s, u < 65536 := by
  induction s with
  | nil => intro u hu; rw [utf16Units] at hu; cases hu
  | cons c s ih =>
    intro u hu
    have hv := char_valid c
    rw [utf16Units] at hu
    split at hu
    · rcases List.mem_cons.mp hu with rfl | hu
      · assumption
      · exact ih u hu
    · rcases List.mem_cons.mp hu with h1 | hu
      · omega
      · rcases List.mem_cons.mp hu with h2 | hu
        · omega
        · exact ih u hu

theorem decodeUtf16_bmp (u : Nat) (rest : List Nat) (h : u < 0xD800 ∨ 0xDFFF < u) :
    decodeUtf16 (u :: rest) = Char.ofNat u :: decodeUtf16 rest := by
  cases rest with
  | nil =>
    have : ¬ (0xD800 ≤ u ∧ u < 0xE000) := by omega
    simp [decodeUtf16, this]
  | cons v rest =>
    have h1 : ¬ (0xD800 ≤ u ∧ u < 0xDC00) := by omega
    have h2 : ¬ (0xDC00 ≤ u ∧ u < 0xE000) := by omega
    simp [decodeUtf16, h1, h2]

theorem decodeUtf16_pair (u v : Nat) (rest : List Nat) (hu : 0xD800 ≤ u ∧ u < 0xDC00) (hv : 0xDC00 ≤ v ∧ v < 0xE000) :
    decodeUtf16 (u :: v :: rest) = Char.ofNat (0x10000 + (u - 0xD800) * 1024 + (v - 0xDC00)) :: decodeUtf16 rest := by
  simp [decodeUtf16, hu, hv]

theorem decodeUtf16_utf16Units (s : List Char) : decodeUtf16 (utf16Units s) = s := by
  induction s with
  | nil => simp [utf16Units, decodeUtf16]
  | cons c s ih =>
    have hv := char_valid c
    unfold utf16Units
    split
    · rw [decodeUtf16_bmp _ _ (by omega), ih, Char.ofNat_toNat]
    · rw [decodeUtf16_pair _ _ _ (by omega) (by omega), ih]
      have : 0x10000 + (0xD800 + (c.toNat - 0x10000) / 1024 - 0xD800) * 1024 +
          (0xDC00 + (c.toNat - 0x10000) % 1024 - 0xDC00) = c.toNat := by omega
      rw [this, Char.ofNat_toNat]

theorem utf16Units_latin (s : List Char) (h : ∀ c ∈ s, c.toNat < 256) :
    utf16Units s = s.map Char.toNat := by
  induction s with
  | nil => rfl
  | cons c s ih =>
    have hc := h c (by simp)
    have : c.toNat < 0x10000 := by omega
    simp [utf16Units, this, ih (fun d hd => h d (by simp [hd]))]

theorem need_self (f : Bool) (p r : Bytes) : need f (p ++ r) p.length = .ok () := by simp [need]

theorem units_two (x y : UInt8) (l : Bytes) (n : Nat) : units (x :: y :: l) 2 n = units l 0 n := by
  rw [show (2 : Nat) = 0 + 1 + 1 from rfl, units_succ, units_succ]

theorem narrow_two (x y : UInt8) (l : Bytes) (n : Nat) : narrow (x :: y :: l) 2 n = narrow l 0 n := by
  rw [show (2 : Nat) = 0 + 1 + 1 from rfl, narrow_succ, narrow_succ]

theorem need2_add (f : Bool) (a b : UInt8) (l r : Bytes) : need f (a :: b :: (l ++ r)) (2 + l.length) = .ok () := by
  have : ¬ (a :: b :: (l ++ r)).length < 2 + l.length := by simp; omega
  simp only [need, this, if_false]

theorem drop2_add (a b : UInt8) (l : Bytes) (k : Nat) : (a :: b :: l).drop (2 + k) = l.drop k := by
  rw [show 2 + k = k + 1 + 1 from by omega]; simp

end Formula
