import CalVerif.Spec.XmlText
/-! Helper lemmas for property C19: how the reader state machines of `Model/XmlText` run over the rendered
    fragments of `Spec/XmlText`. -/

namespace XmlText

/-! ### `read_string` -/

theorem runSi_cont {c : Name} {m m' : SiMode} {e : Ev} (r : List Ev) (h : siStep c m e = .cont m') :
    runSi c m (e :: r) = runSi c m' r := by
  simp [runSi, h]

theorem runSi_done {c : Name} {m : SiMode} {e : Ev} {v : Option Txt} (r : List Ev) (h : siStep c m e = .done v) :
    runSi c m (e :: r) = .ok (v, r) := by
  simp [runSi, h]

theorem siStep_inert {c : Name} {e : Ev} (rich : Option Txt) (h : inertEv c e = true) :
    siStep c (.outer rich false) e = .cont (.outer rich false) := by
  cases e <;> simp_all [siStep, inertEv]

/-- inert events leave the outer loop where it is -/
theorem runSi_inert (c : Name) (rich : Option Txt) (evs r : List Ev) (h : evs.all (inertEv c) = true) :
    runSi c (.outer rich false) (evs ++ r) = runSi c (.outer rich false) r := by
  induction evs with
  | nil => rfl
  | cons e es ih =>
    simp only [List.all_cons, Bool.and_eq_true] at h
    rw [List.cons_append, runSi_cont _ (siStep_inert rich h.1), ih h.2]

theorem siStep_phInert {c : Name} {e : Ev} (rich : Option Txt) (h : phInert c e = true) :
    siStep c (.outer rich true) e = .cont (.outer rich true) := by
  cases e <;> simp_all [siStep, phInert]

theorem runSi_phInert (c : Name) (rich : Option Txt) (evs r : List Ev) (h : evs.all (phInert c) = true) :
    runSi c (.outer rich true) (evs ++ r) = runSi c (.outer rich true) r := by
  induction evs with
  | nil => rfl
  | cons e es ih =>
    simp only [List.all_cons, Bool.and_eq_true] at h
    rw [List.cons_append, runSi_cont _ (siStep_phInert rich h.1), ih h.2]

theorem siStep_chunk (c : Name) (rich : Option Txt) (ph : Bool) (tn : Name) (acc : Txt) (k : Chunk) :
    siStep c (.inT rich ph tn acc) k.ev = .cont (.inT rich ph tn (acc ++ k.txt)) := by
  cases k <;> simp [siStep, Chunk.ev, Chunk.txt]

/-- character data inside `<t>`: Text and CData events both accumulate, in any split -/
theorem runSi_chunks (c : Name) (rich : Option Txt) (ph : Bool) (tn : Name) (cs : List Chunk) (acc : Txt) (r : List Ev) :
    runSi c (.inT rich ph tn acc) (chunksEvs cs ++ r) = runSi c (.inT rich ph tn (acc ++ chunksText cs)) r := by
  induction cs generalizing acc with
  | nil => simp [chunksEvs, chunksText]
  | cons k ks ih =>
    simp only [chunksEvs, List.map_cons, List.cons_append] at ih ⊢
    rw [runSi_cont _ (siStep_chunk c rich ph tn acc k), ih]
    simp [chunksText, List.append_assoc]

/-- a `<t>` element met while a rich buffer is open appends its text to the buffer -/
theorem runSi_t_rich (c : Name) (s : Txt) (t : TElem) (r : List Ev) :
    runSi c (.outer (some s) false) (t.evs ++ r) = runSi c (.outer (some (s ++ t.txt)) false) r := by
  have h1 : siStep c (.outer (some s) false) (.start t.name t.attrs) = .cont (.inT (some s) false t.name []) := by
    simp [siStep, TElem.name]
  have h2 : siStep c (.inT (some s) false t.name (chunksText t.body)) (.end_ t.name)
      = .cont (.outer (some (s ++ chunksText t.body)) false) := by
    simp [siStep]
  simp only [TElem.evs, List.cons_append, List.append_assoc]
  rw [runSi_cont _ h1, runSi_chunks]
  simp only [List.nil_append]
  rw [runSi_cont _ h2]
  rfl

theorem siStep_noClosing {c : Name} {e : Ev} (d : Nat) (v : Txt) (h : noClosing c e = true) :
    siStep c (.skip d v) e = .cont (.skip d v) := by
  cases e <;> simp_all [siStep, noClosing]

theorem runSi_skip (c : Name) (d : Nat) (v : Txt) (evs r : List Ev) (h : evs.all (noClosing c) = true) :
    runSi c (.skip d v) (evs ++ r) = runSi c (.skip d v) r := by
  induction evs with
  | nil => rfl
  | cons e es ih =>
    simp only [List.all_cons, Bool.and_eq_true] at h
    rw [List.cons_append, runSi_cont _ (siStep_noClosing d v h.1), ih h.2]

/-- a plain `<t>` (no rich buffer): its text is the result, everything up to the closing tag is skipped -/
theorem runSi_plain (c : Name) (t : TElem) (trail r : List Ev) (h : trail.all (noClosing c) = true) :
    runSi c (.outer none false) (t.evs ++ trail ++ .end_ c :: r) = .ok (some t.txt, r) := by
  have h1 : siStep c (.outer none false) (.start t.name t.attrs) = .cont (.inT none false t.name []) := by
    simp [siStep, TElem.name]
  have h2 : siStep c (.inT none false t.name (chunksText t.body)) (.end_ t.name)
      = .cont (.skip 0 (chunksText t.body)) := by
    simp [siStep]
  have h3 : siStep c (.skip 0 (chunksText t.body)) (.end_ c) = .done (some (chunksText t.body)) := by
    simp [siStep]
  simp only [TElem.evs, List.cons_append, List.append_assoc]
  rw [runSi_cont _ h1, runSi_chunks]
  simp only [List.nil_append]
  rw [runSi_cont _ h2, runSi_skip _ _ _ _ _ h, runSi_done _ h3]
  rfl

/-- rich buffer after the children `items`, starting from `rich` -/
def richAfter (rich : Option Txt) : List RunItem → Option Txt
  | [] => rich
  | .run _ _ t _ :: is => richAfter (some (rich.getD [] ++ t.txt)) is
  | _ :: is => richAfter rich is

theorem runSi_item (c : Name) (hr : c.loc ≠ "r") (hp : c.loc ≠ "rPh") (rich : Option Txt) (it : RunItem) (r : List Ev)
    (h : it.wf c = true) :
    runSi c (.outer rich false) (it.evs ++ r) = runSi c (.outer (richAfter rich [it]) false) r := by
  cases it with
  | run p props t tail =>
    simp only [RunItem.wf, decide_eq_true_eq] at h
    have h1 : siStep c (.outer rich false) (.start ⟨p, "r"⟩ []) = .cont (.outer (some (rich.getD [])) false) := by
      simp [siStep]
    have hne : (⟨p, "r"⟩ : Name) ≠ c := by
      intro e; apply hr; rw [← e]
    have h2 : ∀ s, siStep c (.outer (some s) false) (.end_ ⟨p, "r"⟩) = .cont (.outer (some s) false) := by
      intro s; simp [siStep, hne]
    simp only [RunItem.evs, List.cons_append, List.append_assoc]
    rw [runSi_cont _ h1, runSi_inert _ _ _ _ h.1, runSi_t_rich, runSi_inert _ _ _ _ h.2]
    simp only [List.nil_append]
    rw [runSi_cont _ (h2 _)]
    rfl
  | phonetic p a content =>
    simp only [RunItem.wf] at h
    have h1 : siStep c (.outer rich false) (.start ⟨p, "rPh"⟩ a) = .cont (.outer rich true) := by
      simp [siStep]
    have hne : (⟨p, "rPh"⟩ : Name) ≠ c := by
      intro e; apply hp; rw [← e]
    have h2 : siStep c (.outer rich true) (.end_ ⟨p, "rPh"⟩) = .cont (.outer rich false) := by
      simp [siStep, hne]
    simp only [RunItem.evs, List.cons_append, List.append_assoc]
    rw [runSi_cont _ h1, runSi_phInert _ _ _ _ h]
    simp only [List.nil_append]
    rw [runSi_cont _ h2]
    rfl
  | inert evs =>
    simp only [RunItem.wf] at h
    simp only [RunItem.evs]
    rw [runSi_inert _ _ _ _ h]
    rfl

theorem runSi_items (c : Name) (hr : c.loc ≠ "r") (hp : c.loc ≠ "rPh") (items : List RunItem) (rich : Option Txt) (r : List Ev)
    (h : items.all (RunItem.wf c) = true) :
    runSi c (.outer rich false) ((items.map RunItem.evs).flatten ++ r) = runSi c (.outer (richAfter rich items) false) r := by
  induction items generalizing rich with
  | nil => rfl
  | cons it is ih =>
    simp only [List.all_cons, Bool.and_eq_true] at h
    simp only [List.map_cons, List.flatten_cons, List.append_assoc]
    rw [runSi_item c hr hp rich it _ h.1, ih _ h.2]
    cases it <;> rfl

theorem richAfter_some (s : Txt) (items : List RunItem) :
    richAfter (some s) items = some (s ++ (items.map RunItem.txt).flatten) := by
  induction items generalizing s with
  | nil => simp [richAfter]
  | cons it is ih =>
    cases it <;> simp [richAfter, ih, RunItem.txt, List.append_assoc]

theorem richAfter_none (items : List RunItem) :
    richAfter none items = if items.any RunItem.isRun then some (items.map RunItem.txt).flatten else none := by
  induction items with
  | nil => simp [richAfter]
  | cons it is ih =>
    cases it <;> simp [richAfter, richAfter_some, ih, RunItem.txt, RunItem.isRun]

theorem txt_of_no_run (items : List RunItem) (h : items.any RunItem.isRun = false) :
    (items.map RunItem.txt).flatten = [] := by
  induction items with
  | nil => rfl
  | cons it is ih =>
    cases it <;> simp_all [RunItem.txt, RunItem.isRun]

theorem resultOf_getD (f : StringForm) : (resultOf f).getD [] = textOf f := by
  cases f with
  | plain lead t trail => rfl
  | rich items =>
    simp only [resultOf, textOf]
    split
    · rfl
    · rename_i h
      simp only [Bool.not_eq_true] at h
      simp [txt_of_no_run items h]

/-- `read_string` on a rendered item followed by anything: the item's result, the rest untouched -/
theorem runSi_form (c : Name) (f : StringForm) (r : List Ev) (h : f.wf c = true) :
    runSi c (.outer none false) (renderSi c f ++ r) = .ok (resultOf f, r) := by
  cases f with
  | plain lead t trail =>
    simp only [StringForm.wf, decide_eq_true_eq] at h
    simp only [renderSi, List.append_assoc, List.cons_append, List.nil_append]
    rw [runSi_inert _ _ _ _ h.1, ← List.append_assoc, runSi_plain _ _ _ _ h.2]
    rfl
  | rich items =>
    simp only [StringForm.wf, decide_eq_true_eq] at h
    obtain ⟨h1, hr, ht, hp⟩ := h
    simp only [renderSi, List.append_assoc, List.cons_append, List.nil_append]
    rw [runSi_items c hr hp items none _ h1]
    have h3 : siStep c (.outer (richAfter none items) false) (.end_ c) = .done (richAfter none items) := by
      simp [siStep]
    rw [runSi_done _ h3, richAfter_none]
    rfl

/-! ### `read_shared_strings` -/

/-- inside an item the table loop is `read_string`; on its return the entry is pushed -/
theorem runSst_inSi (c : Name) (m : SiMode) (acc : List Txt) (evs : List Ev) :
    runSst (.inSi c m) acc evs =
      match runSi c m evs with
      | .ok (v, rest) => runSst .top (acc ++ [v.getD []]) rest
      | .err x => .err x
      | .panic x => .panic x
      | .outOfFuel => .outOfFuel := by
  induction evs generalizing m with
  | nil => simp [runSst, runSi]
  | cons e es ih =>
    simp only [runSst, runSi]
    cases hstep : siStep c m e with
    | cont m' => simp [ih]
    | done v => simp
    | fail x => simp
    | panic x => simp

theorem runSst_gap (acc : List Txt) (evs r : List Ev) (h : evs.all gapEv = true) :
    runSst .top acc (evs ++ r) = runSst .top acc r := by
  induction evs with
  | nil => rfl
  | cons e es ih =>
    simp only [List.all_cons, Bool.and_eq_true] at h
    rw [List.cons_append]
    cases e <;> simp_all [runSst, gapEv]

theorem runSst_item (it : SstItem) (acc : List Txt) (r : List Ev) (h : it.wf = true) :
    runSst .top acc (it.evs ++ r) = runSst .top (acc ++ [textOf it.form]) r := by
  simp only [SstItem.wf, decide_eq_true_eq] at h
  simp only [SstItem.evs, List.append_assoc, List.cons_append]
  rw [runSst_gap _ _ _ h.1]
  have : runSst .top acc (.start it.name it.attrs :: (renderSi it.name it.form ++ r))
      = runSst (.inSi it.name (.outer none false)) acc (renderSi it.name it.form ++ r) := by
    simp [runSst, SstItem.name]
  rw [this, runSst_inSi, runSi_form _ _ _ h.2]
  simp [resultOf_getD]

theorem runSst_items (items : List SstItem) (acc : List Txt) (r : List Ev) (h : items.all SstItem.wf = true) :
    runSst .top acc ((items.map SstItem.evs).flatten ++ r) = runSst .top (acc ++ items.map (fun it => textOf it.form)) r := by
  induction items generalizing acc with
  | nil => simp
  | cons it is ih =>
    simp only [List.all_cons, Bool.and_eq_true] at h
    simp only [List.map_cons, List.flatten_cons, List.append_assoc]
    rw [runSst_item it acc _ h.1, ih _ h.2]
    simp

/-! ### decimal numbers (the `text:c` attribute) -/

theorem digitsVal_append (a : List UInt8) (d : UInt8) : digitsVal (a ++ [d]) = digitsVal a * 10 + (d.toNat - 48) := by
  simp [digitsVal, List.foldl_append]

theorem digit_toNat (k : Nat) (h : k < 10) : (UInt8.ofNat (48 + k)).toNat = 48 + k := by
  simp only [UInt8.toNat_ofNat']
  omega

theorem decimal_val (n : Nat) : digitsVal (decimal n) = n := by
  induction n using Nat.strongRecOn with
  | _ n ih =>
    rw [decimal]
    split
    · rename_i h
      simp [digitsVal]
      omega
    · rename_i h
      rw [digitsVal_append, ih (n / 10) (by omega), digit_toNat _ (Nat.mod_lt _ (by omega))]
      omega

theorem decimal_digits (n : Nat) : (decimal n).all isDigit = true := by
  induction n using Nat.strongRecOn with
  | _ n ih =>
    rw [decimal]
    split
    · rename_i h
      simp [isDigit]
      omega
    · rename_i h
      rw [List.all_append, ih (n / 10) (by omega)]
      simp [isDigit]
      omega

theorem decimal_ne_nil (n : Nat) : decimal n ≠ [] := by
  rw [decimal]
  split <;> simp

theorem parseI32_decimal (n : Nat) (h : n < 2147483648) : parseI32 (decimal n) = some (n : Int) := by
  have hd := decimal_digits n
  have hne := decimal_ne_nil n
  have hv := decimal_val n
  cases hl : decimal n with
  | nil => exact absurd hl hne
  | cons d ds =>
    rw [hl] at hd hv
    have hdig : isDigit d = true := by
      simp only [List.all_cons, Bool.and_eq_true] at hd
      exact hd.1
    have h43 : d ≠ 43 := by
      intro e; subst e; simp [isDigit] at hdig
    have h45 : d ≠ 45 := by
      intro e; subst e; simp [isDigit] at hdig
    have hs : stripPlus (d :: ds) = d :: ds := by
      unfold stripPlus
      split
      · rename_i heq
        injection heq with h1 h2
        exact absurd h1 h43
      · rfl
    unfold parseI32
    split
    · rename_i heq
      injection heq with h1 h2
      exact absurd h1 h45
    · simp only [hs]
      simp only [List.all_cons, Bool.and_eq_true] at hd
      simp [hd, hv, h]

/-! ### ods text loop -/

theorem runOds_cont {m m' : OdsMode} {e : Ev} (r : List Ev) (h : odsStep m e = .cont m') :
    runOds m (e :: r) = runOds m' r := by
  cases m <;> simp [runOds, h]

theorem runOds_done {m : OdsMode} {e : Ev} {v : Txt} (r : List Ev) (h : odsStep m e = .done v) :
    runOds m (e :: r) = .ok (v, r) := by
  cases m <;> simp [runOds, h]

theorem odsStep_chunk (s : Txt) (first : Bool) (k : Chunk) :
    odsStep (.normal s first) k.ev = .cont (.normal (s ++ k.txt) first) := by
  cases k <;> simp [odsStep, Chunk.ev, Chunk.txt]

theorem runOds_piece (s : Txt) (pc : Piece) (r : List Ev) (h : pc.wf = true) :
    runOds (.normal s false) (pc.evs ++ r) = runOds (.normal (s ++ pc.txt) false) r := by
  cases pc with
  | lit c =>
    simp only [Piece.evs, List.cons_append, List.nil_append]
    rw [runOds_cont _ (odsStep_chunk s false c)]
    rfl
  | spaces n =>
    simp only [Piece.wf, decide_eq_true_eq] at h
    have h1 : odsStep (.normal s false) (.start textS [("text:c", decimal n)])
        = .cont (.normal (s ++ List.replicate n 32) false) := by
      simp [odsStep, getAttr, parseI32_decimal n h, textS, annotation, textP]
    have h2 : ∀ s, odsStep (.normal s false) (.end_ textS) = .cont (.normal s false) := by
      intro s; simp [odsStep, textS, tableCell, coveredCell]
    simp only [Piece.evs, List.cons_append, List.nil_append]
    rw [runOds_cont _ h1, runOds_cont _ (h2 _)]
    rfl
  | space1 =>
    have h1 : odsStep (.normal s false) (.start textS []) = .cont (.normal (s ++ [32]) false) := by
      simp [odsStep, getAttr, textS, annotation, textP]
    have h2 : ∀ s, odsStep (.normal s false) (.end_ textS) = .cont (.normal s false) := by
      intro s; simp [odsStep, textS, tableCell, coveredCell]
    simp only [Piece.evs, List.cons_append, List.nil_append]
    rw [runOds_cont _ h1, runOds_cont _ (h2 _)]
    rfl
  | mark e =>
    simp only [Piece.wf] at h
    have h1 : odsStep (.normal s false) e = .cont (.normal s false) := by
      cases e <;> simp_all [odsStep, odsMark]
    simp only [Piece.evs, List.cons_append, List.nil_append]
    rw [runOds_cont _ h1]
    simp [Piece.txt]

theorem runOds_pieces (ps : List Piece) (s : Txt) (r : List Ev) (h : ps.all Piece.wf = true) :
    runOds (.normal s false) ((ps.map Piece.evs).flatten ++ r)
      = runOds (.normal (s ++ (ps.map Piece.txt).flatten) false) r := by
  induction ps generalizing s with
  | nil => simp
  | cons p ps ih =>
    simp only [List.all_cons, Bool.and_eq_true] at h
    simp only [List.map_cons, List.flatten_cons, List.append_assoc]
    rw [runOds_piece s p _ h.1, ih _ h.2, List.append_assoc]

/-- one paragraph: a newline first unless it is the first paragraph, then its text -/
theorem runOds_para (p : Para) (s : Txt) (first : Bool) (r : List Ev) (h : p.wf = true) :
    runOds (.normal s first) (p.evs ++ r)
      = runOds (.normal ((if first then s else s ++ [10]) ++ p.txt) false) r := by
  have h1 : odsStep (.normal s first) (.start textP p.attrs)
      = .cont (.normal (if first then s else s ++ [10]) false) := by
    cases first <;> simp [odsStep, textP, annotation]
  have h2 : ∀ s, odsStep (.normal s false) (.end_ textP) = .cont (.normal s false) := by
    intro s; simp [odsStep, textP, tableCell, coveredCell]
  simp only [Para.evs, List.cons_append, List.append_assoc, List.nil_append]
  rw [runOds_cont _ h1, runOds_pieces _ _ _ h, runOds_cont _ (h2 _)]
  rfl

theorem runOds_annot (content : List Ev) (s : Txt) (first : Bool) (r : List Ev) (h : annotWf content = true) :
    runOds (.normal s first) (annotEvs content ++ r) = runOds (.normal s first) r := by
  have h1 : odsStep (.normal s first) (.start annotation []) = .cont (.annot s first) := by
    simp [odsStep]
  have h2 : odsStep (.annot s first) (.end_ annotation) = .cont (.normal s first) := by
    simp [odsStep]
  have h3 : ∀ (evs : List Ev) (r : List Ev), evs.all (fun e => e ≠ .end_ annotation) = true →
      runOds (.annot s first) (evs ++ r) = runOds (.annot s first) r := by
    intro evs r hh
    induction evs with
    | nil => rfl
    | cons e es ih =>
      simp only [List.all_cons, Bool.and_eq_true, decide_eq_true_eq] at hh
      have : odsStep (.annot s first) e = .cont (.annot s first) := by
        cases e <;> simp_all [odsStep]
      rw [List.cons_append, runOds_cont _ this, ih hh.2]
  simp only [annotEvs, List.cons_append, List.append_assoc, List.nil_append]
  rw [runOds_cont _ h1, h3 _ _ h, runOds_cont _ h2]

/-- paragraphs after the first one -/
theorem runOds_paras_tail (ps : List Para) (s : Txt) (r : List Ev) (h : ps.all Para.wf = true) :
    runOds (.normal s false) ((ps.map Para.evs).flatten ++ r)
      = runOds (.normal (s ++ (ps.map (fun p => 10 :: p.txt)).flatten) false) r := by
  induction ps generalizing s with
  | nil => simp
  | cons p ps ih =>
    simp only [List.all_cons, Bool.and_eq_true] at h
    simp only [List.map_cons, List.flatten_cons, List.append_assoc]
    rw [runOds_para p s false _ h.1, ih _ h.2]
    simp

theorem intercalate_cons (a : Txt) (l : List Txt) :
    List.intercalate [10] (a :: l) = a ++ (l.map (fun p => 10 :: p)).flatten := by
  induction l generalizing a with
  | nil => simp [List.intercalate]
  | cons b l ih =>
    have := ih b
    simp [List.intercalate, List.intersperse] at this ⊢
    simp [this]

/-! ### xlsb wide strings -/

theorem unitsOf_units (us : List UInt16) (r : List UInt8) :
    unitsOf (((us.map unitBytes).flatten ++ r).take (us.length * 2)) = us := by
  induction us with
  | nil => simp [unitsOf]
  | cons u us ih =>
    have h2 : (us.length + 1) * 2 = us.length * 2 + 1 + 1 := by omega
    simp only [List.map_cons, List.flatten_cons, unitBytes, List.cons_append, List.nil_append, List.length_cons, h2,
      List.take_succ_cons, unitsOf, ih]
    congr 1
    simp only [UInt8.toNat_ofNat']
    have := u.toNat_lt
    have h3 : u.toNat % 256 % 256 + 256 * (u.toNat / 256 % 256) = u.toNat := by omega
    rw [h3]
    simp

theorem u32le_encode (n : Nat) (h : n < 4294967296) :
    u32le (UInt8.ofNat (n % 256)) (UInt8.ofNat (n / 256 % 256)) (UInt8.ofNat (n / 65536 % 256))
      (UInt8.ofNat (n / 16777216 % 256)) = n := by
  simp only [u32le, UInt8.toNat_ofNat']
  omega

/-! ### one xlsx cell -/

theorem runCell_cont {t : Option String} {ss : List Txt} {m m' : CellMode} {e : Ev} (r : List Ev)
    (h : cellStep t ss m e = .cont m') : runCell t ss m (e :: r) = runCell t ss m' r := by
  simp [runCell, h]

theorem runCell_done {t : Option String} {ss : List Txt} {m : CellMode} {e : Ev} {v : CellVal} (r : List Ev)
    (h : cellStep t ss m e = .done v) : runCell t ss m (e :: r) = .ok (v, r) := by
  simp [runCell, h]

/-- inside `<is>` the cell loop is `read_string`; on its return the value is the string (or Empty for `None`) -/
theorem runCell_inIs (t : Option String) (ss : List Txt) (c : Name) (m : SiMode) (evs : List Ev) :
    runCell t ss (.inIs c m) evs =
      match runSi c m evs with
      | .ok (v, rest) => runCell t ss (.inC (CellVal.ofOpt v)) rest
      | .err x => .err x
      | .panic x => .panic x
      | .outOfFuel => .outOfFuel := by
  induction evs generalizing m with
  | nil => simp [runCell, runSi, cellEof]
  | cons e es ih =>
    simp only [runCell, runSi, cellStep]
    cases hstep : siStep c m e with
    | cont m' => simp [ih]
    | done v => simp
    | fail x => simp
    | panic x => simp

theorem cellStep_chunk (t : Option String) (ss : List Txt) (vn : Name) (acc : Txt) (k : Chunk) :
    cellStep t ss (.inV vn acc) k.ev = .cont (.inV vn (acc ++ k.txt)) := by
  cases k <;> simp [cellStep, Chunk.ev, Chunk.txt]

theorem runCell_chunks (t : Option String) (ss : List Txt) (vn : Name) (cs : List Chunk) (acc : Txt) (r : List Ev) :
    runCell t ss (.inV vn acc) (chunksEvs cs ++ r) = runCell t ss (.inV vn (acc ++ chunksText cs)) r := by
  induction cs generalizing acc with
  | nil => simp [chunksEvs, chunksText]
  | cons k ks ih =>
    simp only [chunksEvs, List.map_cons, List.cons_append] at ih ⊢
    rw [runCell_cont _ (cellStep_chunk t ss vn acc k), ih]
    simp [chunksText, List.append_assoc]

theorem atoiUsize_decimal (n : Nat) (h : n < 18446744073709551616) : atoiUsize (decimal n) = some n := by
  simp [atoiUsize, decimal_ne_nil, decimal_val, h]
  have := decimal_digits n
  simpa using this

/-! ### CDATA sections -/

/-- a text that does not contain the CDATA terminator `]]>` -/
def NoCdataEnd (l : Txt) : Prop := ∀ a b : Txt, l ≠ a ++ [93, 93, 62] ++ b

theorem noCdataEnd_snoc (cur : Txt) (c : UInt8) (h : NoCdataEnd cur) (hc : ¬ (c = 62 ∧ endsBrackets cur = true)) :
    NoCdataEnd (cur ++ [c]) := by
  intro a b heq
  rcases List.eq_nil_or_concat b with rfl | ⟨b', d, rfl⟩
  · have h1 : cur ++ [c] = (a ++ [93, 93]) ++ [62] := by simpa using heq
    have h2 := List.append_inj' h1 rfl
    apply hc
    refine ⟨by simpa using h2.2, ?_⟩
    rw [h2.1]
    simp [endsBrackets]
  · have h1 : cur ++ [c] = (a ++ [93, 93, 62] ++ b') ++ [d] := by simpa [List.concat_eq_append, List.append_assoc] using heq
    have h2 := List.append_inj' h1 rfl
    exact h a b' h2.1

theorem noCdataEnd_short (l : Txt) (h : l.length < 3) : NoCdataEnd l := by
  intro a b heq
  have := congrArg List.length heq
  simp at this
  omega

theorem cdataSplitAux_flatten (s cur : Txt) : (cdataSplitAux s cur).flatten = cur ++ s := by
  induction s generalizing cur with
  | nil => simp only [cdataSplitAux]; split <;> simp_all
  | cons c r ih =>
    simp only [cdataSplitAux]
    split
    · simp [ih]
    · simp [ih, List.append_assoc]

theorem cdataSplitAux_noEnd (s cur : Txt) (h : NoCdataEnd cur) : ∀ sec ∈ cdataSplitAux s cur, NoCdataEnd sec := by
  induction s generalizing cur with
  | nil =>
    intro sec hsec
    simp only [cdataSplitAux] at hsec
    split at hsec
    · cases hsec
    · simp at hsec; subst hsec; exact h
  | cons c r ih =>
    intro sec hsec
    simp only [cdataSplitAux] at hsec
    split at hsec
    · rcases List.mem_cons.mp hsec with rfl | hm
      · exact h
      · exact ih [c] (noCdataEnd_short _ (by simp)) sec hm
    · rename_i hc
      exact ih (cur ++ [c]) (noCdataEnd_snoc cur c h hc) sec hsec

theorem chunksText_cdata (l : List Txt) : chunksText (l.map Chunk.cdata) = l.flatten := by
  induction l with
  | nil => rfl
  | cons a l ih => simp_all [chunksText, Chunk.txt]

/-! ### no step panics -/

theorem siStep_no_panic (c : Name) (m : SiMode) (e : Ev) (x : String) : siStep c m e ≠ .panic x := by
  intro h
  unfold siStep at h
  split at h <;> (try split at h) <;> (try split at h) <;> (try split at h) <;> cases h

theorem readV_no_panic (t : Option String) (ss : List Txt) (v : Txt) (x : String) : readV t ss v ≠ .panic x := by
  intro h
  unfold readV at h
  split at h
  · dsimp only at h
    split at h <;> cases h
  all_goals cases h

theorem cellStep_no_panic (t : Option String) (ss : List Txt) (m : CellMode) (e : Ev) (x : String) :
    cellStep t ss m e ≠ .panic x := by
  intro h
  unfold cellStep at h
  split at h
  all_goals (try split at h)
  all_goals (try split at h)
  all_goals (try split at h)
  all_goals (try (cases h; done))
  all_goals (try (exact absurd (by assumption) (siStep_no_panic _ _ _ _)))
  all_goals (exact absurd h (readV_no_panic _ _ _ _))

end XmlText
