import CalVerif.Model.XlsxCells
import CalVerif.Spec.XlsxSheet
/-! Helper lemmas for C01: the A1 reference arithmetic (`get_row_and_optional_column` against
    `column_number_to_name` / decimal text). -/
namespace XlsxCells

theorem satAdd_eq {a b : Nat} (h : a + b < U32) : satAdd a b = a + b := by simp [satAdd, h]
theorem satMul_eq {a b : Nat} (h : a * b < U32) : satMul a b = a * b := by simp [satMul, h]

/-- value of decimal digits given least-significant first -/
def valLE10 : Bytes → Nat
  | [] => 0
  | d :: ds => (d - 48) + 10 * valLE10 ds

/-- value of bijective base-26 letters (offset `off` = code of `A` or `a`) given least-significant first -/
def valLE26 (off : Nat) : Bytes → Nat
  | [] => 0
  | d :: ds => (d - off + 1) + 26 * valLE26 off ds

theorem one_le_pow (b n : Nat) (hb : 0 < b) : 1 ≤ b ^ n := Nat.pow_pos hb

/-- the digit phase of the loop (no saturation inside the stated bounds) -/
theorem a1Loop_digits (ds rest : Bytes) (row col pow : Nat)
    (hd : ∀ d ∈ ds, 48 ≤ d ∧ d ≤ 57)
    (h1 : row + valLE10 ds * pow < U32) (h2 : pow * 10 ^ ds.length < U32) :
    a1Loop (ds ++ rest) row col pow true =
      a1Loop rest (row + valLE10 ds * pow) col (pow * 10 ^ ds.length) true := by
  induction ds generalizing row pow with
  | nil => simp [valLE10]
  | cons d ds ih =>
    have hdd := hd d (by simp)
    have e1 : valLE10 (d :: ds) * pow = (d - 48) * pow + 10 * (valLE10 ds * pow) := by
      simp only [valLE10]; rw [Nat.add_mul, Nat.mul_assoc]
    have e2 : pow * 10 ^ (d :: ds).length = pow * 10 * 10 ^ ds.length := by
      simp only [List.length_cons, Nat.pow_succ]; rw [Nat.mul_assoc, Nat.mul_comm (10 ^ ds.length) 10]
    rw [e1] at h1; rw [e2] at h2
    have hp : 1 ≤ 10 ^ ds.length := one_le_pow 10 _ (by omega)
    have hC : pow * 10 < U32 := Nat.lt_of_le_of_lt (Nat.le_mul_of_pos_right _ hp) h2
    have hA : (d - 48) * pow < U32 := by omega
    have e3 : valLE10 ds * (pow * 10) = 10 * (valLE10 ds * pow) := by
      rw [Nat.mul_comm pow 10, ← Nat.mul_assoc, Nat.mul_comm (valLE10 ds) 10, Nat.mul_assoc]
    have step : a1Loop ((d :: ds) ++ rest) row col pow true =
        a1Loop (ds ++ rest) (row + (d - 48) * pow) col (pow * 10) true := by
      simp only [List.cons_append]
      rw [a1Loop]
      simp only [hdd, and_self, if_true]
      rw [satMul_eq hA, satAdd_eq (by omega), satMul_eq hC]
    rw [step, ih (row + (d - 48) * pow) (pow * 10) (fun x hx => hd x (by simp [hx])) (by rw [e3]; omega) h2]
    rw [e1, e2, e3]
    congr 1; omega

/-- one letter step in column mode -/
theorem a1Loop_letter (off : Nat) (hoff : off = 65 ∨ off = 97) (l : Nat) (hl : off ≤ l ∧ l ≤ off + 25)
    (cs : Bytes) (row col pow : Nat) :
    a1Loop (l :: cs) row col pow false =
      a1Loop cs row (satAdd col (satMul (l - off + 1) pow)) (satMul pow 26) false := by
  rw [a1Loop]
  rcases hoff with rfl | rfl
  · have h1 : ¬ (48 ≤ l ∧ l ≤ 57) := by omega
    have h2 : 65 ≤ l ∧ l ≤ 90 := by omega
    simp [h1, h2]
  · have h1 : ¬ (48 ≤ l ∧ l ≤ 57) := by omega
    have h2 : ¬ (65 ≤ l ∧ l ≤ 90) := by omega
    have h3 : 97 ≤ l ∧ l ≤ 122 := by omega
    simp [h1, h2, h3]

/-- the first letter after the digits resets `pow` to 1 -/
theorem a1Loop_first_letter (off : Nat) (hoff : off = 65 ∨ off = 97) (l : Nat) (hl : off ≤ l ∧ l ≤ off + 25)
    (cs : Bytes) (row col pow : Nat) (hrow : row ≠ 0) :
    a1Loop (l :: cs) row col pow true = a1Loop (l :: cs) row col 1 false := by
  rw [a1Loop_letter off hoff l hl, a1Loop]
  rcases hoff with rfl | rfl
  · have h1 : ¬ (48 ≤ l ∧ l ≤ 57) := by omega
    have h2 : 65 ≤ l ∧ l ≤ 90 := by omega
    simp [h1, h2, hrow]
  · have h1 : ¬ (48 ≤ l ∧ l ≤ 57) := by omega
    have h2 : ¬ (65 ≤ l ∧ l ≤ 90) := by omega
    have h3 : 97 ≤ l ∧ l ≤ 122 := by omega
    simp [h1, h2, h3, hrow]

/-- the letter phase of the loop -/
theorem a1Loop_letters (off : Nat) (hoff : off = 65 ∨ off = 97) (ls rest : Bytes) (row col pow : Nat)
    (hd : ∀ d ∈ ls, off ≤ d ∧ d ≤ off + 25)
    (h1 : col + valLE26 off ls * pow < U32) (h2 : pow * 26 ^ ls.length < U32) :
    a1Loop (ls ++ rest) row col pow false =
      a1Loop rest row (col + valLE26 off ls * pow) (pow * 26 ^ ls.length) false := by
  induction ls generalizing col pow with
  | nil => simp [valLE26]
  | cons d ds ih =>
    have hdd := hd d (by simp)
    have e1 : valLE26 off (d :: ds) * pow = (d - off + 1) * pow + 26 * (valLE26 off ds * pow) := by
      simp only [valLE26]; rw [Nat.add_mul, Nat.mul_assoc]
    have e2 : pow * 26 ^ (d :: ds).length = pow * 26 * 26 ^ ds.length := by
      simp only [List.length_cons, Nat.pow_succ]; rw [Nat.mul_assoc, Nat.mul_comm (26 ^ ds.length) 26]
    rw [e1] at h1; rw [e2] at h2
    have hp : 1 ≤ 26 ^ ds.length := one_le_pow 26 _ (by omega)
    have hC : pow * 26 < U32 := Nat.lt_of_le_of_lt (Nat.le_mul_of_pos_right _ hp) h2
    have hA : (d - off + 1) * pow < U32 := by omega
    have e3 : valLE26 off ds * (pow * 26) = 26 * (valLE26 off ds * pow) := by
      rw [Nat.mul_comm pow 26, ← Nat.mul_assoc, Nat.mul_comm (valLE26 off ds) 26, Nat.mul_assoc]
    simp only [List.cons_append]
    rw [a1Loop_letter off hoff d hdd, satMul_eq hA, satAdd_eq (by omega), satMul_eq hC]
    rw [ih (col + (d - off + 1) * pow) (pow * 26) (fun x hx => hd x (by simp [hx])) (by rw [e3]; omega) h2]
    rw [e1, e2, e3]
    congr 1; omega

/-! ### the two writers: decimal text and column letters -/

theorem decLE_digits (n : Nat) : ∀ d ∈ decLE n, 48 ≤ d ∧ d ≤ 57 := by
  fun_induction decLE n with
  | case1 n h => intro d hd; simp at hd; omega
  | case2 n h ih =>
    intro d hd
    simp only [List.mem_cons] at hd
    rcases hd with rfl | hd
    · omega
    · exact ih d hd

theorem valLE10_decLE (n : Nat) : valLE10 (decLE n) = n := by
  fun_induction decLE n with
  | case1 n h => simp [valLE10]
  | case2 n h ih => simp only [valLE10, ih]; omega

/-- `10^(number of digits) ≤ 10 n` for `n ≥ 1` -/
theorem pow_len_decLE (n : Nat) (hn : 1 ≤ n) : 10 ^ (decLE n).length ≤ 10 * n := by
  fun_induction decLE n with
  | case1 n h => simp; omega
  | case2 n h ih =>
    have := ih (by omega)
    simp only [List.length_cons, Nat.pow_succ]
    omega

theorem decLE_ne_nil (n : Nat) : decLE n ≠ [] := by
  rw [decLE]; split <;> simp

theorem colLE_letters (n : Nat) : ∀ d ∈ colLE n, 65 ≤ d ∧ d ≤ 90 := by
  fun_induction colLE n with
  | case1 => intro d hd; simp at hd
  | case2 n h ih =>
    intro d hd
    simp only [List.mem_cons] at hd
    rcases hd with rfl | hd
    · omega
    · exact ih d hd

theorem valLE26_colLE (n : Nat) : valLE26 65 (colLE n) = n := by
  fun_induction colLE n with
  | case1 => simp [valLE26]
  | case2 n h ih => simp only [valLE26, ih]; omega

/-- `26^(number of letters) ≤ 26 n` for `n ≥ 1` -/
theorem pow_len_colLE (n : Nat) (hn : 1 ≤ n) : 26 ^ (colLE n).length ≤ 26 * n := by
  fun_induction colLE n with
  | case1 => omega
  | case2 n h ih =>
    simp only [List.length_cons, Nat.pow_succ]
    by_cases h0 : (n - 1) / 26 = 0
    · rw [h0]; rw [colLE]; simp; omega
    · have := ih (by omega)
      omega

theorem colLE_ne_nil (n : Nat) (hn : 1 ≤ n) : colLE n ≠ [] := by
  rw [colLE]; split
  · omega
  · simp

/-- lower-casing the letters shifts the offset -/
theorem valLE26_lower (ls : Bytes) (h : ∀ d ∈ ls, 65 ≤ d ∧ d ≤ 90) :
    valLE26 97 (ls.map (· + 32)) = valLE26 65 ls := by
  induction ls with
  | nil => rfl
  | cons d ds ih =>
    have := h d (by simp)
    simp only [List.map_cons, valLE26, ih (fun x hx => h x (by simp [hx]))]
    omega

/-! ### round trips -/

open XlsxSheet in
/-- the reference written for (row, col) reads back as (row, col); letters in either case -/
theorem getRowCol_refName (lower : Bool) (r c : Nat) (hr : 10 * (r + 1) < U32) (hc : 26 * (c + 1) < U32) :
    getRowCol (refName lower r c) = .ok (r, some c) := by
  -- the reversed reference: digits (least significant first), then letters (least significant first)
  obtain ⟨off, hoff, L, hL, hLd, hLv, hLlen, hLne⟩ :
      ∃ off, (off = 65 ∨ off = 97) ∧ ∃ L : Bytes, (refName lower r c).reverse = decLE (r + 1) ++ L ∧
        (∀ d ∈ L, off ≤ d ∧ d ≤ off + 25) ∧ valLE26 off L = c + 1 ∧ L.length = (colLE (c + 1)).length ∧ L ≠ [] := by
    cases lower with
    | false =>
      refine ⟨65, Or.inl rfl, colLE (c + 1), ?_, ?_, valLE26_colLE _, rfl, colLE_ne_nil _ (by omega)⟩
      · simp [refName, colLetters, dec]
      · intro d hd; have := colLE_letters _ d hd; omega
    | true =>
      refine ⟨97, Or.inr rfl, (colLE (c + 1)).map (· + 32), ?_, ?_, ?_, by simp, ?_⟩
      · simp [refName, colLetters, dec, List.map_reverse]
      · intro d hd
        simp only [List.mem_map] at hd
        obtain ⟨x, hx, rfl⟩ := hd
        have := colLE_letters _ x hx; omega
      · rw [valLE26_lower _ (colLE_letters _), valLE26_colLE]
      · simp [colLE_ne_nil _ (show 1 ≤ c + 1 by omega)]
  have hp10 := pow_len_decLE (r + 1) (by omega)
  have hp26 := pow_len_colLE (c + 1) (by omega)
  unfold getRowCol
  rw [hL, a1Loop_digits (decLE (r + 1)) L 0 0 1 (decLE_digits _)
      (by rw [valLE10_decLE]; simp only [U32] at *; omega) (by simp only [U32] at *; omega)]
  rw [valLE10_decLE]
  obtain ⟨l, ls, rfl⟩ : ∃ l ls, L = l :: ls := by
    cases L with
    | nil => exact absurd rfl hLne
    | cons l ls => exact ⟨l, ls, rfl⟩
  rw [a1Loop_first_letter off hoff l (hLd l (by simp)) ls _ _ _ (by omega)]
  have := a1Loop_letters off hoff (l :: ls) [] (0 + (r + 1) * 1) 0 1 hLd
    (by rw [hLv]; simp only [U32] at *; omega) (by rw [hLlen]; simp only [U32] at *; omega)
  rw [List.append_nil] at this
  rw [this, hLv]
  simp [a1Loop]

open XlsxSheet in
/-- a row number written in decimal reads back as that row, without a column -/
theorem getRowCol_dec (r : Nat) (hr : 10 * (r + 1) < U32) : getRowCol (dec (r + 1)) = .ok (r, none) := by
  have hp10 := pow_len_decLE (r + 1) (by omega)
  unfold getRowCol dec
  rw [List.reverse_reverse]
  have := a1Loop_digits (decLE (r + 1)) [] 0 0 1 (decLE_digits _)
    (by rw [valLE10_decLE]; simp only [U32] at *; omega) (by simp only [U32] at *; omega)
  rw [List.append_nil] at this
  rw [this, valLE10_decLE]
  simp [a1Loop]

/-! ### totality, dimensions -/

/-- the loop never panics and needs no fuel -/
theorem a1Loop_total (l : Bytes) (row col pow : Nat) (rr : Bool) :
    (∃ v, a1Loop l row col pow rr = .ok v) ∨ (∃ e, a1Loop l row col pow rr = .err e) := by
  induction l generalizing row col pow rr with
  | nil => exact Or.inl ⟨_, rfl⟩
  | cons c cs ih =>
    rw [a1Loop]
    split
    · split
      · exact ih _ _ _ _
      · exact Or.inr ⟨_, rfl⟩
    · split
      · split
        · split
          · exact Or.inr ⟨_, rfl⟩
          · exact ih _ _ _ _
        · exact ih _ _ _ _
      · split
        · split
          · split
            · exact Or.inr ⟨_, rfl⟩
            · exact ih _ _ _ _
          · exact ih _ _ _ _
        · exact Or.inr ⟨_, rfl⟩

theorem getRowCol_total (s : Bytes) : (∃ v, getRowCol s = .ok v) ∨ (∃ e, getRowCol s = .err e) := by
  unfold getRowCol
  rcases a1Loop_total s.reverse 0 0 1 true with ⟨v, h⟩ | ⟨e, h⟩
  · rw [h]; obtain ⟨row, col⟩ := v
    simp only
    split
    · exact Or.inr ⟨_, rfl⟩
    · exact Or.inl ⟨_, rfl⟩
  · rw [h]; exact Or.inr ⟨_, rfl⟩

theorem getRowColumn_total (s : Bytes) : (∃ v, getRowColumn s = .ok v) ∨ (∃ e, getRowColumn s = .err e) := by
  unfold getRowColumn
  rcases getRowCol_total s with ⟨v, h⟩ | ⟨e, h⟩
  · rw [h]; obtain ⟨row, col⟩ := v
    cases col with
    | none => exact Or.inr ⟨_, rfl⟩
    | some c => exact Or.inl ⟨_, rfl⟩
  · rw [h]; exact Or.inr ⟨_, rfl⟩

theorem mapParts_total (ps : List Bytes) : (∃ v, mapParts ps = .ok v) ∨ (∃ e, mapParts ps = .err e) := by
  induction ps with
  | nil => exact Or.inl ⟨_, rfl⟩
  | cons p ps ih =>
    rw [mapParts]
    rcases getRowColumn_total p with ⟨v, h⟩ | ⟨e, h⟩
    · rw [h]
      rcases ih with ⟨w, h2⟩ | ⟨e, h2⟩
      · rw [h2]; exact Or.inl ⟨_, rfl⟩
      · rw [h2]; exact Or.inr ⟨_, rfl⟩
    · rw [h]; exact Or.inr ⟨_, rfl⟩

theorem splitColon_no_colon (l : Bytes) (h : ∀ x ∈ l, x ≠ 58) : splitColon l = [l] := by
  induction l with
  | nil => rfl
  | cons c cs ih =>
    have hc := h c (by simp)
    rw [splitColon, if_neg hc, ih (fun x hx => h x (by simp [hx]))]

theorem splitColon_append (a b : Bytes) (h : ∀ x ∈ a, x ≠ 58) :
    splitColon (a ++ 58 :: b) = a :: splitColon b := by
  induction a with
  | nil => simp [splitColon]
  | cons c cs ih =>
    have hc := h c (by simp)
    simp only [List.cons_append]
    rw [splitColon, if_neg hc, ih (fun x hx => h x (by simp [hx]))]

open XlsxSheet in
theorem refName_no_colon (lower : Bool) (r c : Nat) : ∀ x ∈ refName lower r c, x ≠ 58 := by
  intro x hx
  simp only [refName, colLetters, dec, List.mem_append, List.mem_reverse] at hx
  rcases hx with hx | hx
  · cases lower with
    | false =>
      simp only [Bool.false_eq_true, if_false, List.mem_reverse] at hx
      have := colLE_letters _ x hx; omega
    | true =>
      simp only [if_true, List.mem_map, List.mem_reverse] at hx
      obtain ⟨y, hy, rfl⟩ := hx
      have := colLE_letters _ y hy; omega
  · have := decLE_digits _ x hx; omega

open XlsxSheet in
theorem getRowColumn_refName (lower : Bool) (r c : Nat) (hr : 10 * (r + 1) < U32) (hc : 26 * (c + 1) < U32) :
    getRowColumn (refName lower r c) = .ok (r, c) := by
  unfold getRowColumn; rw [getRowCol_refName lower r c hr hc]

open XlsxSheet in
theorem getRow_dec (r : Nat) (hr : 10 * (r + 1) < U32) : getRow (dec (r + 1)) = .ok r := by
  unfold getRow; rw [getRowCol_dec r hr]

open XlsxSheet in
/-- the `ref` written for a rectangle reads back as that rectangle -/
theorem getDimension_dimRef (d : Dims) (h1 : 10 * (d.sr + 1) < U32) (h2 : 26 * (d.sc + 1) < U32)
    (h3 : 10 * (d.er + 1) < U32) (h4 : 26 * (d.ec + 1) < U32) : getDimension (dimRef d) = .ok d := by
  unfold getDimension dimRef
  rw [splitColon_append _ _ (refName_no_colon _ _ _), splitColon_no_colon _ (refName_no_colon _ _ _)]
  simp only [mapParts, getRowColumn_refName false _ _ h1 h2, getRowColumn_refName false _ _ h3 h4]

end XlsxCells
