import CalVerif.Lemmas.Biff
/-! C02 helper lemmas, second part: what `step` does on every record the encoder emits, MULRK runs,
    and the record framing. -/

namespace BiffCells
open Biff

/-! ### single cell records -/

theorem byteAt_hdr (p : PC) (tail : Bytes) (i : Nat) : byteAt (cellHdr p ++ tail) (6 + i) = byteAt tail i := by
  rw [byteAt_append_right _ _ _ (by simp [cellHdr_length]), cellHdr_length]; congr 1; omega

theorem step_boolerr (env : Env) (st : St) (p : PC) (b f : Nat) (hr : p.row < 65536) (hc : p.col < 65536)
    (hx : p.xf < 65536) (hb : b < 256) (hf : f < 256) :
    step env st ⟨0x0205, cellHdr p ++ [byte b, byte f], []⟩ =
      if f = 0 then .ok { st with cells := st.cells ++ [(p.row, p.col, .bool (b != 0))] }
      else if f = 1 then
        match parseErr b with
        | .ok v => .ok { st with cells := st.cells ++ [(p.row, p.col, v)] }
        | .err e => .err e
        | .panic s => .panic s
        | .outOfFuel => .outOfFuel
      else .err "Unrecognized:fError" := by
  obtain ⟨h0, h2, _, hl⟩ := hdr16 p [byte b, byte f] hr hc hx
  have h6 : byteAt (cellHdr p ++ [byte b, byte f]) 6 = b := by
    have := byteAt_hdr p [byte b, byte f] 0
    simp only [Nat.add_zero] at this; rw [this]; simp [byteAt, byte_toNat]; omega
  have h7 : byteAt (cellHdr p ++ [byte b, byte f]) 7 = f := by
    have := byteAt_hdr p [byte b, byte f] 1
    rw [this]; simp [byteAt, byte_toNat]; omega
  simp only [step, parseBoolErr, hl, h0, h2, h6, h7]
  by_cases e0 : f = 0
  · simp [e0]
  · by_cases e1 : f = 1
    · simp [e1]; cases parseErr b <;> simp
    · simp [e0, e1]

theorem step_label (env : Env) (st : St) (p : PC) (wide : Bool) (s : List Nat) (hr : p.row < 65536)
    (hc : p.col < 65536) (hx : p.xf < 65536) (hs : validText s) (hl : (toUnits s).length < 65536) :
    step env st ⟨0x0204, cellHdr p ++ xlString wide s, []⟩ =
      .ok { st with cells := st.cells ++ [(p.row, p.col, .str s)] } := by
  obtain ⟨h0, h2, _, hlen⟩ := hdr16 p (xlString wide s) hr hc hx
  have hd : (cellHdr p ++ xlString wide s).drop 6 = xlString wide s := by
    rw [List.drop_left' (cellHdr_length p)]
  have hnl : ¬ (6 + List.length (xlString wide s) < 6) := by omega
  simp [step, parseLabel, hlen, h0, h2, hd, parse_xlString wide s hs hl, hnl]

theorem step_labelSst (env : Env) (st : St) (p : PC) (i : Nat) (s : List Nat) (hr : p.row < 65536)
    (hc : p.col < 65536) (hx : p.xf < 65536) (hi : i < 4294967296) (hs : env.strings[i]? = some s) :
    step env st ⟨0x00FD, cellHdr p ++ le32 i, []⟩ =
      .ok { st with cells := st.cells ++ [(p.row, p.col, .str s)] } := by
  obtain ⟨h0, h2, _, hlen⟩ := hdr16 p (le32 i) hr hc hx
  have h6 : u32At (cellHdr p ++ le32 i) 6 = i := by
    rw [u32At_append_right _ _ _ (by simp [cellHdr_length]), cellHdr_length]
    have := u32_le32 i [] hi
    simpa [u32At] using this
  simp [step, parseLabelSst, hlen, h0, h2, h6, hs]

theorem step_string (env : Env) (st : St) (wide : Bool) (s : List Nat) (hs : validText s)
    (hl : (toUnits s).length < 65536) :
    step env st ⟨0x0207, xlString wide s, []⟩ =
      .ok { st with cells := st.cells ++ [(st.fmla.1, st.fmla.2, .str s)] } := by
  simp [step, parse_xlString wide s hs hl]

theorem step_ignorable (env : Env) (st : St) (r : Rec) (h : ignorable r = true) : step env st r = .ok st := by
  simp only [ignorable, Bool.and_eq_true, Bool.or_eq_true, decide_eq_true_eq, Bool.not_eq_true',
    beq_iff_eq] at h
  obtain ⟨⟨⟨_, _⟩, _⟩, h⟩ := h
  rcases h with h | ⟨ht, hl⟩
  · have hn : ∀ x ∈ handledIds, r.typ ≠ x := by
      intro x hx heq
      have : handledIds.contains r.typ = true := by rw [heq]; simpa using hx
      rw [h] at this; cases this
    have a1 := hn 0x0200 (by decide); have a2 := hn 0x0203 (by decide); have a3 := hn 0x0204 (by decide)
    have a4 := hn 0x0205 (by decide); have a5 := hn 0x0207 (by decide); have a6 := hn 0x027E (by decide)
    have a7 := hn 0x00FD (by decide); have a8 := hn 0x00BD (by decide); have a9 := hn 0x00E5 (by decide)
    have a10 := hn 0x0006 (by decide)
    simp [step, a1, a2, a3, a4, a5, a6, a7, a8, a9, a10]
  · rcases hl with hl | hl
    · by_cases hc : 1 ≤ u16At r.data 2 ∧ 1 ≤ u16At r.data 6 <;> simp [step, ht, parseDimensions, hl, hc]
    · by_cases hc : 1 ≤ u32At r.data 4 ∧ 1 ≤ u16At r.data 10 <;> simp [step, ht, parseDimensions, hl, hc]

/-! ### FORMULA -/

/-- the data of a FORMULA record, right-nested -/
def fmlaData (p : PC) (value rgce : Bytes) : Bytes :=
  cellHdr p ++ (value ++ (le16 0 ++ (le32 0 ++ (le16 rgce.length ++ rgce))))

theorem fmla_reads (p : PC) (value rgce : Bytes) (hv : value.length = 8) (hg : rgce.length < 65536)
    (hr : p.row < 65536) (hc : p.col < 65536) (hx : p.xf < 65536) :
    (fmlaData p value rgce).length = 22 + rgce.length ∧ u16At (fmlaData p value rgce) 0 = p.row ∧
    u16At (fmlaData p value rgce) 2 = p.col ∧ u16At (fmlaData p value rgce) 20 = rgce.length ∧
    (∀ i, i < 8 → byteAt (fmlaData p value rgce) (6 + i) = byteAt value i) ∧
    u16At (fmlaData p value rgce) 4 = p.xf := by
  obtain ⟨h0, h2, h4, hl⟩ := hdr16 p (value ++ (le16 0 ++ (le32 0 ++ (le16 rgce.length ++ rgce)))) hr hc hx
  refine ⟨?_, h0, h2, ?_, ?_, h4⟩
  · rw [fmlaData, hl]; simp [hv]; omega
  · rw [fmlaData, u16At_append_right _ _ _ (by simp [cellHdr_length]), cellHdr_length,
      u16At_append_right _ _ _ (by omega), hv, u16At_append_right _ _ _ (by simp), le16_length,
      u16At_append_right _ _ _ (by simp), le32_length]
    simp only [u16At, Nat.reduceSub, List.drop_zero]
    exact u16_le16 _ _ hg
  · intro i hi
    rw [fmlaData, byteAt_hdr]
    simp only [byteAt, List.getD_eq_getElem?_getD]
    rw [List.getElem?_append_left (by omega)]

theorem byteAt_le64_6 (x : Nat) : byteAt (le64 x) 6 = x / 281474976710656 % 256 := by
  simp [byteAt, le64, le32, byte_toNat]; omega
theorem byteAt_le64_7 (x : Nat) : byteAt (le64 x) 7 = x / 72057594037927936 % 256 := by
  simp [byteAt, le64, le32, byte_toNat]; omega

theorem u64At_fmla (p : PC) (x : Nat) (rgce : Bytes) (hx : x < 18446744073709551616) :
    u64At (fmlaData p (le64 x) rgce) 6 = x := by
  rw [fmlaData, u64At_append_right _ _ _ (by simp [cellHdr_length]), cellHdr_length]
  exact u64At_le64 x _ hx

theorem step_formula_num (env : Env) (st : St) (p : PC) (x : Nat) (rgce : Bytes) (hg : rgce.length < 65536)
    (hr : p.row < 65536) (hc : p.col < 65536) (hxf : p.xf < 65536) (hx : x < 18446744073709551616)
    (hn : x / 281474976710656 ≠ 65535) :
    step env st ⟨0x0006, fmlaData p (le64 x) rgce, []⟩ =
      .ok { cells := st.cells ++ [(p.row, p.col, fmtF64 x env.fmts[p.xf]? env.is1904)], fmla := (p.row, p.col) } := by
  obtain ⟨hl, h0, h2, h20, hb, h4⟩ := fmla_reads p (le64 x) rgce rfl hg hr hc hxf
  have b12 := hb 6 (by omega); have b13 := hb 7 (by omega)
  rw [byteAt_le64_6] at b12; rw [byteAt_le64_7] at b13
  have hne : ¬ (byteAt (fmlaData p (le64 x) rgce) 12 = 0xFF ∧ byteAt (fmlaData p (le64 x) rgce) 13 = 0xFF) := by
    rw [show (12 : Nat) = 6 + 6 from rfl, show (13 : Nat) = 6 + 7 from rfl, b12, b13]; omega
  have hlt : ¬ (22 + rgce.length < 20) := by omega
  have hlt2 : ¬ (22 + rgce.length < 22) := by omega
  simp [step, hl, h0, h2, h20, h4, parseFormulaValue, hne, u64At_fmla p x rgce hx, hlt, typeCached]

theorem special_bytes (t b : Nat) (ht : t < 256) (hb : b < 256) :
    byteAt (special t b) 0 = t ∧ byteAt (special t b) 2 = b ∧ byteAt (special t b) 6 = 0xFF ∧
    byteAt (special t b) 7 = 0xFF ∧ (special t b).length = 8 := by
  simp [special, byteAt, byte_toNat]; omega

theorem step_formula_special (env : Env) (st : St) (p : PC) (t b : Nat) (rgce : Bytes) (hg : rgce.length < 65536)
    (hr : p.row < 65536) (hc : p.col < 65536) (hxf : p.xf < 65536) (ht : t < 256) (hb : b < 256) :
    step env st ⟨0x0006, fmlaData p (special t b) rgce, []⟩ =
      if t = 0 then .ok { st with fmla := (p.row, p.col) }
      else if t = 1 then .ok { cells := st.cells ++ [(p.row, p.col, .bool (b != 0))], fmla := (p.row, p.col) }
      else if t = 2 then
        match parseErr b with
        | .ok v => .ok { cells := st.cells ++ [(p.row, p.col, typeCached env p.xf v)], fmla := (p.row, p.col) }
        | .err e => .err e
        | .panic s => .panic s
        | .outOfFuel => .outOfFuel
      else if t = 3 then .ok { cells := st.cells ++ [(p.row, p.col, .str [])], fmla := (p.row, p.col) }
      else .err "Unrecognized:error" := by
  obtain ⟨s0, s2, s6, s7, sl⟩ := special_bytes t b ht hb
  obtain ⟨hl, h0, h2, h20, hbb, h4⟩ := fmla_reads p (special t b) rgce sl hg hr hc hxf
  have b6 := hbb 0 (by omega); have b8 := hbb 2 (by omega); have b12 := hbb 6 (by omega); have b13 := hbb 7 (by omega)
  rw [s0] at b6; rw [s2] at b8; rw [s6] at b12; rw [s7] at b13
  simp only [Nat.add_zero] at b6
  have hlt : ¬ (22 + rgce.length < 20) := by omega
  have hlt2 : ¬ (22 + rgce.length < 22) := by omega
  simp only [step, hl, h0, h2, h20, h4, parseFormulaValue, b6, b8,
    show byteAt (fmlaData p (special t b) rgce) 12 = 255 from b12,
    show byteAt (fmlaData p (special t b) rgce) 13 = 255 from b13]
  by_cases e0 : t = 0
  · simp [e0, hlt]
  · by_cases e1 : t = 1
    · simp [e1, hlt, typeCached]
    · by_cases e2 : t = 2
      · simp [e2, hlt]; cases parseErr b <;> simp
      · by_cases e3 : t = 3
        · simp [e3, hlt, typeCached]
        · simp [e0, e1, e2, e3, hlt]

/-! ### MULRK -/

theorem mulRkLoop_length (env : Env) (r : Bytes) (row : Nat) : ∀ (n off col : Nat),
    (mulRkLoop env r row n off col).length = n
  | 0, _, _ => rfl
  | n + 1, off, col => by simp [mulRkLoop, mulRkLoop_length env r row n]

theorem mulRkLoop_get (env : Env) (r : Bytes) (row : Nat) (n : Nat) : ∀ (off col i : Nat), i < n →
    (mulRkLoop env r row n off col)[i]? = some (row, col + i, rkNumAt env r (off + 6 * i)) := by
  induction n with
  | zero => intro _ _ i h; omega
  | succ n ih =>
    intro off col i h
    cases i with
    | zero => simp [mulRkLoop]
    | succ i =>
      simp only [mulRkLoop, List.getElem?_cons_succ]
      have hi : i < n := by omega
      rw [ih (off + 6) (col + 1) i hi, show col + 1 + i = col + (i + 1) by omega,
        show off + 6 + 6 * i = off + 6 * (i + 1) by omega]

/-- value of one element of an encoded run -/
def runVal (env : Env) (q : PC) : Val :=
  fmtNum (rkNum env.ops (rkWord q)) env.fmts[q.xf]? env.is1904

def runCells (env : Env) (row : Nat) : Nat → List PC → List Cell
  | _, [] => []
  | col, q :: g => (row, col, runVal env q) :: runCells env row (col + 1) g

theorem runBody_length (g : List PC) : (runBody g).length = 6 * g.length := by
  induction g with
  | nil => rfl
  | cons q g ih => simp [runBody, List.flatMap_cons] at *; omega

theorem mulRkLoop_run (env : Env) (row : Nat) (suf : Bytes) : ∀ (g : List PC) (pre : Bytes) (col : Nat),
    (∀ q ∈ g, q.xf < 65536 ∧ rkWord q < 4294967296) →
    mulRkLoop env (pre ++ (runBody g ++ suf)) row g.length pre.length col = runCells env row col g
  | [], _, _, _ => rfl
  | q :: g, pre, col, h => by
    obtain ⟨hx, hw⟩ := h q (by simp)
    have e : pre ++ (runBody (q :: g) ++ suf) = (pre ++ (le16 q.xf ++ le32 (rkWord q))) ++ (runBody g ++ suf) := by
      simp [runBody, List.flatMap_cons, List.append_assoc]
    have ih := mulRkLoop_run env row suf g (pre ++ (le16 q.xf ++ le32 (rkWord q))) (col + 1)
      (fun q' hq' => h q' (by simp [hq']))
    simp only [List.length_cons, mulRkLoop, runCells]
    congr 1
    · -- the value
      have e2 : pre ++ (runBody (q :: g) ++ suf) = pre ++ (le16 q.xf ++ (le32 (rkWord q) ++ (runBody g ++ suf))) := by
        simp [runBody, List.flatMap_cons, List.append_assoc]
      rw [e2]
      simp only [rkNumAt, runVal]
      have a1 : u16At (pre ++ (le16 q.xf ++ (le32 (rkWord q) ++ (runBody g ++ suf)))) pre.length = q.xf := by
        rw [u16At_append_right _ _ _ (by omega)]
        simp only [Nat.sub_self, u16At, List.drop_zero]; exact u16_le16 _ _ hx
      have a2 : u32At (pre ++ (le16 q.xf ++ (le32 (rkWord q) ++ (runBody g ++ suf)))) (pre.length + 2) = rkWord q := by
        rw [u32At_append_right _ _ _ (by omega), u32At_append_right _ _ _ (by simp)]
        simp only [le16_length, Nat.add_sub_cancel_left, Nat.sub_self, u32At, List.drop_zero]
        exact u32_le32 _ _ hw
      rw [a1, a2]
    · rw [e]
      have : (pre ++ (le16 q.xf ++ le32 (rkWord q))).length = pre.length + 6 := by simp
      rw [← this]; exact ih

theorem parseMulRk_run (env : Env) (row c0 : Nat) (g : List PC) (hne : g ≠ []) (hr : row < 65536)
    (hc : c0 + g.length ≤ 65536) (hg : ∀ q ∈ g, q.xf < 65536 ∧ rkWord q < 4294967296) :
    parseMulRk env (mulRkData row c0 g) = .ok (runCells env row c0 g) := by
  have hpos : 0 < g.length := List.length_pos_iff.mpr hne
  have hl : (mulRkData row c0 g).length = 6 + 6 * g.length := by
    simp [mulRkData, runBody_length]; omega
  have h0 : u16At (mulRkData row c0 g) 0 = row := by
    simp only [mulRkData, u16At, List.drop_zero, List.append_assoc]; exact u16_le16 _ _ hr
  have h2 : u16At (mulRkData row c0 g) 2 = c0 := by
    simp only [mulRkData, List.append_assoc]
    rw [u16At_append_right _ _ _ (by simp)]
    simp only [le16_length, Nat.sub_self, u16At, List.drop_zero]; exact u16_le16 _ _ (by omega)
  have hlast : u16At (mulRkData row c0 g) (6 + 6 * g.length - 2) = c0 + g.length - 1 := by
    simp only [mulRkData]
    rw [u16At_append_right _ _ _ (by simp; omega), u16At_append_right _ _ _ (by simp [runBody_length]; omega)]
    have : 6 + 6 * g.length - 2 - (le16 row ++ le16 c0).length - (runBody g).length = 0 := by
      simp [runBody_length]; omega
    rw [this]
    have := u16_le16 (c0 + g.length - 1) [] (by omega)
    simpa [u16At] using this
  unfold parseMulRk
  rw [hl, if_neg (by omega)]
  simp only [h2, hlast, h0]
  have hn : c0 + g.length - 1 + 1 - c0 = g.length := by omega
  rw [hn, if_neg (by omega)]
  congr 1
  have := mulRkLoop_run env row (le16 (c0 + g.length - 1)) g (le16 row ++ le16 c0) c0 hg
  simpa [mulRkData] using this

/-! ### framing -/

theorem hasLen_iff (s : Bytes) (n : Nat) : hasLen s n = decide (n ≤ s.length) := by
  cases n with
  | zero => simp [hasLen]
  | succ n =>
    simp only [hasLen]
    by_cases h : n + 1 ≤ s.length
    · simp [h]; omega
    · simp [h]; omega

/-- a record the framing theorem covers: 16-bit id other than CONTINUE, payload that fits the length field, no CONTINUE chunks -/
def plainRec (r : Rec) : Prop := r.typ < 65536 ∧ r.typ ≠ 0x3C ∧ r.data.length < 65536 ∧ r.cont = []

theorem frameRec_plain (r : Rec) (h : plainRec r) : frameRec r = le16 r.typ ++ (le16 r.data.length ++ r.data) := by
  obtain ⟨_, _, _, hc⟩ := h
  simp [frameRec, hc]

/-- the stream does not go on with a CONTINUE record -/
def noCont (rest : Bytes) : Prop := ¬ (hasLen rest 5 = true ∧ u16 rest = 0x3C)

theorem noCont_nil : noCont [] := by simp [noCont, hasLen]

theorem noCont_frame (r : Rec) (rest : Bytes) (h : plainRec r) : noCont (frameRec r ++ rest) := by
  intro ⟨_, h2⟩
  rw [frameRec_plain r h, List.append_assoc, u16_le16 _ _ h.1] at h2
  exact h.2.1 h2

theorem gather_noCont (fuel : Nat) (rest : Bytes) (h : noCont rest) : gather (fuel + 1) rest = .ok ([], rest) := by
  unfold gather
  have : (hasLen rest 5 && decide (u16 rest = 0x3C)) = false := by
    rw [Bool.and_eq_false_iff]
    by_cases h1 : hasLen rest 5 = true
    · right; simp only [decide_eq_false_iff_not]; exact fun h2 => h ⟨h1, h2⟩
    · left; simpa using h1
  simp [this]

theorem nextRecord_frame (r : Rec) (rest : Bytes) (h : plainRec r) (hr : noCont rest) :
    nextRecord (frameRec r ++ rest) = some (.ok (r, rest)) := by
  obtain ⟨ht, hne, hd, hc⟩ := h
  have e : frameRec r ++ rest = le16 r.typ ++ (le16 r.data.length ++ (r.data ++ rest)) := by
    simp [frameRec, hc, List.append_assoc]
  have hl : (frameRec r ++ rest).length = 4 + r.data.length + rest.length := by
    rw [e]; simp; omega
  unfold nextRecord
  have h4 : hasLen (frameRec r ++ rest) 4 = true := by rw [hasLen_iff, hl]; simp; omega
  have hlen : u16 ((frameRec r ++ rest).drop 2) = r.data.length := by
    rw [e]; simp only [List.drop_left' (le16_length _)]; exact u16_le16 _ _ hd
  have htyp : u16 (frameRec r ++ rest) = r.typ := by rw [e]; exact u16_le16 _ _ ht
  have hfull : hasLen (frameRec r ++ rest) (r.data.length + 4) = true := by rw [hasLen_iff, hl]; simp; omega
  simp only [h4, Bool.not_true, Bool.false_eq_true, if_false, hlen, hfull, htyp]
  have hdata : ((frameRec r ++ rest).take (r.data.length + 4)).drop 4 = r.data := by
    rw [e, ← List.append_assoc, ← List.append_assoc, List.take_left' (by simp; omega)]
    rw [List.drop_left' (by simp)]
  have hrest : (frameRec r ++ rest).drop (r.data.length + 4) = rest := by
    rw [e, ← List.append_assoc, ← List.append_assoc, List.drop_left' (by simp; omega)]
  rw [hdata, hrest, gather_noCont _ rest hr]
  cases r; simp_all

theorem frame_cons (r : Rec) (rs : List Rec) : frame (r :: rs) = frameRec r ++ frame rs := by
  simp [frame]

theorem noCont_frame_list (rs : List Rec) (h : ∀ r ∈ rs, plainRec r) : noCont (frame rs) := by
  cases rs with
  | nil => exact noCont_nil
  | cons r rs => rw [frame_cons]; exact noCont_frame r _ (h r (by simp))

theorem itemsF_frame : ∀ (rs : List Rec) (fuel : Nat), (∀ r ∈ rs, plainRec r) → rs.length < fuel →
    itemsF fuel (frame rs) = rs.map .record
  | [], fuel, _, hf => by
    cases fuel with
    | zero => omega
    | succ f => simp [itemsF, frame, nextRecord, hasLen]
  | r :: rs, fuel, h, hf => by
    cases fuel with
    | zero => omega
    | succ f =>
      rw [frame_cons]
      simp only [itemsF, nextRecord_frame r (frame rs) (h r (by simp)) (noCont_frame_list rs (fun x hx => h x (by simp [hx])))]
      rw [itemsF_frame rs f (fun x hx => h x (by simp [hx])) (by simp at hf; omega)]
      simp

theorem frame_length_ge (rs : List Rec) : 4 * rs.length ≤ (frame rs).length := by
  induction rs with
  | nil => simp [frame]
  | cons r rs ih =>
    rw [frame_cons]
    have : 4 ≤ (frameRec r).length := by simp [frameRec]; omega
    simp only [List.length_append, List.length_cons]; omega

/-- `RecordIter` over the framed records yields exactly those records -/
theorem items_frame (rs : List Rec) (h : ∀ r ∈ rs, plainRec r) : items (frame rs) = rs.map .record := by
  unfold items
  exact itemsF_frame rs _ h (by have := frame_length_ge rs; omega)

end BiffCells
