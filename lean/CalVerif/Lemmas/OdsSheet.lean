import CalVerif.Spec.OdsSheet
import CalVerif.Lemmas.OdsCell
/-! Helper lemmas for the composed sheet statement of C04: typing every cell event. -/
namespace OdsSheet
open OdsRange OdsCell

theorem typeCell_eq (ev : CellEv) (h : CellOk ev) :
    typeCell ev = .ok (cellValue ev.attrs (cellContent ev), cellFormula ev.attrs) := by
  obtain ⟨o, ho, hf, h1, h2⟩ := getDatatype_spec ev.attrs h.1
  unfold typeCell
  rw [ho]
  simp only
  cases hu : o.useText with
  | false =>
    simp only [Bool.false_eq_true, if_false]
    rw [h1 hu (cellContent ev), hf]
  | true =>
    obtain ⟨hn, hs, hv⟩ := h2 hu
    obtain ⟨t, r, ht⟩ := h.2 hn hs
    simp only [if_true]
    rw [ht]
    simp only
    rw [hv (cellContent ev), hf]
    simp only [cellContent, ht]

theorem typeRow_eq : ∀ (evs : List CellEv), (∀ ev ∈ evs, CellOk ev) →
    typeRow evs = .ok (evs.map fun ev => (ev.kind, (cellValue ev.attrs (cellContent ev), cellFormula ev.attrs), ev.count))
  | [], _ => rfl
  | ev :: rest, h => by
    rw [typeRow, typeCell_eq ev (h ev (by simp)), typeRow_eq rest (fun e he => h e (by simp [he]))]
    rfl

theorem typeRows_eq : ∀ (rows : List (Nat × List CellEv)), (∀ row ∈ rows, ∀ ev ∈ row.2, CellOk ev) →
    typeRows rows = .ok (typedRuns rows)
  | [], _ => rfl
  | (k, evs) :: rest, h => by
    rw [typeRows, typeRow_eq evs (h (k, evs) (by simp)), typeRows_eq rest (fun r hr => h r (by simp [hr]))]
    rfl

end OdsSheet
