import CalVerif.Lemmas.Metadata
import CalVerif.Model.MetadataCompose
import CalVerif.Lemmas.BiffSteps
import CalVerif.Spec.BiffEnc
import CalVerif.Spec.XlsbEnc
/-! Lemmas for the hand-over theorems of Props/C16.lean (`date1904_reaches_cells_*`): facts about C03's sheet
    specification (`Xlsb.valueOf`, `Xlsb.specCells`: which flag a `DateTime` carries) and about C02's substream
    (it does not start with a CONTINUE record; the stream splits at the end of the globals). -/
open Meta MetaEnc MetaLemmas

namespace MetaLemmas

/-- numeric cell content of an xlsb cell record: BrtCellReal / BrtFmlaNum (`real`) or BrtCellRk (`rk`, all four encodings) -/
def xlsbNumeric : Xlsb.Content → Prop
  | .rk _ => True
  | .real _ => True
  | _ => False

theorem xlsb_styled_date (ctx : Xlsb.Ctx) (style bits : Nat) (h : ctx.formats[style % 16777216]? = some 1 ∨ ctx.formats[style % 16777216]? = some 2) :
    ∃ td, Xlsb.styled ctx style bits = .dateTime bits td ctx.is1904 := by
  rcases h with h | h
  · exact ⟨false, by simp [Xlsb.styled, h]⟩
  · exact ⟨true, by simp [Xlsb.styled, h]⟩

/-- every numeric record kind and encoding under a date/time style reads as a DateTime with the context's flag -/
theorem xlsb_valueOf_date (ctx : Xlsb.Ctx) (style : Nat) (c : Xlsb.Content) (hn : xlsbNumeric c)
    (h : ctx.formats[style % 16777216]? = some 1 ∨ ctx.formats[style % 16777216]? = some 2) :
    ∃ bits td, Xlsb.valueOf ctx style c = some (.dateTime bits td ctx.is1904) := by
  cases c with
  | rk w =>
    simp only [Xlsb.valueOf]
    split
    · split
      · obtain ⟨td, e⟩ := xlsb_styled_date ctx style (Xlsb.fdiv100 (Xlsb.i2f (Xlsb.rkIntSpec w))) h
        exact ⟨_, td, by rw [e]⟩
      · obtain ⟨td, e⟩ := xlsb_styled_date ctx style (Xlsb.i2f (Xlsb.rkIntSpec w)) h
        exact ⟨_, td, by rw [e]⟩
    · obtain ⟨td, e⟩ := xlsb_styled_date ctx style _ h
      exact ⟨_, td, by rw [e]⟩
  | real bits =>
    obtain ⟨td, e⟩ := xlsb_styled_date ctx style bits h
    exact ⟨bits, td, by simp [Xlsb.valueOf, e]⟩
  | blank => exact absurd hn (by simp [xlsbNumeric])
  | err c => exact absurd hn (by simp [xlsbNumeric])
  | bool b => exact absurd hn (by simp [xlsbNumeric])
  | str us => exact absurd hn (by simp [xlsbNumeric])
  | isst i => exact absurd hn (by simp [xlsbNumeric])

theorem xlsb_styled_flag (ctx : Xlsb.Ctx) (style bits b : Nat) (td f : Bool) (h : Xlsb.styled ctx style bits = .dateTime b td f) :
    f = ctx.is1904 := by
  unfold Xlsb.styled at h
  split at h <;> simp at h <;> simp [h]

/-- no cell value the specification of a sheet lists carries another flag than the context's -/
theorem xlsb_valueOf_flag (ctx : Xlsb.Ctx) (style : Nat) (c : Xlsb.Content) (b : Nat) (td f : Bool)
    (h : Xlsb.valueOf ctx style c = some (.dateTime b td f)) : f = ctx.is1904 := by
  cases c with
  | rk w =>
    simp only [Xlsb.valueOf] at h
    split at h
    · split at h
      · exact xlsb_styled_flag ctx style _ b td f (by simpa using h)
      · split at h
        · simp at h
        · rename_i v hv
          simp at h
          exact xlsb_styled_flag ctx style _ b td f h
    · exact xlsb_styled_flag ctx style _ b td f (by simpa using h)
  | real bits => exact xlsb_styled_flag ctx style bits b td f (by simpa [Xlsb.valueOf] using h)
  | blank => simp [Xlsb.valueOf] at h
  | err c => simp only [Xlsb.valueOf] at h; split at h <;> simp at h
  | bool b' => simp [Xlsb.valueOf] at h
  | str us => simp [Xlsb.valueOf] at h
  | isst i => simp only [Xlsb.valueOf] at h; cases ctx.strings[i]? <;> simp at h

theorem xlsb_specCells_flag (ctx : Xlsb.Ctx) : ∀ (items : List Xlsb.Item) (row : Nat), ∀ c ∈ Xlsb.specCells ctx items row,
    ∀ (b : Nat) (td f : Bool), c.2.2 = .dateTime b td f → f = ctx.is1904 := by
  intro items
  induction items with
  | nil => intro row c hc; simp [Xlsb.specCells] at hc
  | cons it rest ih =>
    intro row c hc b td f hv
    cases it with
    | row r x => exact ih r c (by simpa [Xlsb.specCells] using hc) b td f hv
    | raw id p => exact ih row c (by simpa [Xlsb.specCells] using hc) b td f hv
    | cell cr =>
      simp only [Xlsb.specCells] at hc
      cases hval : Xlsb.valueOf ctx cr.style cr.content with
      | none => rw [hval] at hc; exact ih row c hc b td f hv
      | some v =>
        rw [hval] at hc
        simp only [List.mem_cons] at hc
        rcases hc with rfl | hc
        · simp only at hv; subst hv
          exact xlsb_valueOf_flag ctx cr.style cr.content b td f hval
        · exact ih row c hc b td f hv

theorem encodeGlobals_tail (recs : List GRec) (tail : Bytes) : encodeGlobals recs tail = encodeGlobals recs [] ++ tail := by
  simp [encodeGlobals, List.append_assoc]

theorem notCont_substream (env : BiffCells.Env) (S : List BiffCells.LCell) (lays : List BiffCells.Lay) :
    Biff.notCont (BiffCells.substream env S lays) := by
  have hp : BiffCells.plainRec BiffCells.bofRec := by
    refine ⟨by decide, by decide, by decide, rfl⟩
  have : BiffCells.substream env S lays = BiffCells.frameRec BiffCells.bofRec ++ BiffCells.frame (BiffCells.encodeSheet env S lays ++ [BiffCells.eofRec]) := by
    simp [BiffCells.substream, BiffCells.frame]
  rw [this]
  exact BiffCells.noCont_frame BiffCells.bofRec _ hp


end MetaLemmas
