import CalVerif.Lemmas.PtgXlsb
/-! The A1 text does not depend on how the context is represented: congruence of `renderA1` in the environment,
    and agreement of the decoders' environments with the spec-level one (`specEnv`). -/
namespace Formula
open Ptg

/-- the two environments give the same answer on what this token asks of them -/
def Tok.envAgree (e1 e2 : Env) : Tok → Prop
  | .ref3d _ i _ => e1.sheet i = e2.sheet i
  | .area3d _ i _ _ => e1.sheet i = e2.sheet i
  | .refErr3d _ i => e1.sheet i = e2.sheet i
  | .areaErr3d _ i => e1.sheet i = e2.sheet i
  | .name _ i => e1.name i = e2.name i
  | .num b => e1.fmtNum b = e2.fmtNum b
  | _ => True

mutual
theorem renderA1_congr (e1 e2 : Env) : ∀ (e : Expr), (∀ t ∈ toRpn e, t.envAgree e1 e2) →
    renderA1 e1 e = renderA1 e2 e
  | .ref _ _, _ => by simp [renderA1]
  | .area _ _ _, _ => by simp [renderA1]
  | .ref3d c i a, h => by
    have := h (.ref3d c i a) (by simp [toRpn]); simp only [Tok.envAgree] at this; simp [renderA1, this]
  | .area3d c i a b, h => by
    have := h (.area3d c i a b) (by simp [toRpn]); simp only [Tok.envAgree] at this; simp [renderA1, this]
  | .name c i, h => by
    have := h (.name c i) (by simp [toRpn]); simp only [Tok.envAgree] at this; simp [renderA1, this]
  | .int _, _ => by simp [renderA1]
  | .num b, h => by
    have := h (.num b) (by simp [toRpn]); simp only [Tok.envAgree] at this; simp [renderA1, this]
  | .str _ _, _ => by simp [renderA1]
  | .bool _, _ => by simp [renderA1]
  | .err _, _ => by simp [renderA1]
  | .missing, _ => by simp [renderA1]
  | .uplus e, h => by
    simp only [renderA1]; rw [renderA1_congr e1 e2 e (fun t ht => h t (by simp [toRpn, ht]))]
  | .uminus e, h => by
    simp only [renderA1]; rw [renderA1_congr e1 e2 e (fun t ht => h t (by simp [toRpn, ht]))]
  | .percent e, h => by
    simp only [renderA1]; rw [renderA1_congr e1 e2 e (fun t ht => h t (by simp [toRpn, ht]))]
  | .paren e, h => by
    simp only [renderA1]; rw [renderA1_congr e1 e2 e (fun t ht => h t (by simp [toRpn, ht]))]
  | .sum e, h => by
    simp only [renderA1]; rw [renderA1_congr e1 e2 e (fun t ht => h t (by simp [toRpn, ht]))]
  | .bin op a b, h => by
    simp only [renderA1]
    rw [renderA1_congr e1 e2 a (fun t ht => h t (by simp [toRpn, ht])),
      renderA1_congr e1 e2 b (fun t ht => h t (by simp [toRpn, ht]))]
  | .func c i args, h => by
    simp only [renderA1]; rw [renderArgs_congr e1 e2 args (fun t ht => h t (by simp [toRpn, ht]))]
  | .funcVar c i args, h => by
    simp only [renderA1]; rw [renderArgs_congr e1 e2 args (fun t ht => h t (by simp [toRpn, ht]))]
  | .inert t e, h => by
    simp only [renderA1]; exact renderA1_congr e1 e2 e (fun t' ht => h t' (by simp [toRpn, ht]))
theorem renderArgs_congr (e1 e2 : Env) : ∀ (args : List Expr), (∀ t ∈ toRpnArgs args, t.envAgree e1 e2) →
    renderArgs e1 args = renderArgs e2 args
  | [], _ => by simp [renderArgs]
  | [a], h => by
    simp only [renderArgs]; exact renderA1_congr e1 e2 a (fun t ht => h t (by simp [toRpnArgs, ht]))
  | a :: b :: rest, h => by
    simp only [renderArgs]
    rw [renderA1_congr e1 e2 a (fun t ht => h t (by simp [toRpnArgs, ht])),
      renderArgs_congr e1 e2 (b :: rest) (fun t ht => h t (by rw [toRpnArgs]; exact List.mem_append_right _ ht))]
end

/-- the context of a formula as the property describes it: a 3-D reference with index `ixti` designates the sheet
    whose index is the `itab_first` of the XTI entry; names by 0-based index -/
def specEnv (sheets names : List (List Char)) (xtis : List Int) (fmt : Nat → List Char) : Env :=
  ⟨fun ixti => match xtis[ixti]? with
      | some it => (sheets[it.toNat]?).getD []
      | none => [],
   fun i => (names[i]?).getD [], fmt⟩

/-- every sheet / name index of the token resolves -/
def Tok.refsOk (sheets names : List (List Char)) (xtis : List Int) : Tok → Prop
  | .ref3d _ i _ => ∃ it, xtis[i]? = some it ∧ 0 ≤ it ∧ it.toNat < sheets.length
  | .area3d _ i _ _ => ∃ it, xtis[i]? = some it ∧ 0 ≤ it ∧ it.toNat < sheets.length
  | .refErr3d _ i => ∃ it, xtis[i]? = some it ∧ 0 ≤ it ∧ it.toNat < sheets.length
  | .areaErr3d _ i => ∃ it, xtis[i]? = some it ∧ 0 ≤ it ∧ it.toNat < sheets.length
  | .name _ i => i < names.length
  | _ => True

theorem sheet_agree_xls (sheets names : List (List Char)) (xtis : List Int) (fmt : Nat → List Char) (i : Nat)
    (h : ∃ it, xtis[i]? = some it ∧ 0 ≤ it ∧ it.toNat < sheets.length) :
    (envOfXls ⟨sheets, names, xtis, fmt⟩).sheet i = (specEnv sheets names xtis fmt).sheet i := by
  obtain ⟨it, h1, h2, h3⟩ := h
  have hn : ¬ it < 0 := by omega
  simp [envOfXls, sheetXls, specEnv, h1, hn, h3]

theorem sheet_agree_xlsb (sheets names : List (List Char)) (xtis : List Int) (fmt : Nat → List Char) (i : Nat)
    (h : ∃ it, xtis[i]? = some it ∧ 0 ≤ it ∧ it.toNat < sheets.length) :
    (envOfXlsb ⟨resolveExtern sheets xtis, names, [], fmt⟩).sheet i = (specEnv sheets names xtis fmt).sheet i ∧
    i < (resolveExtern sheets xtis).length := by
  obtain ⟨it, h1, h2, h3⟩ := h
  have hi : i < xtis.length := by
    rcases Nat.lt_or_ge i xtis.length with h | h
    · exact h
    · simp [List.getElem?_eq_none h] at h1
  have hg : xtis[i] = it := by
    have := List.getElem?_eq_getElem hi
    rw [this] at h1; exact Option.some.inj h1
  have h2' : ¬ it = -2 := by omega
  have h1' : ¬ it = -1 := by omega
  constructor
  · have hs : sheets[it.toNat]? = some sheets[it.toNat] := List.getElem?_eq_getElem h3
    simp only [envOfXlsb, specEnv, resolveExtern, List.getElem?_map, h1, Option.map_some, h2', h1', h2, if_false,
      if_true, hs, Option.getD_some]
  · simp only [resolveExtern, List.length_map]; exact hi

theorem tok_agree_xls (sheets names : List (List Char)) (xtis : List Int) (fmt : Nat → List Char) (t : Tok)
    (h : t.refsOk sheets names xtis) :
    t.envAgree (envOfXls ⟨sheets, names, xtis, fmt⟩) (specEnv sheets names xtis fmt) := by
  cases t <;> simp only [Tok.envAgree] <;> try trivial
  case ref3d c i a => exact sheet_agree_xls sheets names xtis fmt i h
  case area3d c i a b => exact sheet_agree_xls sheets names xtis fmt i h
  case refErr3d c i => exact sheet_agree_xls sheets names xtis fmt i h
  case areaErr3d c i => exact sheet_agree_xls sheets names xtis fmt i h
  case name c i =>
    have hi : i < names.length := h
    simp [envOfXls, specEnv, hi]

theorem tok_agree_xlsb (sheets names : List (List Char)) (xtis : List Int) (fmt : Nat → List Char) (t : Tok)
    (h : t.refsOk sheets names xtis) :
    t.envAgree (envOfXlsb ⟨resolveExtern sheets xtis, names, [], fmt⟩) (specEnv sheets names xtis fmt) ∧
    t.sheetOk (resolveExtern sheets xtis).length := by
  cases t <;> simp only [Tok.envAgree, Tok.sheetOk] <;> try (exact ⟨trivial, trivial⟩)
  case ref3d c i a => exact sheet_agree_xlsb sheets names xtis fmt i h
  case area3d c i a b => exact sheet_agree_xlsb sheets names xtis fmt i h
  case refErr3d c i => exact sheet_agree_xlsb sheets names xtis fmt i h
  case areaErr3d c i => exact sheet_agree_xlsb sheets names xtis fmt i h
  case name c i =>
    have hi : i < names.length := h
    simp [envOfXlsb, specEnv, hi]
  case num b => exact ⟨rfl, trivial⟩

end Formula
