import CalVerif.Lemmas.PtgXls
/-! xlsb byte layer: decoding the encoding of a token yields its edit and consumes exactly its bytes. -/
namespace Formula
open Ptg

def decodeTokXlsb (ctx : Ctx) : Bytes → Res (Act × Bytes)
  | [] => .err "empty"
  | p :: r => if isMemFunc p.toNat then .err "memfunc" else decodeXlsb ctx p.toNat r

def envOfXlsb (ctx : Ctx) : Env :=
  ⟨fun i => (ctx.sheets[i]?).getD [], fun i => (ctx.names[i]?).getD [], ctx.fmtNum⟩

/-- the extern-sheet index of a 3-D token is inside the table (`&sheets[ixti]` is unchecked in xlsb) -/
def Tok.sheetOk (n : Nat) : Tok → Prop
  | .ref3d _ i _ => i < n
  | .area3d _ i _ _ => i < n
  | .refErr3d _ i => i < n
  | .areaErr3d _ i => i < n
  | _ => True

theorem sheetXlsb_ok (ctx : Ctx) (i : Nat) (h : i < ctx.sheets.length) :
    sheetXlsb ctx i = (ctx.sheets[i]?).getD [] := by
  simp [sheetXlsb, h]

theorem db_ref (ctx : Ctx) (c : Nat) (a : CellRef) (hwf : (Tok.ref c a).wf false) (rest : Bytes) :
    decodeTokXlsb ctx (encXlsb (Tok.ref c a) ++ rest) = .ok (actOf (envOfXlsb ctx) false (Tok.ref c a), rest) := by
  simp only [Tok.wf, CellRef.wf, Bool.false_eq_true, if_false] at hwf
  obtain ⟨hc, hr, hcol⟩ := hwf
  have hcr := colRel_lt a hcol
  rcases cls_cases c hc with rfl | rfl | rfl <;>
  simp [decodeTokXlsb, isMemFunc, encXlsb, opc, decodeXlsb, actOf, need_16, need_32, need_unfold, need_zero, u16_le16, u32_le32,
    u16_skip32, drop_16, drop_32, hr, hcr, cellRef_colRel, hcol]

theorem db_area (ctx : Ctx) (c : Nat) (a a2 : CellRef) (hwf : (Tok.area c a a2).wf false) (rest : Bytes) :
    decodeTokXlsb ctx (encXlsb (Tok.area c a a2) ++ rest) =
      .ok (actOf (envOfXlsb ctx) false (Tok.area c a a2), rest) := by
  simp only [Tok.wf, CellRef.wf, Bool.false_eq_true, if_false] at hwf
  obtain ⟨hc, ⟨hr, hcol⟩, ⟨hr2, hcol2⟩⟩ := hwf
  have hcr := colRel_lt a hcol
  have hcr2 := colRel_lt a2 hcol2
  rcases cls_cases c hc with rfl | rfl | rfl <;>
  simp [decodeTokXlsb, isMemFunc, encXlsb, opc, decodeXlsb, actOf, need_16, need_32, need_unfold, need_zero, u16_le16, u32_le32,
    u16_skip32, u32_skip32, u16_skip16, drop_16, drop_32, hr, hcr, cellRef_colRel, hcol, hr2, hcr2, hcol2]

theorem db_ref3d (ctx : Ctx) (c i : Nat) (a : CellRef) (hwf : (Tok.ref3d c i a).wf false)
    (hs : i < ctx.sheets.length) (rest : Bytes) :
    decodeTokXlsb ctx (encXlsb (Tok.ref3d c i a) ++ rest) =
      .ok (actOf (envOfXlsb ctx) false (Tok.ref3d c i a), rest) := by
  simp only [Tok.wf, CellRef.wf, Bool.false_eq_true, if_false] at hwf
  obtain ⟨hc, hi, hr, hcol⟩ := hwf
  have hcr := colRel_lt a hcol
  rcases cls_cases c hc with rfl | rfl | rfl <;>
  simp [decodeTokXlsb, isMemFunc, encXlsb, opc, decodeXlsb, actOf, envOfXlsb, need_16, need_32, need_unfold, need_zero, u16_le16,
    u32_le32, u16_skip32, u16_skip16, u32_skip16, drop_16, drop_32, hr, hcr, cellRef_colRel, hcol, hi,
    sheetXlsb_ok ctx i hs]

theorem db_area3d (ctx : Ctx) (c i : Nat) (a a2 : CellRef) (hwf : (Tok.area3d c i a a2).wf false)
    (hs : i < ctx.sheets.length) (rest : Bytes) :
    decodeTokXlsb ctx (encXlsb (Tok.area3d c i a a2) ++ rest) =
      .ok (actOf (envOfXlsb ctx) false (Tok.area3d c i a a2), rest) := by
  simp only [Tok.wf, CellRef.wf, Bool.false_eq_true, if_false] at hwf
  obtain ⟨hc, hi, ⟨hr, hcol⟩, ⟨hr2, hcol2⟩⟩ := hwf
  have hcr := colRel_lt a hcol
  have hcr2 := colRel_lt a2 hcol2
  rcases cls_cases c hc with rfl | rfl | rfl <;>
  simp [decodeTokXlsb, isMemFunc, encXlsb, opc, decodeXlsb, actOf, envOfXlsb, need_16, need_32, need_unfold, need_zero, u16_le16,
    u32_le32, u16_skip32, u32_skip32, u16_skip16, u32_skip16, drop_16, drop_32, hr, hcr, cellRef_colRel, hcol, hr2,
    hcr2, hcol2, hi, sheetXlsb_ok ctx i hs]

theorem db_refErr (ctx : Ctx) (c : Nat) (hwf : (Tok.refErr c).wf false) (rest : Bytes) :
    decodeTokXlsb ctx (encXlsb (Tok.refErr c) ++ rest) = .ok (actOf (envOfXlsb ctx) false (Tok.refErr c), rest) := by
  rcases cls_cases c hwf with rfl | rfl | rfl <;>
  simp [decodeTokXlsb, isMemFunc, encXlsb, opc, decodeXlsb, actOf, zeros, List.replicate, need_succ, need_unfold, need_zero]

theorem db_areaErr (ctx : Ctx) (c : Nat) (hwf : (Tok.areaErr c).wf false) (rest : Bytes) :
    decodeTokXlsb ctx (encXlsb (Tok.areaErr c) ++ rest) = .ok (actOf (envOfXlsb ctx) false (Tok.areaErr c), rest) := by
  rcases cls_cases c hwf with rfl | rfl | rfl <;>
  simp [decodeTokXlsb, isMemFunc, encXlsb, opc, decodeXlsb, actOf, zeros, List.replicate, need_succ, need_unfold, need_zero]

theorem db_refErr3d (ctx : Ctx) (c i : Nat) (hwf : (Tok.refErr3d c i).wf false) (hs : i < ctx.sheets.length)
    (rest : Bytes) :
    decodeTokXlsb ctx (encXlsb (Tok.refErr3d c i) ++ rest) =
      .ok (actOf (envOfXlsb ctx) false (Tok.refErr3d c i), rest) := by
  obtain ⟨hc, hi⟩ := hwf
  rcases cls_cases c hc with rfl | rfl | rfl <;>
  simp [decodeTokXlsb, isMemFunc, encXlsb, opc, decodeXlsb, actOf, envOfXlsb, zeros, List.replicate, need_16, need_succ,
    need_unfold, need_zero, u16_le16, drop_16, hi, sheetXlsb_ok ctx i hs]

theorem db_areaErr3d (ctx : Ctx) (c i : Nat) (hwf : (Tok.areaErr3d c i).wf false) (hs : i < ctx.sheets.length)
    (rest : Bytes) :
    decodeTokXlsb ctx (encXlsb (Tok.areaErr3d c i) ++ rest) =
      .ok (actOf (envOfXlsb ctx) false (Tok.areaErr3d c i), rest) := by
  obtain ⟨hc, hi⟩ := hwf
  rcases cls_cases c hc with rfl | rfl | rfl <;>
  simp [decodeTokXlsb, isMemFunc, encXlsb, opc, decodeXlsb, actOf, envOfXlsb, zeros, List.replicate, need_16, need_succ,
    need_unfold, need_zero, u16_le16, drop_16, hi, sheetXlsb_ok ctx i hs]

theorem db_name (ctx : Ctx) (c i : Nat) (hwf : (Tok.name c i).wf false) (rest : Bytes) :
    decodeTokXlsb ctx (encXlsb (Tok.name c i) ++ rest) = .ok (actOf (envOfXlsb ctx) false (Tok.name c i), rest) := by
  obtain ⟨hc, hi⟩ := hwf
  rcases cls_cases c hc with rfl | rfl | rfl <;>
  simp [decodeTokXlsb, isMemFunc, encXlsb, opc, decodeXlsb, actOf, envOfXlsb, need_32, need_unfold, need_zero, u32_le32, drop_32, hi]

theorem db_int (ctx : Ctx) (n : Nat) (hwf : (Tok.int n).wf false) (rest : Bytes) :
    decodeTokXlsb ctx (encXlsb (Tok.int n) ++ rest) = .ok (actOf (envOfXlsb ctx) false (Tok.int n), rest) := by
  simp [Tok.wf] at hwf
  simp [decodeTokXlsb, isMemFunc, encXlsb, decodeXlsb, actOf, need_16, need_unfold, need_zero, u16_le16, drop_16, hwf]

theorem db_num (ctx : Ctx) (bits : Nat) (hwf : (Tok.num bits).wf false) (rest : Bytes) :
    decodeTokXlsb ctx (encXlsb (Tok.num bits) ++ rest) = .ok (actOf (envOfXlsb ctx) false (Tok.num bits), rest) := by
  simp [Tok.wf] at hwf
  simp [decodeTokXlsb, isMemFunc, encXlsb, decodeXlsb, actOf, envOfXlsb, need_64, need_unfold, need_zero, u64_le64, drop_64, hwf]

theorem db_str (ctx : Ctx) (w : Bool) (s : List Char) (hwf : (Tok.str w s).wf false) (rest : Bytes) :
    decodeTokXlsb ctx (encXlsb (Tok.str w s) ++ rest) = .ok (actOf (envOfXlsb ctx) false (Tok.str w s), rest) := by
  simp only [Tok.wf, Bool.false_eq_true, if_false] at hwf
  obtain ⟨hlen, _⟩ := hwf
  simp only [decodeTokXlsb, encXlsb, List.cons_append, List.append_assoc]
  have h17 : (0x17 : UInt8).toNat = 0x17 := rfl
  rw [h17]
  have hm : isMemFunc 0x17 = false := by decide
  simp only [hm, Bool.false_eq_true, if_false, decodeXlsb]
  have hl16 : ∀ (m : Nat) (r : Bytes), (le16 m ++ r).length = 2 + r.length := by intro m r; simp [le16]; omega
  rw [need_ok false _ 2 (by rw [hl16]; omega), show (2 : Nat) = 0 + 2 from rfl, u16_le16 _ _ hlen]
  simp only [Res.bind_ok]
  rw [need_ok false _ _ (by rw [hl16, List.length_append, unitsLe_length]; omega)]
  simp only [Res.bind_ok]
  rw [Nat.add_comm (0 + 2), drop_16, Nat.zero_add, ← unitsLe_length, List.drop_left' rfl]
  have hu : units (le16 (utf16Units s).length ++ (unitsLe (utf16Units s) ++ rest)) 2 (utf16Units s).length =
      utf16Units s := by
    rw [show (2 : Nat) = 0 + 2 from rfl, units_skip16, units_unitsLe _ (utf16Units_lt s)]
  rw [hu, decodeUtf16_utf16Units]
  simp [actOf]

theorem db_bool (ctx : Ctx) (v : Bool) (_hwf : (Tok.bool v).wf false) (rest : Bytes) :
    decodeTokXlsb ctx (encXlsb (Tok.bool v) ++ rest) = .ok (actOf (envOfXlsb ctx) false (Tok.bool v), rest) := by
  cases v <;> simp [decodeTokXlsb, isMemFunc, encXlsb, decodeXlsb, actOf, need_succ, need_unfold, need_zero, byteAt_zero]

theorem db_err (ctx : Ctx) (code : Nat) (hwf : (Tok.err code).wf false) (rest : Bytes) :
    decodeTokXlsb ctx (encXlsb (Tok.err code) ++ rest) = .ok (actOf (envOfXlsb ctx) false (Tok.err code), rest) := by
  have h8 : code < 256 := by
    simp [Tok.wf] at hwf
    rcases hwf with rfl | rfl | rfl | rfl | rfl | rfl | rfl | rfl <;> decide
  simp [decodeTokXlsb, isMemFunc, encXlsb, decodeXlsb, actOf, need_succ, need_unfold, need_zero, byteAt_zero, toNat_ofNat8 _ h8,
    errText_errName code hwf]

theorem db_missArg (ctx : Ctx) (rest : Bytes) :
    decodeTokXlsb ctx (encXlsb Tok.missArg ++ rest) = .ok (actOf (envOfXlsb ctx) false Tok.missArg, rest) := by
  simp [decodeTokXlsb, isMemFunc, encXlsb, decodeXlsb, actOf]

theorem db_binop (ctx : Ctx) (op : Nat) (hwf : (Tok.binop op).wf false) (rest : Bytes) :
    decodeTokXlsb ctx (encXlsb (Tok.binop op) ++ rest) = .ok (actOf (envOfXlsb ctx) false (Tok.binop op), rest) := by
  obtain ⟨h1, h2⟩ := hwf
  have : op = 3 ∨ op = 4 ∨ op = 5 ∨ op = 6 ∨ op = 7 ∨ op = 8 ∨ op = 9 ∨ op = 10 ∨ op = 11 ∨ op = 12 ∨
      op = 13 ∨ op = 14 ∨ op = 15 ∨ op = 16 ∨ op = 17 := by omega
  rcases this with rfl | rfl | rfl | rfl | rfl | rfl | rfl | rfl | rfl | rfl | rfl | rfl | rfl | rfl | rfl <;>
  simp [decodeTokXlsb, isMemFunc, encXlsb, decodeXlsb, actOf, opText, opName]

theorem db_simple (ctx : Ctx) (t : Tok) (h : t = .uplus ∨ t = .uminus ∨ t = .percent ∨ t = .paren ∨ t = .attrSum)
    (rest : Bytes) :
    decodeTokXlsb ctx (encXlsb t ++ rest) = .ok (actOf (envOfXlsb ctx) false t, rest) := by
  rcases h with rfl | rfl | rfl | rfl | rfl <;>
  simp [decodeTokXlsb, isMemFunc, encXlsb, decodeXlsb, actOf, need_succ, need_unfold, need_zero, byteAt_zero]

theorem db_attrSkip (ctx : Ctx) (e w : Nat) (hwf : (Tok.attrSkip e w).wf false) (rest : Bytes) :
    decodeTokXlsb ctx (encXlsb (Tok.attrSkip e w) ++ rest) =
      .ok (actOf (envOfXlsb ctx) false (Tok.attrSkip e w), rest) := by
  obtain ⟨he, hw⟩ := hwf
  simp at he
  rcases he with rfl | rfl | rfl | rfl | rfl <;>
  simp [decodeTokXlsb, isMemFunc, encXlsb, decodeXlsb, actOf, need_succ, need_16, need_unfold, need_zero, byteAt_zero, drop_16]

theorem db_attrChoose (ctx : Ctx) (offs : List Nat) (hwf : (Tok.attrChoose offs).wf false) (rest : Bytes) :
    decodeTokXlsb ctx (encXlsb (Tok.attrChoose offs) ++ rest) =
      .ok (actOf (envOfXlsb ctx) false (Tok.attrChoose offs), rest) := by
  obtain ⟨h1, h2, _⟩ := hwf
  have hn : offs.length - 1 + 1 = offs.length := by omega
  have h16 : offs.length - 1 < 65536 := by omega
  simp only [decodeTokXlsb, encXlsb, List.cons_append, List.append_assoc]
  have h19 : (0x19 : UInt8).toNat = 0x19 := rfl
  have h04 : (0x04 : UInt8).toNat = 0x04 := rfl
  have hm : isMemFunc 0x19 = false := by decide
  rw [h19]
  simp only [hm, Bool.false_eq_true, if_false, decodeXlsb, byteAt_zero, h04, List.drop_succ_cons, List.drop_zero]
  have hl16 : ∀ (m : Nat) (r : Bytes), (le16 m ++ r).length = 2 + r.length := by intro m r; simp [le16]; omega
  rw [need_ok false _ 1 (by simp), need_ok false _ 2 (by rw [hl16]; omega), u16_le16 _ _ h16, hn,
    need_ok false _ _ (by rw [hl16, List.length_append, unitsLe_length]; omega)]
  simp only [Res.bind_ok]
  rw [Nat.add_comm 2, show 2 * offs.length + 2 = (unitsLe offs).length + 2 from by rw [unitsLe_length], drop_16,
    List.drop_left' rfl]
  rfl

theorem db_func (ctx : Ctx) (c iftab : Nat) (hwf : (Tok.func c iftab).wf false) (rest : Bytes) :
    decodeTokXlsb ctx (encXlsb (Tok.func c iftab) ++ rest) =
      .ok (actOf (envOfXlsb ctx) false (Tok.func c iftab), rest) := by
  obtain ⟨hc, hi⟩ := hwf
  obtain ⟨n, hn⟩ := ftabArgc_some iftab hi
  have hi16 : iftab < 65536 := by
    have : Gen.ftabLen = 485 := by decide +kernel
    omega
  have hnl : ¬ iftab ≥ Gen.ftabLen := by omega
  rcases cls_cases c hc with rfl | rfl | rfl <;>
  · simp only [decodeTokXlsb, encXlsb, opc, List.cons_append]
    simp only [isMemFunc, decodeXlsb, decodeFuncFixed, actOf, need_16, need_unfold, need_zero, u16_le16 _ _ hi16, drop_16, hnl, hn,
      Res.bind_ok, if_false, Option.getD_some, List.drop_zero]
    first | rfl | simp

theorem db_funcVar (ctx : Ctx) (c argc iftab : Nat) (hwf : (Tok.funcVar c argc iftab).wf false) (rest : Bytes) :
    decodeTokXlsb ctx (encXlsb (Tok.funcVar c argc iftab) ++ rest) =
      .ok (actOf (envOfXlsb ctx) false (Tok.funcVar c argc iftab), rest) := by
  obtain ⟨hc, ha, hi⟩ := hwf
  have hi16 : iftab < 65536 := by
    have : Gen.ftabLen = 485 := by decide +kernel
    omega
  rcases cls_cases c hc with rfl | rfl | rfl <;>
  · simp only [decodeTokXlsb, encXlsb, opc, List.cons_append]
    simp only [isMemFunc, decodeXlsb, decodeFuncVar, actOf, need_succ, need_16, need_unfold, need_zero, u16_succ, byteAt_zero,
      u16_le16 _ _ hi16, toNat_ofNat8 _ ha, Res.bind_ok, List.drop_succ_cons, drop_16, List.drop_zero]
    first | rfl | simp

theorem decode_encode_xlsb (ctx : Ctx) (t : Tok) (hwf : t.wf false) (hs : t.sheetOk ctx.sheets.length)
    (rest : Bytes) :
    decodeTokXlsb ctx (encXlsb t ++ rest) = .ok (actOf (envOfXlsb ctx) false t, rest) := by
  cases t with
  | ref c a => exact db_ref ctx c a hwf rest
  | area c a a2 => exact db_area ctx c a a2 hwf rest
  | ref3d c i a => exact db_ref3d ctx c i a hwf hs rest
  | area3d c i a a2 => exact db_area3d ctx c i a a2 hwf hs rest
  | refErr c => exact db_refErr ctx c hwf rest
  | areaErr c => exact db_areaErr ctx c hwf rest
  | refErr3d c i => exact db_refErr3d ctx c i hwf hs rest
  | areaErr3d c i => exact db_areaErr3d ctx c i hwf hs rest
  | name c i => exact db_name ctx c i hwf rest
  | int n => exact db_int ctx n hwf rest
  | num bits => exact db_num ctx bits hwf rest
  | str w s => exact db_str ctx w s hwf rest
  | bool v => exact db_bool ctx v hwf rest
  | err code => exact db_err ctx code hwf rest
  | missArg => exact db_missArg ctx rest
  | binop op => exact db_binop ctx op hwf rest
  | uplus => exact db_simple ctx _ (by simp) rest
  | uminus => exact db_simple ctx _ (by simp) rest
  | percent => exact db_simple ctx _ (by simp) rest
  | paren => exact db_simple ctx _ (by simp) rest
  | attrSum => exact db_simple ctx _ (by simp) rest
  | attrSkip e w => exact db_attrSkip ctx e w hwf rest
  | attrChoose offs => exact db_attrChoose ctx offs hwf rest
  | func c iftab => exact db_func ctx c iftab hwf rest
  | funcVar c argc iftab => exact db_funcVar ctx c argc iftab hwf rest

theorem encXlsb_cons (t : Tok) : ∃ p body, encXlsb t = p :: body := by
  cases t <;> simp [encXlsb]

theorem runXlsb_step (ctx : Ctx) (d : Nat) (fuel : Nat) (p : UInt8) (r : Bytes) (st : St) (a : Act) (r' : Bytes)
    (h : decodeTokXlsb ctx (p :: r) = .ok (a, r')) :
    runXlsb ctx d (fuel + 1) (p :: r) st =
      (match applyAct a st with
        | .ok st' => runXlsb ctx d fuel r' st'
        | .err e => .err e
        | .panic e => .panic e
        | .outOfFuel => .outOfFuel) := by
  simp only [decodeTokXlsb] at h
  by_cases hm : isMemFunc p.toNat = true
  · simp [hm] at h
  · have hm' : isMemFunc p.toNat = false := by simpa using hm
    simp only [hm', Bool.false_eq_true, if_false] at h
    simp only [runXlsb, hm', Bool.false_eq_true, if_false, h]
    cases applyAct a st <;> rfl

theorem runXlsb_encode (ctx : Ctx) (d : Nat) : ∀ (toks : List Tok), (∀ t ∈ toks, t.wf false ∧ t.sheetOk ctx.sheets.length) →
    ∀ (fuel : Nat) (rest : Bytes) (st : St),
    runXlsb ctx d (toks.length + fuel) (encodeXlsb toks ++ rest) st =
      (match runActs (toks.map (actOf (envOfXlsb ctx) false)) st with
        | .ok st' => runXlsb ctx d fuel rest st'
        | .err e => .err e
        | .panic e => .panic e
        | .outOfFuel => .outOfFuel)
  | [], _, fuel, rest, st => by simp [encodeXlsb, runActs]
  | t :: ts, hwf, fuel, rest, st => by
    obtain ⟨p, body, hp⟩ := encXlsb_cons t
    have hd := decode_encode_xlsb ctx t (hwf t (by simp)).1 (hwf t (by simp)).2 (encodeXlsb ts ++ rest)
    rw [hp] at hd
    simp only [List.cons_append] at hd
    have hlen : (t :: ts).length + fuel = (ts.length + fuel) + 1 := by simp; omega
    have henc : encodeXlsb (t :: ts) ++ rest = p :: (body ++ (encodeXlsb ts ++ rest)) := by
      simp [encodeXlsb, hp]
    rw [hlen, henc, runXlsb_step ctx d _ p _ st _ _ hd]
    simp only [List.map_cons, runActs]
    cases applyAct (actOf (envOfXlsb ctx) false t) st with
    | ok st' => simp only; exact runXlsb_encode ctx d ts (fun t' ht' => hwf t' (by simp [ht'])) fuel rest st'
    | err e => rfl
    | panic e => rfl
    | outOfFuel => rfl

theorem encodeXlsb_length_ge (toks : List Tok) : toks.length ≤ (encodeXlsb toks).length := by
  induction toks with
  | nil => simp [encodeXlsb]
  | cons t ts ih =>
    obtain ⟨p, body, hp⟩ := encXlsb_cons t
    simp only [encodeXlsb, List.flatMap_cons, List.length_append, hp, List.length_cons] at *
    omega

theorem runXlsb_nil (ctx : Ctx) (d : Nat) (fuel : Nat) (st : St) : runXlsb ctx d fuel [] st = .ok st := by
  cases fuel <;> rfl

theorem toRpn_length_pos (e : Expr) : 0 < (toRpn e).length := by
  cases e <;> simp [toRpn] <;> omega

theorem parseFormulaXlsb_encode (ctx : Ctx) (e : Expr) (harity : e.arityOk)
    (hwf : ∀ t ∈ toRpn e, t.wf false ∧ t.sheetOk ctx.sheets.length) :
    parseFormulaXlsb ctx (encodeXlsb (toRpn e)) = .ok (renderA1 (envOfXlsb ctx) e) := by
  unfold parseFormulaXlsb
  generalize hb : encodeXlsb (toRpn e) = body at *
  have hge : (toRpn e).length ≤ body.length := by rw [← hb]; exact encodeXlsb_length_ge _
  have hpos := toRpn_length_pos e
  have hne : body.isEmpty = false := by
    cases body with
    | nil => simp only [List.length_nil] at hge; omega
    | cons _ _ => rfl
  simp only [hne, Bool.false_eq_true, if_false]
  have hrun := runXlsb_encode ctx 0 (toRpn e) hwf (body.length - (toRpn e).length) [] ⟨[], []⟩
  rw [hb, List.append_nil, show (toRpn e).length + (body.length - (toRpn e).length) = body.length by omega] at hrun
  have hm := machine_correct (envOfXlsb ctx) false e harity [] [] []
  simp only [List.append_nil, runActs, List.nil_append, List.length_nil] at hm
  rw [hrun, hm]
  simp [runXlsb_nil, finishXlsb]

end Formula
