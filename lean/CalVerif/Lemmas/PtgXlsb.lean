import CalVerif.Lemmas.PtgXls
/-! xlsb byte layer: decoding the encoding of a token yields its edit and consumes exactly its bytes. -/
namespace Formula
open Ptg

def decodeTokXlsb (ctx : Ctx) : Bytes → Res (Act × Bytes)
  | [] => .err "empty"
  | p :: r => if isMemFunc p.toNat then .err "memfunc" else decodeXlsb ctx p.toNat r

def envOfXlsb (ctx : Ctx) : Env :=
  ⟨fun i => (ctx.sheets[i]?).getD [], fun i => (ctx.names[i]?).getD [], ctx.fmtNum⟩

/-- the extern-sheet index of a 3-D token is inside the table (`&sheets[ixti]` is unchecked in xlsb) -/
def Tok.sheetOk (n : Nat) : Tok → Prop
  | .ref3d _ i _ => i < n
  | .area3d _ i _ _ => i < n
  | .refErr3d _ i => i < n
  | .areaErr3d _ i => i < n
  | _ => True

theorem sheetXlsb_ok (ctx : Ctx) (i : Nat) (h : i < ctx.sheets.length) :
    sheetXlsb ctx i = .ok ((ctx.sheets[i]?).getD []) := by
  simp [sheetXlsb, h]

theorem db_ref (ctx : Ctx) (c : Nat) (a : CellRef) (hwf : (Tok.ref c a).wf false) (rest : Bytes) :
    decodeTokXlsb ctx (encXlsb (Tok.ref c a) ++ rest) = .ok (actOf (envOfXlsb ctx) false (Tok.ref c a), rest) := by
  simp only [Tok.wf, CellRef.wf, Bool.false_eq_true, if_false] at hwf
  obtain ⟨hc, hr, hcol⟩ := hwf
  have hcr := colRel_lt a hcol
  rcases cls_cases c hc with rfl | rfl | rfl <;>
  simp [decodeTokXlsb, isMemFunc, encXlsb, opc, decodeXlsb, actOf, need_16, need_32, need_zero, u16_le16, u32_le32,
    u16_skip32, drop_16, drop_32, hr, hcr, cellRef_colRel, hcol]

theorem db_area (ctx : Ctx) (c : Nat) (a a2 : CellRef) (hwf : (Tok.area c a a2).wf false) (rest : Bytes) :
    decodeTokXlsb ctx (encXlsb (Tok.area c a a2) ++ rest) =
      .ok (actOf (envOfXlsb ctx) false (Tok.area c a a2), rest) := by
  simp only [Tok.wf, CellRef.wf, Bool.false_eq_true, if_false] at hwf
  obtain ⟨hc, ⟨hr, hcol⟩, ⟨hr2, hcol2⟩⟩ := hwf
  have hcr := colRel_lt a hcol
  have hcr2 := colRel_lt a2 hcol2
  rcases cls_cases c hc with rfl | rfl | rfl <;>
  simp [decodeTokXlsb, isMemFunc, encXlsb, opc, decodeXlsb, actOf, need_16, need_32, need_zero, u16_le16, u32_le32,
    u16_skip32, u32_skip32, u16_skip16, drop_16, drop_32, hr, hcr, cellRef_colRel, hcol, hr2, hcr2, hcol2]

theorem db_ref3d (ctx : Ctx) (c i : Nat) (a : CellRef) (hwf : (Tok.ref3d c i a).wf false)
    (hs : i < ctx.sheets.length) (rest : Bytes) :
    decodeTokXlsb ctx (encXlsb (Tok.ref3d c i a) ++ rest) =
      .ok (actOf (envOfXlsb ctx) false (Tok.ref3d c i a), rest) := by
  simp only [Tok.wf, CellRef.wf, Bool.false_eq_true, if_false] at hwf
  obtain ⟨hc, hi, hr, hcol⟩ := hwf
  have hcr := colRel_lt a hcol
  rcases cls_cases c hc with rfl | rfl | rfl <;>
  simp [decodeTokXlsb, isMemFunc, encXlsb, opc, decodeXlsb, actOf, envOfXlsb, need_16, need_32, need_zero, u16_le16,
    u32_le32, u16_skip32, u16_skip16, u32_skip16, drop_16, drop_32, hr, hcr, cellRef_colRel, hcol, hi,
    sheetXlsb_ok ctx i hs]

theorem db_area3d (ctx : Ctx) (c i : Nat) (a a2 : CellRef) (hwf : (Tok.area3d c i a a2).wf false)
    (hs : i < ctx.sheets.length) (rest : Bytes) :
    decodeTokXlsb ctx (encXlsb (Tok.area3d c i a a2) ++ rest) =
      .ok (actOf (envOfXlsb ctx) false (Tok.area3d c i a a2), rest) := by
  simp only [Tok.wf, CellRef.wf, Bool.false_eq_true, if_false] at hwf
  obtain ⟨hc, hi, ⟨hr, hcol⟩, ⟨hr2, hcol2⟩⟩ := hwf
  have hcr := colRel_lt a hcol
  have hcr2 := colRel_lt a2 hcol2
  rcases cls_cases c hc with rfl | rfl | rfl <;>
  simp [decodeTokXlsb, isMemFunc, encXlsb, opc, decodeXlsb, actOf, envOfXlsb, need_16, need_32, need_zero, u16_le16,
    u32_le32, u16_skip32, u32_skip32, u16_skip16, u32_skip16, drop_16, drop_32, hr, hcr, cellRef_colRel, hcol, hr2,
    hcr2, hcol2, hi, sheetXlsb_ok ctx i hs]

theorem db_refErr (ctx : Ctx) (c : Nat) (hwf : (Tok.refErr c).wf false) (rest : Bytes) :
    decodeTokXlsb ctx (encXlsb (Tok.refErr c) ++ rest) = .ok (actOf (envOfXlsb ctx) false (Tok.refErr c), rest) := by
  rcases cls_cases c hwf with rfl | rfl | rfl <;>
  simp [decodeTokXlsb, isMemFunc, encXlsb, opc, decodeXlsb, actOf, zeros, List.replicate, need_succ, need_zero]

theorem db_areaErr (ctx : Ctx) (c : Nat) (hwf : (Tok.areaErr c).wf false) (rest : Bytes) :
    decodeTokXlsb ctx (encXlsb (Tok.areaErr c) ++ rest) = .ok (actOf (envOfXlsb ctx) false (Tok.areaErr c), rest) := by
  rcases cls_cases c hwf with rfl | rfl | rfl <;>
  simp [decodeTokXlsb, isMemFunc, encXlsb, opc, decodeXlsb, actOf, zeros, List.replicate, need_succ, need_zero]

theorem db_refErr3d (ctx : Ctx) (c i : Nat) (hwf : (Tok.refErr3d c i).wf false) (hs : i < ctx.sheets.length)
    (rest : Bytes) :
    decodeTokXlsb ctx (encXlsb (Tok.refErr3d c i) ++ rest) =
      .ok (actOf (envOfXlsb ctx) false (Tok.refErr3d c i), rest) := by
  obtain ⟨hc, hi⟩ := hwf
  rcases cls_cases c hc with rfl | rfl | rfl <;>
  simp [decodeTokXlsb, isMemFunc, encXlsb, opc, decodeXlsb, actOf, envOfXlsb, zeros, List.replicate, need_16, need_succ,
    need_zero, u16_le16, drop_16, hi, sheetXlsb_ok ctx i hs]

theorem db_areaErr3d (ctx : Ctx) (c i : Nat) (hwf : (Tok.areaErr3d c i).wf false) (hs : i < ctx.sheets.length)
    (rest : Bytes) :
    decodeTokXlsb ctx (encXlsb (Tok.areaErr3d c i) ++ rest) =
      .ok (actOf (envOfXlsb ctx) false (Tok.areaErr3d c i), rest) := by
  obtain ⟨hc, hi⟩ := hwf
  rcases cls_cases c hc with rfl | rfl | rfl <;>
  simp [decodeTokXlsb, isMemFunc, encXlsb, opc, decodeXlsb, actOf, envOfXlsb, zeros, List.replicate, need_16, need_succ,
    need_zero, u16_le16, drop_16, hi, sheetXlsb_ok ctx i hs]

theorem db_name (ctx : Ctx) (c i : Nat) (hwf : (Tok.name c i).wf false) (rest : Bytes) :
    decodeTokXlsb ctx (encXlsb (Tok.name c i) ++ rest) = .ok (actOf (envOfXlsb ctx) false (Tok.name c i), rest) := by
  obtain ⟨hc, hi⟩ := hwf
  rcases cls_cases c hc with rfl | rfl | rfl <;>
  simp [decodeTokXlsb, isMemFunc, encXlsb, opc, decodeXlsb, actOf, envOfXlsb, need_32, need_zero, u32_le32, drop_32, hi]

theorem db_int (ctx : Ctx) (n : Nat) (hwf : (Tok.int n).wf false) (rest : Bytes) :
    decodeTokXlsb ctx (encXlsb (Tok.int n) ++ rest) = .ok (actOf (envOfXlsb ctx) false (Tok.int n), rest) := by
  simp [Tok.wf] at hwf
  simp [decodeTokXlsb, isMemFunc, encXlsb, decodeXlsb, actOf, need_16, need_zero, u16_le16, drop_16, hwf]

theorem db_num (ctx : Ctx) (bits : Nat) (hwf : (Tok.num bits).wf false) (rest : Bytes) :
    decodeTokXlsb ctx (encXlsb (Tok.num bits) ++ rest) = .ok (actOf (envOfXlsb ctx) false (Tok.num bits), rest) := by
  simp [Tok.wf] at hwf
  simp [decodeTokXlsb, isMemFunc, encXlsb, decodeXlsb, actOf, envOfXlsb, need_64, need_zero, u64_le64, drop_64, hwf]

theorem db_str (ctx : Ctx) (w : Bool) (s : List Char) (hwf : (Tok.str w s).wf false) (rest : Bytes) :
    decodeTokXlsb ctx (encXlsb (Tok.str w s) ++ rest) = .ok (actOf (envOfXlsb ctx) false (Tok.str w s), rest) := by
  simp only [Tok.wf, Bool.false_eq_true, if_false] at hwf
  obtain ⟨hlen, _⟩ := hwf
  simp only [decodeTokXlsb, encXlsb, List.cons_append, List.append_assoc]
  have h17 : (0x17 : UInt8).toNat = 0x17 := rfl
  rw [h17]
  have hm : isMemFunc 0x17 = false := by decide
  simp only [hm, Bool.false_eq_true, if_false, decodeXlsb]
  rw [show (2 : Nat) = 0 + 2 from rfl, need_16, need_zero, u16_le16 _ _ hlen]
  simp only [Res.bind_ok]
  rw [Nat.add_comm (0 + 2), need_16, drop_16, ← unitsLe_length, Nat.add_zero, need_self]
  simp only [Res.bind_ok]
  rw [List.drop_left' rfl]
  have hu : units (le16 (utf16Units s).length ++ (unitsLe (utf16Units s) ++ rest)) 2 (utf16Units s).length =
      utf16Units s := by
    rw [show (2 : Nat) = 0 + 2 from rfl, units_skip16, units_unitsLe _ (utf16Units_lt s)]
  rw [hu, decodeUtf16_utf16Units]
  simp [actOf]

theorem db_bool (ctx : Ctx) (v : Bool) (_hwf : (Tok.bool v).wf false) (rest : Bytes) :
    decodeTokXlsb ctx (encXlsb (Tok.bool v) ++ rest) = .ok (actOf (envOfXlsb ctx) false (Tok.bool v), rest) := by
  cases v <;> simp [decodeTokXlsb, isMemFunc, encXlsb, decodeXlsb, actOf, need_succ, need_zero, byteAt_zero]

theorem db_err (ctx : Ctx) (code : Nat) (hwf : (Tok.err code).wf false) (rest : Bytes) :
    decodeTokXlsb ctx (encXlsb (Tok.err code) ++ rest) = .ok (actOf (envOfXlsb ctx) false (Tok.err code), rest) := by
  have h8 : code < 256 := by
    simp [Tok.wf] at hwf
    rcases hwf with rfl | rfl | rfl | rfl | rfl | rfl | rfl | rfl <;> decide
  simp [decodeTokXlsb, isMemFunc, encXlsb, decodeXlsb, actOf, need_succ, need_zero, byteAt_zero, toNat_ofNat8 _ h8,
    errText_errName code hwf]

theorem db_missArg (ctx : Ctx) (rest : Bytes) :
    decodeTokXlsb ctx (encXlsb Tok.missArg ++ rest) = .ok (actOf (envOfXlsb ctx) false Tok.missArg, rest) := by
  simp [decodeTokXlsb, isMemFunc, encXlsb, decodeXlsb, actOf]

theorem db_binop (ctx : Ctx) (op : Nat) (hwf : (Tok.binop op).wf false) (rest : Bytes) :
    decodeTokXlsb ctx (encXlsb (Tok.binop op) ++ rest) = .ok (actOf (envOfXlsb ctx) false (Tok.binop op), rest) := by
  obtain ⟨h1, h2⟩ := hwf
  have : op = 3 ∨ op = 4 ∨ op = 5 ∨ op = 6 ∨ op = 7 ∨ op = 8 ∨ op = 9 ∨ op = 10 ∨ op = 11 ∨ op = 12 ∨
      op = 13 ∨ op = 14 ∨ op = 15 ∨ op = 16 ∨ op = 17 := by omega
  rcases this with rfl | rfl | rfl | rfl | rfl | rfl | rfl | rfl | rfl | rfl | rfl | rfl | rfl | rfl | rfl <;>
  simp [decodeTokXlsb, isMemFunc, encXlsb, decodeXlsb, actOf, opText, opName]

theorem db_simple (ctx : Ctx) (t : Tok) (h : t = .uplus ∨ t = .uminus ∨ t = .percent ∨ t = .paren ∨ t = .attrSum)
    (rest : Bytes) :
    decodeTokXlsb ctx (encXlsb t ++ rest) = .ok (actOf (envOfXlsb ctx) false t, rest) := by
  rcases h with rfl | rfl | rfl | rfl | rfl <;>
  simp [decodeTokXlsb, isMemFunc, encXlsb, decodeXlsb, actOf, need_succ, need_zero, byteAt_zero]

theorem db_attrSkip (ctx : Ctx) (e w : Nat) (hwf : (Tok.attrSkip e w).wf false) (rest : Bytes) :
    decodeTokXlsb ctx (encXlsb (Tok.attrSkip e w) ++ rest) =
      .ok (actOf (envOfXlsb ctx) false (Tok.attrSkip e w), rest) := by
  obtain ⟨he, hw⟩ := hwf
  simp at he
  rcases he with rfl | rfl | rfl | rfl | rfl <;>
  simp [decodeTokXlsb, isMemFunc, encXlsb, decodeXlsb, actOf, need_succ, need_16, need_zero, byteAt_zero, drop_16]

theorem db_func (ctx : Ctx) (c iftab : Nat) (hwf : (Tok.func c iftab).wf false) (rest : Bytes) :
    decodeTokXlsb ctx (encXlsb (Tok.func c iftab) ++ rest) =
      .ok (actOf (envOfXlsb ctx) false (Tok.func c iftab), rest) := by
  obtain ⟨hc, hi⟩ := hwf
  obtain ⟨n, hn⟩ := ftabArgc_some iftab hi
  have hi16 : iftab < 65536 := by
    have : Gen.ftabLen = 485 := by decide +kernel
    omega
  have hnl : ¬ iftab ≥ Gen.ftabLen := by omega
  rcases cls_cases c hc with rfl | rfl | rfl <;>
  · simp only [decodeTokXlsb, encXlsb, opc, List.cons_append]
    simp only [isMemFunc, decodeXlsb, decodeFuncFixed, actOf, need_16, need_zero, u16_le16 _ _ hi16, drop_16, hnl, hn,
      Res.bind_ok, if_false, Option.getD_some, List.drop_zero]
    first | rfl | simp

theorem db_funcVar (ctx : Ctx) (c argc iftab : Nat) (hwf : (Tok.funcVar c argc iftab).wf false) (rest : Bytes) :
    decodeTokXlsb ctx (encXlsb (Tok.funcVar c argc iftab) ++ rest) =
      .ok (actOf (envOfXlsb ctx) false (Tok.funcVar c argc iftab), rest) := by
  obtain ⟨hc, ha, hi⟩ := hwf
  have hi16 : iftab < 65536 := by
    have : Gen.ftabLen = 485 := by decide +kernel
    omega
  rcases cls_cases c hc with rfl | rfl | rfl <;>
  · simp only [decodeTokXlsb, encXlsb, opc, List.cons_append]
    simp only [isMemFunc, decodeXlsb, decodeFuncVar, actOf, need_succ, need_16, need_zero, u16_succ, byteAt_zero,
      u16_le16 _ _ hi16, toNat_ofNat8 _ ha, Res.bind_ok, List.drop_succ_cons, drop_16, List.drop_zero]
    first | rfl | simp

end Formula
