import CalVerif.Lemmas.BiffSheet
import CalVerif.Lemmas.Range
/-! C02 helper lemmas, fuel: the loop budgets of the model (`gather`, `itemsF`) always suffice and no other
    definition can return `outOfFuel` (termination side of the model; the theorem is `sheetRange_total` in Props/C02). -/

namespace BiffCells
open Biff

theorem gather_fuel : ∀ (fuel : Nat) (s : Bytes), s.length < 4 * fuel →
    gather fuel s ≠ .outOfFuel ∧ ∀ fs rest, gather fuel s = .ok (fs, rest) → rest.length ≤ s.length
  | 0, s, h => by omega
  | fuel + 1, s, h => by
    unfold gather
    by_cases hc : (hasLen s 5 && decide (u16 s = 0x3C)) = true
    · simp only [hc, if_true]
      by_cases hl : (!hasLen s (u16 (s.drop 2) + 4)) = true
      · simp [hl]
      · simp only [hl, Bool.false_eq_true, if_false]
        have h5 : 5 ≤ s.length := by
          simp only [Bool.and_eq_true, hasLen_iff, decide_eq_true_eq] at hc; exact hc.1
        have hd : (s.drop (u16 (s.drop 2) + 4)).length < 4 * fuel := by
          simp only [List.length_drop]; omega
        obtain ⟨ih1, ih2⟩ := gather_fuel fuel (s.drop (u16 (s.drop 2) + 4)) hd
        cases hg : gather fuel (s.drop (u16 (s.drop 2) + 4)) with
        | ok p =>
          obtain ⟨fs, rest⟩ := p
          simp only [Res.bind_ok, Res.pure_eq]
          refine ⟨by simp, ?_⟩
          intro fs' rest' heq
          simp only [Res.ok.injEq, Prod.mk.injEq] at heq
          have := ih2 fs rest hg
          rw [← heq.2]; simp only [List.length_drop] at this; omega
        | err e => simp
        | panic e => simp
        | outOfFuel => exact absurd hg ih1
    · simp only [hc, Bool.false_eq_true, if_false]
      refine ⟨by simp, ?_⟩
      intro fs rest heq
      simp only [Res.ok.injEq, Prod.mk.injEq] at heq
      rw [← heq.2]; exact Nat.le_refl _

theorem nextRecord_fuel (s : Bytes) :
    nextRecord s ≠ some .outOfFuel ∧ ∀ r rest, nextRecord s = some (.ok (r, rest)) → rest.length + 4 ≤ s.length := by
  unfold nextRecord
  by_cases h4 : (!hasLen s 4) = true
  · simp only [h4, if_true]
    by_cases he : s.isEmpty = true <;> simp [he]
  · simp only [h4, Bool.false_eq_true, if_false]
    have h4' : 4 ≤ s.length := by
      simp only [Bool.not_eq_true', Bool.not_eq_false, hasLen_iff, decide_eq_true_eq] at h4
      simpa using h4
    by_cases hl : (!hasLen s (u16 (s.drop 2) + 4)) = true
    · simp [hl]
    · simp only [hl, Bool.false_eq_true, if_false]
      obtain ⟨g1, g2⟩ := gather_fuel ((s.drop (u16 (s.drop 2) + 4)).length / 4 + 1) (s.drop (u16 (s.drop 2) + 4)) (by omega)
      cases hg : gather ((s.drop (u16 (s.drop 2) + 4)).length / 4 + 1) (s.drop (u16 (s.drop 2) + 4)) with
      | ok p =>
        obtain ⟨fs, rest⟩ := p
        simp only [Res.bind_ok, Res.pure_eq]
        refine ⟨by simp, ?_⟩
        intro r rest' heq
        simp only [Option.some.injEq, Res.ok.injEq, Prod.mk.injEq] at heq
        have := g2 fs rest hg
        rw [← heq.2]; simp only [List.length_drop] at this; omega
      | err e => simp
      | panic e => simp
      | outOfFuel => exact absurd hg g1

theorem itemsF_fuel : ∀ (fuel : Nat) (s : Bytes), s.length < 4 * fuel → Item.fail .outOfFuel ∉ itemsF fuel s
  | 0, s, h => by omega
  | fuel + 1, s, h => by
    obtain ⟨n1, n2⟩ := nextRecord_fuel s
    unfold itemsF
    cases hn : nextRecord s with
    | none => simp
    | some x =>
      cases x with
      | ok p =>
        obtain ⟨r, rest⟩ := p
        have := n2 r rest hn
        have ih := itemsF_fuel fuel rest (by omega)
        simp only [List.mem_cons, not_or]
        exact ⟨by simp, ih⟩
      | err e => simp
      | panic e => simp
      | outOfFuel => exact absurd hn n1

/-- the fuel `items` gives `RecordIter` always suffices: every record consumes at least four bytes -/
theorem items_fuel (s : Bytes) : Item.fail .outOfFuel ∉ items s :=
  itemsF_fuel _ s (by omega)

theorem parseErr_ne_fuel (e : Nat) : parseErr e ≠ .outOfFuel := by
  unfold parseErr; repeat' split
  all_goals simp

theorem parseStringWith_ne_fuel (n : Nat) (r : Bytes) (b : Bool) : parseStringWith n r b ≠ .outOfFuel := by
  unfold parseStringWith; split <;> simp

theorem parseNumber_ne_fuel (env : Env) (r : Bytes) : parseNumber env r ≠ .outOfFuel := by
  unfold parseNumber; split <;> simp
theorem parseRk_ne_fuel (env : Env) (r : Bytes) : parseRk env r ≠ .outOfFuel := by
  unfold parseRk; split <;> simp
theorem parseMulRk_ne_fuel (env : Env) (r : Bytes) : parseMulRk env r ≠ .outOfFuel := by
  unfold parseMulRk; split
  · simp
  · simp only; split <;> simp
theorem parseBoolErr_ne_fuel (r : Bytes) : parseBoolErr r ≠ .outOfFuel := by
  have := parseErr_ne_fuel (byteAt r 6)
  unfold parseBoolErr; split
  · simp
  · split
    · simp
    · split
      · cases h : parseErr (byteAt r 6) <;> simp_all
      · simp
theorem parseLabel_ne_fuel (r : Bytes) : parseLabel r ≠ .outOfFuel := by
  have := parseStringWith_ne_fuel 3 (r.drop 6) true
  unfold parseLabel; split
  · simp
  · cases h : parseStringWith 3 (r.drop 6) true <;> simp_all
theorem parseLabelSst_ne_fuel (env : Env) (r : Bytes) : parseLabelSst env r ≠ .outOfFuel := by
  unfold parseLabelSst; split
  · simp
  · split <;> simp
theorem parseDimensions_ne_fuel (r : Bytes) : parseDimensions r ≠ .outOfFuel := by
  unfold parseDimensions
  split
  · simp only; split <;> simp
  · split
    · simp only; split <;> simp
    · simp
theorem parseMergeCells_ne_fuel (r : Bytes) : parseMergeCells r ≠ .outOfFuel := by
  unfold parseMergeCells; split
  · simp
  · split <;> simp
theorem parseFormulaValue_ne_fuel (r : Bytes) : parseFormulaValue r ≠ .outOfFuel := by
  have := parseErr_ne_fuel (byteAt r 8)
  unfold parseFormulaValue
  split
  · split
    · simp
    · split
      · simp
      · split
        · cases h : parseErr (byteAt r 8) <;> simp_all
        · split <;> simp
  · simp

/-- no arm of the worksheet loop runs out of fuel (none of them loops) -/
theorem step_ne_fuel (env : Env) (st : St) (r : Rec) : step env st r ≠ .outOfFuel := by
  have a1 := parseDimensions_ne_fuel r.data
  have a2 := parseNumber_ne_fuel env r.data
  have a3 := parseLabel_ne_fuel r.data
  have a4 := parseBoolErr_ne_fuel r.data
  have a5 := parseStringWith_ne_fuel 3 r.data true
  have a6 := parseRk_ne_fuel env r.data
  have a7 := parseLabelSst_ne_fuel env r.data
  have a8 := parseMulRk_ne_fuel env r.data
  have a9 := parseMergeCells_ne_fuel r.data
  have a10 := parseFormulaValue_ne_fuel r.data
  unfold step
  by_cases h1 : r.typ = 0x0200
  · simp only [h1, if_true]; cases h : parseDimensions r.data <;> simp_all
  simp only [h1, if_false]
  by_cases h2 : r.typ = 0x0203
  · simp only [h2, if_true]; cases h : parseNumber env r.data <;> simp_all
  simp only [h2, if_false]
  by_cases h3 : r.typ = 0x0204
  · simp only [h3, if_true]; cases h : parseLabel r.data <;> simp_all
  simp only [h3, if_false]
  by_cases h4 : r.typ = 0x0205
  · simp only [h4, if_true]; cases h : parseBoolErr r.data <;> simp_all
  simp only [h4, if_false]
  by_cases h5 : r.typ = 0x0207
  · simp only [h5, if_true]; cases h : parseStringWith 3 r.data true <;> simp_all
  simp only [h5, if_false]
  by_cases h6 : r.typ = 0x027E
  · simp only [h6, if_true]; cases h : parseRk env r.data <;> simp_all
  simp only [h6, if_false]
  by_cases h7 : r.typ = 0x00FD
  · simp only [h7, if_true]
    cases h : parseLabelSst env r.data with
    | ok o => cases o <;> simp
    | err e => simp
    | panic e => simp
    | outOfFuel => exact absurd h a7
  simp only [h7, if_false]
  by_cases h8 : r.typ = 0x00BD
  · simp only [h8, if_true]; cases h : parseMulRk env r.data <;> simp_all
  simp only [h8, if_false]
  by_cases h9 : r.typ = 0x00E5
  · simp only [h9, if_true]; cases h : parseMergeCells r.data <;> simp_all
  simp only [h9, if_false]
  by_cases h10 : r.typ = 0x0006
  · simp only [h10, if_true]
    split
    · simp
    · cases h : parseFormulaValue r.data with
      | ok o => cases o <;> simp
      | err e => simp
      | panic e => simp
      | outOfFuel => exact absurd h a10
  simp [h10]

theorem failAs_ne_fuel {α : Type} (e : Res Unit) (h : e ≠ .outOfFuel) : (failAs e : Res α) ≠ .outOfFuel := by
  cases e <;> simp_all [failAs]

theorem sheetLoop_ne_fuel (env : Env) : ∀ (its : List Item) (st : St), Item.fail .outOfFuel ∉ its →
    sheetLoop env its st ≠ .outOfFuel
  | [], _, _ => by simp [sheetLoop]
  | .fail e :: rest, st, h => by
    simp only [sheetLoop]
    apply failAs_ne_fuel
    intro he; apply h; rw [he]; simp
  | .record r :: rest, st, h => by
    simp only [sheetLoop]
    split
    · simp
    · have hs := step_ne_fuel env st r
      cases hst : step env st r with
      | ok st' => simp only; exact sheetLoop_ne_fuel env rest st' (fun hm => h (by simp [hm]))
      | err e => simp
      | panic e => simp
      | outOfFuel => exact absurd hst hs

theorem fromSparse_ne_fuel {α : Type} [Inhabited α] (cells : List (Nat × Nat × α)) :
    Range.fromSparse cells ≠ .outOfFuel := Range.fromSparse_ne_fuel cells

end BiffCells
