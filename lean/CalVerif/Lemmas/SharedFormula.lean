import CalVerif.Model.SharedFormula
import CalVerif.Spec.FormulaTokens
/-! Helper lemmas for property C15 (shared-formula translation). -/

namespace SharedFormula
open FormulaTokens (Tok letter colLetters dec dollar renderTok render shiftTok shift move identChar
  letterVal colVal decVal cellLike firstChar endsRun notCallOrSheet inSheet tokWF wf WF bracketScan)

/-! ### character classes as ranges of code points -/

theorem isUpper_iff (c : Char) : c.isUpper = true ↔ 65 ≤ c.toNat ∧ c.toNat ≤ 90 := by
  unfold Char.isUpper
  simp only [ge_iff_le, decide_eq_true_eq]
  constructor
  · intro h
    have h1 := UInt32.le_iff_toNat_le.mp h.1
    have h2 := UInt32.le_iff_toNat_le.mp h.2
    simp only [Char.toNat_val] at h1 h2
    exact ⟨h1, h2⟩
  · intro h
    exact ⟨UInt32.le_iff_toNat_le.mpr (by simp only [Char.toNat_val]; exact h.1),
           UInt32.le_iff_toNat_le.mpr (by simp only [Char.toNat_val]; exact h.2)⟩

theorem isLower_iff (c : Char) : c.isLower = true ↔ 97 ≤ c.toNat ∧ c.toNat ≤ 122 := by
  unfold Char.isLower
  simp only [ge_iff_le, decide_eq_true_eq, Bool.and_eq_true]
  constructor
  · intro h
    have h1 := UInt32.le_iff_toNat_le.mp h.1
    have h2 := UInt32.le_iff_toNat_le.mp h.2
    simp only [Char.toNat_val] at h1 h2
    exact ⟨h1, h2⟩
  · intro h
    exact ⟨UInt32.le_iff_toNat_le.mpr (by simp only [Char.toNat_val]; exact h.1),
           UInt32.le_iff_toNat_le.mpr (by simp only [Char.toNat_val]; exact h.2)⟩

theorem isDigit_iff (c : Char) : c.isDigit = true ↔ 48 ≤ c.toNat ∧ c.toNat ≤ 57 := by
  unfold Char.isDigit
  simp only [ge_iff_le, decide_eq_true_eq, Bool.and_eq_true]
  constructor
  · intro h
    have h1 := UInt32.le_iff_toNat_le.mp h.1
    have h2 := UInt32.le_iff_toNat_le.mp h.2
    simp only [Char.toNat_val] at h1 h2
    exact ⟨h1, h2⟩
  · intro h
    exact ⟨UInt32.le_iff_toNat_le.mpr (by simp only [Char.toNat_val]; exact h.1),
           UInt32.le_iff_toNat_le.mpr (by simp only [Char.toNat_val]; exact h.2)⟩

theorem isAlpha_iff (c : Char) : c.isAlpha = true ↔ (65 ≤ c.toNat ∧ c.toNat ≤ 90) ∨ (97 ≤ c.toNat ∧ c.toNat ≤ 122) := by
  unfold Char.isAlpha
  rw [Bool.or_eq_true, isUpper_iff, isLower_iff]

theorem toNat_eq_iff (c : Char) (d : Char) : c = d ↔ c.toNat = d.toNat := Char.toNat_inj.symm

theorem isNameChar_iff (c : Char) : isNameChar c = true ↔
    (65 ≤ c.toNat ∧ c.toNat ≤ 90) ∨ (97 ≤ c.toNat ∧ c.toNat ≤ 122) ∨ (48 ≤ c.toNat ∧ c.toNat ≤ 57)
      ∨ 128 ≤ c.toNat ∨ c.toNat = 36 ∨ c.toNat = 95 ∨ c.toNat = 46 := by
  unfold isNameChar Char.isAlphanum
  simp only [Bool.or_eq_true, decide_eq_true_eq, isAlpha_iff, isDigit_iff, toNat_eq_iff]
  have h1 : '$'.toNat = 36 := rfl
  have h2 : '_'.toNat = 95 := rfl
  have h3 : '.'.toNat = 46 := rfl
  rw [h1, h2, h3]
  omega

theorem identChar_eq : identChar = isNameChar := rfl

/-! ### list scanning -/

theorem takeWhile_append_stop {α} (p : α → Bool) (a b : List α) (ha : ∀ x ∈ a, p x = true)
    (hb : ∀ x, b.head? = some x → p x = false) : (a ++ b).takeWhile p = a := by
  induction a with
  | nil =>
    cases b with
    | nil => rfl
    | cons x xs => simp [hb x rfl]
  | cons y ys ih =>
    simp only [List.cons_append, List.takeWhile, ha y (by simp)]
    rw [ih (fun x hx => ha x (by simp [hx]))]

theorem dropWhile_append_stop {α} (p : α → Bool) (a b : List α) (ha : ∀ x ∈ a, p x = true)
    (hb : ∀ x, b.head? = some x → p x = false) : (a ++ b).dropWhile p = b := by
  induction a with
  | nil =>
    cases b with
    | nil => rfl
    | cons x xs => simp [hb x rfl]
  | cons y ys ih =>
    simp only [List.cons_append, List.dropWhile, ha y (by simp)]
    rw [ih (fun x hx => ha x (by simp [hx]))]

/-! ### `get_row_and_optional_column` on `letters ++ digits` -/

/-- value of a digit list, least significant first -/
def valLE10 : List Char → Nat
  | [] => 0
  | c :: cs => (c.toNat - 48) + 10 * valLE10 cs

/-- value of a letter list (bijective base 26), least significant first -/
def valLE26 : List Char → Nat
  | [] => 0
  | c :: cs => letterVal c + 26 * valLE26 cs

theorem rcFold_append (a b : List Char) (s : RC) :
    rcFold (a ++ b) s = match rcFold a s with
      | .ok s' => rcFold b s'
      | .err e => .err e
      | .panic e => .panic e
      | .outOfFuel => .outOfFuel := by
  induction a generalizing s with
  | nil => rfl
  | cons c cs ih =>
    simp only [List.cons_append, rcFold]
    cases rcStep s c <;> simp [ih]

theorem rcFold_digits (l : List Char) (hl : ∀ c ∈ l, c.isDigit = true) (r c p : Nat) :
    ∃ p', rcFold l ⟨r, c, p, true⟩ = .ok ⟨r + p * valLE10 l, c, p', true⟩ := by
  induction l generalizing r p with
  | nil => exact ⟨p, by simp [rcFold, valLE10]⟩
  | cons d ds ih =>
    have hd : d.isDigit = true := hl d (by simp)
    obtain ⟨p', hp'⟩ := ih (fun c hc => hl c (by simp [hc])) (r + (d.toNat - 48) * p) (p * 10)
    refine ⟨p', ?_⟩
    simp only [rcFold, rcStep, hd, if_true]
    rw [hp']
    simp only [valLE10, Nat.mul_add, Nat.mul_assoc, Nat.mul_comm, Nat.add_assoc]

theorem rcFold_letters_false (l : List Char) (hl : ∀ c ∈ l, c.isAlpha = true) (r c p : Nat) :
    ∃ p', rcFold l ⟨r, c, p, false⟩ = .ok ⟨r, c + p * valLE26 l, p', false⟩ := by
  induction l generalizing c p with
  | nil => exact ⟨p, by simp [rcFold, valLE26]⟩
  | cons d ds ih =>
    have hd := (isAlpha_iff d).mp (hl d (by simp))
    have hnd : d.isDigit = false := by
      cases h : d.isDigit with
      | false => rfl
      | true => have := (isDigit_iff d).mp h; omega
    obtain ⟨p', hp'⟩ := ih (fun c hc => hl c (by simp [hc])) (c + letterVal d * p) (p * 26)
    refine ⟨p', ?_⟩
    have hstep : rcStep ⟨r, c, p, false⟩ d = .ok ⟨r, c + letterVal d * p, p * 26, false⟩ := by
      simp only [rcStep, hnd]
      cases hu : d.isUpper with
      | true =>
        have := (isUpper_iff d).mp hu
        simp only [rcLetter, letterVal, hu, if_true]
        have e : d.toNat - 65 + 1 = d.toNat - 64 := by omega
        simp [e]
      | false =>
        have hl' : d.isLower = true := by
          rw [isLower_iff]
          rcases hd with h | h
          · have : d.isUpper = true := (isUpper_iff d).mpr h
            rw [hu] at this; cases this
          · exact h
        have := (isLower_iff d).mp hl'
        simp only [rcLetter, letterVal, hu, hl', if_true]
        have e : d.toNat - 97 + 1 = d.toNat - 96 := by omega
        simp [e]
    simp only [rcFold, hstep]
    rw [hp']
    simp only [valLE26, Nat.mul_add, Nat.mul_assoc, Nat.mul_comm, Nat.add_assoc]

theorem valLE10_reverse (l : List Char) : valLE10 l.reverse = decVal l := by
  have h : ∀ l, valLE10 l = l.foldr (fun c acc => (c.toNat - 48) + 10 * acc) 0 := by
    intro l; induction l with
    | nil => rfl
    | cons c cs ih => simp [valLE10, ih]
  rw [h, List.foldr_reverse]
  unfold decVal
  congr 1
  funext acc c
  omega

theorem valLE26_reverse (l : List Char) : valLE26 l.reverse = colVal l := by
  have h : ∀ l, valLE26 l = l.foldr (fun c acc => letterVal c + 26 * acc) 0 := by
    intro l; induction l with
    | nil => rfl
    | cons c cs ih => simp [valLE26, ih]
  rw [h, List.foldr_reverse]
  unfold colVal
  congr 1
  funext acc c
  omega

theorem letterVal_pos (c : Char) (h : c.isAlpha = true) : 1 ≤ letterVal c := by
  have := (isAlpha_iff c).mp h
  unfold letterVal
  split
  · rename_i hu; have := (isUpper_iff c).mp hu; omega
  · rename_i hu
    have : ¬ (65 ≤ c.toNat ∧ c.toNat ≤ 90) := fun h' => hu ((isUpper_iff c).mpr h')
    omega

/-- `get_row_column` on a name made of letters followed by digits, in terms of the plain
    positional values of the two parts -/
theorem getRowColumn_letters_digits (letters digits : List Char)
    (hl : ∀ c ∈ letters, c.isAlpha = true) (hne : letters ≠ [])
    (hd : ∀ c ∈ digits, c.isDigit = true) :
    getRowColumn (letters ++ digits) =
      if decVal digits = 0 then .err "RangeWithoutRowComponent"
      else .ok (decVal digits - 1, colVal letters - 1) := by
  unfold getRowColumn getRowAndOptionalColumn
  rw [List.reverse_append, rcFold_append]
  obtain ⟨p1, h1⟩ := rcFold_digits digits.reverse (fun c hc => hd c (List.mem_reverse.mp hc)) 0 0 1
  rw [h1, valLE10_reverse]
  simp only [Nat.zero_add, Nat.one_mul]
  cases hrev : letters.reverse with
  | nil => exact absurd (List.reverse_eq_nil_iff.mp hrev) hne
  | cons x l =>
    have hxl : ∀ c ∈ x :: l, c.isAlpha = true := by
      intro c hc; rw [← hrev] at hc; exact hl c (List.mem_reverse.mp hc)
    have hx := hxl x (by simp)
    have hxa := (isAlpha_iff x).mp hx
    have hnd : x.isDigit = false := by
      cases h : x.isDigit with
      | false => rfl
      | true => have := (isDigit_iff x).mp h; omega
    have hcv : colVal letters = letterVal x + 26 * valLE26 l := by
      rw [← valLE26_reverse, hrev]; rfl
    have hpos := letterVal_pos x hx
    by_cases h0 : decVal digits = 0
    · -- the first letter met while the row is still 0
      have hstep : rcStep ⟨decVal digits, 0, p1, true⟩ x = .err "RangeWithoutRowComponent" := by
        simp only [rcStep, hnd]
        cases hu : x.isUpper with
        | true => simp [rcLetter, h0]
        | false =>
          have hl' : x.isLower = true := by
            rw [isLower_iff]
            rcases hxa with h | h
            · have : x.isUpper = true := (isUpper_iff x).mpr h
              rw [hu] at this; cases this
            · exact h
          simp [rcLetter, h0, hl']
      rw [h0] at hstep
      simp [rcFold, hstep, h0]
    · have hstep : rcStep ⟨decVal digits, 0, p1, true⟩ x = .ok ⟨decVal digits, letterVal x, 26, false⟩ := by
        simp only [rcStep, hnd]
        cases hu : x.isUpper with
        | true =>
          have := (isUpper_iff x).mp hu
          have e : x.toNat - 65 + 1 = x.toNat - 64 := by omega
          simp [rcLetter, h0, letterVal, hu, e]
        | false =>
          have hl' : x.isLower = true := by
            rw [isLower_iff]
            rcases hxa with h | h
            · have : x.isUpper = true := (isUpper_iff x).mpr h
              rw [hu] at this; cases this
            · exact h
          have := (isLower_iff x).mp hl'
          have e : x.toNat - 97 + 1 = x.toNat - 96 := by omega
          simp [rcLetter, h0, letterVal, hu, hl', e]
      obtain ⟨p2, h2⟩ := rcFold_letters_false l (fun c hc => hxl c (by simp [hc])) (decVal digits) (letterVal x) 26
      simp only [rcFold, hstep, h2, h0, if_false]
      have hc0 : letterVal x + 26 * valLE26 l ≠ 0 := by omega
      rw [if_neg hc0, hcv]

/-! ### printing: decimals -/

theorem digit_facts : ∀ d, d < 10 → (Char.ofNat (48 + d)).isDigit = true ∧ (Char.ofNat (48 + d)).isAlpha = false
    ∧ (Char.ofNat (48 + d)).toNat = 48 + d ∧ Nat.digitChar d = Char.ofNat (48 + d) := by decide

theorem letter_facts : ∀ k, k < 26 → (letter k).isAlpha = true ∧ (letter k).isUpper = true
    ∧ (letter k).isDigit = false ∧ (letter k).toNat = 65 + k := by decide

theorem decLoop_zero (f : Nat) : decLoop f 0 = [] := by cases f <;> simp [decLoop]

theorem decLoop_pos (f n : Nat) (h : 0 < n) :
    decLoop (f + 1) n = Char.ofNat (48 + n % 10) :: decLoop f (n / 10) := by
  simp [decLoop]; omega

theorem decLoop_rev (f n : Nat) (h : 0 < n) (hf : n ≤ f) : (decLoop f n).reverse = Nat.toDigits 10 n := by
  induction f generalizing n with
  | zero => omega
  | succ f ih =>
    rw [decLoop_pos f n h]
    by_cases h10 : n < 10
    · have e0 : n / 10 = 0 := by omega
      have e1 : n % 10 = n := by omega
      rw [e0, e1, decLoop_zero, Nat.toDigits_of_lt_base h10, (digit_facts n h10).2.2.2]
      rfl
    · have := ih (n / 10) (by omega) (by omega)
      rw [List.reverse_cons, this, ← (digit_facts (n % 10) (by omega)).2.2.2,
        ← Nat.toDigits_of_lt_base (b := 10) (n := n % 10) (by omega),
        Nat.toDigits_append_toDigits (by omega) (by omega) (by omega)]
      congr 1; omega

/-- the model's `to_string` is Lean's decimal numeral -/
theorem natToString_eq (n : Nat) : natToString n = dec n := by
  unfold natToString dec
  rw [Nat.repr_eq_ofList_toDigits, String.toList_ofList]
  by_cases h : n = 0
  · subst h; rfl
  · rw [if_neg h, decLoop_rev n n (by omega) (Nat.le_refl _)]

theorem decLoop_digits (f n : Nat) : ∀ c ∈ decLoop f n, c.isDigit = true := by
  induction f generalizing n with
  | zero => simp [decLoop]
  | succ f ih =>
    by_cases h : n = 0
    · subst h; simp [decLoop]
    · rw [decLoop_pos f n (by omega)]
      intro c hc
      rcases List.mem_cons.mp hc with rfl | hc
      · exact (digit_facts (n % 10) (by omega)).1
      · exact ih _ c hc

theorem decLoop_val (f n : Nat) (hf : n ≤ f) : valLE10 (decLoop f n) = n := by
  induction f generalizing n with
  | zero => have : n = 0 := by omega
            subst this; rfl
  | succ f ih =>
    by_cases h : n = 0
    · subst h; simp [decLoop, valLE10]
    · rw [decLoop_pos f n (by omega)]
      simp only [valLE10, (digit_facts (n % 10) (by omega)).2.2.1, ih (n / 10) (by omega)]
      omega

theorem decLoop_length (k f n : Nat) (hn : n < 10 ^ k) : (decLoop f n).length ≤ k := by
  induction k generalizing f n with
  | zero =>
    have : n = 0 := by simpa using hn
    subst this; simp [decLoop_zero]
  | succ k ih =>
    cases f with
    | zero => simp [decLoop]
    | succ f =>
      by_cases h : n = 0
      · subst h; simp [decLoop]
      · rw [decLoop_pos f n (by omega)]
        have : n / 10 < 10 ^ k := by rw [Nat.pow_succ] at hn; omega
        have := ih f (n / 10) this
        simp only [List.length_cons]; omega

theorem dec_eq_loop (n : Nat) (h : 0 < n) : dec n = (decLoop n n).reverse := by
  rw [← natToString_eq]; unfold natToString; rw [if_neg (by omega)]

theorem dec_digits (n : Nat) (h : 0 < n) : ∀ c ∈ dec n, c.isDigit = true := by
  rw [dec_eq_loop n h]; intro c hc; exact decLoop_digits n n c (List.mem_reverse.mp hc)

theorem dec_val (n : Nat) (h : 0 < n) : decVal (dec n) = n := by
  rw [dec_eq_loop n h, ← valLE10_reverse, List.reverse_reverse, decLoop_val n n (Nat.le_refl _)]

theorem dec_ne_nil (n : Nat) (h : 0 < n) : dec n ≠ [] := by
  intro he
  have := dec_val n h
  rw [he] at this
  simp [decVal] at this; omega

theorem dec_length (n : Nat) (h : 0 < n) (hn : n ≤ 1048576) : (dec n).length ≤ 7 := by
  rw [dec_eq_loop n h, List.length_reverse]
  exact decLoop_length 7 n n (by have : (10:Nat)^7 = 10000000 := by decide
                                 omega)

/-! ### printing: column letters -/

theorem colLoop_zero (f : Nat) : colLoop f 0 = [] := by cases f <;> simp [colLoop]

theorem colLoop_pos (f n : Nat) (h : 0 < n) :
    colLoop (f + 1) n = Char.ofNat ((n - 1) % 26 + 65) :: colLoop f ((n - 1) / 26) := by
  simp [colLoop, h]

theorem letter_eq (a b : Nat) (h : a = 65 + b) : Char.ofNat a = letter b := by subst h; rfl

/-- `column_number_to_name` produces the closed-form column letters -/
theorem columnNumberToName_eq (c : Nat) (h : c < 16384) : columnNumberToName c = .ok (colLetters c) := by
  unfold columnNumberToName MAX_COLUMNS
  rw [if_neg (by omega)]
  congr 1
  unfold colLetters
  rw [colLoop_pos c (c + 1) (by omega)]
  by_cases h1 : c < 26
  · rw [if_pos h1]
    have : (c + 1 - 1) / 26 = 0 := by omega
    rw [this, colLoop_zero]
    simp only [List.reverse_cons, List.reverse_nil, List.nil_append]
    rw [letter_eq _ c (by omega)]
  · rw [if_neg h1]
    obtain ⟨c', rfl⟩ : ∃ c', c = c' + 1 := ⟨c - 1, by omega⟩
    rw [colLoop_pos c' _ (by omega)]
    by_cases h2 : c' + 1 < 702
    · rw [if_pos h2]
      have : ((c' + 1 + 1 - 1) / 26 - 1) / 26 = 0 := by omega
      rw [this, colLoop_zero]
      simp only [List.reverse_cons, List.reverse_nil, List.nil_append, List.cons_append]
      rw [letter_eq _ ((c' + 1 - 26) / 26) (by omega), letter_eq _ ((c' + 1 - 26) % 26) (by omega)]
    · rw [if_neg h2]
      obtain ⟨c'', rfl⟩ : ∃ c'', c' = c'' + 1 := ⟨c' - 1, by omega⟩
      rw [colLoop_pos c'' _ (by omega)]
      have : (((c'' + 1 + 1 + 1 - 1) / 26 - 1) / 26 - 1) / 26 = 0 := by omega
      rw [this, colLoop_zero]
      simp only [List.reverse_cons, List.reverse_nil, List.nil_append, List.cons_append]
      rw [letter_eq _ ((c'' + 1 + 1 - 702) / 676) (by omega),
        letter_eq _ ((c'' + 1 + 1 - 702) / 26 % 26) (by omega),
        letter_eq _ ((c'' + 1 + 1 - 702) % 26) (by omega)]

/-- shape of the closed-form column letters: one to three upper-case letters whose bijective
    base-26 value is the column number -/
theorem colLetters_shape (c : Nat) (h : c < 16384) :
    (∀ x ∈ colLetters c, x.isAlpha = true ∧ x.isDigit = false ∧ x.isUpper = true)
    ∧ colVal (colLetters c) = c + 1 ∧ 1 ≤ (colLetters c).length ∧ (colLetters c).length ≤ 3 := by
  have lv : ∀ k, k < 26 → letterVal (letter k) = k + 1 := by
    intro k hk
    have := letter_facts k hk
    unfold letterVal; rw [this.2.1, this.2.2.2]; simp; omega
  unfold colLetters
  by_cases h1 : c < 26
  · rw [if_pos h1]
    have := letter_facts c h1
    refine ⟨?_, ?_, by simp only [List.length_cons, List.length_nil]; omega, by simp only [List.length_cons, List.length_nil]; omega⟩
    · intro x hx; simp at hx; subst hx; exact ⟨this.1, this.2.2.1, this.2.1⟩
    · simp [colVal, lv c h1]
  · rw [if_neg h1]
    by_cases h2 : c < 702
    · rw [if_pos h2]
      have ha : (c - 26) / 26 < 26 := by omega
      have hb : (c - 26) % 26 < 26 := by omega
      have fa := letter_facts _ ha
      have fb := letter_facts _ hb
      refine ⟨?_, ?_, by simp only [List.length_cons, List.length_nil]; omega, by simp only [List.length_cons, List.length_nil]; omega⟩
      · intro x hx
        simp only [List.mem_cons, List.mem_nil_iff, or_false] at hx
        rcases hx with hx | hx
        · rw [hx]; exact ⟨fa.1, fa.2.2.1, fa.2.1⟩
        · rw [hx]; exact ⟨fb.1, fb.2.2.1, fb.2.1⟩
      · simp [colVal, lv _ ha, lv _ hb]; omega
    · rw [if_neg h2]
      have ha : (c - 702) / 676 < 26 := by omega
      have hb : (c - 702) / 26 % 26 < 26 := by omega
      have hc : (c - 702) % 26 < 26 := by omega
      have fa := letter_facts _ ha
      have fb := letter_facts _ hb
      have fc := letter_facts _ hc
      refine ⟨?_, ?_, by simp only [List.length_cons, List.length_nil]; omega, by simp only [List.length_cons, List.length_nil]; omega⟩
      · intro x hx
        simp only [List.mem_cons, List.mem_nil_iff, or_false] at hx
        rcases hx with hx | hx | hx
        · rw [hx]; exact ⟨fa.1, fa.2.2.1, fa.2.1⟩
        · rw [hx]; exact ⟨fb.1, fb.2.2.1, fb.2.1⟩
        · rw [hx]; exact ⟨fc.1, fc.2.2.1, fc.2.1⟩
      · simp [colVal, lv _ ha, lv _ hb, lv _ hc]; omega

/-! ### `offset_cell_ref` -/

theorem stripDollar_dollar (b : Bool) (t : List Char) (ht : ∀ x, t.head? = some x → x ≠ '$') :
    stripDollar (dollar b ++ t) = (b, t) := by
  cases b with
  | true => rfl
  | false =>
    cases t with
    | nil => rfl
    | cons x xs =>
      have := ht x rfl
      simp only [dollar, Bool.false_eq_true, if_false, List.nil_append]
      unfold stripDollar
      split
      · rename_i heq; cases heq; exact absurd rfl this
      · rfl

theorem stripDollar_spec (s : List Char) : FormulaTokens.stripDollar s = (stripDollar s).2 := by
  cases s with
  | nil => rfl
  | cons x xs =>
    by_cases hx : x = '$'
    · subst hx; rfl
    · have a : FormulaTokens.stripDollar (x :: xs) = x :: xs := by
        unfold FormulaTokens.stripDollar
        split
        · rename_i heq; cases heq; exact absurd rfl hx
        · rfl
      have b : stripDollar (x :: xs) = (false, x :: xs) := by
        unfold stripDollar
        split
        · rename_i heq; cases heq; exact absurd rfl hx
        · rfl
      rw [a, b]

theorem not_dollar_of_alpha (x : Char) (h : x.isAlpha = true) : x ≠ '$' := by
  intro e; subst e; revert h; decide

theorem not_dollar_of_digit (x : Char) (h : x.isDigit = true) : x ≠ '$' := by
  intro e; subst e; revert h; decide

theorem head_mem {α} (l : List α) (x : α) (h : l.head? = some x) : x ∈ l := by
  cases l with
  | nil => cases h
  | cons y ys => simp at h; subst h; simp

/-- the scan of a rendered reference recovers its parts -/
theorem scanRef_render (ca ra : Bool) (L D : List Char)
    (hL : ∀ x ∈ L, x.isAlpha = true) (hL1 : 1 ≤ L.length) (hL3 : L.length ≤ 3)
    (hD : ∀ x ∈ D, x.isDigit = true) (hD1 : 1 ≤ D.length) (hD7 : D.length ≤ 7) :
    scanRef (dollar ca ++ L ++ dollar ra ++ D) = some (ca, L, ra, D) := by
  have hDhead : ∀ x, D.head? = some x → x ≠ '$' := fun x hx => not_dollar_of_digit x (hD x (head_mem D x hx))
  have hrest : ∀ x, (dollar ra ++ D).head? = some x → x.isAlpha = false := by
    intro x hx
    cases ra with
    | true => simp [dollar] at hx; subst hx; decide
    | false =>
      simp [dollar] at hx
      have := (isDigit_iff x).mp (hD x (head_mem D x hx))
      cases h : x.isAlpha with
      | false => rfl
      | true => have := (isAlpha_iff x).mp h; omega
  have h1 : stripDollar (dollar ca ++ L ++ dollar ra ++ D) = (ca, L ++ (dollar ra ++ D)) := by
    rw [List.append_assoc, List.append_assoc]
    apply stripDollar_dollar
    intro x hx
    cases L with
    | nil => simp at hL1
    | cons y ys => simp at hx; subst hx; exact not_dollar_of_alpha _ (hL _ (by simp))
  have h2 : (L ++ (dollar ra ++ D)).takeWhile Char.isAlpha = L := takeWhile_append_stop _ _ _ hL hrest
  have h3 : (L ++ (dollar ra ++ D)).dropWhile Char.isAlpha = dollar ra ++ D := dropWhile_append_stop _ _ _ hL hrest
  have h4 : stripDollar (dollar ra ++ D) = (ra, D) := stripDollar_dollar ra D hDhead
  have h5 : D.takeWhile Char.isDigit = D := by
    have := takeWhile_append_stop Char.isDigit D [] hD (by simp)
    simpa using this
  have h6 : D.dropWhile Char.isDigit = [] := by
    have := dropWhile_append_stop Char.isDigit D [] hD (by simp)
    simpa using this
  unfold scanRef
  simp only [h1, h2, h3, h4, h5, h6]
  rw [if_neg (by omega), if_neg (by intro h; rcases h with h | h | h; exact h rfl; omega; omega)]

theorem toNat_move (abs : Bool) (x : Nat) (d : Int) :
    ((x : Int) + (if abs then 0 else d)).toNat = move abs x d := by
  cases abs <;> simp [move]

/-- the computation on the parts of a rendered in-sheet reference -/
theorem moveRef_render (ca ra : Bool) (c r : Nat) (d : Int × Int) (hc : c < 16384) (hr : r < 1048576)
    (hin : inSheet ((r : Int) + (if ra then 0 else d.1)) ((c : Int) + (if ca then 0 else d.2)) = true) :
    moveRef ca (colLetters c) ra (dec (r + 1)) d
      = some (dollar ca ++ colLetters (move ca c d.2) ++ dollar ra ++ dec (move ra r d.1 + 1)) := by
  obtain ⟨hLa, hLv, hL1, hL3⟩ := colLetters_shape c hc
  have hne : colLetters c ≠ [] := by intro e; rw [e] at hL1; simp at hL1
  have hg := getRowColumn_letters_digits (colLetters c) (dec (r + 1)) (fun x hx => (hLa x hx).1) hne
    (dec_digits (r + 1) (by omega))
  rw [dec_val (r + 1) (by omega), hLv, if_neg (by omega)] at hg
  simp only [Nat.add_sub_cancel] at hg
  unfold inSheet FormulaTokens.MAX_ROWS FormulaTokens.MAX_COLUMNS at hin
  simp only [Bool.and_eq_true, decide_eq_true_eq] at hin
  obtain ⟨⟨⟨hr0, hr1⟩, hc0⟩, hc1⟩ := hin
  have hc' : move ca c d.2 < 16384 := by rw [← toNat_move]; omega
  obtain ⟨hLa', _, hL1', _⟩ := colLetters_shape (move ca c d.2) hc'
  have hD' := dec_digits (move ra r d.1 + 1) (by omega)
  have hDne := dec_ne_nil (move ra r d.1 + 1) (by omega)
  have hcoord : coordinateToName (((r : Int) + (if ra then 0 else d.1)).toNat, ((c : Int) + (if ca then 0 else d.2)).toNat)
      = .ok (colLetters (move ca c d.2) ++ dec (move ra r d.1 + 1)) := by
    unfold coordinateToName
    simp only [toNat_move]
    rw [columnNumberToName_eq _ hc', natToString_eq]
  have hstop : ∀ x, (dec (move ra r d.1 + 1)).head? = some x → (!x.isDigit) = false := by
    intro x hx; rw [hD' x (head_mem _ x hx)]; rfl
  have hall : ∀ x ∈ colLetters (move ca c d.2), (!x.isDigit) = true := by
    intro x hx; rw [(hLa' x hx).2.1]; rfl
  unfold moveRef
  simp only [hg]
  unfold MAX_ROWS MAX_COLUMNS
  rw [if_neg (by omega)]
  rw [if_neg (by omega)]
  simp only [hcoord]
  rw [takeWhile_append_stop _ _ _ hall hstop, dropWhile_append_stop _ _ _ hall hstop, if_neg hDne]
  rfl

theorem offsetCellRef_ref (ca ra : Bool) (c r : Nat) (d : Int × Int) (hc : c < 16384) (hr : r < 1048576)
    (hin : inSheet ((r : Int) + (if ra then 0 else d.1)) ((c : Int) + (if ca then 0 else d.2)) = true) :
    offsetCellRef (renderTok (.ref ca c ra r)) d = some (renderTok (shiftTok d (.ref ca c ra r))) := by
  obtain ⟨hLa, _, hL1, hL3⟩ := colLetters_shape c hc
  have hD := dec_digits (r + 1) (by omega)
  have hD1 : 1 ≤ (dec (r + 1)).length := by
    have := dec_ne_nil (r + 1) (by omega)
    cases h : dec (r + 1) with
    | nil => exact absurd h this
    | cons _ _ => simp
  have hD7 := dec_length (r + 1) (by omega) (by omega)
  unfold offsetCellRef
  simp only [renderTok, shiftTok]
  rw [scanRef_render ca ra _ _ (fun x hx => (hLa x hx).1) hL1 hL3 hD hD1 hD7]
  exact moveRef_render ca ra c r d hc hr hin

theorem mem_takeWhile {α} (p : α → Bool) (l : List α) (x : α) (h : x ∈ l.takeWhile p) : p x = true := by
  induction l with
  | nil => simp at h
  | cons y ys ih =>
    simp only [List.takeWhile] at h
    cases hp : p y with
    | true =>
      rw [hp] at h
      rcases List.mem_cons.mp h with rfl | h
      · exact hp
      · exact ih h
    | false => rw [hp] at h; simp at h

/-- a text that does not look like a cell of the sheet is never rewritten -/
theorem offsetCellRef_none_of_not_cellLike (s : List Char) (d : Int × Int) (h : cellLike s = false) :
    offsetCellRef s d = none := by
  unfold offsetCellRef
  cases hs : scanRef s with
  | none => rfl
  | some q =>
    obtain ⟨ca, L, ra, D⟩ := q
    simp only []
    unfold scanRef at hs
    simp only [] at hs
    split at hs
    · cases hs
    · rename_i hlen
      split at hs
      · cases hs
      · rename_i hrest
        simp only [Option.some.injEq, Prod.mk.injEq] at hs
        obtain ⟨_, hL, _, hD⟩ := hs
        have hLa : ∀ x ∈ L, x.isAlpha = true := by
          intro x hx; rw [← hL] at hx; exact mem_takeWhile _ _ _ hx
        have hDa : ∀ x ∈ D, x.isDigit = true := by
          intro x hx; rw [← hD] at hx; exact mem_takeWhile _ _ _ hx
        have hLne : L ≠ [] := by
          intro e; rw [← hL] at e; rw [e] at hlen; simp at hlen
        have hg := getRowColumn_letters_digits L D hLa hLne hDa
        unfold moveRef
        by_cases h0 : decVal D = 0
        · rw [if_pos h0] at hg; simp only [hg]
        · rw [if_neg h0] at hg
          simp only [hg]
          by_cases hb : decVal D - 1 ≥ MAX_ROWS ∨ colVal L - 1 ≥ MAX_COLUMNS
          · rw [if_pos hb]
          · exfalso
            have hcv : 1 ≤ colVal L := by
              cases L with
              | nil => exact absurd rfl hLne
              | cons x xs =>
                -- positional value of a non-empty letter list is positive
                have hx := letterVal_pos x (hLa x (by simp))
                rw [← valLE26_reverse]
                simp only [List.reverse_cons]
                have : ∀ (a : List Char) (y : Char), 1 ≤ letterVal y → 1 ≤ valLE26 (a ++ [y]) := by
                  intro a y hy
                  induction a with
                  | nil => simp [valLE26]; omega
                  | cons z zs ih => simp only [List.cons_append, valLE26]; omega
                exact this _ _ hx
            unfold MAX_ROWS MAX_COLUMNS at hb
            have hcl : cellLike s = true := by
              unfold cellLike
              simp only [stripDollar_spec]
              rw [hL, hD]
              simp only [Bool.and_eq_true, decide_eq_true_eq, List.isEmpty_iff]
              unfold FormulaTokens.MAX_ROWS FormulaTokens.MAX_COLUMNS
              refine ⟨⟨⟨⟨⟨⟨⟨?_, ?_⟩, ?_⟩, ?_⟩, ?_⟩, ?_⟩, ?_⟩, ?_⟩
              · exact Decidable.byContradiction (fun hne => hrest (Or.inl hne))
              · rw [hL] at hlen; omega
              · rw [hL] at hlen; omega
              · rw [hD] at hrest; omega
              · rw [hD] at hrest; omega
              · omega
              · omega
              · omega
            rw [hcl] at h; cases h

/-! ### the tokenizer loop, one token at a time -/

/-- prepend to a successful result -/
def pre (out : List Char) : Res (List Char) → Res (List Char)
  | .ok rest => .ok (out ++ rest)
  | r => r

theorem replaceGo_nil (d : Int × Int) (f : Nat) : replaceGo d f [] = .ok [] := by
  cases f <;> rfl

theorem not_quote_of_nameChar (c : Char) (h : isNameChar c = true) : c ≠ '"' ∧ c ≠ '\'' ∧ c ≠ '[' := by
  have := (isNameChar_iff c).mp h
  refine ⟨?_, ?_, ?_⟩ <;> (intro e; subst e; revert this; decide)

theorem replaceGo_punct (d : Int × Int) (f : Nat) (c : Char) (rest : List Char)
    (h1 : isNameChar c = false) (h2 : c ≠ '"') (h3 : c ≠ '\'') (h4 : c ≠ '[') :
    replaceGo d (f + 1) (c :: rest) = pre [c] (replaceGo d f rest) := by
  rw [replaceGo]
  rw [if_neg (by intro h; rcases h with h | h; exact h2 h; exact h3 h), if_neg h4]
  simp only [h1, Bool.false_eq_true, if_false]
  cases replaceGo d f rest <;> rfl

theorem copyQuoted_stop (q : Char) (s rest : List Char) (h : ∀ x ∈ s, x ≠ q) :
    copyQuoted q (s ++ q :: rest) = (s ++ [q], rest) := by
  induction s with
  | nil => simp [copyQuoted]
  | cons y ys ih =>
    have hy : y ≠ q := h y (by simp)
    simp only [List.cons_append, copyQuoted, if_neg hy]
    rw [ih (fun x hx => h x (by simp [hx]))]

theorem replaceGo_quoted (d : Int × Int) (f : Nat) (q : Char) (s rest : List Char)
    (hq : q = '"' ∨ q = '\'') (h : ∀ x ∈ s, x ≠ q) :
    replaceGo d (f + 1) (q :: (s ++ q :: rest)) = pre (q :: s ++ [q]) (replaceGo d f rest) := by
  rw [replaceGo]
  rw [if_pos hq, copyQuoted_stop q s rest h]
  cases replaceGo d f rest <;> simp [pre]

/-- copying a balanced bracket span: after `s` (which moves the depth from `d + 1` to `d' + 1`) the
    loop continues on the rest at depth `d' + 1` -/
theorem copyBracketAux_scan (s : List Char) : ∀ (e : Bool) (d d' : Nat) (rest : List Char),
    FormulaTokens.bracketScanAux e d s = some d' →
    copyBracketAux e (d + 1) (s ++ rest)
      = (s ++ (copyBracketAux false (d' + 1) rest).1, (copyBracketAux false (d' + 1) rest).2) := by
  induction s with
  | nil =>
    intro e d d' rest h
    cases e with
    | true => simp [FormulaTokens.bracketScanAux] at h
    | false => simp [FormulaTokens.bracketScanAux] at h; subst h; rfl
  | cons c cs ih =>
    intro e d d' rest h
    cases e with
    | true =>
      simp only [FormulaTokens.bracketScanAux] at h
      simp only [List.cons_append, copyBracketAux, ih false d d' rest h]
    | false =>
      simp only [FormulaTokens.bracketScanAux] at h
      simp only [List.cons_append, copyBracketAux]
      by_cases h1 : c = '\''
      · rw [if_pos h1] at h; rw [if_pos h1, ih true d d' rest h]
      · rw [if_neg h1] at h; rw [if_neg h1]
        by_cases h2 : c = '['
        · rw [if_pos h2] at h; rw [if_pos h2, ih false (d + 1) d' rest h]
        · rw [if_neg h2] at h; rw [if_neg h2]
          by_cases h3 : c = ']'
          · rw [if_pos h3] at h; rw [if_pos h3]
            by_cases hd : d = 0
            · rw [if_pos hd] at h; cases h
            · rw [if_neg hd] at h
              obtain ⟨k, rfl⟩ : ∃ k, d = k + 1 := ⟨d - 1, by omega⟩
              rw [if_neg (by omega)]
              simp only [Nat.add_sub_cancel] at h ⊢
              rw [ih false k d' rest h]
          · rw [if_neg h3] at h; rw [if_neg h3, ih false d d' rest h]

theorem copyBracket_stop (s rest : List Char) (h : bracketScan 0 s = some 0) :
    copyBracket 1 (s ++ ']' :: rest) = (s ++ [']'], rest) := by
  unfold copyBracket
  unfold FormulaTokens.bracketScan at h
  rw [copyBracketAux_scan s false 0 0 (']' :: rest) h]
  simp [copyBracketAux]

theorem replaceGo_bracket (d : Int × Int) (f : Nat) (s rest : List Char) (h : bracketScan 0 s = some 0) :
    replaceGo d (f + 1) ('[' :: (s ++ ']' :: rest)) = pre ('[' :: s ++ [']']) (replaceGo d f rest) := by
  rw [replaceGo]
  rw [if_neg (by decide), if_pos rfl, copyBracket_stop s rest h]
  cases replaceGo d f rest <;> simp [pre]

theorem nextIsCallOrSheet_eq (rest : List Char) :
    nextIsCallOrSheet rest = !(notCallOrSheet rest.head?) := by
  cases rest with
  | nil => rfl
  | cons x xs =>
    by_cases h1 : x = '('
    · subst h1; rfl
    · by_cases h2 : x = '!'
      · subst h2; rfl
      · by_cases h3 : x = '['
        · subst h3; rfl
        · have : notCallOrSheet (x :: xs).head? = true := by
            simp [notCallOrSheet, h1, h2, h3]
          rw [this]
          unfold nextIsCallOrSheet
          split
          · rename_i heq; cases heq; exact absurd rfl h1
          · rename_i heq; cases heq; exact absurd rfl h2
          · rename_i heq; cases heq; exact absurd rfl h3
          · rfl

/-- what the tokenizer emits for the run `run` in front of `rest` -/
def runOut (d : Int × Int) (run rest : List Char) : List Char :=
  match offsetCellRef run d with
  | some cell => if nextIsCallOrSheet rest then run else cell
  | none => run

theorem runOut_call (d : Int × Int) (run rest : List Char) (h : nextIsCallOrSheet rest = true) :
    runOut d run rest = run := by
  unfold runOut; rw [h]; cases offsetCellRef run d <;> rfl

theorem runOut_none (d : Int × Int) (run rest : List Char) (h : offsetCellRef run d = none) :
    runOut d run rest = run := by
  unfold runOut; rw [h]

theorem runOut_some (d : Int × Int) (run rest cell : List Char) (h : offsetCellRef run d = some cell)
    (h' : nextIsCallOrSheet rest = false) : runOut d run rest = cell := by
  unfold runOut; rw [h, h']; rfl

/-- one maximal run of name characters: rewritten iff it is a cell reference not followed by `(`/`!` -/
theorem replaceGo_run (d : Int × Int) (f : Nat) (run rest : List Char) (hne : run ≠ [])
    (hrun : ∀ x ∈ run, isNameChar x = true) (hrest : ∀ x, rest.head? = some x → isNameChar x = false) :
    replaceGo d (f + 1) (run ++ rest) = pre (runOut d run rest) (replaceGo d f rest) := by
  cases run with
  | nil => exact absurd rfl hne
  | cons c cs =>
    have hc := hrun c (by simp)
    have hcs : ∀ x ∈ cs, isNameChar x = true := fun x hx => hrun x (by simp [hx])
    have hq := not_quote_of_nameChar c hc
    rw [List.cons_append, replaceGo]
    rw [if_neg (by intro h; rcases h with h | h; exact hq.1 h; exact hq.2.1 h), if_neg hq.2.2]
    simp only [hc, if_true]
    rw [takeWhile_append_stop _ _ _ hcs hrest, dropWhile_append_stop _ _ _ hcs hrest]
    unfold runOut
    cases replaceGo d f rest <;> rfl

/-- a numeral is not a cell reference -/
theorem offsetCellRef_num (s : List Char) (d : Int × Int)
    (hs : ∀ x ∈ s, (x.isDigit || x = '.') = true) : offsetCellRef s d = none := by
  apply offsetCellRef_none_of_not_cellLike
  unfold cellLike
  cases s with
  | nil => rfl
  | cons x xs =>
    have hx := hs x (by simp)
    have hna : x.isAlpha = false := by
      cases h : x.isAlpha with
      | false => rfl
      | true =>
        have ha := (isAlpha_iff x).mp h
        simp only [Bool.or_eq_true, decide_eq_true_eq] at hx
        rcases hx with hx | hx
        · have := (isDigit_iff x).mp hx; omega
        · subst hx; revert h; decide
    have hnd : x ≠ '$' := by
      intro e; subst e; revert hx; decide
    have a : FormulaTokens.stripDollar (x :: xs) = x :: xs := by
      unfold FormulaTokens.stripDollar
      split
      · rename_i heq; cases heq; exact absurd rfl hnd
      · rfl
    simp only [a, List.takeWhile, hna, List.length_nil]
    simp

/-- every character of a rendered reference is a name character -/
theorem render_ref_nameChars (ca ra : Bool) (c r : Nat) (hc : c < 16384) :
    (∀ x ∈ renderTok (.ref ca c ra r), isNameChar x = true) ∧ renderTok (.ref ca c ra r) ≠ [] := by
  obtain ⟨hLa, _, hL1, _⟩ := colLetters_shape c hc
  have hD := dec_digits (r + 1) (by omega)
  have hdol : ∀ b, ∀ x ∈ dollar b, isNameChar x = true := by
    intro b x hx; cases b <;> simp [dollar] at hx; subst hx; decide
  constructor
  · intro x hx
    simp only [renderTok, List.mem_append] at hx
    rcases hx with ((hx | hx) | hx) | hx
    · exact hdol _ x hx
    · rw [isNameChar_iff]; have := (isAlpha_iff x).mp (hLa x hx).1; omega
    · exact hdol _ x hx
    · rw [isNameChar_iff]; have := (isDigit_iff x).mp (hD x hx); omega
  · simp only [renderTok]
    intro e
    have : (colLetters c).length = 0 := by
      have := congrArg List.length e
      simp only [List.length_append, List.length_nil] at this
      omega
    omega

/-! ### fuel: the loop never runs out, never fails -/

theorem copyQuoted_length (q : Char) (s : List Char) : (copyQuoted q s).2.length ≤ s.length := by
  induction s with
  | nil => simp [copyQuoted]
  | cons c cs ih =>
    simp only [copyQuoted]
    split
    · simp
    · simp only [List.length_cons]; omega

theorem copyBracketAux_length (s : List Char) : ∀ e d, (copyBracketAux e d s).2.length ≤ s.length := by
  induction s with
  | nil => intro e d; cases e <;> simp [copyBracketAux]
  | cons c cs ih =>
    intro e d
    cases e with
    | true => simp only [copyBracketAux, List.length_cons]; have := ih false d; omega
    | false =>
      simp only [copyBracketAux]
      split
      · have := ih true d; simp only [List.length_cons]; omega
      · split
        · have := ih false (d + 1); simp only [List.length_cons]; omega
        · split
          · split
            · simp
            · have := ih false (d - 1); simp only [List.length_cons]; omega
          · have := ih false d; simp only [List.length_cons]; omega

theorem copyBracket_length (s : List Char) (d : Nat) : (copyBracket d s).2.length ≤ s.length :=
  copyBracketAux_length s false d

theorem dropWhile_length {α} (p : α → Bool) (l : List α) : (l.dropWhile p).length ≤ l.length := by
  induction l with
  | nil => simp
  | cons x xs ih =>
    simp only [List.dropWhile]
    split
    · simp only [List.length_cons]; omega
    · simp

/-- with fuel ≥ length the loop returns `ok` -/
theorem replaceGo_ok (d : Int × Int) (f : Nat) : ∀ s : List Char, s.length ≤ f → ∃ r, replaceGo d f s = .ok r := by
  induction f with
  | zero =>
    intro s hs
    have : s = [] := List.eq_nil_of_length_eq_zero (by omega)
    subst this; exact ⟨[], rfl⟩
  | succ f ih =>
    intro s hs
    cases s with
    | nil => exact ⟨[], rfl⟩
    | cons c cs =>
      simp only [List.length_cons] at hs
      rw [replaceGo]
      split
      · obtain ⟨r, hr⟩ := ih (copyQuoted c cs).2 (by have := copyQuoted_length c cs; omega)
        rw [hr]; exact ⟨_, rfl⟩
      · split
        · obtain ⟨r, hr⟩ := ih (copyBracket 1 cs).2 (by have := copyBracket_length cs 1; omega)
          rw [hr]; exact ⟨_, rfl⟩
        · split
          · obtain ⟨r, hr⟩ := ih (cs.dropWhile isNameChar) (by have := dropWhile_length isNameChar cs; omega)
            simp only [hr]; exact ⟨_, rfl⟩
          · obtain ⟨r, hr⟩ := ih cs (by omega)
            rw [hr]; exact ⟨_, rfl⟩

/-- more fuel does not change a successful result -/
theorem replaceGo_mono (d : Int × Int) (f : Nat) : ∀ (s r : List Char), replaceGo d f s = .ok r →
    replaceGo d (f + 1) s = .ok r := by
  induction f with
  | zero =>
    intro s r h
    cases s with
    | nil => simpa [replaceGo] using h
    | cons c cs => simp [replaceGo] at h
  | succ f ih =>
    intro s r h
    cases s with
    | nil => simpa [replaceGo] using h
    | cons c cs =>
      rw [replaceGo] at h ⊢
      split at h
      · rename_i hq
        rw [if_pos hq]
        cases h1 : replaceGo d f (copyQuoted c cs).2 with
        | ok rest => rw [h1] at h; rw [ih _ _ h1]; exact h
        | err e => rw [h1] at h; cases h
        | panic e => rw [h1] at h; cases h
        | outOfFuel => rw [h1] at h; cases h
      · rename_i hq
        rw [if_neg hq]
        split at h
        · rename_i hb
          rw [if_pos hb]
          cases h1 : replaceGo d f (copyBracket 1 cs).2 with
          | ok rest => rw [h1] at h; rw [ih _ _ h1]; exact h
          | err e => rw [h1] at h; cases h
          | panic e => rw [h1] at h; cases h
          | outOfFuel => rw [h1] at h; cases h
        · rename_i hb
          rw [if_neg hb]
          split at h
          · rename_i hn
            rw [if_pos hn]
            cases h1 : replaceGo d f (cs.dropWhile isNameChar) with
            | ok rest => simp only [h1] at h; simp only [ih _ _ h1]; exact h
            | err e => simp only [h1] at h; cases h
            | panic e => simp only [h1] at h; cases h
            | outOfFuel => simp only [h1] at h; cases h
          · rename_i hn
            rw [if_neg hn]
            cases h1 : replaceGo d f cs with
            | ok rest => rw [h1] at h; rw [ih _ _ h1]; exact h
            | err e => rw [h1] at h; cases h
            | panic e => rw [h1] at h; cases h
            | outOfFuel => rw [h1] at h; cases h

theorem replaceGo_mono' (d : Int × Int) (f k : Nat) (s r : List Char) (h : replaceGo d f s = .ok r) :
    replaceGo d (f + k) s = .ok r := by
  induction k with
  | zero => exact h
  | succ k ih => exact replaceGo_mono d (f + k) s r ih

/-- any sufficient fuel gives the result of `replace_cell_names` -/
theorem replaceGo_fuel (d : Int × Int) (f : Nat) (s : List Char) (hf : s.length ≤ f) :
    replaceGo d f s = replaceCellNames s d := by
  unfold replaceCellNames
  obtain ⟨r, hr⟩ := replaceGo_ok d s.length s (Nat.le_refl _)
  obtain ⟨k, rfl⟩ : ∃ k, f = s.length + k := ⟨f - s.length, by omega⟩
  rw [hr, replaceGo_mono' d s.length k s r hr]

/-! ### the `formulas` table -/

theorem Table.lookup_store_same (t : Table) (si : Nat) (g : Group) : (t.store si g).lookup si = some g := by
  simp [Table.store, Table.lookup]

theorem Table.lookup_store_ne (t : Table) (si sj : Nat) (g : Group) (hne : si ≠ sj) :
    (t.store sj g).lookup si = t.lookup si := by
  have hf : ∀ l : Table, (l.filter (fun p => p.1 != sj)).find? (fun p => p.1 == si) = l.find? (fun p => p.1 == si) := by
    intro l
    induction l with
    | nil => rfl
    | cons q qs ih =>
      by_cases h1 : q.1 = sj
      · have h2 : (q.1 == si) = false := by
          simp only [beq_eq_false_iff_ne, ne_eq]; intro e; exact hne (e.symm.trans h1)
        have h3 : (q.1 != sj) = false := by simp [h1]
        rw [List.filter_cons, h3, List.find?_cons, h2]
        simpa using ih
      · have h3 : (q.1 != sj) = true := by simp [h1]
        rw [List.filter_cons, h3]
        simp only [if_true, List.find?_cons]
        cases (q.1 == si)
        · exact ih
        · rfl
  unfold Table.store Table.lookup
  have h0 : (sj == si) = false := by simp; exact fun e => hne e.symm
  simp only [List.find?, h0, hf]

/-- the table never holds more entries than groups were declared (`si` values do not matter) -/
theorem Table.store_length (t : Table) (si : Nat) (g : Group) : (t.store si g).length ≤ t.length + 1 := by
  unfold Table.store
  simp only [List.length_cons]
  have := List.length_filter_le (fun p : Nat × Group => p.1 != si) t
  omega

/-! ### the `ref` attribute -/

/-- A1 name of a 0-based position (spec side) -/
def a1 (p : Nat × Nat) : List Char := colLetters p.2 ++ dec (p.1 + 1)

theorem getRowColumn_a1 (p : Nat × Nat) (hc : p.2 < 16384) : getRowColumn (a1 p) = .ok p := by
  obtain ⟨hLa, hLv, hL1, _⟩ := colLetters_shape p.2 hc
  have hne : colLetters p.2 ≠ [] := by intro e; rw [e] at hL1; simp at hL1
  have hg := getRowColumn_letters_digits (colLetters p.2) (dec (p.1 + 1)) (fun x hx => (hLa x hx).1) hne
    (dec_digits (p.1 + 1) (by omega))
  rw [dec_val (p.1 + 1) (by omega), hLv, if_neg (by omega)] at hg
  simpa [a1] using hg

theorem a1_no_colon (p : Nat × Nat) (hc : p.2 < 16384) : ∀ x ∈ a1 p, x ≠ ':' := by
  obtain ⟨hLa, _, _, _⟩ := colLetters_shape p.2 hc
  intro x hx e
  subst e
  simp only [a1, List.mem_append] at hx
  rcases hx with hx | hx
  · have := (hLa _ hx).1; revert this; decide
  · have := dec_digits (p.1 + 1) (by omega) _ hx; revert this; decide

theorem splitColon_none (l : List Char) (h : ∀ x ∈ l, x ≠ ':') : splitColon l = [l] := by
  induction l with
  | nil => rfl
  | cons c cs ih =>
    have hc : c ≠ ':' := h c (by simp)
    simp only [splitColon, if_neg hc, ih (fun x hx => h x (by simp [hx]))]

theorem splitColon_one (l1 l2 : List Char) (h1 : ∀ x ∈ l1, x ≠ ':') (h2 : ∀ x ∈ l2, x ≠ ':') :
    splitColon (l1 ++ ':' :: l2) = [l1, l2] := by
  induction l1 with
  | nil => simp [splitColon, splitColon_none l2 h2]
  | cons c cs ih =>
    have hc : c ≠ ':' := h1 c (by simp)
    simp only [List.cons_append, splitColon, if_neg hc, ih (fun x hx => h1 x (by simp [hx]))]

end SharedFormula
