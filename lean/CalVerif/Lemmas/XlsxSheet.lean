import CalVerif.Lemmas.XlsxA1
import CalVerif.Props.C05
/-! Helper lemmas for C01: the reader run on the events the encoder `renderSheet` produces. -/
namespace XlsxCells
open XlsxSheet
set_option linter.unusedSimpArgs false

/-- the reader's step function folded over events (no early exit: `step` is the identity once `done`) -/
def steps (cfg : Cfg) : St → List Ev → Res St
  | st, [] => .ok st
  | st, ev :: rest =>
    match step cfg st ev with
    | .ok st' => steps cfg st' rest
    | .err e => .err e
    | .panic s => .panic s
    | .outOfFuel => .outOfFuel

theorem steps_append_ok (cfg : Cfg) (st st' : St) (a b : List Ev) (h : steps cfg st a = .ok st') :
    steps cfg st (a ++ b) = steps cfg st' b := by
  induction a generalizing st with
  | nil => simp only [steps] at h; injection h with h; subst h; rfl
  | cons ev rest ih =>
    simp only [List.cons_append, steps] at h ⊢
    cases hs : step cfg st ev with
    | ok st1 => rw [hs] at h; simp only at h ⊢; exact ih st1 h
    | err e => rw [hs] at h; cases h
    | panic s => rw [hs] at h; cases h
    | outOfFuel => rw [hs] at h; cases h

theorem steps_done (cfg : Cfg) (st : St) (evs : List Ev) (h : st.mode = .done) : steps cfg st evs = .ok st := by
  induction evs with
  | nil => rfl
  | cons ev rest ih =>
    have : step cfg st ev = .ok st := by unfold step; rw [h]
    simp only [steps, this, ih]

theorem run_of_steps (cfg : Cfg) (evs : List Ev) (st st' : St) (h : steps cfg st evs = .ok st')
    (hd : st'.mode = .done) : run cfg evs st = (st'.out.reverse, .ok ()) := by
  induction evs generalizing st with
  | nil =>
    simp only [steps] at h; injection h with h; subst h
    simp [run, hd]
  | cons ev rest ih =>
    simp only [steps] at h
    cases hs : step cfg st ev with
    | ok st1 =>
      rw [hs] at h; simp only at h
      simp only [run, hs]
      by_cases hm : st1.mode = .done
      · rw [steps_done cfg st1 rest hm] at h
        injection h with h; subst h
        simp [hm]
      · simp only [hm, if_false]
        exact ih st1 h
    | err e => rw [hs] at h; cases h
    | panic s => rw [hs] at h; cases h
    | outOfFuel => rw [hs] at h; cases h

/-! ### names -/

theorem localName_q (p : Bool) (n : Bytes) (h : ∀ x ∈ n, x ≠ 58) : localName (q p n) = n := by
  have h0 : localName n = n := by
    unfold localName
    have : ∀ l : Bytes, (∀ x ∈ l, x ≠ 58) → l.dropWhile (· ≠ 58) = [] := by
      intro l hl
      induction l with
      | nil => rfl
      | cons a as ih =>
        have ha := hl a (by simp)
        simp only [List.dropWhile, ha, ne_eq, not_false_eq_true, decide_true]
        exact ih (fun x hx => hl x (by simp [hx]))
    rw [this n h]
  cases p with
  | false => simpa [q] using h0
  | true =>
    unfold q localName
    simp [List.dropWhile]

@[simp] theorem ln_c (p : Bool) : localName (q p nC) = nC := localName_q p nC (by decide)
@[simp] theorem ln_row (p : Bool) : localName (q p nRow) = nRow := localName_q p nRow (by decide)
@[simp] theorem ln_v (p : Bool) : localName (q p nV) = nV := localName_q p nV (by decide)
@[simp] theorem ln_f (p : Bool) : localName (q p nF) = nF := localName_q p nF (by decide)
@[simp] theorem ln_is (p : Bool) : localName (q p nIs) = nIs := localName_q p nIs (by decide)
@[simp] theorem ln_t (p : Bool) : localName (q p nT) = nT := localName_q p nT (by decide)
@[simp] theorem ln_sd (p : Bool) : localName (q p nSheetData) = nSheetData := localName_q p nSheetData (by decide)
@[simp] theorem ln_dim (p : Bool) : localName (q p nDimension) = nDimension := localName_q p nDimension (by decide)
@[simp] theorem ln_ws (p : Bool) : localName (q p nWorksheet) = nWorksheet := localName_q p nWorksheet (by decide)


/-! distinct names -/

@[simp] theorem nRow_ne_nC : (nRow = nC) = False := eq_false (by decide)
@[simp] theorem nRow_ne_nV : (nRow = nV) = False := eq_false (by decide)
@[simp] theorem nRow_ne_nIs : (nRow = nIs) = False := eq_false (by decide)
@[simp] theorem nRow_ne_nF : (nRow = nF) = False := eq_false (by decide)
@[simp] theorem nRow_ne_nT : (nRow = nT) = False := eq_false (by decide)
@[simp] theorem nRow_ne_nR : (nRow = nR) = False := eq_false (by decide)
@[simp] theorem nRow_ne_nRPh : (nRow = nRPh) = False := eq_false (by decide)
@[simp] theorem nRow_ne_nSheetData : (nRow = nSheetData) = False := eq_false (by decide)
@[simp] theorem nRow_ne_nDimension : (nRow = nDimension) = False := eq_false (by decide)
@[simp] theorem nRow_ne_nWorksheet : (nRow = nWorksheet) = False := eq_false (by decide)
@[simp] theorem nRow_ne_nS : (nRow = nS) = False := eq_false (by decide)
@[simp] theorem nRow_ne_nRef : (nRow = nRef) = False := eq_false (by decide)
@[simp] theorem nC_ne_nRow : (nC = nRow) = False := eq_false (by decide)
@[simp] theorem nC_ne_nV : (nC = nV) = False := eq_false (by decide)
@[simp] theorem nC_ne_nIs : (nC = nIs) = False := eq_false (by decide)
@[simp] theorem nC_ne_nF : (nC = nF) = False := eq_false (by decide)
@[simp] theorem nC_ne_nT : (nC = nT) = False := eq_false (by decide)
@[simp] theorem nC_ne_nR : (nC = nR) = False := eq_false (by decide)
@[simp] theorem nC_ne_nRPh : (nC = nRPh) = False := eq_false (by decide)
@[simp] theorem nC_ne_nSheetData : (nC = nSheetData) = False := eq_false (by decide)
@[simp] theorem nC_ne_nDimension : (nC = nDimension) = False := eq_false (by decide)
@[simp] theorem nC_ne_nWorksheet : (nC = nWorksheet) = False := eq_false (by decide)
@[simp] theorem nC_ne_nS : (nC = nS) = False := eq_false (by decide)
@[simp] theorem nC_ne_nRef : (nC = nRef) = False := eq_false (by decide)
@[simp] theorem nV_ne_nRow : (nV = nRow) = False := eq_false (by decide)
@[simp] theorem nV_ne_nC : (nV = nC) = False := eq_false (by decide)
@[simp] theorem nV_ne_nIs : (nV = nIs) = False := eq_false (by decide)
@[simp] theorem nV_ne_nF : (nV = nF) = False := eq_false (by decide)
@[simp] theorem nV_ne_nT : (nV = nT) = False := eq_false (by decide)
@[simp] theorem nV_ne_nR : (nV = nR) = False := eq_false (by decide)
@[simp] theorem nV_ne_nRPh : (nV = nRPh) = False := eq_false (by decide)
@[simp] theorem nV_ne_nSheetData : (nV = nSheetData) = False := eq_false (by decide)
@[simp] theorem nV_ne_nDimension : (nV = nDimension) = False := eq_false (by decide)
@[simp] theorem nV_ne_nWorksheet : (nV = nWorksheet) = False := eq_false (by decide)
@[simp] theorem nV_ne_nS : (nV = nS) = False := eq_false (by decide)
@[simp] theorem nV_ne_nRef : (nV = nRef) = False := eq_false (by decide)
@[simp] theorem nIs_ne_nRow : (nIs = nRow) = False := eq_false (by decide)
@[simp] theorem nIs_ne_nC : (nIs = nC) = False := eq_false (by decide)
@[simp] theorem nIs_ne_nV : (nIs = nV) = False := eq_false (by decide)
@[simp] theorem nIs_ne_nF : (nIs = nF) = False := eq_false (by decide)
@[simp] theorem nIs_ne_nT : (nIs = nT) = False := eq_false (by decide)
@[simp] theorem nIs_ne_nR : (nIs = nR) = False := eq_false (by decide)
@[simp] theorem nIs_ne_nRPh : (nIs = nRPh) = False := eq_false (by decide)
@[simp] theorem nIs_ne_nSheetData : (nIs = nSheetData) = False := eq_false (by decide)
@[simp] theorem nIs_ne_nDimension : (nIs = nDimension) = False := eq_false (by decide)
@[simp] theorem nIs_ne_nWorksheet : (nIs = nWorksheet) = False := eq_false (by decide)
@[simp] theorem nIs_ne_nS : (nIs = nS) = False := eq_false (by decide)
@[simp] theorem nIs_ne_nRef : (nIs = nRef) = False := eq_false (by decide)
@[simp] theorem nF_ne_nRow : (nF = nRow) = False := eq_false (by decide)
@[simp] theorem nF_ne_nC : (nF = nC) = False := eq_false (by decide)
@[simp] theorem nF_ne_nV : (nF = nV) = False := eq_false (by decide)
@[simp] theorem nF_ne_nIs : (nF = nIs) = False := eq_false (by decide)
@[simp] theorem nF_ne_nT : (nF = nT) = False := eq_false (by decide)
@[simp] theorem nF_ne_nR : (nF = nR) = False := eq_false (by decide)
@[simp] theorem nF_ne_nRPh : (nF = nRPh) = False := eq_false (by decide)
@[simp] theorem nF_ne_nSheetData : (nF = nSheetData) = False := eq_false (by decide)
@[simp] theorem nF_ne_nDimension : (nF = nDimension) = False := eq_false (by decide)
@[simp] theorem nF_ne_nWorksheet : (nF = nWorksheet) = False := eq_false (by decide)
@[simp] theorem nF_ne_nS : (nF = nS) = False := eq_false (by decide)
@[simp] theorem nF_ne_nRef : (nF = nRef) = False := eq_false (by decide)
@[simp] theorem nT_ne_nRow : (nT = nRow) = False := eq_false (by decide)
@[simp] theorem nT_ne_nC : (nT = nC) = False := eq_false (by decide)
@[simp] theorem nT_ne_nV : (nT = nV) = False := eq_false (by decide)
@[simp] theorem nT_ne_nIs : (nT = nIs) = False := eq_false (by decide)
@[simp] theorem nT_ne_nF : (nT = nF) = False := eq_false (by decide)
@[simp] theorem nT_ne_nR : (nT = nR) = False := eq_false (by decide)
@[simp] theorem nT_ne_nRPh : (nT = nRPh) = False := eq_false (by decide)
@[simp] theorem nT_ne_nSheetData : (nT = nSheetData) = False := eq_false (by decide)
@[simp] theorem nT_ne_nDimension : (nT = nDimension) = False := eq_false (by decide)
@[simp] theorem nT_ne_nWorksheet : (nT = nWorksheet) = False := eq_false (by decide)
@[simp] theorem nT_ne_nS : (nT = nS) = False := eq_false (by decide)
@[simp] theorem nT_ne_nRef : (nT = nRef) = False := eq_false (by decide)
@[simp] theorem nR_ne_nRow : (nR = nRow) = False := eq_false (by decide)
@[simp] theorem nR_ne_nC : (nR = nC) = False := eq_false (by decide)
@[simp] theorem nR_ne_nV : (nR = nV) = False := eq_false (by decide)
@[simp] theorem nR_ne_nIs : (nR = nIs) = False := eq_false (by decide)
@[simp] theorem nR_ne_nF : (nR = nF) = False := eq_false (by decide)
@[simp] theorem nR_ne_nT : (nR = nT) = False := eq_false (by decide)
@[simp] theorem nR_ne_nRPh : (nR = nRPh) = False := eq_false (by decide)
@[simp] theorem nR_ne_nSheetData : (nR = nSheetData) = False := eq_false (by decide)
@[simp] theorem nR_ne_nDimension : (nR = nDimension) = False := eq_false (by decide)
@[simp] theorem nR_ne_nWorksheet : (nR = nWorksheet) = False := eq_false (by decide)
@[simp] theorem nR_ne_nS : (nR = nS) = False := eq_false (by decide)
@[simp] theorem nR_ne_nRef : (nR = nRef) = False := eq_false (by decide)
@[simp] theorem nRPh_ne_nRow : (nRPh = nRow) = False := eq_false (by decide)
@[simp] theorem nRPh_ne_nC : (nRPh = nC) = False := eq_false (by decide)
@[simp] theorem nRPh_ne_nV : (nRPh = nV) = False := eq_false (by decide)
@[simp] theorem nRPh_ne_nIs : (nRPh = nIs) = False := eq_false (by decide)
@[simp] theorem nRPh_ne_nF : (nRPh = nF) = False := eq_false (by decide)
@[simp] theorem nRPh_ne_nT : (nRPh = nT) = False := eq_false (by decide)
@[simp] theorem nRPh_ne_nR : (nRPh = nR) = False := eq_false (by decide)
@[simp] theorem nRPh_ne_nSheetData : (nRPh = nSheetData) = False := eq_false (by decide)
@[simp] theorem nRPh_ne_nDimension : (nRPh = nDimension) = False := eq_false (by decide)
@[simp] theorem nRPh_ne_nWorksheet : (nRPh = nWorksheet) = False := eq_false (by decide)
@[simp] theorem nRPh_ne_nS : (nRPh = nS) = False := eq_false (by decide)
@[simp] theorem nRPh_ne_nRef : (nRPh = nRef) = False := eq_false (by decide)
@[simp] theorem nSheetData_ne_nRow : (nSheetData = nRow) = False := eq_false (by decide)
@[simp] theorem nSheetData_ne_nC : (nSheetData = nC) = False := eq_false (by decide)
@[simp] theorem nSheetData_ne_nV : (nSheetData = nV) = False := eq_false (by decide)
@[simp] theorem nSheetData_ne_nIs : (nSheetData = nIs) = False := eq_false (by decide)
@[simp] theorem nSheetData_ne_nF : (nSheetData = nF) = False := eq_false (by decide)
@[simp] theorem nSheetData_ne_nT : (nSheetData = nT) = False := eq_false (by decide)
@[simp] theorem nSheetData_ne_nR : (nSheetData = nR) = False := eq_false (by decide)
@[simp] theorem nSheetData_ne_nRPh : (nSheetData = nRPh) = False := eq_false (by decide)
@[simp] theorem nSheetData_ne_nDimension : (nSheetData = nDimension) = False := eq_false (by decide)
@[simp] theorem nSheetData_ne_nWorksheet : (nSheetData = nWorksheet) = False := eq_false (by decide)
@[simp] theorem nSheetData_ne_nS : (nSheetData = nS) = False := eq_false (by decide)
@[simp] theorem nSheetData_ne_nRef : (nSheetData = nRef) = False := eq_false (by decide)
@[simp] theorem nDimension_ne_nRow : (nDimension = nRow) = False := eq_false (by decide)
@[simp] theorem nDimension_ne_nC : (nDimension = nC) = False := eq_false (by decide)
@[simp] theorem nDimension_ne_nV : (nDimension = nV) = False := eq_false (by decide)
@[simp] theorem nDimension_ne_nIs : (nDimension = nIs) = False := eq_false (by decide)
@[simp] theorem nDimension_ne_nF : (nDimension = nF) = False := eq_false (by decide)
@[simp] theorem nDimension_ne_nT : (nDimension = nT) = False := eq_false (by decide)
@[simp] theorem nDimension_ne_nR : (nDimension = nR) = False := eq_false (by decide)
@[simp] theorem nDimension_ne_nRPh : (nDimension = nRPh) = False := eq_false (by decide)
@[simp] theorem nDimension_ne_nSheetData : (nDimension = nSheetData) = False := eq_false (by decide)
@[simp] theorem nDimension_ne_nWorksheet : (nDimension = nWorksheet) = False := eq_false (by decide)
@[simp] theorem nDimension_ne_nS : (nDimension = nS) = False := eq_false (by decide)
@[simp] theorem nDimension_ne_nRef : (nDimension = nRef) = False := eq_false (by decide)
@[simp] theorem nWorksheet_ne_nRow : (nWorksheet = nRow) = False := eq_false (by decide)
@[simp] theorem nWorksheet_ne_nC : (nWorksheet = nC) = False := eq_false (by decide)
@[simp] theorem nWorksheet_ne_nV : (nWorksheet = nV) = False := eq_false (by decide)
@[simp] theorem nWorksheet_ne_nIs : (nWorksheet = nIs) = False := eq_false (by decide)
@[simp] theorem nWorksheet_ne_nF : (nWorksheet = nF) = False := eq_false (by decide)
@[simp] theorem nWorksheet_ne_nT : (nWorksheet = nT) = False := eq_false (by decide)
@[simp] theorem nWorksheet_ne_nR : (nWorksheet = nR) = False := eq_false (by decide)
@[simp] theorem nWorksheet_ne_nRPh : (nWorksheet = nRPh) = False := eq_false (by decide)
@[simp] theorem nWorksheet_ne_nSheetData : (nWorksheet = nSheetData) = False := eq_false (by decide)
@[simp] theorem nWorksheet_ne_nDimension : (nWorksheet = nDimension) = False := eq_false (by decide)
@[simp] theorem nWorksheet_ne_nS : (nWorksheet = nS) = False := eq_false (by decide)
@[simp] theorem nWorksheet_ne_nRef : (nWorksheet = nRef) = False := eq_false (by decide)
@[simp] theorem nS_ne_nRow : (nS = nRow) = False := eq_false (by decide)
@[simp] theorem nS_ne_nC : (nS = nC) = False := eq_false (by decide)
@[simp] theorem nS_ne_nV : (nS = nV) = False := eq_false (by decide)
@[simp] theorem nS_ne_nIs : (nS = nIs) = False := eq_false (by decide)
@[simp] theorem nS_ne_nF : (nS = nF) = False := eq_false (by decide)
@[simp] theorem nS_ne_nT : (nS = nT) = False := eq_false (by decide)
@[simp] theorem nS_ne_nR : (nS = nR) = False := eq_false (by decide)
@[simp] theorem nS_ne_nRPh : (nS = nRPh) = False := eq_false (by decide)
@[simp] theorem nS_ne_nSheetData : (nS = nSheetData) = False := eq_false (by decide)
@[simp] theorem nS_ne_nDimension : (nS = nDimension) = False := eq_false (by decide)
@[simp] theorem nS_ne_nWorksheet : (nS = nWorksheet) = False := eq_false (by decide)
@[simp] theorem nS_ne_nRef : (nS = nRef) = False := eq_false (by decide)
@[simp] theorem nRef_ne_nRow : (nRef = nRow) = False := eq_false (by decide)
@[simp] theorem nRef_ne_nC : (nRef = nC) = False := eq_false (by decide)
@[simp] theorem nRef_ne_nV : (nRef = nV) = False := eq_false (by decide)
@[simp] theorem nRef_ne_nIs : (nRef = nIs) = False := eq_false (by decide)
@[simp] theorem nRef_ne_nF : (nRef = nF) = False := eq_false (by decide)
@[simp] theorem nRef_ne_nT : (nRef = nT) = False := eq_false (by decide)
@[simp] theorem nRef_ne_nR : (nRef = nR) = False := eq_false (by decide)
@[simp] theorem nRef_ne_nRPh : (nRef = nRPh) = False := eq_false (by decide)
@[simp] theorem nRef_ne_nSheetData : (nRef = nSheetData) = False := eq_false (by decide)
@[simp] theorem nRef_ne_nDimension : (nRef = nDimension) = False := eq_false (by decide)
@[simp] theorem nRef_ne_nWorksheet : (nRef = nWorksheet) = False := eq_false (by decide)
@[simp] theorem nRef_ne_nS : (nRef = nS) = False := eq_false (by decide)

theorem q_inj (p : Bool) (a b : Bytes) : q p a = q p b ↔ a = b := by
  cases p <;> simp [q]

/-! ### attributes of a rendered `<c>` -/

theorem getAttr_cell_s (ra : Attrs) (hra : ra = [] ∨ ∃ v, ra = [(nR, v)]) (style : Option Bytes) (ta : Attrs)
    (hta : ta = [] ∨ ∃ v, ta = [(nT, v)]) : getAttr (ra ++ styleAttr style ++ ta) nS = style := by
  rcases hra with rfl | ⟨v, rfl⟩ <;> rcases hta with rfl | ⟨w, rfl⟩ <;> cases style <;>
    simp [getAttr, styleAttr, List.find?, nR, nS, nT]

theorem getAttr_cell_t (ra : Attrs) (hra : ra = [] ∨ ∃ v, ra = [(nR, v)]) (style : Option Bytes) (ta : Attrs)
    (hta : ta = [] ∨ ∃ v, ta = [(nT, v)]) : getAttr (ra ++ styleAttr style ++ ta) nT = ta.head?.map (·.2) := by
  rcases hra with rfl | ⟨v, rfl⟩ <;> rcases hta with rfl | ⟨w, rfl⟩ <;> cases style <;>
    simp [getAttr, styleAttr, List.find?, nR, nS, nT]

theorem getAttr_cell_r (ra : Attrs) (hra : ra = [] ∨ ∃ v, ra = [(nR, v)]) (style : Option Bytes) (ta : Attrs)
    (hta : ta = [] ∨ ∃ v, ta = [(nT, v)]) : getAttr (ra ++ styleAttr style ++ ta) nR = ra.head?.map (·.2) := by
  rcases hra with rfl | ⟨v, rfl⟩ <;> rcases hta with rfl | ⟨w, rfl⟩ <;> cases style <;>
    simp [getAttr, styleAttr, List.find?, nR, nS, nT]

theorem cell_base_distinct (ra : Attrs) (hra : ra = [] ∨ ∃ v, ra = [(nR, v)]) (style : Option Bytes) (ta : Attrs)
    (hta : ta = [] ∨ ∃ v, ta = [(nT, v)]) : (ra ++ styleAttr style ++ ta).Pairwise (fun p q => p.1 ≠ q.1) := by
  rcases hra with rfl | ⟨v, rfl⟩ <;> rcases hta with rfl | ⟨w, rfl⟩ <;> cases style <;>
    simp [styleAttr, nR, nS, nT]

/-- reversing an attribute list without duplicate names changes no lookup -/
theorem getAttr_reverse (a : Attrs) (k : Bytes) (hnd : a.Pairwise (fun p q => p.1 ≠ q.1)) :
    getAttr a.reverse k = getAttr a k := by
  induction a with
  | nil => rfl
  | cons p ps ih =>
    obtain ⟨hp, hps⟩ := List.pairwise_cons.mp hnd
    have ih' := ih hps
    unfold getAttr at ih' ⊢
    rw [List.reverse_cons, List.find?_append]
    by_cases hk : p.1 = k
    · have hnone : ps.reverse.find? (fun a => a.1 == k) = none := by
        rw [List.find?_eq_none]; intro y hy
        have := hp y (List.mem_reverse.mp hy)
        simp only [beq_iff_eq]; intro h; exact this (hk.trans h.symm)
      simp [hnone, hk]
    · have : (p.1 == k) = false := by simpa using hk
      simp only [List.find?_cons, this, List.find?_nil, Option.or_none]
      cases hf : ps.reverse.find? (fun a => a.1 == k) with
      | none => rw [hf] at ih'; simpa using ih'
      | some y => rw [hf] at ih'; simpa using ih'

/-- an extra attribute with another name in front changes no lookup of `k` -/
theorem getAttr_cons_ne (a : Attrs) (k x v : Bytes) (hx : x ≠ k) : getAttr ((x, v) :: a) k = getAttr a k := by
  have : (x == k) = false := by simpa using hx
  simp [getAttr, List.find?, this]

/-! ### decimal text through `atoi_simd::parse::<usize>` -/

theorem foldl_dec (l : Bytes) (a : Nat) :
    l.reverse.foldl (fun acc c => acc * 10 + (c - 48)) a = a * 10 ^ l.length + valLE10 l := by
  induction l generalizing a with
  | nil => simp [valLE10]
  | cons d ds ih =>
    simp only [List.reverse_cons, List.foldl_append, List.foldl_cons, List.foldl_nil, ih, valLE10,
      List.length_cons, Nat.pow_succ]
    have e : (a * 10 ^ ds.length + valLE10 ds) * 10 = a * (10 ^ ds.length * 10) + 10 * valLE10 ds := by
      rw [Nat.add_mul, Nat.mul_assoc, Nat.mul_comm (valLE10 ds)]
    omega

theorem decLE_length_le (k n : Nat) (hk : 1 ≤ k) (h : n < 10 ^ k) : (decLE n).length ≤ k := by
  induction k generalizing n with
  | zero => omega
  | succ k ih =>
    rw [decLE]
    split
    · simp
    · rename_i hn
      have hk1 : 1 ≤ k := by
        cases k with
        | zero => simp at h; omega
        | succ k => omega
      have : n / 10 < 10 ^ k := by
        rw [Nat.pow_succ] at h
        omega
      have := ih (n / 10) hk1 this
      simp only [List.length_cons]; omega

theorem atoiUsize_dec (n : Nat) (h : n < 10 ^ 19) : atoiUsize (dec n) = some n := by
  have hlen := decLE_length_le 19 n (by omega) h
  have hne := decLE_ne_nil n
  have hpos : 0 < (decLE n).length := List.length_pos_iff.mpr hne
  unfold atoiUsize dec
  have hall : (decLE n).reverse.all (fun c => decide (48 ≤ c ∧ c ≤ 57)) = true := by
    rw [List.all_eq_true]; intro x hx
    have := decLE_digits n x (List.mem_reverse.mp hx)
    simpa using this
  simp only [List.length_reverse, hall]
  rw [if_neg (by
    intro h
    rcases h with h | h | h
    · omega
    · omega
    · exact h trivial)]
  have := foldl_dec (decLE n) 0
  simp only [Nat.zero_mul, Nat.zero_add, valLE10_decLE] at this
  simp only [this]
  rw [if_pos (by omega)]

theorem parseError_literal (k : CellErrorType) (hk : k ≠ .gettingData) : parseError (errLiteral k) = some k := by
  cases k <;> first | exact absurd rfl hk | decide

/-! ### the children of a rendered `<c>` -/

theorem pieces_cons (c : Bytes) (cs : List Bytes) : pieces (c :: cs) = [.text c, .other] ++ pieces cs := by
  simp [pieces]

/-- text arriving in pieces (text nodes separated by comments) inside `<v>` is concatenated -/
theorem steps_pieces_v (cfg : Cfg) (pos : Nat × Nat) (attrs : Attrs) (vname : Bytes) (row col : Nat)
    (out : List (Nat × Nat × Val)) (chunks : List Bytes) (acc : Bytes) :
    steps cfg ⟨.inV pos attrs vname acc, row, col, out⟩ (pieces chunks) =
      .ok ⟨.inV pos attrs vname (acc ++ chunks.flatten), row, col, out⟩ := by
  induction chunks generalizing acc with
  | nil => simp [pieces, steps]
  | cons c cs ih =>
    rw [pieces_cons]
    have h1 : steps cfg ⟨.inV pos attrs vname acc, row, col, out⟩ [.text c, .other] =
        .ok ⟨.inV pos attrs vname (acc ++ c), row, col, out⟩ := by simp [steps, step]
    rw [steps_append_ok cfg _ _ _ _ h1, ih]
    simp [List.append_assoc]

theorem steps_v (cfg : Cfg) (p : Bool) (pos : Nat × Nat) (attrs : Attrs) (v0 v : Val) (row col : Nat)
    (out : List (Nat × Nat × Val)) (chunks : List Bytes) (t : Bytes) (hfl : chunks.flatten = t)
    (h : readV cfg attrs t = .ok v) :
    steps cfg ⟨.cell pos attrs v0, row, col, out⟩ (vEvents p chunks) = .ok ⟨.cell pos attrs v, row, col, out⟩ := by
  unfold vEvents
  have h1 : steps cfg ⟨.cell pos attrs v0, row, col, out⟩ [.start (q p nV) []] =
      .ok ⟨.inV pos attrs (q p nV) [], row, col, out⟩ := by simp [steps, step]
  have h2 := steps_pieces_v cfg pos attrs (q p nV) row col out chunks []
  have h3 : steps cfg ⟨.inV pos attrs (q p nV) ([] ++ chunks.flatten), row, col, out⟩ [.stop (q p nV)] =
      .ok ⟨.cell pos attrs v, row, col, out⟩ := by simp [steps, step, hfl, h]
  rw [List.append_assoc, steps_append_ok cfg _ _ _ _ h1, steps_append_ok cfg _ _ _ _ h2, h3]

theorem steps_formula (cfg : Cfg) (p : Bool) (pos : Nat × Nat) (attrs : Attrs) (row col : Nat)
    (out : List (Nat × Nat × Val)) (f : Option Bytes) :
    steps cfg ⟨.cell pos attrs .empty, row, col, out⟩ (formulaEvents p f) = .ok ⟨.cell pos attrs .empty, row, col, out⟩ := by
  cases f with
  | none => simp [formulaEvents, steps]
  | some f =>
    unfold formulaEvents
    by_cases hf : f = []
    · subst hf
      simp [steps, step]
    · simp [steps, step, hf]

/-- text arriving in pieces inside the `<t>` of an inline string is concatenated -/
theorem steps_pieces_t (cfg : Cfg) (pos : Nat × Nat) (attrs : Attrs) (cl tname : Bytes) (rich : Option Bytes) (phon : Bool)
    (row col : Nat) (out : List (Nat × Nat × Val)) (chunks : List Bytes) (acc : Bytes) :
    steps cfg ⟨.inIs pos attrs cl (.inT rich phon tname acc), row, col, out⟩ (pieces chunks) =
      .ok ⟨.inIs pos attrs cl (.inT rich phon tname (acc ++ chunks.flatten)), row, col, out⟩ := by
  induction chunks generalizing acc with
  | nil => simp [pieces, steps]
  | cons c cs ih =>
    rw [pieces_cons]
    have h1 : steps cfg ⟨.inIs pos attrs cl (.inT rich phon tname acc), row, col, out⟩ [.text c, .other] =
        .ok ⟨.inIs pos attrs cl (.inT rich phon tname (acc ++ c)), row, col, out⟩ := by simp [steps, step, strStep]
    rw [steps_append_ok cfg _ _ _ _ h1, ih]
    simp [List.append_assoc]

theorem steps_inline (cfg : Cfg) (p : Bool) (pos : Nat × Nat) (attrs : Attrs) (v0 : Val) (row col : Nat)
    (out : List (Nat × Nat × Val)) (chunks : List Bytes) (s : Bytes) (hfl : chunks.flatten = s) :
    steps cfg ⟨.cell pos attrs v0, row, col, out⟩
      ([.start (q p nIs) [], .start (q p nT) []] ++ pieces chunks ++ [.stop (q p nT), .stop (q p nIs)])
      = .ok ⟨.cell pos attrs (.str s), row, col, out⟩ := by
  have h1 : steps cfg ⟨.cell pos attrs v0, row, col, out⟩ [.start (q p nIs) [], .start (q p nT) []] =
      .ok ⟨.inIs pos attrs (q p nIs) (.inT none false (q p nT) []), row, col, out⟩ := by simp [steps, step, strStep]
  have h2 := steps_pieces_t cfg pos attrs (q p nIs) (q p nT) none false row col out chunks []
  have h3 : steps cfg ⟨.inIs pos attrs (q p nIs) (.inT none false (q p nT) ([] ++ chunks.flatten)), row, col, out⟩
      [.stop (q p nT), .stop (q p nIs)] = .ok ⟨.cell pos attrs (.str s), row, col, out⟩ := by
    simp [steps, step, strStep, hfl]
  rw [List.append_assoc, steps_append_ok cfg _ _ _ _ h1, steps_append_ok cfg _ _ _ _ h2, h3]

theorem contentEvents_attr (p : Bool) (sp : Bytes → List Bytes) (c : Content) :
    (contentEvents p sp c).1 = [] ∨ ∃ v, (contentEvents p sp c).1 = [(nT, v)] := by
  cases c with
  | blank => exact Or.inl rfl
  | num t tn => cases tn <;> simp [contentEvents]
  | shared idx => exact Or.inr ⟨_, rfl⟩
  | inline s => exact Or.inr ⟨_, rfl⟩
  | fstr s => exact Or.inr ⟨_, rfl⟩
  | bool b => exact Or.inr ⟨_, rfl⟩
  | err k => exact Or.inr ⟨_, rfl⟩
  | iso s => exact Or.inr ⟨_, rfl⟩

/-- the typing table, in terms of what the attribute lookups of `s` and `t` give (nothing else of the
    attribute list matters: order, inert extra attributes) -/
theorem readV_of_attrs (cfg : Cfg) (attrs : Attrs) (v : Bytes) :
    readV cfg attrs v =
      match getAttr attrs nT with
      | some t =>
        if t = nS then
          match cfg.strings[(atoiUsize v).getD 0]? with
          | some s => .ok (.shared s)
          | none => .err "Unexpected"
        else if t = tB then .ok (.bool (v ≠ [48]))
        else if t = tE then
          match parseError v with
          | some code => .ok (.error code)
          | none => .err "CellError"
        else if t = tD then .ok (.dateIso v)
        else if t = tStr then .ok (.str v)
        else if t = tN then (if v = [] then .ok .empty else .ok (.num v (styleFmt cfg (getAttr attrs nS)) true))
        else if t = nIs then .err "Unexpected"
        else .err "CellTAttribute"
      | none => .ok (.num v (styleFmt cfg (getAttr attrs nS)) false) := by
  unfold readV
  cases getAttr attrs nS <;> rfl

theorem steps_content (cfg : Cfg) (p : Bool) (sp : Bytes → List Bytes) (hsp : ∀ t, (sp t).flatten = t)
    (pos : Nat × Nat) (attrs : Attrs) (cs : CellSpec)
    (hs : getAttr attrs nS = cs.style) (ht : getAttr attrs nT = (contentEvents p sp cs.content).1.head?.map (·.2))
    (hok : cs.content.Ok cfg) (row col : Nat) (out : List (Nat × Nat × Val)) :
    steps cfg ⟨.cell pos attrs .empty, row, col, out⟩ (contentEvents p sp cs.content).2 =
    .ok ⟨.cell pos attrs (expect cfg cs), row, col, out⟩ := by
  obtain ⟨content, style, formula⟩ := cs
  simp only at hok hs ht ⊢
  cases content with
  | blank => simp [contentEvents, steps, expect]
  | num t tn =>
    apply steps_v (hfl := hsp t)
    rw [readV_of_attrs cfg attrs, hs, ht]
    cases tn
    · simp [contentEvents, expect]
    · by_cases ht : t = [] <;> simp [contentEvents, expect, ht, tN, nS, tB, tE, tD, tStr]
  | shared idx =>
    apply steps_v (hfl := hsp (dec idx))
    rw [readV_of_attrs cfg attrs, hs, ht]
    obtain ⟨h1, h2⟩ := hok
    simp only [contentEvents, List.head?_cons, Option.map_some, if_true, atoiUsize_dec idx h2, Option.getD_some, expect]
    rw [List.getElem?_eq_getElem h1]
    simp [List.getD_eq_getElem?_getD, List.getElem?_eq_getElem h1]
  | inline s =>
    simp only [contentEvents]
    exact steps_inline cfg p pos _ .empty row col out (sp s) s (hsp s)
  | fstr s =>
    apply steps_v (hfl := hsp s)
    rw [readV_of_attrs cfg attrs, hs, ht]
    simp [contentEvents, expect, tN, nS, tB, tE, tD, tStr]
  | bool b =>
    apply steps_v (hfl := hsp _)
    rw [readV_of_attrs cfg attrs, hs, ht]
    cases b <;> simp [contentEvents, expect, tN, nS, tB, tE, tD, tStr]
  | err k =>
    apply steps_v (hfl := hsp _)
    rw [readV_of_attrs cfg attrs, hs, ht]
    simp [contentEvents, expect, tN, nS, tB, tE, tD, tStr, parseError_literal k hok]
  | iso s =>
    apply steps_v (hfl := hsp s)
    rw [readV_of_attrs cfg attrs, hs, ht]
    simp [contentEvents, expect, tN, nS, tB, tE, tD, tStr]

/-! ### cells, rows, the sheet -/

/-- white space and comments between rows and cells are skipped -/
theorem steps_inert_rows (cfg : Cfg) (l : List Ev) (h : Inert l) (row col : Nat) (out : List (Nat × Nat × Val)) :
    steps cfg ⟨.rows, row, col, out⟩ l = .ok ⟨.rows, row, col, out⟩ := by
  induction l with
  | nil => rfl
  | cons ev rest ih =>
    have hrest : Inert rest := fun e he => h e (by simp [he])
    rcases h ev (by simp) with rfl | ⟨s, rfl⟩
    · simp only [steps, step]; exact ih hrest
    · simp only [steps, step]; exact ih hrest

/-- one rendered `<c>`: the reader returns the cell at its position with the expected value and moves the
    column cursor just past it -/
theorem steps_cell (cfg : Cfg) (lay : Layout) (hl : lay.Legal) (r c cur : Nat) (cs : CellSpec) (hr : r < 1048576)
    (hc : c < 16384) (hok : cs.content.Ok cfg) (out : List (Nat × Nat × Val)) :
    steps cfg ⟨.rows, r, cur, out⟩ (renderCell lay r c cur cs) =
      .ok ⟨.rows, r, c + 1, (r, c, expect cfg cs) :: out⟩ := by
  simp only [renderCell]
  -- the reference attribute: written, or legally omitted because the cursor is already there
  generalize hra : (if (lay.cellExplicit r c || c != cur) = true then [(nR, refName (lay.cellLower r c) r c)] else []) = ra
  have hra' : ra = [] ∨ ∃ v, ra = [(nR, v)] := by
    subst hra; split
    · exact Or.inr ⟨_, rfl⟩
    · exact Or.inl rfl
  generalize hp : lay.cellPfx r c = p
  have hta := contentEvents_attr p (lay.split r c) cs.content
  generalize hattrs : lay.cellArrange r c (ra ++ styleAttr cs.style ++ (contentEvents p (lay.split r c) cs.content).1) = attrs
  have hR : getAttr attrs nR = ra.head?.map (·.2) := by
    rw [← hattrs, hl.cellAttr r c _ nR (cell_base_distinct ra hra' cs.style _ hta) (Or.inl rfl)]; exact getAttr_cell_r ra hra' cs.style _ hta
  have hS : getAttr attrs nS = cs.style := by
    rw [← hattrs, hl.cellAttr r c _ nS (cell_base_distinct ra hra' cs.style _ hta) (Or.inr (Or.inl rfl))]; exact getAttr_cell_s ra hra' cs.style _ hta
  have hT : getAttr attrs nT = (contentEvents p (lay.split r c) cs.content).1.head?.map (·.2) := by
    rw [← hattrs, hl.cellAttr r c _ nT (cell_base_distinct ra hra' cs.style _ hta) (Or.inr (Or.inr rfl))]; exact getAttr_cell_t ra hra' cs.style _ hta
  have h0 := steps_inert_rows cfg (lay.gapCell r c) (hl.gaps.2.1 r c) r cur out
  -- <c …>
  have h1 : steps cfg ⟨.rows, r, cur, out⟩ [.start (q p nC) attrs] = .ok ⟨.cell (r, c) attrs .empty, r, c, out⟩ := by
    simp only [steps, step, ln_c, nC_ne_nRow, if_false, if_true, hR]
    subst hra
    by_cases hex : (lay.cellExplicit r c || c != cur) = true
    · simp only [hex, if_true, List.head?_cons, Option.map_some]
      rw [getRowColumn_refName _ r c (by simp only [U32]; omega) (by simp only [U32]; omega)]
    · have hcur : c = cur := by
        simp only [Bool.or_eq_true, bne_iff_ne, ne_eq, not_or, Bool.not_eq_true, Classical.not_not] at hex
        exact hex.2
      subst hcur
      simp only [hex, Bool.false_eq_true, if_false, List.head?_nil, Option.map_none]
  -- <f>, value children, </c>
  have h2 := steps_formula cfg p (r, c) attrs r c out cs.formula
  have h3 := steps_content cfg p (lay.split r c) (hl.split r c) (r, c) attrs cs hS hT hok r c out
  have h4 : steps cfg ⟨.cell (r, c) attrs (expect cfg cs), r, c, out⟩
      [.stop (q p nC)] = .ok ⟨.rows, r, c + 1, (r, c, expect cfg cs) :: out⟩ := by
    have : satAdd c 1 = c + 1 := satAdd_eq (by simp only [U32]; omega)
    simp [steps, step, this]
  rw [List.append_assoc, List.append_assoc, List.append_assoc, steps_append_ok cfg _ _ _ _ h0,
    steps_append_ok cfg _ _ _ _ h1, steps_append_ok cfg _ _ _ _ h2, steps_append_ok cfg _ _ _ _ h3, h4]

/-- the expected cells of one row -/
def rowCells (cfg : Cfg) (r : Nat) (cells : List (Nat × CellSpec)) : List (Nat × Nat × Val) :=
  cells.map fun cell => (r, cell.1, expect cfg cell.2)

theorem steps_cells (cfg : Cfg) (lay : Layout) (hl : lay.Legal) (r : Nat) (hr : r < 1048576)
    (cells : List (Nat × CellSpec)) (cur : Nat) (hinc : Increasing 16384 cur cells)
    (hok : ∀ cell ∈ cells, cell.2.content.Ok cfg) (out : List (Nat × Nat × Val)) :
    ∃ col, steps cfg ⟨.rows, r, cur, out⟩ (renderCells lay r cur cells) =
      .ok ⟨.rows, r, col, (rowCells cfg r cells).reverse ++ out⟩ := by
  induction cells generalizing cur out with
  | nil => exact ⟨cur, by simp [renderCells, steps, rowCells]⟩
  | cons cell rest ih =>
    obtain ⟨c, cs⟩ := cell
    obtain ⟨_, hc, hrest⟩ := hinc
    have h1 := steps_cell cfg lay hl r c cur cs hr hc (hok (c, cs) (by simp)) out
    obtain ⟨col, h2⟩ := ih (c + 1) hrest (fun x hx => hok x (by simp [hx])) ((r, c, expect cfg cs) :: out)
    refine ⟨col, ?_⟩
    simp only [renderCells]
    rw [steps_append_ok cfg _ _ _ _ h1, h2]
    simp [rowCells]

theorem steps_rows (cfg : Cfg) (lay : Layout) (hl : lay.Legal) (s : Sheet) (cur : Nat)
    (hinc : Increasing 1048576 cur s) (hcols : ∀ row ∈ s, Increasing 16384 0 row.2) (hok : Sheet.ContentOk cfg s)
    (out : List (Nat × Nat × Val)) :
    ∃ row, steps cfg ⟨.rows, cur, 0, out⟩ (renderRows lay cur s) =
      .ok ⟨.rows, row, 0, (cellsOf cfg s).reverse ++ out⟩ := by
  induction s generalizing cur out with
  | nil => exact ⟨cur, by simp [renderRows, steps, cellsOf]⟩
  | cons rowspec rest ih =>
    obtain ⟨r, cells⟩ := rowspec
    obtain ⟨_, hr, hrest⟩ := hinc
    have h0 := steps_inert_rows cfg (lay.gapRow r) (hl.gaps.1 r) cur 0 out
    -- <row …>
    have h1 : steps cfg ⟨.rows, cur, 0, out⟩
        [.start (q (lay.rowPfx r) nRow) (lay.rowArrange r (if (lay.rowExplicit r || r != cur) = true then [(nR, dec (r + 1))] else []))] =
        .ok ⟨.rows, r, 0, out⟩ := by
      have hrow : getAttr (lay.rowArrange r (if (lay.rowExplicit r || r != cur) = true then [(nR, dec (r + 1))] else [])) nR =
          getAttr (if (lay.rowExplicit r || r != cur) = true then [(nR, dec (r + 1))] else []) nR :=
        hl.rowAttr r _ (by split <;> simp)
      simp only [steps, step, ln_row, if_true, hrow]
      by_cases hex : (lay.rowExplicit r || r != cur) = true
      · simp only [hex, if_true, getAttr, List.find?, beq_self_eq_true, Option.map_some]
        rw [getRow_dec r (by simp only [U32]; omega)]
      · have hcur : r = cur := by
          simp only [Bool.or_eq_true, bne_iff_ne, ne_eq, not_or, Bool.not_eq_true, Classical.not_not] at hex
          exact hex.2
        subst hcur
        have hre : lay.rowExplicit r = false := by simpa using hex
        simp [hre, getAttr]
    obtain ⟨col, h2⟩ := steps_cells cfg lay hl r hr cells 0 (hcols (r, cells) (by simp))
      (fun cell hcell => hok (r, cells) (by simp) cell hcell) out
    have h2' := steps_inert_rows cfg (lay.gapRowEnd r) (hl.gaps.2.2.1 r) r col ((rowCells cfg r cells).reverse ++ out)
    have h3 : steps cfg ⟨.rows, r, col, (rowCells cfg r cells).reverse ++ out⟩ [.stop (q (lay.rowPfx r) nRow)] =
        .ok ⟨.rows, r + 1, 0, (rowCells cfg r cells).reverse ++ out⟩ := by
      have : satAdd r 1 = r + 1 := satAdd_eq (by simp only [U32]; omega)
      simp [steps, step, this]
    obtain ⟨row, h4⟩ := ih (r + 1) hrest (fun x hx => hcols x (by simp [hx]))
      (fun x hx => hok x (by simp [hx])) ((rowCells cfg r cells).reverse ++ out)
    refine ⟨row, ?_⟩
    simp only [renderRows]
    rw [List.append_assoc, List.append_assoc, List.append_assoc, List.append_assoc, steps_append_ok cfg _ _ _ _ h0,
      steps_append_ok cfg _ _ _ _ h1, steps_append_ok cfg _ _ _ _ h2, steps_append_ok cfg _ _ _ _ h2',
      steps_append_ok cfg _ _ _ _ h3, h4]
    simp [cellsOf, rowCells]

/-- sibling elements before `<sheetData>` that are not themselves a `dimension`/`sheetData` start are skipped -/
theorem readerNew_skip (l rest : List Ev) (d : Dims) (b : Bool) (h : NoHead l) :
    ∃ b', readerNew (l ++ rest) d b = readerNew rest d b' := by
  induction l generalizing b with
  | nil => exact ⟨b, rfl⟩
  | cons ev l ih =>
    have hl : NoHead l := fun e he => h e (by simp [he])
    cases ev with
    | start n a =>
      obtain ⟨h1, h2⟩ := h (.start n a) (by simp) n a rfl
      obtain ⟨b', hb⟩ := ih true hl
      exact ⟨b', by simp only [List.cons_append, readerNew, h1, h2, if_false]; exact hb⟩
    | text s =>
      obtain ⟨b', hb⟩ := ih b hl
      exact ⟨b', by simp only [List.cons_append, readerNew]; exact hb⟩
    | stop n =>
      obtain ⟨b', hb⟩ := ih b hl
      exact ⟨b', by simp only [List.cons_append, readerNew]; exact hb⟩
    | other =>
      obtain ⟨b', hb⟩ := ih b hl
      exact ⟨b', by simp only [List.cons_append, readerNew]; exact hb⟩

theorem readerNew_render (s : Sheet) (lay : Layout) (hl : lay.Legal) :
    readerNew (renderSheet s lay) default false = .ok (lay.dim.getD default, renderBody s lay) := by
  unfold renderSheet
  simp only [List.append_assoc, List.cons_append, List.nil_append]
  rw [readerNew]
  simp only [ln_ws, nWorksheet_ne_nDimension, nWorksheet_ne_nSheetData, if_false]
  obtain ⟨b1, h1⟩ := readerNew_skip lay.beforeDim
    (dimEvents lay ++ (lay.afterDim ++ Ev.start (q lay.pfx nSheetData) [] :: renderBody s lay)) default true hl.head.1
  rw [h1]
  unfold dimEvents
  cases hd : lay.dim with
  | none =>
    simp only [List.nil_append, Option.getD_none]
    obtain ⟨b2, h2⟩ := readerNew_skip lay.afterDim (Ev.start (q lay.pfx nSheetData) [] :: renderBody s lay) default b1 hl.head.2
    rw [h2]
    simp [readerNew]
  | some d =>
    obtain ⟨h1, h2, h3, h4⟩ := hl.dim d hd
    have := getDimension_dimRef d (by simp only [U32]; omega) (by simp only [U32]; omega)
      (by simp only [U32]; omega) (by simp only [U32]; omega)
    simp only [List.cons_append, List.nil_append, Option.getD_some]
    rw [readerNew]
    simp only [ln_dim, if_true, getAttr, List.find?, beq_self_eq_true, Option.map_some, this]
    have hstop : ∀ (rest : List Ev) (b : Bool), readerNew (Ev.stop (q lay.pfx nDimension) :: rest) d b = readerNew rest d b := by
      intro rest b; simp [readerNew]
    rw [hstop]
    obtain ⟨b2, h2⟩ := readerNew_skip lay.afterDim (Ev.start (q lay.pfx nSheetData) [] :: renderBody s lay) d b1 hl.head.2
    rw [h2]
    simp [readerNew]

/-- `run` on the part after `<sheetData>` of a rendered sheet -/
theorem run_render (cfg : Cfg) (s : Sheet) (lay : Layout) (hl : lay.Legal) (hwf : s.WF) (hok : s.ContentOk cfg) :
    run cfg (renderBody s lay) initSt = (cellsOf cfg s, .ok ()) := by
  obtain ⟨row, h1⟩ := steps_rows cfg lay hl s 0 hwf.1 hwf.2 hok []
  have h2 := steps_inert_rows cfg lay.gapEnd hl.gaps.2.2.2 row 0 ((cellsOf cfg s).reverse ++ [])
  have h3 : steps cfg ⟨.rows, row, 0, (cellsOf cfg s).reverse ++ []⟩ [.stop (q lay.pfx nSheetData)] =
      .ok ⟨.done, row, 0, (cellsOf cfg s).reverse ++ []⟩ := by
    simp [steps, step]
  have h4 := steps_done cfg ⟨.done, row, 0, (cellsOf cfg s).reverse ++ []⟩ (lay.after ++ [.stop (q lay.pfx nWorksheet)]) rfl
  have hall : steps cfg initSt (renderBody s lay) = .ok ⟨.done, row, 0, (cellsOf cfg s).reverse ++ []⟩ := by
    unfold renderBody
    simp only [initSt, List.append_assoc]
    rw [steps_append_ok cfg _ _ _ _ h1, steps_append_ok cfg _ _ _ _ h2, steps_append_ok cfg _ _ _ _ h3, h4]
  have := run_of_steps cfg _ initSt _ hall rfl
  rw [this]
  simp

/-- the reader on a rendered sheet: exactly the cells of the sheet, row-major, each with its expected value -/
theorem readCells_render (cfg : Cfg) (s : Sheet) (lay : Layout) (hl : lay.Legal) (hwf : s.WF) (hok : s.ContentOk cfg) :
    readCells cfg (renderSheet s lay) = .ok (lay.dim.getD default, cellsOf cfg s) := by
  unfold readCells
  rw [readerNew_render s lay hl]
  simp only [run_render cfg s lay hl hwf hok]

theorem worksheetRange_render (cfg : Cfg) (s : Sheet) (lay : Layout) (hl : lay.Legal) (hwf : s.WF) (hok : s.ContentOk cfg) :
    worksheetRange cfg (renderSheet s lay) = Range.fromSparse ((cellsOf cfg s).filter (fun c => c.2.2 ≠ .empty)) := by
  unfold worksheetRange
  rw [readerNew_render s lay hl]
  simp only [run_render cfg s lay hl hwf hok]

/-! ### order and bounds of the expected cells -/

/-- strictly increasing in row-major order -/
def Lex (a b : Nat × Nat × Val) : Prop := a.1 < b.1 ∨ (a.1 = b.1 ∧ a.2.1 < b.2.1)

theorem rowCells_mem (cfg : Cfg) (r : Nat) (cells : List (Nat × CellSpec)) (lo : Nat)
    (h : Increasing 16384 lo cells) : ∀ x ∈ rowCells cfg r cells, x.1 = r ∧ lo ≤ x.2.1 ∧ x.2.1 < 16384 := by
  induction cells generalizing lo with
  | nil => intro x hx; simp [rowCells] at hx
  | cons cell rest ih =>
    obtain ⟨h1, h2, h3⟩ := h
    intro x hx
    simp only [rowCells, List.map_cons, List.mem_cons] at hx
    rcases hx with rfl | hx
    · exact ⟨rfl, h1, h2⟩
    · have := ih (cell.1 + 1) h3 x hx
      exact ⟨this.1, by omega, this.2.2⟩

theorem rowCells_pairwise (cfg : Cfg) (r : Nat) (cells : List (Nat × CellSpec)) (lo : Nat)
    (h : Increasing 16384 lo cells) : (rowCells cfg r cells).Pairwise Lex := by
  induction cells generalizing lo with
  | nil => simp [rowCells]
  | cons cell rest ih =>
    obtain ⟨h1, h2, h3⟩ := h
    simp only [rowCells, List.map_cons, List.pairwise_cons]
    refine ⟨?_, ih (cell.1 + 1) h3⟩
    intro x hx
    have := rowCells_mem cfg r rest (cell.1 + 1) h3 x hx
    exact Or.inr ⟨this.1.symm, by simp only; omega⟩

theorem cellsOf_cons (cfg : Cfg) (r : Nat) (cells : List (Nat × CellSpec)) (rest : Sheet) :
    cellsOf cfg ((r, cells) :: rest) = rowCells cfg r cells ++ cellsOf cfg rest := by
  simp [cellsOf, rowCells]

theorem cellsOf_mem (cfg : Cfg) (s : Sheet) (lo : Nat) (h : Increasing 1048576 lo s)
    (hc : ∀ row ∈ s, Increasing 16384 0 row.2) :
    ∀ x ∈ cellsOf cfg s, lo ≤ x.1 ∧ x.1 < 1048576 ∧ x.2.1 < 16384 := by
  induction s generalizing lo with
  | nil => intro x hx; simp [cellsOf] at hx
  | cons row rest ih =>
    obtain ⟨r, cells⟩ := row
    obtain ⟨h1, h2, h3⟩ := h
    intro x hx
    rw [cellsOf_cons, List.mem_append] at hx
    rcases hx with hx | hx
    · have := rowCells_mem cfg r cells 0 (hc (r, cells) (by simp)) x hx
      exact ⟨by omega, by omega, this.2.2⟩
    · have := ih (r + 1) h3 (fun y hy => hc y (by simp [hy])) x hx
      exact ⟨by omega, this.2.1, this.2.2⟩

theorem cellsOf_pairwise (cfg : Cfg) (s : Sheet) (lo : Nat) (h : Increasing 1048576 lo s)
    (hc : ∀ row ∈ s, Increasing 16384 0 row.2) : (cellsOf cfg s).Pairwise Lex := by
  induction s generalizing lo with
  | nil => simp [cellsOf]
  | cons row rest ih =>
    obtain ⟨r, cells⟩ := row
    obtain ⟨h1, h2, h3⟩ := h
    rw [cellsOf_cons, List.pairwise_append]
    refine ⟨rowCells_pairwise cfg r cells 0 (hc (r, cells) (by simp)), ih (r + 1) h3 (fun y hy => hc y (by simp [hy])), ?_⟩
    intro a ha b hb
    have h4 := rowCells_mem cfg r cells 0 (hc (r, cells) (by simp)) a ha
    have h5 := cellsOf_mem cfg rest (r + 1) h3 (fun y hy => hc y (by simp [hy])) b hb
    exact Or.inl (by omega)

theorem lex_last {l : List (Nat × Nat × Val)} (hp : l.Pairwise Lex) (hne : l ≠ []) :
    ∀ c ∈ l, c.1 ≤ (l.getLast hne).1 := by
  intro c hc
  have hsplit := List.dropLast_concat_getLast hne
  have hp' : (l.dropLast ++ [l.getLast hne]).Pairwise Lex := by rw [hsplit]; exact hp
  have hc' : c ∈ l.dropLast ++ [l.getLast hne] := by rw [hsplit]; exact hc
  rw [List.pairwise_append] at hp'
  rw [List.mem_append] at hc'
  rcases hc' with hc' | hc'
  · have := hp'.2.2 c hc' (l.getLast hne) (by simp)
    rcases this with h | h <;> omega
  · simp only [List.mem_singleton] at hc'; rw [hc']; exact Nat.le_refl _

theorem lex_head {l : List (Nat × Nat × Val)} (hp : l.Pairwise Lex) (hne : l ≠ []) :
    ∀ c ∈ l, (l.head hne).1 ≤ c.1 := by
  intro c hc
  cases l with
  | nil => exact absurd rfl hne
  | cons a rest =>
    simp only [List.head_cons]
    simp only [List.mem_cons] at hc
    rcases hc with rfl | hc
    · exact Nat.le_refl _
    · have := (List.pairwise_cons.mp hp).1 c hc
      rcases this with h | h <;> omega

/-- distinct members of a row-major list sit at distinct positions -/
theorem lex_unique {l : List (Nat × Nat × Val)} (hp : l.Pairwise Lex) (l1 l2 : List (Nat × Nat × Val))
    (c : Nat × Nat × Val) (h : l = l1 ++ c :: l2) :
    (∀ x ∈ l1, ¬ (x.1 = c.1 ∧ x.2.1 = c.2.1)) ∧ (∀ x ∈ l2, ¬ (x.1 = c.1 ∧ x.2.1 = c.2.1)) := by
  subst h
  rw [List.pairwise_append, List.pairwise_cons] at hp
  constructor
  · intro x hx hcontra
    have := hp.2.2 x hx c (by simp)
    rcases this with h | h <;> omega
  · intro x hx hcontra
    have := hp.2.1.1 x hx
    rcases this with h | h <;> omega

/-! ### remarks that hold by definition (kept out of `Props/`) -/

/-- the positions of `cellsOf` are the positions of the sheet, row-major -/
theorem cellsOf_positions (cfg : Cfg) (s : Sheet) :
    (cellsOf cfg s).map (fun c => (c.1, c.2.1)) = s.flatMap (fun row => row.2.map fun cell => (row.1, cell.1)) := by
  simp only [cellsOf, List.map_flatMap, List.map_map]
  rfl

/-- `expect`, spelled out -/
theorem expect_table (cfg : Cfg) (cs : CellSpec) :
    expect cfg cs = (match cs.content with
      | .blank => .empty
      | .num t tn => if tn ∧ t = [] then .empty else .num t (styleFmt cfg cs.style) tn
      | .shared idx => .shared (cfg.strings.getD idx [])
      | .inline s => .str s
      | .fstr s => .str s
      | .bool b => .bool b
      | .err k => .error k
      | .iso s => .dateIso s) := rfl

theorem mem_cellsOf (cfg : Cfg) (s : Sheet) (x : Nat × Nat × Val) :
    x ∈ cellsOf cfg s ↔ ∃ row ∈ s, ∃ cell ∈ row.2, x = (row.1, cell.1, expect cfg cell.2) := by
  simp only [cellsOf, List.mem_flatMap, List.mem_map]
  constructor
  · rintro ⟨row, hrow, cell, hcell, rfl⟩; exact ⟨row, hrow, cell, hcell, rfl⟩
  · rintro ⟨row, hrow, cell, hcell, rfl⟩; exact ⟨row, hrow, cell, hcell, rfl⟩

theorem mem_dataOf (env : NumEnv) (cfg : Cfg) (s : Sheet) (x : Nat × Nat × Data) :
    x ∈ dataOf env cfg s ↔ ∃ row ∈ s, ∃ cell ∈ row.2, x = (row.1, cell.1, expectData env cfg cell.2) := by
  simp only [dataOf, List.mem_flatMap, List.mem_map]
  constructor
  · rintro ⟨row, hrow, cell, hcell, rfl⟩; exact ⟨row, hrow, cell, hcell, rfl⟩
  · rintro ⟨row, hrow, cell, hcell, rfl⟩; exact ⟨row, hrow, cell, hcell, rfl⟩

/-! ### from `DataRef` tokens to `Data` -/

/-- the reader's value of a cell, pushed through `toData`, is the documented value of the cell -/
theorem toData_expect (env : NumEnv) (cfg : Cfg) (cs : CellSpec)
    (hnum : ∀ t, cs.content = .num t true → t ≠ [] → env.parse t ≠ none) :
    toData env (expect cfg cs) = .ok (expectData env cfg cs) := by
  obtain ⟨content, style, formula⟩ := cs
  cases content with
  | num t tn =>
    simp only [expect, expectData]
    by_cases h : tn = true ∧ t = []
    · simp [h, toData]
    · simp only [h, if_false, toData]
      cases hp : env.parse t with
      | some bits => cases hf : styleFmt cfg style <;> simp [Formats.formatF64]
      | none =>
        cases tn with
        | false => simp
        | true =>
          have ht : t ≠ [] := fun h0 => h ⟨rfl, h0⟩
          exact absurd hp (hnum t rfl ht)
  | _ => simp [expect, expectData, toData]

theorem toData_empty_iff (env : NumEnv) (v : Val) (d : Data) (h : toData env v = .ok d) : d = .empty ↔ v = .empty := by
  cases v with
  | num t f st =>
    simp only [toData] at h
    cases hp : env.parse t with
    | some bits => rw [hp] at h; simp only at h; injection h with h; subst h; simp
    | none =>
      rw [hp] at h; simp only at h
      cases st with
      | true => simp at h
      | false => simp at h; subst h; simp
  | _ => simp only [toData] at h; injection h with h; subst h; simp

/-- every documented data cell is the `toData` image of the reader cell at the same position, and conversely -/
theorem data_val_link (env : NumEnv) (cfg : Cfg) (s : Sheet) (hnum : s.NumOk env) (x : Nat × Nat × Data) :
    x ∈ dataOf env cfg s ↔ ∃ c ∈ cellsOf cfg s, c.1 = x.1 ∧ c.2.1 = x.2.1 ∧ toData env c.2.2 = .ok x.2.2 := by
  rw [mem_dataOf]
  constructor
  · rintro ⟨row, hrow, cell, hcell, rfl⟩
    refine ⟨(row.1, cell.1, expect cfg cell.2), (mem_cellsOf cfg s _).mpr ⟨row, hrow, cell, hcell, rfl⟩, rfl, rfl, ?_⟩
    exact toData_expect env cfg cell.2 (fun t ht hne => hnum row hrow cell hcell t ht hne)
  · rintro ⟨c, hc, h1, h2, h3⟩
    obtain ⟨row, hrow, cell, hcell, rfl⟩ := (mem_cellsOf cfg s c).mp hc
    refine ⟨row, hrow, cell, hcell, ?_⟩
    have := toData_expect env cfg cell.2 (fun t ht hne => hnum row hrow cell hcell t ht hne)
    simp only at h1 h2 h3
    rw [this] at h3
    injection h3 with h3
    obtain ⟨a, b, d⟩ := x
    simp only at h1 h2 h3
    subst h1 h2 h3
    rfl

/-! ### the range, at the level of the reader's values -/

/-- `worksheet_range_ref` of an encoded sheet: the tight bounding rectangle of the non-`Empty` cells (the empty
    range when there is none), the expected value at every stored position, `Empty` everywhere else -/
theorem range_val_spec (cfg : Cfg) (s : Sheet) (lay : Layout) (hl : lay.Legal) (hwf : s.WF) (hok : s.ContentOk cfg) :
    let all := cellsOf cfg s
    ((∀ c ∈ all, c.2.2 = .empty) → worksheetRange cfg (renderSheet s lay) = .ok Range.empty) ∧
    ((∃ c ∈ all, c.2.2 ≠ .empty) → ∃ rg, worksheetRange cfg (renderSheet s lay) = .ok rg ∧ rg.inner.length ≠ 0 ∧
      (∀ c ∈ all, c.2.2 ≠ .empty → rg.sr ≤ c.1 ∧ c.1 ≤ rg.er ∧ rg.sc ≤ c.2.1 ∧ c.2.1 ≤ rg.ec) ∧
      (∃ c ∈ all, c.2.2 ≠ .empty ∧ c.1 = rg.sr) ∧ (∃ c ∈ all, c.2.2 ≠ .empty ∧ c.1 = rg.er) ∧
      (∃ c ∈ all, c.2.2 ≠ .empty ∧ c.2.1 = rg.sc) ∧ (∃ c ∈ all, c.2.2 ≠ .empty ∧ c.2.1 = rg.ec) ∧
      (∀ c ∈ all, rg.valAt c.1 c.2.1 = c.2.2) ∧
      (∀ p q, (∀ c ∈ all, ¬ (c.1 = p ∧ c.2.1 = q)) → rg.valAt p q = .empty)) := by
  intro all
  rw [worksheetRange_render cfg s lay hl hwf hok]
  have hall_p : all.Pairwise Lex := cellsOf_pairwise cfg s 0 hwf.1 hwf.2
  have hall_b := cellsOf_mem cfg s 0 hwf.1 hwf.2
  have hmem : ∀ c, c ∈ all.filter (fun c => c.2.2 ≠ .empty) ↔ c ∈ all ∧ c.2.2 ≠ .empty := by
    intro c; rw [List.mem_filter]; simp
  have hne_p : (all.filter (fun c => c.2.2 ≠ .empty)).Pairwise Lex := hall_p.filter _
  constructor
  · intro h
    have : all.filter (fun c => c.2.2 ≠ .empty) = [] := by
      rw [List.filter_eq_nil_iff]; intro c hc; simp [h c hc]
    show Range.fromSparse (all.filter _) = _
    rw [this]; rfl
  · rintro ⟨c0, hc0, hc0ne⟩
    show ∃ rg, Range.fromSparse (all.filter _) = .ok rg ∧ _
    generalize hne_def : all.filter (fun c => c.2.2 ≠ .empty) = ne at *
    have hne : ne ≠ [] := List.ne_nil_of_mem ((hmem c0).mpr ⟨hc0, hc0ne⟩)
    have hb : ∀ c ∈ ne, c.1 < 1048576 ∧ c.2.1 < 16384 := by
      intro c hc; have := hall_b c ((hmem c).mp hc).1; exact ⟨this.2.1, this.2.2⟩
    obtain ⟨rg, hrg⟩ := Range.fromSparse_no_panic ne (fun c hc => by have := hb c hc; omega)
      (fun c hc c' hc' => by have := hb c hc; have := hb c' hc'; omega)
    obtain ⟨hlen, hbox, h1, h2, h3, h4, _⟩ := Range.fromSparse_spec_any ne hne rg hrg
    refine ⟨rg, hrg, hlen, fun c hc hcne => hbox c ((hmem c).mpr ⟨hc, hcne⟩), ?_, ?_, ?_, ?_, ?_, ?_⟩
    · obtain ⟨c, hc, e⟩ := h1; exact ⟨c, ((hmem c).mp hc).1, ((hmem c).mp hc).2, e⟩
    · obtain ⟨c, hc, e⟩ := h2; exact ⟨c, ((hmem c).mp hc).1, ((hmem c).mp hc).2, e⟩
    · obtain ⟨c, hc, e⟩ := h3; exact ⟨c, ((hmem c).mp hc).1, ((hmem c).mp hc).2, e⟩
    · obtain ⟨c, hc, e⟩ := h4; exact ⟨c, ((hmem c).mp hc).1, ((hmem c).mp hc).2, e⟩
    · intro c hc
      by_cases hv : c.2.2 = .empty
      · -- a blank cell: no non-empty cell shares its position
        rw [hv]
        apply Range.fromSparse_untouched ne rg hrg
        intro x hx hpos
        obtain ⟨hxall, hxne⟩ := (hmem x).mp hx
        obtain ⟨l1, l2, hsplit⟩ := List.append_of_mem hc
        obtain ⟨hu1, hu2⟩ := lex_unique hall_p l1 l2 c hsplit
        have hxm : x ∈ l1 ++ c :: l2 := by rw [← hsplit]; exact hxall
        simp only [List.mem_append, List.mem_cons] at hxm
        rcases hxm with hxm | rfl | hxm
        · exact hu1 x hxm hpos
        · exact hxne hv
        · exact hu2 x hxm hpos
      · have hcne : c ∈ ne := (hmem c).mpr ⟨hc, hv⟩
        obtain ⟨l1, l2, hsplit⟩ := List.append_of_mem hcne
        obtain ⟨_, hu2⟩ := lex_unique hne_p l1 l2 c hsplit
        rw [hsplit] at hrg
        exact Range.fromSparse_last_wins l1 l2 c rg hrg (fun x hx => hu2 x hx)
    · intro p q hfree
      apply Range.fromSparse_untouched ne rg hrg
      intro x hx
      exact hfree x ((hmem x).mp hx).1

/-! ### shared strings -/

@[simp] theorem ln_si (p : Bool) : localName (q p nSi) = nSi := localName_q p nSi (by decide)
@[simp] theorem ln_sst (p : Bool) : localName (q p nSst) = nSst := localName_q p nSst (by decide)
@[simp] theorem ln_r (p : Bool) : localName (q p nR) = nR := localName_q p nR (by decide)
@[simp] theorem ln_rph (p : Bool) : localName (q p nRPh) = nRPh := localName_q p nRPh (by decide)
@[simp] theorem nSi_ne_nSst : (nSi = nSst) = False := eq_false (by decide)
@[simp] theorem nSst_ne_nSi : (nSst = nSi) = False := eq_false (by decide)
@[simp] theorem q_eq (p : Bool) (a b : Bytes) : (q p a = q p b) = (a = b) := propext (q_inj p a b)
@[simp] theorem nSi_ne_nT : (nSi = nT) = False := eq_false (by decide)
@[simp] theorem nT_ne_nSi : (nT = nSi) = False := eq_false (by decide)
@[simp] theorem nSi_ne_nR : (nSi = nR) = False := eq_false (by decide)
@[simp] theorem nR_ne_nSi : (nR = nSi) = False := eq_false (by decide)
@[simp] theorem nSi_ne_nRPh : (nSi = nRPh) = False := eq_false (by decide)
@[simp] theorem nRPh_ne_nSi : (nRPh = nSi) = False := eq_false (by decide)

/-- one rich-text run appends its text to the buffer -/
theorem sstLoop_run (p : Bool) (cl : Bytes) (hcl : cl = q p nSi) (rich : Option Bytes) (r : Bytes)
    (rest : List Ev) (acc : List Bytes) :
    sstLoop (runEvents p r ++ rest) (some (cl, .main rich false)) acc =
      sstLoop rest (some (cl, .main (some (rich.getD [] ++ r)) false)) acc := by
  subst hcl
  unfold runEvents tEvents
  by_cases hr : r = []
  · subst hr
    simp [sstLoop, strStep]
  · simp [sstLoop, strStep, hr]

theorem sstLoop_runs (p : Bool) (cl : Bytes) (hcl : cl = q p nSi) (runs : List Bytes) (rich : Option Bytes)
    (rest : List Ev) (acc : List Bytes) (hne : runs ≠ []) :
    sstLoop (runs.flatMap (runEvents p) ++ rest) (some (cl, .main rich false)) acc =
      sstLoop rest (some (cl, .main (some (rich.getD [] ++ runs.flatten)) false)) acc := by
  induction runs generalizing rich with
  | nil => exact absurd rfl hne
  | cons r rs ih =>
    simp only [List.flatMap_cons, List.append_assoc]
    rw [sstLoop_run p cl hcl]
    by_cases hrs : rs = []
    · subst hrs; simp
    · rw [ih _ hrs]; simp [List.append_assoc]

theorem sstLoop_phonetic (p : Bool) (cl : Bytes) (hcl : cl = q p nSi) (rich : Option Bytes) (ph : Option Bytes)
    (rest : List Ev) (acc : List Bytes) :
    sstLoop (phoneticEvents p ph ++ rest) (some (cl, .main rich false)) acc =
      sstLoop rest (some (cl, .main rich false)) acc := by
  subst hcl
  cases ph with
  | none => simp [phoneticEvents]
  | some ph =>
    unfold phoneticEvents tEvents
    by_cases hp : ph = []
    · subst hp
      simp [sstLoop, strStep]
    · simp [sstLoop, strStep, hp]

/-- one `<si>` item contributes exactly one string: its text (the empty string for an item without text) -/
theorem sstLoop_item (p : Bool) (it : SstItem) (rest : List Ev) (acc : List Bytes) :
    sstLoop (renderSi p it ++ rest) none acc = sstLoop rest none (it.text :: acc) := by
  cases it with
  | plain s =>
    unfold renderSi tEvents
    by_cases hs : s = []
    · subst hs
      simp [sstLoop, strStep, SstItem.text]
    · simp [sstLoop, strStep, hs, SstItem.text]
  | emptyElem => simp [renderSi, sstLoop, strStep, SstItem.text]
  | rich runs ph =>
    simp only [renderSi, List.append_assoc, List.cons_append, List.nil_append]
    rw [sstLoop]
    simp only [ln_si, if_true]
    by_cases hr : runs = []
    · subst hr
      simp only [List.flatMap_nil, List.nil_append]
      rw [sstLoop_phonetic p _ rfl]
      simp [sstLoop, strStep, SstItem.text]
    · rw [sstLoop_runs p _ rfl runs none _ _ hr, sstLoop_phonetic p _ rfl]
      simp [sstLoop, strStep, SstItem.text]

theorem sstLoop_items (p : Bool) (items : List SstItem) (rest : List Ev) (acc : List Bytes) :
    sstLoop (items.flatMap (renderSi p) ++ rest) none acc =
      sstLoop rest none ((items.map SstItem.text).reverse ++ acc) := by
  induction items generalizing acc with
  | nil => simp
  | cons it its ih =>
    simp only [List.flatMap_cons, List.append_assoc]
    rw [sstLoop_item, ih]
    simp

/-! ### the reader never panics (after ledger D30-a/c/d, D39) -/

theorem getRow_total (s : Bytes) : (∃ v, getRow s = .ok v) ∨ (∃ e, getRow s = .err e) := by
  unfold getRow
  rcases getRowCol_total s with ⟨v, h⟩ | ⟨e, h⟩
  · rw [h]; exact Or.inl ⟨_, rfl⟩
  · rw [h]; exact Or.inr ⟨_, rfl⟩

theorem getDimension_total (s : Bytes) : (∃ v, getDimension s = .ok v) ∨ (∃ e, getDimension s = .err e) := by
  unfold getDimension
  rcases mapParts_total (splitColon s) with ⟨v, h⟩ | ⟨e, h⟩
  · rw [h]
    match v with
    | [] => exact Or.inr ⟨_, rfl⟩
    | [p] => exact Or.inl ⟨_, rfl⟩
    | [p, q] => exact Or.inl ⟨_, rfl⟩
    | _ :: _ :: _ :: _ => exact Or.inr ⟨_, rfl⟩
  · rw [h]; exact Or.inr ⟨_, rfl⟩

theorem readV_total (cfg : Cfg) (attrs : Attrs) (v : Bytes) :
    (∃ x, readV cfg attrs v = .ok x) ∨ (∃ e, readV cfg attrs v = .err e) := by
  unfold readV
  repeat' split
  all_goals first | exact Or.inl ⟨_, rfl⟩ | exact Or.inr ⟨_, rfl⟩

@[simp] theorem getRow_not_panic (r : Bytes) (s : String) : (getRow r = .panic s) = False := by
  apply eq_false; intro h
  rcases getRow_total r with ⟨v, h2⟩ | ⟨e, h2⟩ <;> rw [h] at h2 <;> cases h2
@[simp] theorem getRow_not_fuel (r : Bytes) : (getRow r = .outOfFuel) = False := by
  apply eq_false; intro h
  rcases getRow_total r with ⟨v, h2⟩ | ⟨e, h2⟩ <;> rw [h] at h2 <;> cases h2
@[simp] theorem getRowColumn_not_panic (r : Bytes) (s : String) : (getRowColumn r = .panic s) = False := by
  apply eq_false; intro h
  rcases getRowColumn_total r with ⟨v, h2⟩ | ⟨e, h2⟩ <;> rw [h] at h2 <;> cases h2
@[simp] theorem getRowColumn_not_fuel (r : Bytes) : (getRowColumn r = .outOfFuel) = False := by
  apply eq_false; intro h
  rcases getRowColumn_total r with ⟨v, h2⟩ | ⟨e, h2⟩ <;> rw [h] at h2 <;> cases h2
@[simp] theorem readV_not_panic (cfg : Cfg) (a : Attrs) (v : Bytes) (s : String) : (readV cfg a v = .panic s) = False := by
  apply eq_false; intro h
  rcases readV_total cfg a v with ⟨x, h2⟩ | ⟨e, h2⟩ <;> rw [h] at h2 <;> cases h2
@[simp] theorem readV_not_fuel (cfg : Cfg) (a : Attrs) (v : Bytes) : (readV cfg a v = .outOfFuel) = False := by
  apply eq_false; intro h
  rcases readV_total cfg a v with ⟨x, h2⟩ | ⟨e, h2⟩ <;> rw [h] at h2 <;> cases h2
@[simp] theorem getDimension_not_panic (r : Bytes) (s : String) : (getDimension r = .panic s) = False := by
  apply eq_false; intro h
  rcases getDimension_total r with ⟨v, h2⟩ | ⟨e, h2⟩ <;> rw [h] at h2 <;> cases h2
@[simp] theorem getDimension_not_fuel (r : Bytes) : (getDimension r = .outOfFuel) = False := by
  apply eq_false; intro h
  rcases getDimension_total r with ⟨v, h2⟩ | ⟨e, h2⟩ <;> rw [h] at h2 <;> cases h2

theorem step_total (cfg : Cfg) (st : St) (ev : Ev) :
    (∃ st', step cfg st ev = .ok st') ∨ (∃ e, step cfg st ev = .err e) := by
  unfold step
  repeat' split
  all_goals first | exact Or.inl ⟨_, rfl⟩ | exact Or.inr ⟨_, rfl⟩ | simp_all

theorem run_total (cfg : Cfg) (evs : List Ev) (st : St) :
    (run cfg evs st).2 = .ok () ∨ ∃ e, (run cfg evs st).2 = .err e := by
  induction evs generalizing st with
  | nil => simp only [run]; split <;> simp
  | cons ev rest ih =>
    simp only [run]
    rcases step_total cfg st ev with ⟨st', h⟩ | ⟨e, h⟩
    · rw [h]; simp only
      split
      · exact Or.inl rfl
      · exact ih st'
    · rw [h]; exact Or.inr ⟨_, rfl⟩

theorem readerNew_total (evs : List Ev) (d : Dims) (b : Bool) :
    (∃ v, readerNew evs d b = .ok v) ∨ (∃ e, readerNew evs d b = .err e) := by
  induction evs generalizing d b with
  | nil => simp only [readerNew]; split <;> exact Or.inr ⟨_, rfl⟩
  | cons ev rest ih =>
    simp only [readerNew]
    repeat' split
    all_goals first | exact Or.inl ⟨_, rfl⟩ | exact Or.inr ⟨_, rfl⟩ | exact ih _ _ | simp_all

end XlsxCells
