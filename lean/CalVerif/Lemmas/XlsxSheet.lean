import CalVerif.Lemmas.XlsxA1
/-! Helper lemmas for C01: the reader run on the events the encoder `renderSheet` produces. -/
namespace XlsxCells
open XlsxSheet
set_option linter.unusedSimpArgs false

/-- the reader's step function folded over events (no early exit: `step` is the identity once `done`) -/
def steps (cfg : Cfg) : St → List Ev → Res St
  | st, [] => .ok st
  | st, ev :: rest =>
    match step cfg st ev with
    | .ok st' => steps cfg st' rest
    | .err e => .err e
    | .panic s => .panic s
    | .outOfFuel => .outOfFuel

theorem steps_append_ok (cfg : Cfg) (st st' : St) (a b : List Ev) (h : steps cfg st a = .ok st') :
    steps cfg st (a ++ b) = steps cfg st' b := by
  induction a generalizing st with
  | nil => simp only [steps] at h; injection h with h; subst h; rfl
  | cons ev rest ih =>
    simp only [List.cons_append, steps] at h ⊢
    cases hs : step cfg st ev with
    | ok st1 => rw [hs] at h; simp only at h ⊢; exact ih st1 h
    | err e => rw [hs] at h; cases h
    | panic s => rw [hs] at h; cases h
    | outOfFuel => rw [hs] at h; cases h

theorem steps_done (cfg : Cfg) (st : St) (evs : List Ev) (h : st.mode = .done) : steps cfg st evs = .ok st := by
  induction evs with
  | nil => rfl
  | cons ev rest ih =>
    have : step cfg st ev = .ok st := by unfold step; rw [h]
    simp only [steps, this, ih]

theorem run_of_steps (cfg : Cfg) (evs : List Ev) (st st' : St) (h : steps cfg st evs = .ok st')
    (hd : st'.mode = .done) : run cfg evs st = (st'.out.reverse, .ok ()) := by
  induction evs generalizing st with
  | nil =>
    simp only [steps] at h; injection h with h; subst h
    simp [run, hd]
  | cons ev rest ih =>
    simp only [steps] at h
    cases hs : step cfg st ev with
    | ok st1 =>
      rw [hs] at h; simp only at h
      simp only [run, hs]
      by_cases hm : st1.mode = .done
      · rw [steps_done cfg st1 rest hm] at h
        injection h with h; subst h
        simp [hm]
      · simp only [hm, if_false]
        exact ih st1 h
    | err e => rw [hs] at h; cases h
    | panic s => rw [hs] at h; cases h
    | outOfFuel => rw [hs] at h; cases h

/-! ### names -/

theorem localName_q (p : Bool) (n : Bytes) (h : ∀ x ∈ n, x ≠ 58) : localName (q p n) = n := by
  have h0 : localName n = n := by
    unfold localName
    have : ∀ l : Bytes, (∀ x ∈ l, x ≠ 58) → l.dropWhile (· ≠ 58) = [] := by
      intro l hl
      induction l with
      | nil => rfl
      | cons a as ih =>
        have ha := hl a (by simp)
        simp only [List.dropWhile, ha, ne_eq, not_false_eq_true, decide_true]
        exact ih (fun x hx => hl x (by simp [hx]))
    rw [this n h]
  cases p with
  | false => simpa [q] using h0
  | true =>
    unfold q localName
    simp [List.dropWhile]

@[simp] theorem ln_c (p : Bool) : localName (q p nC) = nC := localName_q p nC (by decide)
@[simp] theorem ln_row (p : Bool) : localName (q p nRow) = nRow := localName_q p nRow (by decide)
@[simp] theorem ln_v (p : Bool) : localName (q p nV) = nV := localName_q p nV (by decide)
@[simp] theorem ln_f (p : Bool) : localName (q p nF) = nF := localName_q p nF (by decide)
@[simp] theorem ln_is (p : Bool) : localName (q p nIs) = nIs := localName_q p nIs (by decide)
@[simp] theorem ln_t (p : Bool) : localName (q p nT) = nT := localName_q p nT (by decide)
@[simp] theorem ln_sd (p : Bool) : localName (q p nSheetData) = nSheetData := localName_q p nSheetData (by decide)
@[simp] theorem ln_dim (p : Bool) : localName (q p nDimension) = nDimension := localName_q p nDimension (by decide)
@[simp] theorem ln_ws (p : Bool) : localName (q p nWorksheet) = nWorksheet := localName_q p nWorksheet (by decide)


/-! distinct names -/

@[simp] theorem nRow_ne_nC : (nRow = nC) = False := eq_false (by decide)
@[simp] theorem nRow_ne_nV : (nRow = nV) = False := eq_false (by decide)
@[simp] theorem nRow_ne_nIs : (nRow = nIs) = False := eq_false (by decide)
@[simp] theorem nRow_ne_nF : (nRow = nF) = False := eq_false (by decide)
@[simp] theorem nRow_ne_nT : (nRow = nT) = False := eq_false (by decide)
@[simp] theorem nRow_ne_nR : (nRow = nR) = False := eq_false (by decide)
@[simp] theorem nRow_ne_nRPh : (nRow = nRPh) = False := eq_false (by decide)
@[simp] theorem nRow_ne_nSheetData : (nRow = nSheetData) = False := eq_false (by decide)
@[simp] theorem nRow_ne_nDimension : (nRow = nDimension) = False := eq_false (by decide)
@[simp] theorem nRow_ne_nWorksheet : (nRow = nWorksheet) = False := eq_false (by decide)
@[simp] theorem nRow_ne_nS : (nRow = nS) = False := eq_false (by decide)
@[simp] theorem nRow_ne_nRef : (nRow = nRef) = False := eq_false (by decide)
@[simp] theorem nC_ne_nRow : (nC = nRow) = False := eq_false (by decide)
@[simp] theorem nC_ne_nV : (nC = nV) = False := eq_false (by decide)
@[simp] theorem nC_ne_nIs : (nC = nIs) = False := eq_false (by decide)
@[simp] theorem nC_ne_nF : (nC = nF) = False := eq_false (by decide)
@[simp] theorem nC_ne_nT : (nC = nT) = False := eq_false (by decide)
@[simp] theorem nC_ne_nR : (nC = nR) = False := eq_false (by decide)
@[simp] theorem nC_ne_nRPh : (nC = nRPh) = False := eq_false (by decide)
@[simp] theorem nC_ne_nSheetData : (nC = nSheetData) = False := eq_false (by decide)
@[simp] theorem nC_ne_nDimension : (nC = nDimension) = False := eq_false (by decide)
@[simp] theorem nC_ne_nWorksheet : (nC = nWorksheet) = False := eq_false (by decide)
@[simp] theorem nC_ne_nS : (nC = nS) = False := eq_false (by decide)
@[simp] theorem nC_ne_nRef : (nC = nRef) = False := eq_false (by decide)
@[simp] theorem nV_ne_nRow : (nV = nRow) = False := eq_false (by decide)
@[simp] theorem nV_ne_nC : (nV = nC) = False := eq_false (by decide)
@[simp] theorem nV_ne_nIs : (nV = nIs) = False := eq_false (by decide)
@[simp] theorem nV_ne_nF : (nV = nF) = False := eq_false (by decide)
@[simp] theorem nV_ne_nT : (nV = nT) = False := eq_false (by decide)
@[simp] theorem nV_ne_nR : (nV = nR) = False := eq_false (by decide)
@[simp] theorem nV_ne_nRPh : (nV = nRPh) = False := eq_false (by decide)
@[simp] theorem nV_ne_nSheetData : (nV = nSheetData) = False := eq_false (by decide)
@[simp] theorem nV_ne_nDimension : (nV = nDimension) = False := eq_false (by decide)
@[simp] theorem nV_ne_nWorksheet : (nV = nWorksheet) = False := eq_false (by decide)
@[simp] theorem nV_ne_nS : (nV = nS) = False := eq_false (by decide)
@[simp] theorem nV_ne_nRef : (nV = nRef) = False := eq_false (by decide)
@[simp] theorem nIs_ne_nRow : (nIs = nRow) = False := eq_false (by decide)
@[simp] theorem nIs_ne_nC : (nIs = nC) = False := eq_false (by decide)
@[simp] theorem nIs_ne_nV : (nIs = nV) = False := eq_false (by decide)
@[simp] theorem nIs_ne_nF : (nIs = nF) = False := eq_false (by decide)
@[simp] theorem nIs_ne_nT : (nIs = nT) = False := eq_false (by decide)
@[simp] theorem nIs_ne_nR : (nIs = nR) = False := eq_false (by decide)
@[simp] theorem nIs_ne_nRPh : (nIs = nRPh) = False := eq_false (by decide)
@[simp] theorem nIs_ne_nSheetData : (nIs = nSheetData) = False := eq_false (by decide)
@[simp] theorem nIs_ne_nDimension : (nIs = nDimension) = False := eq_false (by decide)
@[simp] theorem nIs_ne_nWorksheet : (nIs = nWorksheet) = False := eq_false (by decide)
@[simp] theorem nIs_ne_nS : (nIs = nS) = False := eq_false (by decide)
@[simp] theorem nIs_ne_nRef : (nIs = nRef) = False := eq_false (by decide)
@[simp] theorem nF_ne_nRow : (nF = nRow) = False := eq_false (by decide)
@[simp] theorem nF_ne_nC : (nF = nC) = False := eq_false (by decide)
@[simp] theorem nF_ne_nV : (nF = nV) = False := eq_false (by decide)
@[simp] theorem nF_ne_nIs : (nF = nIs) = False := eq_false (by decide)
@[simp] theorem nF_ne_nT : (nF = nT) = False := eq_false (by decide)
@[simp] theorem nF_ne_nR : (nF = nR) = False := eq_false (by decide)
@[simp] theorem nF_ne_nRPh : (nF = nRPh) = False := eq_false (by decide)
@[simp] theorem nF_ne_nSheetData : (nF = nSheetData) = False := eq_false (by decide)
@[simp] theorem nF_ne_nDimension : (nF = nDimension) = False := eq_false (by decide)
@[simp] theorem nF_ne_nWorksheet : (nF = nWorksheet) = False := eq_false (by decide)
@[simp] theorem nF_ne_nS : (nF = nS) = False := eq_false (by decide)
@[simp] theorem nF_ne_nRef : (nF = nRef) = False := eq_false (by decide)
@[simp] theorem nT_ne_nRow : (nT = nRow) = False := eq_false (by decide)
@[simp] theorem nT_ne_nC : (nT = nC) = False := eq_false (by decide)
@[simp] theorem nT_ne_nV : (nT = nV) = False := eq_false (by decide)
@[simp] theorem nT_ne_nIs : (nT = nIs) = False := eq_false (by decide)
@[simp] theorem nT_ne_nF : (nT = nF) = False := eq_false (by decide)
@[simp] theorem nT_ne_nR : (nT = nR) = False := eq_false (by decide)
@[simp] theorem nT_ne_nRPh : (nT = nRPh) = False := eq_false (by decide)
@[simp] theorem nT_ne_nSheetData : (nT = nSheetData) = False := eq_false (by decide)
@[simp] theorem nT_ne_nDimension : (nT = nDimension) = False := eq_false (by decide)
@[simp] theorem nT_ne_nWorksheet : (nT = nWorksheet) = False := eq_false (by decide)
@[simp] theorem nT_ne_nS : (nT = nS) = False := eq_false (by decide)
@[simp] theorem nT_ne_nRef : (nT = nRef) = False := eq_false (by decide)
@[simp] theorem nR_ne_nRow : (nR = nRow) = False := eq_false (by decide)
@[simp] theorem nR_ne_nC : (nR = nC) = False := eq_false (by decide)
@[simp] theorem nR_ne_nV : (nR = nV) = False := eq_false (by decide)
@[simp] theorem nR_ne_nIs : (nR = nIs) = False := eq_false (by decide)
@[simp] theorem nR_ne_nF : (nR = nF) = False := eq_false (by decide)
@[simp] theorem nR_ne_nT : (nR = nT) = False := eq_false (by decide)
@[simp] theorem nR_ne_nRPh : (nR = nRPh) = False := eq_false (by decide)
@[simp] theorem nR_ne_nSheetData : (nR = nSheetData) = False := eq_false (by decide)
@[simp] theorem nR_ne_nDimension : (nR = nDimension) = False := eq_false (by decide)
@[simp] theorem nR_ne_nWorksheet : (nR = nWorksheet) = False := eq_false (by decide)
@[simp] theorem nR_ne_nS : (nR = nS) = False := eq_false (by decide)
@[simp] theorem nR_ne_nRef : (nR = nRef) = False := eq_false (by decide)
@[simp] theorem nRPh_ne_nRow : (nRPh = nRow) = False := eq_false (by decide)
@[simp] theorem nRPh_ne_nC : (nRPh = nC) = False := eq_false (by decide)
@[simp] theorem nRPh_ne_nV : (nRPh = nV) = False := eq_false (by decide)
@[simp] theorem nRPh_ne_nIs : (nRPh = nIs) = False := eq_false (by decide)
@[simp] theorem nRPh_ne_nF : (nRPh = nF) = False := eq_false (by decide)
@[simp] theorem nRPh_ne_nT : (nRPh = nT) = False := eq_false (by decide)
@[simp] theorem nRPh_ne_nR : (nRPh = nR) = False := eq_false (by decide)
@[simp] theorem nRPh_ne_nSheetData : (nRPh = nSheetData) = False := eq_false (by decide)
@[simp] theorem nRPh_ne_nDimension : (nRPh = nDimension) = False := eq_false (by decide)
@[simp] theorem nRPh_ne_nWorksheet : (nRPh = nWorksheet) = False := eq_false (by decide)
@[simp] theorem nRPh_ne_nS : (nRPh = nS) = False := eq_false (by decide)
@[simp] theorem nRPh_ne_nRef : (nRPh = nRef) = False := eq_false (by decide)
@[simp] theorem nSheetData_ne_nRow : (nSheetData = nRow) = False := eq_false (by decide)
@[simp] theorem nSheetData_ne_nC : (nSheetData = nC) = False := eq_false (by decide)
@[simp] theorem nSheetData_ne_nV : (nSheetData = nV) = False := eq_false (by decide)
@[simp] theorem nSheetData_ne_nIs : (nSheetData = nIs) = False := eq_false (by decide)
@[simp] theorem nSheetData_ne_nF : (nSheetData = nF) = False := eq_false (by decide)
@[simp] theorem nSheetData_ne_nT : (nSheetData = nT) = False := eq_false (by decide)
@[simp] theorem nSheetData_ne_nR : (nSheetData = nR) = False := eq_false (by decide)
@[simp] theorem nSheetData_ne_nRPh : (nSheetData = nRPh) = False := eq_false (by decide)
@[simp] theorem nSheetData_ne_nDimension : (nSheetData = nDimension) = False := eq_false (by decide)
@[simp] theorem nSheetData_ne_nWorksheet : (nSheetData = nWorksheet) = False := eq_false (by decide)
@[simp] theorem nSheetData_ne_nS : (nSheetData = nS) = False := eq_false (by decide)
@[simp] theorem nSheetData_ne_nRef : (nSheetData = nRef) = False := eq_false (by decide)
@[simp] theorem nDimension_ne_nRow : (nDimension = nRow) = False := eq_false (by decide)
@[simp] theorem nDimension_ne_nC : (nDimension = nC) = False := eq_false (by decide)
@[simp] theorem nDimension_ne_nV : (nDimension = nV) = False := eq_false (by decide)
@[simp] theorem nDimension_ne_nIs : (nDimension = nIs) = False := eq_false (by decide)
@[simp] theorem nDimension_ne_nF : (nDimension = nF) = False := eq_false (by decide)
@[simp] theorem nDimension_ne_nT : (nDimension = nT) = False := eq_false (by decide)
@[simp] theorem nDimension_ne_nR : (nDimension = nR) = False := eq_false (by decide)
@[simp] theorem nDimension_ne_nRPh : (nDimension = nRPh) = False := eq_false (by decide)
@[simp] theorem nDimension_ne_nSheetData : (nDimension = nSheetData) = False := eq_false (by decide)
@[simp] theorem nDimension_ne_nWorksheet : (nDimension = nWorksheet) = False := eq_false (by decide)
@[simp] theorem nDimension_ne_nS : (nDimension = nS) = False := eq_false (by decide)
@[simp] theorem nDimension_ne_nRef : (nDimension = nRef) = False := eq_false (by decide)
@[simp] theorem nWorksheet_ne_nRow : (nWorksheet = nRow) = False := eq_false (by decide)
@[simp] theorem nWorksheet_ne_nC : (nWorksheet = nC) = False := eq_false (by decide)
@[simp] theorem nWorksheet_ne_nV : (nWorksheet = nV) = False := eq_false (by decide)
@[simp] theorem nWorksheet_ne_nIs : (nWorksheet = nIs) = False := eq_false (by decide)
@[simp] theorem nWorksheet_ne_nF : (nWorksheet = nF) = False := eq_false (by decide)
@[simp] theorem nWorksheet_ne_nT : (nWorksheet = nT) = False := eq_false (by decide)
@[simp] theorem nWorksheet_ne_nR : (nWorksheet = nR) = False := eq_false (by decide)
@[simp] theorem nWorksheet_ne_nRPh : (nWorksheet = nRPh) = False := eq_false (by decide)
@[simp] theorem nWorksheet_ne_nSheetData : (nWorksheet = nSheetData) = False := eq_false (by decide)
@[simp] theorem nWorksheet_ne_nDimension : (nWorksheet = nDimension) = False := eq_false (by decide)
@[simp] theorem nWorksheet_ne_nS : (nWorksheet = nS) = False := eq_false (by decide)
@[simp] theorem nWorksheet_ne_nRef : (nWorksheet = nRef) = False := eq_false (by decide)
@[simp] theorem nS_ne_nRow : (nS = nRow) = False := eq_false (by decide)
@[simp] theorem nS_ne_nC : (nS = nC) = False := eq_false (by decide)
@[simp] theorem nS_ne_nV : (nS = nV) = False := eq_false (by decide)
@[simp] theorem nS_ne_nIs : (nS = nIs) = False := eq_false (by decide)
@[simp] theorem nS_ne_nF : (nS = nF) = False := eq_false (by decide)
@[simp] theorem nS_ne_nT : (nS = nT) = False := eq_false (by decide)
@[simp] theorem nS_ne_nR : (nS = nR) = False := eq_false (by decide)
@[simp] theorem nS_ne_nRPh : (nS = nRPh) = False := eq_false (by decide)
@[simp] theorem nS_ne_nSheetData : (nS = nSheetData) = False := eq_false (by decide)
@[simp] theorem nS_ne_nDimension : (nS = nDimension) = False := eq_false (by decide)
@[simp] theorem nS_ne_nWorksheet : (nS = nWorksheet) = False := eq_false (by decide)
@[simp] theorem nS_ne_nRef : (nS = nRef) = False := eq_false (by decide)
@[simp] theorem nRef_ne_nRow : (nRef = nRow) = False := eq_false (by decide)
@[simp] theorem nRef_ne_nC : (nRef = nC) = False := eq_false (by decide)
@[simp] theorem nRef_ne_nV : (nRef = nV) = False := eq_false (by decide)
@[simp] theorem nRef_ne_nIs : (nRef = nIs) = False := eq_false (by decide)
@[simp] theorem nRef_ne_nF : (nRef = nF) = False := eq_false (by decide)
@[simp] theorem nRef_ne_nT : (nRef = nT) = False := eq_false (by decide)
@[simp] theorem nRef_ne_nR : (nRef = nR) = False := eq_false (by decide)
@[simp] theorem nRef_ne_nRPh : (nRef = nRPh) = False := eq_false (by decide)
@[simp] theorem nRef_ne_nSheetData : (nRef = nSheetData) = False := eq_false (by decide)
@[simp] theorem nRef_ne_nDimension : (nRef = nDimension) = False := eq_false (by decide)
@[simp] theorem nRef_ne_nWorksheet : (nRef = nWorksheet) = False := eq_false (by decide)
@[simp] theorem nRef_ne_nS : (nRef = nS) = False := eq_false (by decide)

theorem q_inj (p : Bool) (a b : Bytes) : q p a = q p b ↔ a = b := by
  cases p <;> simp [q]

/-! ### attributes of a rendered `<c>` -/

theorem getAttr_cell_s (ra : Attrs) (hra : ra = [] ∨ ∃ v, ra = [(nR, v)]) (style : Option Bytes) (ta : Attrs)
    (hta : ta = [] ∨ ∃ v, ta = [(nT, v)]) : getAttr (ra ++ styleAttr style ++ ta) nS = style := by
  rcases hra with rfl | ⟨v, rfl⟩ <;> rcases hta with rfl | ⟨w, rfl⟩ <;> cases style <;>
    simp [getAttr, styleAttr, List.find?, nR, nS, nT]

theorem getAttr_cell_t (ra : Attrs) (hra : ra = [] ∨ ∃ v, ra = [(nR, v)]) (style : Option Bytes) (ta : Attrs)
    (hta : ta = [] ∨ ∃ v, ta = [(nT, v)]) : getAttr (ra ++ styleAttr style ++ ta) nT = ta.head?.map (·.2) := by
  rcases hra with rfl | ⟨v, rfl⟩ <;> rcases hta with rfl | ⟨w, rfl⟩ <;> cases style <;>
    simp [getAttr, styleAttr, List.find?, nR, nS, nT]

theorem getAttr_cell_r (ra : Attrs) (hra : ra = [] ∨ ∃ v, ra = [(nR, v)]) (style : Option Bytes) (ta : Attrs)
    (hta : ta = [] ∨ ∃ v, ta = [(nT, v)]) : getAttr (ra ++ styleAttr style ++ ta) nR = ra.head?.map (·.2) := by
  rcases hra with rfl | ⟨v, rfl⟩ <;> rcases hta with rfl | ⟨w, rfl⟩ <;> cases style <;>
    simp [getAttr, styleAttr, List.find?, nR, nS, nT]

/-! ### decimal text through `atoi_simd::parse::<usize>` -/

theorem foldl_dec (l : Bytes) (a : Nat) :
    l.reverse.foldl (fun acc c => acc * 10 + (c - 48)) a = a * 10 ^ l.length + valLE10 l := by
  induction l generalizing a with
  | nil => simp [valLE10]
  | cons d ds ih =>
    simp only [List.reverse_cons, List.foldl_append, List.foldl_cons, List.foldl_nil, ih, valLE10,
      List.length_cons, Nat.pow_succ]
    have e : (a * 10 ^ ds.length + valLE10 ds) * 10 = a * (10 ^ ds.length * 10) + 10 * valLE10 ds := by
      rw [Nat.add_mul, Nat.mul_assoc, Nat.mul_comm (valLE10 ds)]
    omega

theorem decLE_length_le (k n : Nat) (hk : 1 ≤ k) (h : n < 10 ^ k) : (decLE n).length ≤ k := by
  induction k generalizing n with
  | zero => omega
  | succ k ih =>
    rw [decLE]
    split
    · simp
    · rename_i hn
      have hk1 : 1 ≤ k := by
        cases k with
        | zero => simp at h; omega
        | succ k => omega
      have : n / 10 < 10 ^ k := by
        rw [Nat.pow_succ] at h
        omega
      have := ih (n / 10) hk1 this
      simp only [List.length_cons]; omega

theorem atoiUsize_dec (n : Nat) (h : n < 10 ^ 19) : atoiUsize (dec n) = some n := by
  have hlen := decLE_length_le 19 n (by omega) h
  have hne := decLE_ne_nil n
  have hpos : 0 < (decLE n).length := List.length_pos_iff.mpr hne
  unfold atoiUsize dec
  have hall : (decLE n).reverse.all (fun c => decide (48 ≤ c ∧ c ≤ 57)) = true := by
    rw [List.all_eq_true]; intro x hx
    have := decLE_digits n x (List.mem_reverse.mp hx)
    simpa using this
  simp only [List.length_reverse, hall]
  rw [if_neg (by
    intro h
    rcases h with h | h | h
    · omega
    · omega
    · exact h trivial)]
  have := foldl_dec (decLE n) 0
  simp only [Nat.zero_mul, Nat.zero_add, valLE10_decLE] at this
  simp only [this]
  rw [if_pos (by omega)]

theorem parseError_literal (k : Nat) (hk : k < 7) : parseError (errLiteral k) = some k := by
  match k, hk with
  | 0, _ => decide
  | 1, _ => decide
  | 2, _ => decide
  | 3, _ => decide
  | 4, _ => decide
  | 5, _ => decide
  | 6, _ => decide

/-! ### the children of a rendered `<c>` -/

theorem steps_v (cfg : Cfg) (p : Bool) (pos : Nat × Nat) (attrs : Attrs) (v0 v : Val) (row col : Nat)
    (out : List (Nat × Nat × Val)) (t : Bytes) (h : readV cfg attrs t = .ok v) :
    steps cfg ⟨.cell pos attrs v0, row, col, out⟩ (vEvents p t) = .ok ⟨.cell pos attrs v, row, col, out⟩ := by
  unfold vEvents
  by_cases ht : t = []
  · subst ht
    simp [steps, step, h]
  · simp [steps, step, h, ht]

theorem steps_formula (cfg : Cfg) (p : Bool) (pos : Nat × Nat) (attrs : Attrs) (row col : Nat)
    (out : List (Nat × Nat × Val)) (f : Option Bytes) :
    steps cfg ⟨.cell pos attrs .empty, row, col, out⟩ (formulaEvents p f) = .ok ⟨.cell pos attrs .empty, row, col, out⟩ := by
  cases f with
  | none => simp [formulaEvents, steps]
  | some f =>
    unfold formulaEvents
    by_cases hf : f = []
    · subst hf
      simp [steps, step]
    · simp [steps, step, hf]

theorem steps_inline (cfg : Cfg) (p : Bool) (pos : Nat × Nat) (attrs : Attrs) (v0 : Val) (row col : Nat)
    (out : List (Nat × Nat × Val)) (s : Bytes) :
    steps cfg ⟨.cell pos attrs v0, row, col, out⟩
      ([.start (q p nIs) [], .start (q p nT) []] ++ (if s = [] then [] else [.text s]) ++ [.stop (q p nT), .stop (q p nIs)])
      = .ok ⟨.cell pos attrs (.str s), row, col, out⟩ := by
  by_cases hs : s = []
  · subst hs
    simp [steps, step, strStep]
  · simp [steps, step, strStep, hs]

theorem contentEvents_attr (p : Bool) (c : Content) :
    (contentEvents p c).1 = [] ∨ ∃ v, (contentEvents p c).1 = [(nT, v)] := by
  cases c with
  | blank => exact Or.inl rfl
  | num t tn => cases tn <;> simp [contentEvents]
  | shared idx => exact Or.inr ⟨_, rfl⟩
  | inline s => exact Or.inr ⟨_, rfl⟩
  | fstr s => exact Or.inr ⟨_, rfl⟩
  | bool b => exact Or.inr ⟨_, rfl⟩
  | err k => exact Or.inr ⟨_, rfl⟩
  | iso s => exact Or.inr ⟨_, rfl⟩

/-- the typing table on the attributes of a rendered cell: `t` absent / given, style through `styleFmt` -/
theorem readV_cell (cfg : Cfg) (ra : Attrs) (hra : ra = [] ∨ ∃ v, ra = [(nR, v)]) (style : Option Bytes)
    (ta : Attrs) (hta : ta = [] ∨ ∃ v, ta = [(nT, v)]) (v : Bytes) :
    readV cfg (ra ++ styleAttr style ++ ta) v =
      match ta.head?.map (·.2) with
      | some t =>
        if t = nS then
          match cfg.strings[(atoiUsize v).getD 0]? with
          | some s => .ok (.shared s)
          | none => .err "Unexpected"
        else if t = tB then .ok (.bool (v ≠ [48]))
        else if t = tE then
          match parseError v with
          | some code => .ok (.error code)
          | none => .err "CellError"
        else if t = tD then .ok (.dateIso v)
        else if t = tStr then .ok (.str v)
        else if t = tN then (if v = [] then .ok .empty else .ok (.num v (styleFmt cfg style) true))
        else if t = nIs then .err "Unexpected"
        else .err "CellTAttribute"
      | none => .ok (.num v (styleFmt cfg style) false) := by
  unfold readV
  rw [getAttr_cell_s ra hra style ta hta, getAttr_cell_t ra hra style ta hta]
  cases style <;> rfl

theorem steps_content (cfg : Cfg) (p : Bool) (pos : Nat × Nat) (ra : Attrs) (hra : ra = [] ∨ ∃ v, ra = [(nR, v)])
    (cs : CellSpec) (hok : cs.content.Ok cfg) (row col : Nat) (out : List (Nat × Nat × Val)) :
    steps cfg ⟨.cell pos (ra ++ styleAttr cs.style ++ (contentEvents p cs.content).1) .empty, row, col, out⟩
      (contentEvents p cs.content).2 =
    .ok ⟨.cell pos (ra ++ styleAttr cs.style ++ (contentEvents p cs.content).1) (expect cfg cs), row, col, out⟩ := by
  have hta := contentEvents_attr p cs.content
  obtain ⟨content, style, formula⟩ := cs
  simp only at hok hta ⊢
  cases content with
  | blank => simp [contentEvents, steps, expect]
  | num t tn =>
    apply steps_v
    rw [readV_cell cfg ra hra style _ hta]
    cases tn
    · simp [contentEvents, expect]
    · by_cases ht : t = [] <;> simp [contentEvents, expect, ht, tN, nS, tB, tE, tD, tStr]
  | shared idx =>
    apply steps_v
    rw [readV_cell cfg ra hra style _ hta]
    obtain ⟨h1, h2⟩ := hok
    simp only [contentEvents, List.head?_cons, Option.map_some, if_true, atoiUsize_dec idx h2, Option.getD_some, expect]
    rw [List.getElem?_eq_getElem h1]
    simp [List.getD_eq_getElem?_getD, List.getElem?_eq_getElem h1]
  | inline s =>
    simp only [contentEvents]
    exact steps_inline cfg p pos _ .empty row col out s
  | fstr s =>
    apply steps_v
    rw [readV_cell cfg ra hra style _ hta]
    simp [contentEvents, expect, tN, nS, tB, tE, tD, tStr]
  | bool b =>
    apply steps_v
    rw [readV_cell cfg ra hra style _ hta]
    cases b <;> simp [contentEvents, expect, tN, nS, tB, tE, tD, tStr]
  | err k =>
    apply steps_v
    rw [readV_cell cfg ra hra style _ hta]
    simp [contentEvents, expect, tN, nS, tB, tE, tD, tStr, parseError_literal k hok]
  | iso s =>
    apply steps_v
    rw [readV_cell cfg ra hra style _ hta]
    simp [contentEvents, expect, tN, nS, tB, tE, tD, tStr]

/-! ### cells, rows, the sheet -/

/-- one rendered `<c>`: the reader returns the cell at its position with the expected value and moves the
    column cursor just past it -/
theorem steps_cell (cfg : Cfg) (lay : Layout) (r c cur : Nat) (cs : CellSpec) (hr : r < 1048576) (hc : c < 16384)
    (hok : cs.content.Ok cfg) (out : List (Nat × Nat × Val)) :
    steps cfg ⟨.rows, r, cur, out⟩ (renderCell lay r c cur cs) =
      .ok ⟨.rows, r, c + 1, (r, c, expect cfg cs) :: out⟩ := by
  simp only [renderCell]
  -- the reference attribute: written, or legally omitted because the cursor is already there
  generalize hra : (if (lay.cellExplicit r c || c != cur) = true then [(nR, refName (lay.cellLower r c) r c)] else []) = ra
  have hra' : ra = [] ∨ ∃ v, ra = [(nR, v)] := by
    subst hra; split
    · exact Or.inr ⟨_, rfl⟩
    · exact Or.inl rfl
  -- <c …>
  have h1 : steps cfg ⟨.rows, r, cur, out⟩ [.start (q lay.pfx nC) (ra ++ styleAttr cs.style ++ (contentEvents lay.pfx cs.content).1)] =
      .ok ⟨.cell (r, c) (ra ++ styleAttr cs.style ++ (contentEvents lay.pfx cs.content).1) .empty, r, c, out⟩ := by
    have hattr := getAttr_cell_r ra hra' cs.style _ (contentEvents_attr lay.pfx cs.content)
    simp only [steps, step, ln_c, nC_ne_nRow, if_false, if_true, hattr]
    subst hra
    by_cases hex : (lay.cellExplicit r c || c != cur) = true
    · simp only [hex, if_true, List.head?_cons, Option.map_some]
      rw [getRowColumn_refName _ r c (by simp only [U32]; omega) (by simp only [U32]; omega)]
    · have hcur : c = cur := by
        simp only [Bool.or_eq_true, bne_iff_ne, ne_eq, not_or, Bool.not_eq_true, Classical.not_not] at hex
        exact hex.2
      subst hcur
      simp only [hex, Bool.false_eq_true, if_false, List.head?_nil, Option.map_none]
  -- <f>, value children, </c>
  have h2 := steps_formula cfg lay.pfx (r, c) (ra ++ styleAttr cs.style ++ (contentEvents lay.pfx cs.content).1) r c out cs.formula
  have h3 := steps_content cfg lay.pfx (r, c) ra hra' cs hok r c out
  have h4 : steps cfg ⟨.cell (r, c) (ra ++ styleAttr cs.style ++ (contentEvents lay.pfx cs.content).1) (expect cfg cs), r, c, out⟩
      [.stop (q lay.pfx nC)] = .ok ⟨.rows, r, c + 1, (r, c, expect cfg cs) :: out⟩ := by
    have : satAdd c 1 = c + 1 := satAdd_eq (by simp only [U32]; omega)
    simp [steps, step, this]
  rw [List.append_assoc, List.append_assoc, steps_append_ok cfg _ _ _ _ h1, steps_append_ok cfg _ _ _ _ h2,
    steps_append_ok cfg _ _ _ _ h3, h4]

/-- the expected cells of one row -/
def rowCells (cfg : Cfg) (r : Nat) (cells : List (Nat × CellSpec)) : List (Nat × Nat × Val) :=
  cells.map fun cell => (r, cell.1, expect cfg cell.2)

theorem steps_cells (cfg : Cfg) (lay : Layout) (r : Nat) (hr : r < 1048576) (cells : List (Nat × CellSpec))
    (cur : Nat) (hinc : Increasing 16384 cur cells) (hok : ∀ cell ∈ cells, cell.2.content.Ok cfg)
    (out : List (Nat × Nat × Val)) :
    ∃ col, steps cfg ⟨.rows, r, cur, out⟩ (renderCells lay r cur cells) =
      .ok ⟨.rows, r, col, (rowCells cfg r cells).reverse ++ out⟩ := by
  induction cells generalizing cur out with
  | nil => exact ⟨cur, by simp [renderCells, steps, rowCells]⟩
  | cons cell rest ih =>
    obtain ⟨c, cs⟩ := cell
    obtain ⟨_, hc, hrest⟩ := hinc
    have h1 := steps_cell cfg lay r c cur cs hr hc (hok (c, cs) (by simp)) out
    obtain ⟨col, h2⟩ := ih (c + 1) hrest (fun x hx => hok x (by simp [hx])) ((r, c, expect cfg cs) :: out)
    refine ⟨col, ?_⟩
    simp only [renderCells]
    rw [steps_append_ok cfg _ _ _ _ h1, h2]
    simp [rowCells]

theorem steps_rows (cfg : Cfg) (lay : Layout) (s : Sheet) (cur : Nat) (hinc : Increasing 1048576 cur s)
    (hcols : ∀ row ∈ s, Increasing 16384 0 row.2) (hok : Sheet.ContentOk cfg s) (out : List (Nat × Nat × Val)) :
    ∃ row, steps cfg ⟨.rows, cur, 0, out⟩ (renderRows lay cur s) =
      .ok ⟨.rows, row, 0, (cellsOf cfg s).reverse ++ out⟩ := by
  induction s generalizing cur out with
  | nil => exact ⟨cur, by simp [renderRows, steps, cellsOf]⟩
  | cons rowspec rest ih =>
    obtain ⟨r, cells⟩ := rowspec
    obtain ⟨_, hr, hrest⟩ := hinc
    -- <row …>
    have h1 : steps cfg ⟨.rows, cur, 0, out⟩
        [.start (q lay.pfx nRow) (if (lay.rowExplicit r || r != cur) = true then [(nR, dec (r + 1))] else [])] =
        .ok ⟨.rows, r, 0, out⟩ := by
      by_cases hex : (lay.rowExplicit r || r != cur) = true
      · simp only [hex, if_true, steps, step, ln_row, getAttr, List.find?, beq_self_eq_true, Option.map_some]
        rw [getRow_dec r (by simp only [U32]; omega)]
      · have hcur : r = cur := by
          simp only [Bool.or_eq_true, bne_iff_ne, ne_eq, not_or, Bool.not_eq_true, Classical.not_not] at hex
          exact hex.2
        subst hcur
        have hre : lay.rowExplicit r = false := by simpa using hex
        simp [hre, steps, step, getAttr]
    obtain ⟨col, h2⟩ := steps_cells cfg lay r hr cells 0 (hcols (r, cells) (by simp))
      (fun cell hcell => hok (r, cells) (by simp) cell hcell) out
    have h3 : steps cfg ⟨.rows, r, col, (rowCells cfg r cells).reverse ++ out⟩ [.stop (q lay.pfx nRow)] =
        .ok ⟨.rows, r + 1, 0, (rowCells cfg r cells).reverse ++ out⟩ := by
      have : satAdd r 1 = r + 1 := satAdd_eq (by simp only [U32]; omega)
      simp [steps, step, this]
    obtain ⟨row, h4⟩ := ih (r + 1) hrest (fun x hx => hcols x (by simp [hx]))
      (fun x hx => hok x (by simp [hx])) ((rowCells cfg r cells).reverse ++ out)
    refine ⟨row, ?_⟩
    simp only [renderRows]
    rw [List.append_assoc, List.append_assoc, steps_append_ok cfg _ _ _ _ h1, steps_append_ok cfg _ _ _ _ h2,
      steps_append_ok cfg _ _ _ _ h3, h4]
    simp [cellsOf, rowCells]

theorem readerNew_render (s : Sheet) (lay : Layout) (hdim : lay.DimOk) :
    readerNew (renderSheet s lay) default false =
      .ok (lay.dim.getD default, renderRows lay 0 s ++ [.stop (q lay.pfx nSheetData), .stop (q lay.pfx nWorksheet)]) := by
  unfold renderSheet dimEvents
  cases hd : lay.dim with
  | none => simp [readerNew]
  | some d =>
    obtain ⟨h1, h2, h3, h4⟩ := hdim d hd
    have := getDimension_dimRef d (by simp only [U32]; omega) (by simp only [U32]; omega)
      (by simp only [U32]; omega) (by simp only [U32]; omega)
    simp [readerNew, getAttr, this]

/-- the reader on a rendered sheet: exactly the cells of the sheet, row-major, each with its expected value -/
theorem readCells_render (cfg : Cfg) (s : Sheet) (lay : Layout) (hwf : s.WF) (hok : s.ContentOk cfg)
    (hdim : lay.DimOk) : readCells cfg (renderSheet s lay) = .ok (lay.dim.getD default, cellsOf cfg s) := by
  unfold readCells
  rw [readerNew_render s lay hdim]
  obtain ⟨row, h1⟩ := steps_rows cfg lay s 0 hwf.1 hwf.2 hok []
  have h2 : steps cfg ⟨.rows, row, 0, (cellsOf cfg s).reverse ++ []⟩
      [.stop (q lay.pfx nSheetData), .stop (q lay.pfx nWorksheet)] =
      .ok ⟨.done, row, 0, (cellsOf cfg s).reverse ++ []⟩ := by
    simp [steps, step]
  have h3 := steps_append_ok cfg _ _ _ [Ev.stop (q lay.pfx nSheetData), .stop (q lay.pfx nWorksheet)] h1
  rw [h2] at h3
  have := run_of_steps cfg _ initSt _ h3 rfl
  simp only [initSt] at this ⊢
  rw [this]
  simp

/-- `run` on the part after `<sheetData>` of a rendered sheet -/
theorem run_render (cfg : Cfg) (s : Sheet) (lay : Layout) (hwf : s.WF) (hok : s.ContentOk cfg) :
    run cfg (renderRows lay 0 s ++ [.stop (q lay.pfx nSheetData), .stop (q lay.pfx nWorksheet)]) initSt =
      (cellsOf cfg s, .ok ()) := by
  obtain ⟨row, h1⟩ := steps_rows cfg lay s 0 hwf.1 hwf.2 hok []
  have h2 : steps cfg ⟨.rows, row, 0, (cellsOf cfg s).reverse ++ []⟩
      [.stop (q lay.pfx nSheetData), .stop (q lay.pfx nWorksheet)] =
      .ok ⟨.done, row, 0, (cellsOf cfg s).reverse ++ []⟩ := by
    simp [steps, step]
  have h3 := steps_append_ok cfg _ _ _ [Ev.stop (q lay.pfx nSheetData), .stop (q lay.pfx nWorksheet)] h1
  rw [h2] at h3
  have := run_of_steps cfg _ initSt _ h3 rfl
  simp only [initSt] at this ⊢
  rw [this]
  simp

theorem worksheetRange_render (cfg : Cfg) (s : Sheet) (lay : Layout) (hwf : s.WF) (hok : s.ContentOk cfg)
    (hdim : lay.DimOk) :
    worksheetRange cfg (renderSheet s lay) = Range.fromSparse ((cellsOf cfg s).filter (fun c => c.2.2 ≠ .empty)) := by
  unfold worksheetRange
  rw [readerNew_render s lay hdim]
  simp only [run_render cfg s lay hwf hok]

/-! ### order and bounds of the expected cells -/

/-- strictly increasing in row-major order -/
def Lex (a b : Nat × Nat × Val) : Prop := a.1 < b.1 ∨ (a.1 = b.1 ∧ a.2.1 < b.2.1)

theorem rowCells_mem (cfg : Cfg) (r : Nat) (cells : List (Nat × CellSpec)) (lo : Nat)
    (h : Increasing 16384 lo cells) : ∀ x ∈ rowCells cfg r cells, x.1 = r ∧ lo ≤ x.2.1 ∧ x.2.1 < 16384 := by
  induction cells generalizing lo with
  | nil => intro x hx; simp [rowCells] at hx
  | cons cell rest ih =>
    obtain ⟨h1, h2, h3⟩ := h
    intro x hx
    simp only [rowCells, List.map_cons, List.mem_cons] at hx
    rcases hx with rfl | hx
    · exact ⟨rfl, h1, h2⟩
    · have := ih (cell.1 + 1) h3 x hx
      exact ⟨this.1, by omega, this.2.2⟩

theorem rowCells_pairwise (cfg : Cfg) (r : Nat) (cells : List (Nat × CellSpec)) (lo : Nat)
    (h : Increasing 16384 lo cells) : (rowCells cfg r cells).Pairwise Lex := by
  induction cells generalizing lo with
  | nil => simp [rowCells]
  | cons cell rest ih =>
    obtain ⟨h1, h2, h3⟩ := h
    simp only [rowCells, List.map_cons, List.pairwise_cons]
    refine ⟨?_, ih (cell.1 + 1) h3⟩
    intro x hx
    have := rowCells_mem cfg r rest (cell.1 + 1) h3 x hx
    exact Or.inr ⟨this.1.symm, by simp only; omega⟩

theorem cellsOf_cons (cfg : Cfg) (r : Nat) (cells : List (Nat × CellSpec)) (rest : Sheet) :
    cellsOf cfg ((r, cells) :: rest) = rowCells cfg r cells ++ cellsOf cfg rest := by
  simp [cellsOf, rowCells]

theorem cellsOf_mem (cfg : Cfg) (s : Sheet) (lo : Nat) (h : Increasing 1048576 lo s)
    (hc : ∀ row ∈ s, Increasing 16384 0 row.2) :
    ∀ x ∈ cellsOf cfg s, lo ≤ x.1 ∧ x.1 < 1048576 ∧ x.2.1 < 16384 := by
  induction s generalizing lo with
  | nil => intro x hx; simp [cellsOf] at hx
  | cons row rest ih =>
    obtain ⟨r, cells⟩ := row
    obtain ⟨h1, h2, h3⟩ := h
    intro x hx
    rw [cellsOf_cons, List.mem_append] at hx
    rcases hx with hx | hx
    · have := rowCells_mem cfg r cells 0 (hc (r, cells) (by simp)) x hx
      exact ⟨by omega, by omega, this.2.2⟩
    · have := ih (r + 1) h3 (fun y hy => hc y (by simp [hy])) x hx
      exact ⟨by omega, this.2.1, this.2.2⟩

theorem cellsOf_pairwise (cfg : Cfg) (s : Sheet) (lo : Nat) (h : Increasing 1048576 lo s)
    (hc : ∀ row ∈ s, Increasing 16384 0 row.2) : (cellsOf cfg s).Pairwise Lex := by
  induction s generalizing lo with
  | nil => simp [cellsOf]
  | cons row rest ih =>
    obtain ⟨r, cells⟩ := row
    obtain ⟨h1, h2, h3⟩ := h
    rw [cellsOf_cons, List.pairwise_append]
    refine ⟨rowCells_pairwise cfg r cells 0 (hc (r, cells) (by simp)), ih (r + 1) h3 (fun y hy => hc y (by simp [hy])), ?_⟩
    intro a ha b hb
    have h4 := rowCells_mem cfg r cells 0 (hc (r, cells) (by simp)) a ha
    have h5 := cellsOf_mem cfg rest (r + 1) h3 (fun y hy => hc y (by simp [hy])) b hb
    exact Or.inl (by omega)

theorem lex_last {l : List (Nat × Nat × Val)} (hp : l.Pairwise Lex) (hne : l ≠ []) :
    ∀ c ∈ l, c.1 ≤ (l.getLast hne).1 := by
  intro c hc
  have hsplit := List.dropLast_concat_getLast hne
  have hp' : (l.dropLast ++ [l.getLast hne]).Pairwise Lex := by rw [hsplit]; exact hp
  have hc' : c ∈ l.dropLast ++ [l.getLast hne] := by rw [hsplit]; exact hc
  rw [List.pairwise_append] at hp'
  rw [List.mem_append] at hc'
  rcases hc' with hc' | hc'
  · have := hp'.2.2 c hc' (l.getLast hne) (by simp)
    rcases this with h | h <;> omega
  · simp only [List.mem_singleton] at hc'; rw [hc']; exact Nat.le_refl _

theorem lex_head {l : List (Nat × Nat × Val)} (hp : l.Pairwise Lex) (hne : l ≠ []) :
    ∀ c ∈ l, (l.head hne).1 ≤ c.1 := by
  intro c hc
  cases l with
  | nil => exact absurd rfl hne
  | cons a rest =>
    simp only [List.head_cons]
    simp only [List.mem_cons] at hc
    rcases hc with rfl | hc
    · exact Nat.le_refl _
    · have := (List.pairwise_cons.mp hp).1 c hc
      rcases this with h | h <;> omega

/-- distinct members of a row-major list sit at distinct positions -/
theorem lex_unique {l : List (Nat × Nat × Val)} (hp : l.Pairwise Lex) (l1 l2 : List (Nat × Nat × Val))
    (c : Nat × Nat × Val) (h : l = l1 ++ c :: l2) :
    (∀ x ∈ l1, ¬ (x.1 = c.1 ∧ x.2.1 = c.2.1)) ∧ (∀ x ∈ l2, ¬ (x.1 = c.1 ∧ x.2.1 = c.2.1)) := by
  subst h
  rw [List.pairwise_append, List.pairwise_cons] at hp
  constructor
  · intro x hx hcontra
    have := hp.2.2 x hx c (by simp)
    rcases this with h | h <;> omega
  · intro x hx hcontra
    have := hp.2.1.1 x hx
    rcases this with h | h <;> omega

/-! ### shared strings -/

@[simp] theorem ln_si (p : Bool) : localName (q p nSi) = nSi := localName_q p nSi (by decide)
@[simp] theorem ln_sst (p : Bool) : localName (q p nSst) = nSst := localName_q p nSst (by decide)
@[simp] theorem ln_r (p : Bool) : localName (q p nR) = nR := localName_q p nR (by decide)
@[simp] theorem ln_rph (p : Bool) : localName (q p nRPh) = nRPh := localName_q p nRPh (by decide)
@[simp] theorem nSi_ne_nSst : (nSi = nSst) = False := eq_false (by decide)
@[simp] theorem nSst_ne_nSi : (nSst = nSi) = False := eq_false (by decide)
@[simp] theorem q_eq (p : Bool) (a b : Bytes) : (q p a = q p b) = (a = b) := propext (q_inj p a b)
@[simp] theorem nSi_ne_nT : (nSi = nT) = False := eq_false (by decide)
@[simp] theorem nT_ne_nSi : (nT = nSi) = False := eq_false (by decide)
@[simp] theorem nSi_ne_nR : (nSi = nR) = False := eq_false (by decide)
@[simp] theorem nR_ne_nSi : (nR = nSi) = False := eq_false (by decide)
@[simp] theorem nSi_ne_nRPh : (nSi = nRPh) = False := eq_false (by decide)
@[simp] theorem nRPh_ne_nSi : (nRPh = nSi) = False := eq_false (by decide)

/-- one rich-text run appends its text to the buffer -/
theorem sstLoop_run (p : Bool) (cl : Bytes) (hcl : cl = q p nSi) (rich : Option Bytes) (r : Bytes)
    (rest : List Ev) (acc : List Bytes) :
    sstLoop (runEvents p r ++ rest) (some (cl, .main rich false)) acc =
      sstLoop rest (some (cl, .main (some (rich.getD [] ++ r)) false)) acc := by
  subst hcl
  unfold runEvents tEvents
  by_cases hr : r = []
  · subst hr
    simp [sstLoop, strStep]
  · simp [sstLoop, strStep, hr]

theorem sstLoop_runs (p : Bool) (cl : Bytes) (hcl : cl = q p nSi) (runs : List Bytes) (rich : Option Bytes)
    (rest : List Ev) (acc : List Bytes) (hne : runs ≠ []) :
    sstLoop (runs.flatMap (runEvents p) ++ rest) (some (cl, .main rich false)) acc =
      sstLoop rest (some (cl, .main (some (rich.getD [] ++ runs.flatten)) false)) acc := by
  induction runs generalizing rich with
  | nil => exact absurd rfl hne
  | cons r rs ih =>
    simp only [List.flatMap_cons, List.append_assoc]
    rw [sstLoop_run p cl hcl]
    by_cases hrs : rs = []
    · subst hrs; simp
    · rw [ih _ hrs]; simp [List.append_assoc]

theorem sstLoop_phonetic (p : Bool) (cl : Bytes) (hcl : cl = q p nSi) (rich : Option Bytes) (ph : Option Bytes)
    (rest : List Ev) (acc : List Bytes) :
    sstLoop (phoneticEvents p ph ++ rest) (some (cl, .main rich false)) acc =
      sstLoop rest (some (cl, .main rich false)) acc := by
  subst hcl
  cases ph with
  | none => simp [phoneticEvents]
  | some ph =>
    unfold phoneticEvents tEvents
    by_cases hp : ph = []
    · subst hp
      simp [sstLoop, strStep]
    · simp [sstLoop, strStep, hp]

/-- one `<si>` item contributes exactly one string: its text (the empty string for an item without text) -/
theorem sstLoop_item (p : Bool) (it : SstItem) (rest : List Ev) (acc : List Bytes) :
    sstLoop (renderSi p it ++ rest) none acc = sstLoop rest none (it.text :: acc) := by
  cases it with
  | plain s =>
    unfold renderSi tEvents
    by_cases hs : s = []
    · subst hs
      simp [sstLoop, strStep, SstItem.text]
    · simp [sstLoop, strStep, hs, SstItem.text]
  | emptyElem => simp [renderSi, sstLoop, strStep, SstItem.text]
  | rich runs ph =>
    simp only [renderSi, List.append_assoc, List.cons_append, List.nil_append]
    rw [sstLoop]
    simp only [ln_si, if_true]
    by_cases hr : runs = []
    · subst hr
      simp only [List.flatMap_nil, List.nil_append]
      rw [sstLoop_phonetic p _ rfl]
      simp [sstLoop, strStep, SstItem.text]
    · rw [sstLoop_runs p _ rfl runs none _ _ hr, sstLoop_phonetic p _ rfl]
      simp [sstLoop, strStep, SstItem.text]

theorem sstLoop_items (p : Bool) (items : List SstItem) (rest : List Ev) (acc : List Bytes) :
    sstLoop (items.flatMap (renderSi p) ++ rest) none acc =
      sstLoop rest none ((items.map SstItem.text).reverse ++ acc) := by
  induction items generalizing acc with
  | nil => simp
  | cons it its ih =>
    simp only [List.flatMap_cons, List.append_assoc]
    rw [sstLoop_item, ih]
    simp

/-! ### the reader never panics (after ledger D30-a/c/d, D39) -/

theorem getRow_total (s : Bytes) : (∃ v, getRow s = .ok v) ∨ (∃ e, getRow s = .err e) := by
  unfold getRow
  rcases getRowCol_total s with ⟨v, h⟩ | ⟨e, h⟩
  · rw [h]; exact Or.inl ⟨_, rfl⟩
  · rw [h]; exact Or.inr ⟨_, rfl⟩

theorem getDimension_total (s : Bytes) : (∃ v, getDimension s = .ok v) ∨ (∃ e, getDimension s = .err e) := by
  unfold getDimension
  rcases mapParts_total (splitColon s) with ⟨v, h⟩ | ⟨e, h⟩
  · rw [h]
    match v with
    | [] => exact Or.inr ⟨_, rfl⟩
    | [p] => exact Or.inl ⟨_, rfl⟩
    | [p, q] => exact Or.inl ⟨_, rfl⟩
    | _ :: _ :: _ :: _ => exact Or.inr ⟨_, rfl⟩
  · rw [h]; exact Or.inr ⟨_, rfl⟩

theorem readV_total (cfg : Cfg) (attrs : Attrs) (v : Bytes) :
    (∃ x, readV cfg attrs v = .ok x) ∨ (∃ e, readV cfg attrs v = .err e) := by
  unfold readV
  repeat' split
  all_goals first | exact Or.inl ⟨_, rfl⟩ | exact Or.inr ⟨_, rfl⟩

@[simp] theorem getRow_not_panic (r : Bytes) (s : String) : (getRow r = .panic s) = False := by
  apply eq_false; intro h
  rcases getRow_total r with ⟨v, h2⟩ | ⟨e, h2⟩ <;> rw [h] at h2 <;> cases h2
@[simp] theorem getRow_not_fuel (r : Bytes) : (getRow r = .outOfFuel) = False := by
  apply eq_false; intro h
  rcases getRow_total r with ⟨v, h2⟩ | ⟨e, h2⟩ <;> rw [h] at h2 <;> cases h2
@[simp] theorem getRowColumn_not_panic (r : Bytes) (s : String) : (getRowColumn r = .panic s) = False := by
  apply eq_false; intro h
  rcases getRowColumn_total r with ⟨v, h2⟩ | ⟨e, h2⟩ <;> rw [h] at h2 <;> cases h2
@[simp] theorem getRowColumn_not_fuel (r : Bytes) : (getRowColumn r = .outOfFuel) = False := by
  apply eq_false; intro h
  rcases getRowColumn_total r with ⟨v, h2⟩ | ⟨e, h2⟩ <;> rw [h] at h2 <;> cases h2
@[simp] theorem readV_not_panic (cfg : Cfg) (a : Attrs) (v : Bytes) (s : String) : (readV cfg a v = .panic s) = False := by
  apply eq_false; intro h
  rcases readV_total cfg a v with ⟨x, h2⟩ | ⟨e, h2⟩ <;> rw [h] at h2 <;> cases h2
@[simp] theorem readV_not_fuel (cfg : Cfg) (a : Attrs) (v : Bytes) : (readV cfg a v = .outOfFuel) = False := by
  apply eq_false; intro h
  rcases readV_total cfg a v with ⟨x, h2⟩ | ⟨e, h2⟩ <;> rw [h] at h2 <;> cases h2
@[simp] theorem getDimension_not_panic (r : Bytes) (s : String) : (getDimension r = .panic s) = False := by
  apply eq_false; intro h
  rcases getDimension_total r with ⟨v, h2⟩ | ⟨e, h2⟩ <;> rw [h] at h2 <;> cases h2
@[simp] theorem getDimension_not_fuel (r : Bytes) : (getDimension r = .outOfFuel) = False := by
  apply eq_false; intro h
  rcases getDimension_total r with ⟨v, h2⟩ | ⟨e, h2⟩ <;> rw [h] at h2 <;> cases h2

theorem step_total (cfg : Cfg) (st : St) (ev : Ev) :
    (∃ st', step cfg st ev = .ok st') ∨ (∃ e, step cfg st ev = .err e) := by
  unfold step
  repeat' split
  all_goals first | exact Or.inl ⟨_, rfl⟩ | exact Or.inr ⟨_, rfl⟩ | simp_all

theorem run_total (cfg : Cfg) (evs : List Ev) (st : St) :
    (run cfg evs st).2 = .ok () ∨ ∃ e, (run cfg evs st).2 = .err e := by
  induction evs generalizing st with
  | nil => simp only [run]; split <;> simp
  | cons ev rest ih =>
    simp only [run]
    rcases step_total cfg st ev with ⟨st', h⟩ | ⟨e, h⟩
    · rw [h]; simp only
      split
      · exact Or.inl rfl
      · exact ih st'
    · rw [h]; exact Or.inr ⟨_, rfl⟩

theorem readerNew_total (evs : List Ev) (d : Dims) (b : Bool) :
    (∃ v, readerNew evs d b = .ok v) ∨ (∃ e, readerNew evs d b = .err e) := by
  induction evs generalizing d b with
  | nil => simp only [readerNew]; split <;> exact Or.inr ⟨_, rfl⟩
  | cons ev rest ih =>
    simp only [readerNew]
    repeat' split
    all_goals first | exact Or.inl ⟨_, rfl⟩ | exact Or.inr ⟨_, rfl⟩ | exact ih _ _ | simp_all

end XlsxCells
