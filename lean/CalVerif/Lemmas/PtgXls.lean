import CalVerif.Lemmas.PtgBytes
/-! xls byte layer: decoding the encoding of a token yields its edit and consumes exactly its bytes. -/
namespace Formula
open Ptg

def decodeTokXls (ctx : Ctx) (stkEmpty : Bool) : Bytes → Res (Act × Bytes)
  | [] => .err "empty"
  | p :: r => decodeXls ctx stkEmpty p.toNat r

def envOfXls (ctx : Ctx) : Env :=
  ⟨sheetXls ctx, fun i => (ctx.names[i]?).getD "#REF!".toList, ctx.fmtNum⟩

theorem errText_errName (code : Nat) (h : code ∈ [0x00, 0x07, 0x0F, 0x17, 0x1D, 0x24, 0x2A, 0x2B]) :
    errText code = some (errName code) := by
  simp at h
  rcases h with rfl | rfl | rfl | rfl | rfl | rfl | rfl | rfl <;> rfl

theorem opText_opName (op : Nat) (h1 : 3 ≤ op) (h2 : op ≤ 0x11) : opText op = opName op := by
  have : op = 3 ∨ op = 4 ∨ op = 5 ∨ op = 6 ∨ op = 7 ∨ op = 8 ∨ op = 9 ∨ op = 10 ∨ op = 11 ∨ op = 12 ∨
      op = 13 ∨ op = 14 ∨ op = 15 ∨ op = 16 ∨ op = 17 := by omega
  rcases this with rfl | rfl | rfl | rfl | rfl | rfl | rfl | rfl | rfl | rfl | rfl | rfl | rfl | rfl | rfl <;> rfl

theorem cls_cases (c : Nat) (h : c < 3) : c = 0 ∨ c = 1 ∨ c = 2 := by omega

theorem ftabArgc_some (iftab : Nat) (h : iftab < Gen.ftabLen) :
    ∃ n, Gen.ftabArgc[iftab]? = some n := by
  have hs : Gen.ftabArgc.size = Gen.ftabLen := by decide +kernel
  exact ⟨Gen.ftabArgc[iftab]'(by omega), by simp [hs, h]⟩

theorem dx_ref (ctx : Ctx) (b : Bool) (c : Nat) (a : CellRef) (hwf : (Tok.ref c a).wf true) (rest : Bytes) :
    decodeTokXls ctx b (encXls (Tok.ref c a) ++ rest) = .ok (actOf (envOfXls ctx) true (Tok.ref c a), rest) := by
  simp only [Tok.wf, CellRef.wf, if_true] at hwf
  obtain ⟨hc, hr, hcol⟩ := hwf
  have hcr := colRel_lt a hcol
  rcases cls_cases c hc with rfl | rfl | rfl <;>
  simp [decodeTokXls, encXls, opc, decodeXls, actOf, need_16, need_unfold, need_zero, u16_le16, u16_skip16, drop_16, hr, hcr,
    cellRef_colRel, hcol]

theorem dx_area (ctx : Ctx) (b : Bool) (c : Nat) (a : CellRef) (a2 : CellRef) (hwf : (Tok.area c a a2).wf true) (rest : Bytes) :
    decodeTokXls ctx b (encXls (Tok.area c a a2) ++ rest) = .ok (actOf (envOfXls ctx) true (Tok.area c a a2), rest) := by
  simp only [Tok.wf, CellRef.wf, if_true] at hwf
  obtain ⟨hc, ⟨hr, hcol⟩, ⟨hr2, hcol2⟩⟩ := hwf
  have hcr := colRel_lt a hcol
  have hcr2 := colRel_lt a2 hcol2
  rcases cls_cases c hc with rfl | rfl | rfl <;>
  simp [decodeTokXls, encXls, opc, decodeXls, actOf, need_16, need_unfold, need_zero, u16_le16, u16_skip16, drop_16, hr, hcr,
    cellRef_colRel, hcol, hr2, hcr2, hcol2]

theorem dx_ref3d (ctx : Ctx) (b : Bool) (c : Nat) (i : Nat) (a : CellRef) (hwf : (Tok.ref3d c i a).wf true) (rest : Bytes) :
    decodeTokXls ctx b (encXls (Tok.ref3d c i a) ++ rest) = .ok (actOf (envOfXls ctx) true (Tok.ref3d c i a), rest) := by
  simp only [Tok.wf, CellRef.wf, if_true] at hwf
  obtain ⟨hc, hi, hr, hcol⟩ := hwf
  have hcr := colRel_lt a hcol
  rcases cls_cases c hc with rfl | rfl | rfl <;>
  simp [decodeTokXls, encXls, opc, decodeXls, actOf, envOfXls, need_16, need_unfold, need_zero, u16_le16, u16_skip16, drop_16, hr,
    hcr, cellRef_colRel, hcol, hi]

theorem dx_area3d (ctx : Ctx) (b : Bool) (c : Nat) (i : Nat) (a : CellRef) (a2 : CellRef) (hwf : (Tok.area3d c i a a2).wf true) (rest : Bytes) :
    decodeTokXls ctx b (encXls (Tok.area3d c i a a2) ++ rest) = .ok (actOf (envOfXls ctx) true (Tok.area3d c i a a2), rest) := by
  simp only [Tok.wf, CellRef.wf, if_true] at hwf
  obtain ⟨hc, hi, ⟨hr, hcol⟩, ⟨hr2, hcol2⟩⟩ := hwf
  have hcr := colRel_lt a hcol
  have hcr2 := colRel_lt a2 hcol2
  rcases cls_cases c hc with rfl | rfl | rfl <;>
  simp [decodeTokXls, encXls, opc, decodeXls, actOf, envOfXls, need_16, need_unfold, need_zero, u16_le16, u16_skip16, drop_16, hr,
    hcr, cellRef_colRel, hcol, hr2, hcr2, hcol2, hi]

theorem dx_refErr (ctx : Ctx) (b : Bool) (c : Nat) (hwf : (Tok.refErr c).wf true) (rest : Bytes) :
    decodeTokXls ctx b (encXls (Tok.refErr c) ++ rest) = .ok (actOf (envOfXls ctx) true (Tok.refErr c), rest) := by
  rcases cls_cases c hwf with rfl | rfl | rfl <;>
  simp [decodeTokXls, encXls, opc, decodeXls, actOf, zeros, List.replicate, need_succ, need_unfold, need_zero]

theorem dx_areaErr (ctx : Ctx) (b : Bool) (c : Nat) (hwf : (Tok.areaErr c).wf true) (rest : Bytes) :
    decodeTokXls ctx b (encXls (Tok.areaErr c) ++ rest) = .ok (actOf (envOfXls ctx) true (Tok.areaErr c), rest) := by
  rcases cls_cases c hwf with rfl | rfl | rfl <;>
  simp [decodeTokXls, encXls, opc, decodeXls, actOf, zeros, List.replicate, need_succ, need_unfold, need_zero]

theorem dx_refErr3d (ctx : Ctx) (b : Bool) (c : Nat) (i : Nat) (hwf : (Tok.refErr3d c i).wf true) (rest : Bytes) :
    decodeTokXls ctx b (encXls (Tok.refErr3d c i) ++ rest) = .ok (actOf (envOfXls ctx) true (Tok.refErr3d c i), rest) := by
  obtain ⟨hc, hi⟩ := hwf
  rcases cls_cases c hc with rfl | rfl | rfl <;>
  simp [decodeTokXls, encXls, opc, decodeXls, actOf, envOfXls, zeros, List.replicate, need_16, need_succ, need_unfold, need_zero,
    u16_le16, drop_16, hi]

theorem dx_areaErr3d (ctx : Ctx) (b : Bool) (c : Nat) (i : Nat) (hwf : (Tok.areaErr3d c i).wf true) (rest : Bytes) :
    decodeTokXls ctx b (encXls (Tok.areaErr3d c i) ++ rest) = .ok (actOf (envOfXls ctx) true (Tok.areaErr3d c i), rest) := by
  obtain ⟨hc, hi⟩ := hwf
  rcases cls_cases c hc with rfl | rfl | rfl <;>
  simp [decodeTokXls, encXls, opc, decodeXls, actOf, envOfXls, zeros, List.replicate, need_16, need_succ, need_unfold, need_zero,
    u16_le16, drop_16, hi]

theorem dx_name (ctx : Ctx) (b : Bool) (c : Nat) (i : Nat) (hwf : (Tok.name c i).wf true) (rest : Bytes) :
    decodeTokXls ctx b (encXls (Tok.name c i) ++ rest) = .ok (actOf (envOfXls ctx) true (Tok.name c i), rest) := by
  obtain ⟨hc, hi⟩ := hwf
  rcases cls_cases c hc with rfl | rfl | rfl <;>
  simp [decodeTokXls, encXls, opc, decodeXls, actOf, envOfXls, need_32, need_unfold, need_zero, u32_le32, drop_32, hi]

theorem dx_int (ctx : Ctx) (b : Bool) (n : Nat) (hwf : (Tok.int n).wf true) (rest : Bytes) :
    decodeTokXls ctx b (encXls (Tok.int n) ++ rest) = .ok (actOf (envOfXls ctx) true (Tok.int n), rest) := by
  simp [Tok.wf] at hwf
  simp [decodeTokXls, encXls, decodeXls, actOf, need_16, need_unfold, need_zero, u16_le16, drop_16, hwf]

theorem dx_num (ctx : Ctx) (b : Bool) (bits : Nat) (hwf : (Tok.num bits).wf true) (rest : Bytes) :
    decodeTokXls ctx b (encXls (Tok.num bits) ++ rest) = .ok (actOf (envOfXls ctx) true (Tok.num bits), rest) := by
  simp [Tok.wf] at hwf
  simp [decodeTokXls, encXls, decodeXls, actOf, envOfXls, need_64, need_unfold, need_zero, u64_le64, drop_64, hwf]

theorem dx_bool (ctx : Ctx) (b : Bool) (v : Bool) (hwf : (Tok.bool v).wf true) (rest : Bytes) :
    decodeTokXls ctx b (encXls (Tok.bool v) ++ rest) = .ok (actOf (envOfXls ctx) true (Tok.bool v), rest) := by
  cases v <;> simp [decodeTokXls, encXls, decodeXls, actOf, need_succ, need_unfold, need_zero, byteAt_zero]

theorem dx_err (ctx : Ctx) (b : Bool) (code : Nat) (hwf : (Tok.err code).wf true) (rest : Bytes) :
    decodeTokXls ctx b (encXls (Tok.err code) ++ rest) = .ok (actOf (envOfXls ctx) true (Tok.err code), rest) := by
  have h8 : code < 256 := by
    simp [Tok.wf] at hwf
    rcases hwf with rfl | rfl | rfl | rfl | rfl | rfl | rfl | rfl <;> decide
  simp [decodeTokXls, encXls, decodeXls, actOf, need_succ, need_unfold, need_zero, byteAt_zero, toNat_ofNat8 _ h8,
    errText_errName code hwf]

theorem dx_missArg (ctx : Ctx) (b : Bool)  (_hwf : (Tok.missArg ).wf true) (rest : Bytes) :
    decodeTokXls ctx b (encXls (Tok.missArg ) ++ rest) = .ok (actOf (envOfXls ctx) true (Tok.missArg ), rest) := by
  simp [decodeTokXls, encXls, decodeXls, actOf]

theorem dx_binop (ctx : Ctx) (b : Bool) (op : Nat) (hwf : (Tok.binop op).wf true) (rest : Bytes) :
    decodeTokXls ctx b (encXls (Tok.binop op) ++ rest) = .ok (actOf (envOfXls ctx) true (Tok.binop op), rest) := by
  obtain ⟨h1, h2⟩ := hwf
  have : op = 3 ∨ op = 4 ∨ op = 5 ∨ op = 6 ∨ op = 7 ∨ op = 8 ∨ op = 9 ∨ op = 10 ∨ op = 11 ∨ op = 12 ∨
      op = 13 ∨ op = 14 ∨ op = 15 ∨ op = 16 ∨ op = 17 := by omega
  rcases this with rfl | rfl | rfl | rfl | rfl | rfl | rfl | rfl | rfl | rfl | rfl | rfl | rfl | rfl | rfl <;>
  simp [decodeTokXls, encXls, decodeXls, actOf, opText, opName]

theorem dx_uplus (ctx : Ctx) (b : Bool)  (_hwf : (Tok.uplus ).wf true) (rest : Bytes) :
    decodeTokXls ctx b (encXls (Tok.uplus ) ++ rest) = .ok (actOf (envOfXls ctx) true (Tok.uplus ), rest) := by
  simp [decodeTokXls, encXls, decodeXls, actOf]

theorem dx_uminus (ctx : Ctx) (b : Bool)  (_hwf : (Tok.uminus ).wf true) (rest : Bytes) :
    decodeTokXls ctx b (encXls (Tok.uminus ) ++ rest) = .ok (actOf (envOfXls ctx) true (Tok.uminus ), rest) := by
  simp [decodeTokXls, encXls, decodeXls, actOf]

theorem dx_percent (ctx : Ctx) (b : Bool)  (_hwf : (Tok.percent ).wf true) (rest : Bytes) :
    decodeTokXls ctx b (encXls (Tok.percent ) ++ rest) = .ok (actOf (envOfXls ctx) true (Tok.percent ), rest) := by
  simp [decodeTokXls, encXls, decodeXls, actOf]

theorem dx_paren (ctx : Ctx) (b : Bool)  (_hwf : (Tok.paren ).wf true) (rest : Bytes) :
    decodeTokXls ctx b (encXls (Tok.paren ) ++ rest) = .ok (actOf (envOfXls ctx) true (Tok.paren ), rest) := by
  simp [decodeTokXls, encXls, decodeXls, actOf]

theorem dx_attrSum (ctx : Ctx) (b : Bool)  (_hwf : (Tok.attrSum ).wf true) (rest : Bytes) :
    decodeTokXls ctx b (encXls (Tok.attrSum ) ++ rest) = .ok (actOf (envOfXls ctx) true (Tok.attrSum ), rest) := by
  simp [decodeTokXls, encXls, decodeXls, actOf, need_succ, need_unfold, need_zero, byteAt_zero]

theorem dx_attrSkip (ctx : Ctx) (b : Bool) (e : Nat) (w : Nat) (hwf : (Tok.attrSkip e w).wf true) (rest : Bytes) :
    decodeTokXls ctx b (encXls (Tok.attrSkip e w) ++ rest) = .ok (actOf (envOfXls ctx) true (Tok.attrSkip e w), rest) := by
  obtain ⟨he, hw⟩ := hwf
  simp at he
  rcases he with rfl | rfl | rfl | rfl | rfl <;>
  simp [decodeTokXls, encXls, decodeXls, actOf, need_succ, need_16, need_unfold, need_zero, byteAt_zero, drop_16]

theorem dx_func (ctx : Ctx) (b : Bool) (c : Nat) (iftab : Nat) (hwf : (Tok.func c iftab).wf true) (rest : Bytes) :
    decodeTokXls ctx b (encXls (Tok.func c iftab) ++ rest) = .ok (actOf (envOfXls ctx) true (Tok.func c iftab), rest) := by
  obtain ⟨hc, hi⟩ := hwf
  obtain ⟨n, hn⟩ := ftabArgc_some iftab hi
  have hi16 : iftab < 65536 := by
    have : Gen.ftabLen = 485 := by decide +kernel
    omega
  have hnl : ¬ iftab ≥ Gen.ftabLen := by omega
  rcases cls_cases c hc with rfl | rfl | rfl <;>
  · simp only [decodeTokXls, encXls, opc, List.cons_append]
    simp only [decodeXls, decodeFuncFixed, actOf, need_16, need_unfold, need_zero, u16_le16 _ _ hi16, drop_16, hnl, hn,
      Res.bind_ok, if_false, Option.getD_some, List.drop_zero]
    first | rfl | simp

theorem dx_funcVar (ctx : Ctx) (b : Bool) (c : Nat) (argc : Nat) (iftab : Nat) (hwf : (Tok.funcVar c argc iftab).wf true) (rest : Bytes) :
    decodeTokXls ctx b (encXls (Tok.funcVar c argc iftab) ++ rest) = .ok (actOf (envOfXls ctx) true (Tok.funcVar c argc iftab), rest) := by
  obtain ⟨hc, ha, hi⟩ := hwf
  have hi16 : iftab < 65536 := by
    have : Gen.ftabLen = 485 := by decide +kernel
    omega
  rcases cls_cases c hc with rfl | rfl | rfl <;>
  · simp only [decodeTokXls, encXls, opc, List.cons_append]
    simp only [decodeXls, decodeFuncVar, actOf, need_succ, need_16, need_unfold, need_zero, u16_succ, byteAt_zero,
      u16_le16 _ _ hi16, toNat_ofNat8 _ ha, Res.bind_ok, List.drop_succ_cons, drop_16, List.drop_zero]
    first | rfl | simp

theorem dx_str (ctx : Ctx) (b : Bool) (w : Bool) (s : List Char) (hwf : (Tok.str w s).wf true) (rest : Bytes) :
    decodeTokXls ctx b (encXls (Tok.str w s) ++ rest) = .ok (actOf (envOfXls ctx) true (Tok.str w s), rest) := by
  simp only [Tok.wf, if_true] at hwf
  obtain ⟨hlen, hlat⟩ := hwf
  cases w with
  | true =>
    simp only [decodeTokXls, encXls, if_true, List.cons_append]
    have h17 : (0x17 : UInt8).toNat = 0x17 := rfl
    rw [h17]
    simp only [decodeXls, byteAt_zero, byteAt_succ, toNat_ofNat8 _ hlen]
    have h1 : (1 : UInt8).toNat % 2 = 1 := rfl
    simp only [h1, if_true]
    rw [need_ok true _ 2 (by simp), ← unitsLe_length, need2_add, drop2_add, List.drop_left' rfl, units_two,
      units_unitsLe _ (utf16Units_lt s), decodeUtf16_utf16Units]
    simp [actOf]
  | false =>
    have hl : ∀ c ∈ s, c.toNat < 256 := hlat trivial rfl
    have hus := utf16Units_latin s hl
    have hlt : ∀ u ∈ utf16Units s, u < 256 := by
      rw [hus]; intro u hu
      obtain ⟨c, hc, rfl⟩ := List.mem_map.mp hu
      exact hl c hc
    simp only [decodeTokXls, encXls, Bool.false_eq_true, if_false, List.cons_append]
    have h17 : (0x17 : UInt8).toNat = 0x17 := rfl
    rw [h17]
    simp only [decodeXls, byteAt_zero, byteAt_succ, toNat_ofNat8 _ hlen]
    have h0 : ¬ (0 : UInt8).toNat % 2 = 1 := by decide
    simp only [h0, if_false]
    have hml : ((utf16Units s).map UInt8.ofNat).length = (utf16Units s).length := by simp
    rw [need_ok true _ 2 (by simp), ← hml, need2_add, drop2_add, List.drop_left' rfl, narrow_two, hml,
      narrow_map _ hlt, decodeUtf16_utf16Units]
    simp [actOf]

theorem dx_attrChoose (ctx : Ctx) (b : Bool) (offs : List Nat) (hwf : (Tok.attrChoose offs).wf true) (rest : Bytes) :
    decodeTokXls ctx b (encXls (Tok.attrChoose offs) ++ rest) = .ok (actOf (envOfXls ctx) true (Tok.attrChoose offs), rest) := by
  obtain ⟨h1, h2, _⟩ := hwf
  have hn : offs.length - 1 + 1 = offs.length := by omega
  have h16 : offs.length - 1 < 65536 := by omega
  simp only [decodeTokXls, encXls, List.cons_append, List.append_assoc]
  have h19 : (0x19 : UInt8).toNat = 0x19 := rfl
  have h04 : (0x04 : UInt8).toNat = 0x04 := rfl
  rw [h19]
  simp only [decodeXls, byteAt_zero, h04, List.drop_succ_cons, List.drop_zero]
  have hl16 : ∀ (m : Nat) (r : Bytes), (le16 m ++ r).length = 2 + r.length := by intro m r; simp [le16]; omega
  rw [need_ok true _ 1 (by simp), need_ok true _ 2 (by rw [hl16]; omega), u16_le16 _ _ h16, hn,
    need_ok true _ _ (by rw [hl16, List.length_append, unitsLe_length]; omega)]
  simp only [Res.bind_ok]
  rw [Nat.add_comm 2, show 2 * offs.length + 2 = (unitsLe offs).length + 2 from by rw [unitsLe_length], drop_16,
    List.drop_left' rfl]
  rfl

theorem decode_encode_xls (ctx : Ctx) (b : Bool) (t : Tok) (hwf : t.wf true) (rest : Bytes) :
    decodeTokXls ctx b (encXls t ++ rest) = .ok (actOf (envOfXls ctx) true t, rest) := by
  cases t with
  | ref c a => exact dx_ref ctx b c a hwf rest
  | area c a a2 => exact dx_area ctx b c a a2 hwf rest
  | ref3d c i a => exact dx_ref3d ctx b c i a hwf rest
  | area3d c i a a2 => exact dx_area3d ctx b c i a a2 hwf rest
  | refErr c => exact dx_refErr ctx b c hwf rest
  | areaErr c => exact dx_areaErr ctx b c hwf rest
  | refErr3d c i => exact dx_refErr3d ctx b c i hwf rest
  | areaErr3d c i => exact dx_areaErr3d ctx b c i hwf rest
  | name c i => exact dx_name ctx b c i hwf rest
  | int n => exact dx_int ctx b n hwf rest
  | num bits => exact dx_num ctx b bits hwf rest
  | str w s => exact dx_str ctx b w s hwf rest
  | bool v => exact dx_bool ctx b v hwf rest
  | err code => exact dx_err ctx b code hwf rest
  | missArg => exact dx_missArg ctx b hwf rest
  | binop op => exact dx_binop ctx b op hwf rest
  | uplus => exact dx_uplus ctx b hwf rest
  | uminus => exact dx_uminus ctx b hwf rest
  | percent => exact dx_percent ctx b hwf rest
  | paren => exact dx_paren ctx b hwf rest
  | attrSum => exact dx_attrSum ctx b hwf rest
  | attrSkip e w => exact dx_attrSkip ctx b e w hwf rest
  | attrChoose offs => exact dx_attrChoose ctx b offs hwf rest
  | func c iftab => exact dx_func ctx b c iftab hwf rest
  | funcVar c argc iftab => exact dx_funcVar ctx b c argc iftab hwf rest

theorem encXls_cons (t : Tok) : ∃ p body, encXls t = p :: body := by
  cases t <;> simp [encXls]
  case str w s => cases w <;> simp

theorem runXls_step (ctx : Ctx) (fuel : Nat) (p : UInt8) (r : Bytes) (st : St) (a : Act) (r' : Bytes)
    (h : decodeXls ctx st.stk.isEmpty p.toNat r = .ok (a, r')) :
    runXls ctx (fuel + 1) (p :: r) st =
      (match applyAct a st with
        | .ok st' => runXls ctx fuel r' st'
        | .err e => .err e
        | .panic e => .panic e
        | .outOfFuel => .outOfFuel) := by
  simp only [runXls, h]
  cases applyAct a st <;> rfl

theorem runXls_encode (ctx : Ctx) : ∀ (toks : List Tok), (∀ t ∈ toks, t.wf true) →
    ∀ (fuel : Nat) (rest : Bytes) (st : St),
    runXls ctx (toks.length + fuel) (encodeXls toks ++ rest) st =
      (match runActs (toks.map (actOf (envOfXls ctx) true)) st with
        | .ok st' => runXls ctx fuel rest st'
        | .err e => .err e
        | .panic e => .panic e
        | .outOfFuel => .outOfFuel)
  | [], _, fuel, rest, st => by simp [encodeXls, runActs]
  | t :: ts, hwf, fuel, rest, st => by
    obtain ⟨p, body, hp⟩ := encXls_cons t
    have hd := decode_encode_xls ctx st.stk.isEmpty t (hwf t (by simp)) (encodeXls ts ++ rest)
    rw [hp] at hd
    simp only [List.cons_append, decodeTokXls] at hd
    have hlen : (t :: ts).length + fuel = (ts.length + fuel) + 1 := by simp; omega
    have henc : encodeXls (t :: ts) ++ rest = p :: (body ++ (encodeXls ts ++ rest)) := by
      simp [encodeXls, hp]
    rw [hlen, henc, runXls_step ctx _ p _ st _ _ hd]
    simp only [List.map_cons, runActs]
    cases applyAct (actOf (envOfXls ctx) true t) st with
    | ok st' => simp only; exact runXls_encode ctx ts (fun t' ht' => hwf t' (by simp [ht'])) fuel rest st'
    | err e => rfl
    | panic e => rfl
    | outOfFuel => rfl

theorem encodeXls_length_ge (toks : List Tok) : toks.length ≤ (encodeXls toks).length := by
  induction toks with
  | nil => simp [encodeXls]
  | cons t ts ih =>
    obtain ⟨p, body, hp⟩ := encXls_cons t
    simp only [encodeXls, List.flatMap_cons, List.length_append, hp, List.length_cons] at *
    omega

theorem runXls_nil (ctx : Ctx) (fuel : Nat) (st : St) : runXls ctx fuel [] st = .ok st := by
  cases fuel <;> rfl

theorem parseFormulaXls_frame (ctx : Ctx) (e : Expr) (harity : e.arityOk) (hwf : ∀ t ∈ toRpn e, t.wf true)
    (hlen : (encodeXls (toRpn e)).length < 65536) :
    parseFormulaXls ctx (frameXls (encodeXls (toRpn e))) = .ok (renderA1 (envOfXls ctx) e) := by
  unfold parseFormulaXls frameXls
  generalize hb : encodeXls (toRpn e) = body at *
  have hge : (toRpn e).length ≤ body.length := by rw [← hb]; exact encodeXls_length_ge _
  have h2 : needLen "formula" (le16 body.length ++ body) 2 = .ok () := by
    simp [needLen, le16]
  have h3 : needLen "formula" (le16 body.length ++ body) (2 + body.length) = .ok () := by
    simp [needLen, le16]; omega
  have h4 : ((le16 body.length ++ body).drop 2).take body.length = body := by
    rw [show (2 : Nat) = 0 + 2 from rfl, drop_16]; simp
  simp only [h2, u16_le16 _ _ hlen, h3, h4, Res.bind_ok]
  have hrun := runXls_encode ctx (toRpn e) hwf (body.length - (toRpn e).length) [] ⟨[], []⟩
  rw [hb, List.append_nil, show (toRpn e).length + (body.length - (toRpn e).length) = body.length by omega] at hrun
  have hm := machine_correct (envOfXls ctx) true e harity [] [] []
  simp only [List.append_nil, runActs, List.nil_append, List.length_nil] at hm
  rw [hrun, hm]
  simp [runXls_nil]

end Formula
