import CalVerif.Spec.CfbLayout
/-! Helper lemmas for C13 (compound-file reader model `Model/Cfb.lean`, encoder `Spec/CfbLayout.lean`). -/
namespace Cfb

/-! ## little-endian round trips -/

theorem le32_val (v : Nat) (rest : Bytes) (h : v < 4294967296) :
    u32s (le32 v ++ rest) = v :: u32s rest := by
  simp only [le32, List.cons_append, List.nil_append, u32s]
  congr 1
  simp only [UInt8.toNat_ofNat']
  omega

theorem u32s_le32s (vs : List Nat) (h : ∀ v ∈ vs, v < 4294967296) : u32s (le32s vs) = vs := by
  induction vs with
  | nil => simp [le32s, u32s]
  | cons v vs ih =>
    simp only [le32s, List.flatMap_cons]
    rw [le32_val v _ (h v (by simp))]
    congr 1
    exact ih (fun w hw => h w (by simp [hw]))

theorem u32s_length : ∀ (b : Bytes), (u32s b).length * 4 ≤ b.length := by
  intro b
  fun_induction u32s b with
  | case1 a b c d rest ih => simp only [List.length_cons]; omega
  | case2 t _ => simp

/-! ## `Sectors::get` is independent of the cache; chain following -/

/-- sector `id` of a sector area `body` (what `Sectors::get` returns, independent of the cache) -/
def sec (body : Bytes) (ss id : Nat) : Bytes := (body.drop (id * ss)).take ss

theorem slice_lemma (body : Bytes) (st size L : Nat) (h1 : min (st + size) body.length ≤ L) (h2 : L ≤ body.length) :
    ((body.take L).drop (min st L)).take (min (st + size) L - min st L) = (body.drop st).take size := by
  apply List.ext_getElem?
  intro i
  rw [List.getElem?_take, List.getElem?_take, List.getElem?_drop, List.getElem?_drop, List.getElem?_take]
  by_cases hi : i < size
  · by_cases hb : st + i < body.length
    · have e1 : min st L = st := by omega
      have c1 : i < min (st+size) L - min st L := by omega
      have c2 : min st L + i < L := by omega
      rw [if_pos c1, if_pos c2, if_pos hi, e1]
    · rw [if_pos hi]
      have : body[st + i]? = none := List.getElem?_eq_none (by omega)
      rw [this]
      split
      · split
        · omega
        · rfl
      · rfl
  · rw [if_neg hi, if_neg (by omega)]

theorem get_core (data body : Bytes) (st size L : Nat) (hp : data = body.take L) (h2 : L ≤ body.length)
    (h1 : min (st + size) body.length ≤ L) :
    (data.drop (min st data.length)).take (min (st + size) data.length - min st data.length) =
      (body.drop st).take size := by
  subst hp
  have : (List.take L body).length = L := by rw [List.length_take]; omega
  rw [this]
  exact slice_lemma body st size L h1 h2

theorem Sectors.get_size (s : Sectors) (id : Nat) (rd : Bytes) : (s.get id rd).2.1.size = s.size := rfl

theorem Sectors.get_lazy (s : Sectors) (id : Nat) (rd : Bytes) : (s.get id rd).2.1.lazy = s.lazy := rfl

/-- `Sectors::get` returns the sector of the underlying area whatever has been cached — for a lazily filled cache
    (the sectors of the file), or when the sector is already held (the mini stream, which never reads) -/
theorem Sectors.get_spec (s : Sectors) (id : Nat) (rd body : Bytes) (h : s.data ++ rd = body)
    (hl : s.lazy = true ∨ (id + 1) * s.size ≤ s.data.length) :
    (s.get id rd).1 = sec body s.size id ∧ (s.get id rd).2.1.data ++ (s.get id rd).2.2 = body ∧
    (s.get id rd).2.1.size = s.size := by
  subst h
  unfold Sectors.get sec
  rw [Nat.add_mul, Nat.one_mul] at hl
  generalize id * s.size = st at hl ⊢
  by_cases hc : st + s.size > s.data.length
  · have hlz : s.lazy = true := by rcases hl with h | h; exact h; omega
    simp only [hc, hlz, and_self, if_true]
    refine ⟨?_, by simp, trivial⟩
    apply get_core _ _ _ _ (s.data.length + min (st + s.size - s.data.length) rd.length)
    · rw [List.take_append]
      have e1 : List.take (s.data.length + min (st + s.size - s.data.length) rd.length) s.data = s.data :=
        List.take_of_length_le (by omega)
      rw [e1, Nat.add_sub_cancel_left, ← List.take_eq_take_min]
    · simp only [List.length_append]; omega
    · simp only [List.length_append]; omega
  · simp only [hc, and_false, if_false]
    refine ⟨?_, trivial, trivial⟩
    apply get_core _ _ _ _ s.data.length
    · simp
    · simp only [List.length_append]; omega
    · simp only [List.length_append]; omega

theorem Sectors.get_conserve (s : Sectors) (id : Nat) (rd : Bytes) :
    (s.get id rd).2.1.data.length + (s.get id rd).2.2.length = s.data.length + rd.length := by
  unfold Sectors.get
  dsimp only
  split
  · simp only [List.length_append, List.length_take, List.length_drop]; omega
  · rfl

theorem Sectors.get_data_mono (s : Sectors) (id : Nat) (rd : Bytes) :
    s.data.length ≤ (s.get id rd).2.1.data.length := by
  unfold Sectors.get
  dsimp only
  split
  · simp
  · exact Nat.le_refl _

/-- after reading sector `id` the cache covers it (when the file holds the whole sector) -/
theorem Sectors.get_covers (s : Sectors) (id : Nat) (rd body : Bytes) (h : s.data ++ rd = body)
    (hl : s.lazy = true ∨ (id + 1) * s.size ≤ s.data.length)
    (hfull : (id + 1) * s.size ≤ body.length) : (id + 1) * s.size ≤ (s.get id rd).2.1.data.length := by
  subst h
  unfold Sectors.get
  dsimp only
  rw [Nat.add_mul, Nat.one_mul] at hfull hl ⊢
  simp only [List.length_append] at hfull
  split
  · simp only [List.length_append, List.length_take]; omega
  · rename_i hc
    rcases hl with h | h
    · simp only [h, true_and] at hc; omega
    · omega

theorem sec_full_length (body : Bytes) (ss id : Nat) (h : (id + 1) * ss ≤ body.length) : (sec body ss id).length = ss := by
  unfold sec
  rw [Nat.add_mul, Nat.one_mul] at h
  simp only [List.length_take, List.length_drop]; omega

/-- pigeonhole: distinct sector numbers whose sectors all lie within the first `N` bytes -/
theorem covered_count (ss N : Nat) (hss : 0 < ss) (ids : List Nat) (hnd : ids.Nodup)
    (hcov : ∀ x ∈ ids, (x + 1) * ss ≤ N) : ids.length * ss ≤ N := by
  have hsub : ids ⊆ List.range (N / ss) := by
    intro x hx
    have := hcov x hx
    have : x + 1 ≤ N / ss := (Nat.le_div_iff_mul_le hss).mpr this
    simp only [List.mem_range]; omega
  have := List.Nodup.length_le_of_subset hnd hsub
  simp only [List.length_range] at this
  exact Nat.le_trans (Nat.mul_le_mul_right ss this) (Nat.div_mul_le_self N ss)

theorem chainLoop_end (fats : List Nat) (rem : Nat) (s : Sectors) (rd : Bytes) (acc : Nat) :
    Sectors.chainLoop fats rem ENDOFCHAIN s rd acc = .ok ([], s, rd) := by
  cases rem <;> simp [Sectors.chainLoop]

/-- along the chain loop: the sector size never changes, the bytes (cache + unread) are conserved, the
    cache only grows, and what is accumulated never exceeds the cache (`X_alloc`) -/
theorem chainLoop_params (fats : List Nat) :
    ∀ (rem id : Nat) (s : Sectors) (rd : Bytes) (acc : Nat) (x : Bytes) (s' : Sectors) (rd' : Bytes),
      Sectors.chainLoop fats rem id s rd acc = .ok (x, s', rd') →
      s'.size = s.size ∧ s'.data.length + rd'.length = s.data.length + rd.length ∧ s.data.length ≤ s'.data.length ∧
      (acc ≤ s.data.length → acc + x.length ≤ s'.data.length) := by
  intro rem
  induction rem with
  | zero =>
    intro id s rd acc x s' rd' h
    unfold Sectors.chainLoop at h
    split at h
    · injection h with h; injection h with h0 h; injection h with h1 h2; subst h0 h1 h2
      exact ⟨rfl, rfl, Nat.le_refl _, fun ha => by simpa using ha⟩
    · cases h
  | succ rem ih =>
    intro id s rd acc x s' rd' h
    unfold Sectors.chainLoop at h
    split at h
    · injection h with h; injection h with h0 h; injection h with h1 h2; subst h0 h1 h2
      exact ⟨rfl, rfl, Nat.le_refl _, fun ha => by simpa using ha⟩
    · split at h
      · cases h
      · dsimp only at h
        split at h
        · cases h
        · rename_i hchk
          split at h
          · rename_i rest s'' rd'' heq
            injection h with h; injection h with h0 h; injection h with h1 h2
            obtain ⟨p1, p2, p3, p4⟩ := ih _ _ _ _ _ _ _ heq
            subst h0 h1 h2
            refine ⟨p1.trans (Sectors.get_size s id rd), ?_, ?_, ?_⟩
            · rw [p2]; exact Sectors.get_conserve s id rd
            · exact Nat.le_trans (Sectors.get_data_mono s id rd) p3
            · intro _
              have := p4 (by omega)
              simp only [List.length_append]; omega
          · cases h
          · cases h
          · cases h

theorem chainLoop_lazy (fats : List Nat) :
    ∀ (rem id : Nat) (s : Sectors) (rd : Bytes) (acc : Nat) (x : Bytes) (s' : Sectors) (rd' : Bytes),
      Sectors.chainLoop fats rem id s rd acc = .ok (x, s', rd') → s'.lazy = s.lazy := by
  intro rem
  induction rem with
  | zero =>
    intro id s rd acc x s' rd' h
    unfold Sectors.chainLoop at h
    split at h
    · injection h with h; injection h with _ h; injection h with h1 _; subst h1; rfl
    · cases h
  | succ rem ih =>
    intro id s rd acc x s' rd' h
    unfold Sectors.chainLoop at h
    split at h
    · injection h with h; injection h with _ h; injection h with h1 _; subst h1; rfl
    · split at h
      · cases h
      · dsimp only at h
        split at h
        · cases h
        · split at h
          · rename_i rest s'' rd'' heq
            injection h with h; injection h with _ h; injection h with h1 _
            subst h1
            exact (ih _ _ _ _ _ _ _ heq).trans (Sectors.get_lazy s id rd)
          · cases h
          · cases h
          · cases h

/-- following a recorded chain of DISTINCT sectors that the file holds entirely; `V` are the sectors already
    accumulated (covered by the cache), so that the accumulation guard of the fixed loop is seen to pass -/
theorem chainLoop_follow_gen (fats : List Nat) (body : Bytes) :
    ∀ (ids V : List Nat) (rem : Nat) (s : Sectors) (rd : Bytes),
      s.data ++ rd = body → ids.length ≤ rem → 0 < s.size →
      (s.lazy = true ∨ ∀ x ∈ ids, (x + 1) * s.size ≤ s.data.length) →
      (∀ i (h : i < ids.length), ids[i] ≠ ENDOFCHAIN ∧ fats[ids[i]]? = some (ids[i+1]?.getD ENDOFCHAIN)) →
      (V ++ ids).Nodup → (∀ v ∈ V, (v + 1) * s.size ≤ s.data.length) → (∀ x ∈ ids, (x + 1) * s.size ≤ body.length) →
      ∃ s' rd', Sectors.chainLoop fats rem (ids[0]?.getD ENDOFCHAIN) s rd (V.length * s.size) =
          .ok ((ids.map (sec body s.size)).flatten, s', rd') ∧ s'.data ++ rd' = body ∧ s'.size = s.size := by
  intro ids
  induction ids with
  | nil =>
    intro V rem s rd hinv _ _ _ _ _ _ _
    exact ⟨s, rd, by simp [chainLoop_end], hinv, rfl⟩
  | cons a rest ih =>
    intro V rem s rd hinv hrem hss hlz hch hnd hV hfull
    have hla : s.lazy = true ∨ (a + 1) * s.size ≤ s.data.length := by
      rcases hlz with h | h
      · exact Or.inl h
      · exact Or.inr (h a (by simp))
    obtain ⟨rem', rfl⟩ : ∃ r, rem = r + 1 := ⟨rem - 1, by simp at hrem; omega⟩
    have h0 := hch 0 (by simp)
    simp only [List.getElem_cons_zero, Nat.zero_add, List.getElem?_cons_succ] at h0
    obtain ⟨hne, hfat⟩ := h0
    obtain ⟨hg1, hg2, hg3⟩ := Sectors.get_spec s a rd body hinv hla
    have hafull := hfull a (by simp)
    have hslice : (s.get a rd).1.length = s.size := by rw [hg1]; exact sec_full_length body s.size a hafull
    have hcovA := Sectors.get_covers s a rd body hinv hla hafull
    have hmono := Sectors.get_data_mono s a rd
    have hnd' : ((V ++ [a]) ++ rest).Nodup := by simpa [List.append_assoc] using hnd
    have hV' : ∀ v ∈ V ++ [a], (v + 1) * s.size ≤ (s.get a rd).2.1.data.length := by
      intro v hv
      simp only [List.mem_append, List.mem_cons, List.not_mem_nil, or_false] at hv
      rcases hv with hv | rfl
      · exact Nat.le_trans (hV v hv) hmono
      · exact hcovA
    have hcnt := covered_count s.size _ hss (V ++ [a]) (List.Nodup.sublist (List.sublist_append_left _ _) hnd') hV'
    simp only [List.length_append, List.length_cons, List.length_nil, Nat.zero_add] at hcnt
    have hrest := ih (V ++ [a]) rem' (s.get a rd).2.1 (s.get a rd).2.2 hg2 (by simp at hrem; omega) (by rw [hg3]; exact hss)
      (by
        rw [Sectors.get_lazy, hg3]
        rcases hlz with h | h
        · exact Or.inl h
        · exact Or.inr (fun x hx => Nat.le_trans (h x (by simp [hx])) hmono))
      (by
        intro i hi
        have := hch (i + 1) (by simp; omega)
        simpa using this) hnd' (by rw [hg3]; exact hV') (by rw [hg3]; exact fun x hx => hfull x (by simp [hx]))
    obtain ⟨s', rd', he, hi', hs'⟩ := hrest
    refine ⟨s', rd', ?_, hi', by rw [hs', hg3]⟩
    simp only [List.getElem?_cons_zero, Option.getD_some]
    unfold Sectors.chainLoop
    have hchk : ¬ (V.length * s.size + (s.get a rd).1.length > (s.get a rd).2.1.data.length) := by
      rw [hslice, Nat.add_mul, Nat.one_mul] at *; omega
    simp only [hne, if_false, hfat, hchk]
    have hacc : V.length * s.size + (s.get a rd).1.length = (V ++ [a]).length * (s.get a rd).2.1.size := by
      rw [hslice, hg3]; simp [Nat.add_mul]
    rw [hacc, he]
    simp only [List.map_cons, List.flatten_cons, hg1, hg3]

theorem chainLoop_follow (fats : List Nat) (body : Bytes) (ids : List Nat) (rem : Nat) (s : Sectors) (rd : Bytes)
    (hinv : s.data ++ rd = body) (hrem : ids.length ≤ rem) (hss : 0 < s.size)
    (hlz : s.lazy = true ∨ ∀ x ∈ ids, (x + 1) * s.size ≤ s.data.length)
    (hch : ∀ i (h : i < ids.length), ids[i] ≠ ENDOFCHAIN ∧ fats[ids[i]]? = some (ids[i+1]?.getD ENDOFCHAIN))
    (hnd : ids.Nodup) (hfull : ∀ x ∈ ids, (x + 1) * s.size ≤ body.length) :
    ∃ s' rd', Sectors.chainLoop fats rem (ids[0]?.getD ENDOFCHAIN) s rd 0 =
        .ok ((ids.map (sec body s.size)).flatten, s', rd') ∧ s'.data ++ rd' = body ∧ s'.size = s.size := by
  have := chainLoop_follow_gen fats body ids [] rem s rd hinv hrem hss hlz hch (by simpa using hnd) (by simp) hfull
  simpa using this

/-! ## sector-sized pieces -/

theorem padChunks_all_len (ss : Nat) (fill : UInt8) : ∀ (f : Nat) (d : Bytes), ∀ x ∈ padChunks ss fill f d, x.length = ss := by
  intro f
  induction f with
  | zero => intro d x hx; simp [padChunks] at hx
  | succ f ih =>
    intro d x hx
    unfold padChunks at hx
    split at hx
    · simp at hx
    · simp only [List.mem_cons] at hx
      rcases hx with rfl | hx
      · simp only [List.length_append, List.length_take, List.length_replicate]; omega
      · exact ih _ x hx

theorem padChunks_flatten_take (ss : Nat) (fill : UInt8) (hss : 0 < ss) :
    ∀ (f : Nat) (d : Bytes), d.length ≤ f → ((padChunks ss fill f d).flatten).take d.length = d := by
  intro f
  induction f with
  | zero => intro d hd; have : d = [] := List.eq_nil_of_length_eq_zero (by omega); subst this; simp [padChunks]
  | succ f ih =>
    intro d hd
    unfold padChunks
    split
    · rename_i h; subst h; simp
    · rename_i hne
      simp only [List.flatten_cons]
      by_cases hle : d.length ≤ ss
      · rw [List.take_of_length_le hle, List.append_assoc, List.take_append_of_le_length (by omega)]
        simp
      · have h1 : (List.take ss d).length = ss := by rw [List.length_take]; omega
        rw [h1, Nat.sub_self, List.replicate_zero, List.append_nil, List.take_append]
        rw [h1, List.take_of_length_le (by omega)]
        have := ih (d.drop ss) (by simp; omega)
        rw [List.length_drop] at this
        rw [this, List.take_append_drop]

theorem nsect_zero (ss : Nat) (hss : 0 < ss) : nsect ss 0 = 0 := by
  unfold nsect; apply Nat.div_eq_of_lt; omega

theorem padChunks_length (ss : Nat) (fill : UInt8) (hss : 0 < ss) :
    ∀ (f : Nat) (d : Bytes), d.length ≤ f → (padChunks ss fill f d).length = nsect ss d.length := by
  intro f
  induction f with
  | zero => intro d hd; have : d = [] := List.eq_nil_of_length_eq_zero (by omega); subst this; simp [padChunks, nsect_zero ss hss]
  | succ f ih =>
    intro d hd
    unfold padChunks
    split
    · rename_i h; subst h; simp [nsect_zero ss hss]
    · rename_i hne
      have hpos : 0 < d.length := List.length_pos_iff.mpr hne
      simp only [List.length_cons]
      rw [ih (d.drop ss) (by simp; omega), List.length_drop]
      unfold nsect
      by_cases hle : d.length ≤ ss
      · have : d.length - ss = 0 := by omega
        rw [this]
        have e1 : (0 + ss - 1) / ss = 0 := by apply Nat.div_eq_of_lt; omega
        have e2 : (d.length + ss - 1) / ss = 1 := by
          apply Nat.div_eq_of_lt_le <;> omega
        omega
      · have : d.length + ss - 1 = (d.length - ss + ss - 1) + ss := by omega
        rw [this, Nat.add_div_right _ hss]

theorem sec_flatten (ss : Nat) : ∀ (L : List Bytes) (k : Nat) (hk : k < L.length),
    (∀ x ∈ L, x.length = ss) → sec L.flatten ss k = L[k] := by
  intro L
  induction L with
  | nil => intro k hk; simp at hk
  | cons x xs ih =>
    intro k hk hall
    have hx : x.length = ss := hall x (by simp)
    cases k with
    | zero =>
      simp only [sec, Nat.zero_mul, List.drop_zero, List.flatten_cons, List.getElem_cons_zero]
      rw [List.take_append_of_le_length (by omega), List.take_of_length_le (by omega)]
    | succ k =>
      simp only [List.getElem_cons_succ]
      rw [← ih k (by simpa using hk) (fun y hy => hall y (by simp [hy]))]
      simp only [sec, List.flatten_cons]
      have : (k + 1) * ss = x.length + k * ss := by rw [hx, Nat.add_mul]; omega
      rw [this, List.drop_append, List.drop_of_length_le (by omega), Nat.add_sub_cancel_left, List.nil_append]

/-! ## allocation tables of a space -/


/-- the allocation table of a space, `len` entries -/
def Space.fats (sp : Space) (len : Nat) : List Nat := (List.range len).map sp.entry

/-- sector numbers of chain `c` -/
def Space.ids (sp : Space) (c : Nat) : List Nat :=
  match sp.chains[c]? with
  | some ch => ch.toList
  | none => []

theorem chainOK_spec (sp : Space) (c n : Nat) (h : chainOK sp c n = true) :
    ∃ ch, sp.chains[c]? = some ch ∧ ch.size = n ∧
      ∀ i, i < n → ∃ k, ch[i]? = some k ∧ sp.owner[k]? = some (Slot.data c i) := by
  unfold chainOK at h
  split at h
  · simp at h
  · rename_i ch hch
    simp only [Bool.and_eq_true, beq_iff_eq, List.all_eq_true, List.mem_range] at h
    refine ⟨ch, hch, h.1, ?_⟩
    intro i hi
    have := h.2 i hi
    split at this
    · rename_i k hk; exact ⟨k, hk, by simpa using this⟩
    · simp at this

theorem Space.ids_spec (sp : Space) (c n : Nat) (h : chainOK sp c n = true) :
    (sp.ids c).length = n ∧ ∀ i (hi : i < (sp.ids c).length), sp.owner[(sp.ids c)[i]]? = some (Slot.data c i) := by
  obtain ⟨ch, hch, hn, hall⟩ := chainOK_spec sp c n h
  unfold Space.ids
  simp only [hch]
  refine ⟨by simpa using hn, ?_⟩
  intro i hi
  obtain ⟨k, hk, ho⟩ := hall i (by simpa [hn] using hi)
  have : ch.toList[i] = k := by
    have h2 : ch.toList[i]? = some k := by simpa using hk
    rw [List.getElem?_eq_getElem hi] at h2
    exact Option.some.inj h2
  rw [this]; exact ho

theorem Space.ids_lt (sp : Space) (c n : Nat) (h : chainOK sp c n = true) :
    ∀ x ∈ sp.ids c, x < sp.owner.size := by
  intro x hx
  obtain ⟨i, hi, rfl⟩ := List.getElem_of_mem hx
  have := (Space.ids_spec sp c n h).2 i hi
  by_cases hlt : (sp.ids c)[i] < sp.owner.size
  · exact hlt
  · rw [Array.getElem?_eq_none (by omega)] at this; cases this

theorem Space.ids_nodup (sp : Space) (c n : Nat) (h : chainOK sp c n = true) : (sp.ids c).Nodup := by
  rw [List.Nodup, List.pairwise_iff_getElem]
  intro i j hi hj hij heq
  have h1 := (Space.ids_spec sp c n h).2 i hi
  have h2 := (Space.ids_spec sp c n h).2 j hj
  rw [heq, h2] at h1
  injection h1 with h1
  injection h1 with _ h1
  omega

theorem Space.ids_length_le (sp : Space) (c n : Nat) (h : chainOK sp c n = true) :
    (sp.ids c).length ≤ sp.owner.size := by
  have := List.Nodup.length_le_of_subset (Space.ids_nodup sp c n h) (l₂ := List.range sp.owner.size)
    (fun x hx => by simpa using Space.ids_lt sp c n h x hx)
  simpa using this

theorem Space.fats_get (sp : Space) (len k : Nat) (hk : k < len) : (sp.fats len)[k]? = some (sp.entry k) := by
  simp [Space.fats, List.getElem?_map, List.getElem?_range hk]

/-- the allocation table of a space records each of its chains -/
theorem Space.fats_chain (sp : Space) (c n len : Nat) (h : chainOK sp c n = true)
    (hlen : sp.owner.size ≤ len) (hres : sp.owner.size ≤ RESERVED) :
    ∀ i (hi : i < (sp.ids c).length), (sp.ids c)[i] ≠ ENDOFCHAIN ∧
      (sp.fats len)[(sp.ids c)[i]]? = some ((sp.ids c)[i + 1]?.getD ENDOFCHAIN) := by
  intro i hi
  have hlt := Space.ids_lt sp c n h _ (List.getElem_mem hi)
  have hown := (Space.ids_spec sp c n h).2 i hi
  refine ⟨by simp only [RESERVED, ENDOFCHAIN] at *; omega, ?_⟩
  rw [Space.fats_get sp len _ (by omega)]
  congr 1
  unfold Space.entry
  rw [hown]
  simp only [fatEntry]
  unfold Space.ids
  split
  · rename_i ch hch; simp [hch]
  · rename_i hch; simp [hch]


/-! ## sector contents of a space -/

/-- every sector written by the encoder has exactly `ss` bytes -/
def UniformP (ss : Nat) (P : Array (Array Bytes)) : Prop :=
  ∀ (c : Nat) (p : Array Bytes), P[c]? = some p → ∀ (i : Nat) (x : Bytes), p[i]? = some x → x.length = ss

theorem sectorOf_length (ss : Nat) (fill : UInt8) (P : Array (Array Bytes)) (fatSec difSec : Nat → Bytes)
    (hP : UniformP ss P) (hf : ∀ j, (fatSec j).length = ss) (hd : ∀ j, (difSec j).length = ss) (s : Slot) :
    (sectorOf ss fill P fatSec difSec s).length = ss := by
  cases s with
  | free => simp [sectorOf]
  | fat j => exact hf j
  | difat j => exact hd j
  | data c i =>
    simp only [sectorOf]
    split
    · rename_i p hp
      cases hx : p[i]? with
      | none => simp
      | some x => simpa using hP c p hp i x hx
    · simp

theorem Space.body_sec (sp : Space) (ss : Nat) (fill : UInt8) (P : Array (Array Bytes)) (fatSec difSec : Nat → Bytes)
    (hP : UniformP ss P) (hf : ∀ j, (fatSec j).length = ss) (hd : ∀ j, (difSec j).length = ss)
    (k : Nat) (s : Slot) (hk : sp.owner[k]? = some s) :
    sec (sp.body ss fill P fatSec difSec) ss k = sectorOf ss fill P fatSec difSec s := by
  unfold Space.body
  have hlt : k < sp.owner.size := by
    by_cases h : k < sp.owner.size
    · exact h
    · rw [Array.getElem?_eq_none (by omega)] at hk; cases hk
  rw [sec_flatten ss _ k (by simpa using hlt)]
  · simp only [List.getElem_map]
    congr 1
    have : sp.owner.toList[k]? = some s := by simpa using hk
    rw [List.getElem?_eq_getElem (by simpa using hlt)] at this
    exact Option.some.inj this
  · intro x hx
    simp only [List.mem_map] at hx
    obtain ⟨s', _, rfl⟩ := hx
    exact sectorOf_length ss fill P fatSec difSec hP hf hd s'

theorem pieces_uniform (ss : Nat) (fill : UInt8) (d : Bytes) (i : Nat) (x : Bytes)
    (h : (pieces ss fill d)[i]? = some x) : x.length = ss := by
  unfold pieces at h
  have : x ∈ padChunks ss fill d.length d := by
    have h2 : (padChunks ss fill d.length d)[i]? = some x := by simpa using h
    exact List.mem_of_getElem? h2
  exact padChunks_all_len ss fill _ _ x this

/-- reading the sectors of chain `c` in chain order yields the chain's data cut into padded pieces -/
theorem Space.read_chain (sp : Space) (ss : Nat) (hss : 0 < ss) (fill : UInt8) (P : Array (Array Bytes))
    (fatSec difSec : Nat → Bytes)
    (hP : UniformP ss P) (hf : ∀ j, (fatSec j).length = ss) (hd : ∀ j, (difSec j).length = ss)
    (c : Nat) (D : Bytes) (hPc : P[c]? = some (pieces ss fill D))
    (hok : chainOK sp c (nsect ss D.length) = true) :
    (sp.ids c).map (sec (sp.body ss fill P fatSec difSec) ss) = padChunks ss fill D.length D := by
  obtain ⟨hlen, hown⟩ := Space.ids_spec sp c _ hok
  have hpl := padChunks_length ss fill hss D.length D (Nat.le_refl _)
  apply List.ext_getElem
  · simp [hlen, hpl]
  · intro i h1 h2
    simp only [List.getElem_map]
    have hi : i < (sp.ids c).length := by simpa using h1
    rw [Space.body_sec sp ss fill P fatSec difSec hP hf hd _ _ (hown i hi)]
    simp only [sectorOf, hPc, pieces]
    simp [List.getElem?_eq_getElem h2]


/-! ## reading a chain of a space -/

theorem flatten_uniform_length (ss : Nat) : ∀ (Ls : List Bytes), (∀ x ∈ Ls, x.length = ss) →
    Ls.flatten.length = ss * Ls.length := by
  intro Ls
  induction Ls with
  | nil => simp
  | cons x xs ih =>
    intro h
    simp only [List.flatten_cons, List.length_append, List.length_cons]
    rw [ih (fun y hy => h y (by simp [hy])), h x (by simp), Nat.mul_add]; omega

theorem Space.body_length (sp : Space) (ss : Nat) (fill : UInt8) (P : Array (Array Bytes)) (fatSec difSec : Nat → Bytes)
    (hP : UniformP ss P) (hf : ∀ j, (fatSec j).length = ss) (hd : ∀ j, (difSec j).length = ss) :
    (sp.body ss fill P fatSec difSec).length = ss * sp.owner.size := by
  unfold Space.body
  rw [flatten_uniform_length ss]
  · simp
  · intro x hx
    simp only [List.mem_map] at hx
    obtain ⟨s', _, rfl⟩ := hx
    exact sectorOf_length ss fill P fatSec difSec hP hf hd s'

theorem sec_append_left (B extra : Bytes) (ss id : Nat) (h : (id + 1) * ss ≤ B.length) :
    sec (B ++ extra) ss id = sec B ss id := by
  unfold sec
  rw [List.drop_append_of_le_length (by rw [Nat.add_mul] at h; omega)]
  rw [List.take_append_of_le_length (by rw [List.length_drop, Nat.add_mul] at *; omega)]

theorem chainStart_eq (sp : Space) (c : Nat) : chainStart sp c = (sp.ids c)[0]?.getD ENDOFCHAIN := by
  unfold chainStart Space.ids
  cases h : sp.chains[c]? with
  | none => rfl
  | some ch => simp

theorem Space.fats_length (sp : Space) (len : Nat) : (sp.fats len).length = len := by simp [Space.fats]

/-! ## little-endian reads at an offset -/



theorem le32_length (v : Nat) : (le32 v).length = 4 := rfl

theorem le32s_length (vs : List Nat) : (le32s vs).length = 4 * vs.length := by
  induction vs with
  | nil => rfl
  | cons v vs ih => simp only [le32s, List.flatMap_cons, List.length_append, List.length_cons] at *; rw [ih]; simp [le32]; omega

theorem byteAt_append_left (a b : Bytes) (i : Nat) (h : i < a.length) : byteAt (a ++ b) i = byteAt a i := by
  simp [byteAt, List.getD_eq_getElem?_getD, List.getElem?_append_left h]

theorem byteAt_append_right (a b : Bytes) (i : Nat) : byteAt (a ++ b) (a.length + i) = byteAt b i := by
  simp [byteAt, List.getD_eq_getElem?_getD, List.getElem?_append_right]

theorem u16At_append_left (a b : Bytes) (o : Nat) (h : o + 1 < a.length) : u16At (a ++ b) o = u16At a o := by
  simp only [u16At]
  rw [byteAt_append_left a b o (by omega), byteAt_append_left a b (o + 1) h]

theorem u32At_append_right (a b : Bytes) (o : Nat) : u32At (a ++ b) (a.length + o) = u32At b o := by
  simp only [u32At, Nat.add_assoc]
  rw [byteAt_append_right, byteAt_append_right, byteAt_append_right, byteAt_append_right]

theorem u32At_le32_zero (v : Nat) (rest : Bytes) (h : v < 4294967296) : u32At (le32 v ++ rest) 0 = v := by
  simp only [u32At, byteAt, le32, List.cons_append, List.nil_append, List.getD_cons_zero, List.getD_cons_succ,
    UInt8.toNat_ofNat']
  omega

/-- reading the `k`-th little-endian u32 of an encoded table -/
theorem u32At_le32s (vs : List Nat) (rest : Bytes) (k : Nat) (hk : k < vs.length)
    (hv : ∀ v ∈ vs, v < 4294967296) : u32At (le32s vs ++ rest) (4 * k) = vs[k] := by
  induction vs generalizing k with
  | nil => simp at hk
  | cons v vs ih =>
    cases k with
    | zero =>
      simp only [le32s, List.flatMap_cons, List.append_assoc, Nat.mul_zero, List.getElem_cons_zero]
      exact u32At_le32_zero v _ (hv v (by simp))
    | succ k =>
      simp only [le32s, List.flatMap_cons, List.append_assoc, List.getElem_cons_succ]
      have : 4 * (k + 1) = (le32 v).length + 4 * k := by rw [le32_length]; omega
      rw [this, u32At_append_right]
      exact ih k (by simpa using hk) (fun w hw => hv w (by simp [hw]))

/-! ## header -/

def hdrFields (streams : List Stream) (L : Layout) : List Nat :=
  [ (if L.v4 then nsect L.ss (dirBytes streams L).length else 0),
    L.nfat,
    chainStart L.main 0,
    0,
    4096,
    chainStart L.main 1,
    chainLen L.main 1,
    L.difIds[0]?.getD ENDOFCHAIN,
    L.ndif ]

def hdrDifat (L : Layout) : List Nat := (List.range 109).map (fatIdAt L)

def pre40 (v4 : Bool) : Bytes :=
  signature ++ List.replicate 16 (0 : UInt8) ++
    le16 0x3E ++ le16 (if v4 then 4 else 3) ++ le16 0xFFFE ++ le16 (if v4 then 12 else 9) ++ le16 6 ++
    List.replicate 6 (0 : UInt8)

/-- the header the reader must recover -/
def hdrOf (streams : List Stream) (L : Layout) : Header :=
  { sectorSize := L.ss
    dirLen := if L.v4 then nsect L.ss (dirBytes streams L).length else 0
    dirStart := chainStart L.main 0
    fatLen := L.nfat
    miniFatLen := chainLen L.main 1
    miniFatStart := chainStart L.main 1
    difatStart := L.difIds[0]?.getD ENDOFCHAIN }

theorem header512_eq (streams : List Stream) (L : Layout) :
    header512 streams L = pre40 L.v4 ++ (le32s (hdrFields streams L) ++ le32s (hdrDifat L)) := by
  simp only [header512, pre40, hdrFields, hdrDifat, List.append_assoc]

theorem pre40_length (v4 : Bool) : (pre40 v4).length = 40 := by cases v4 <;> rfl

theorem header512_length (streams : List Stream) (L : Layout) : (header512 streams L).length = 512 := by
  rw [header512_eq]
  simp [pre40_length, le32s_length, hdrFields, hdrDifat]

theorem hdr_u32 (streams : List Stream) (L : Layout) (k : Nat) (hk : k < 9)
    (hb : ∀ v ∈ hdrFields streams L, v < 4294967296) :
    u32At (header512 streams L) (40 + 4 * k) = (hdrFields streams L)[k]'(by simpa [hdrFields] using hk) := by
  rw [header512_eq]
  have := u32At_append_right (pre40 L.v4) (le32s (hdrFields streams L) ++ le32s (hdrDifat L)) (4 * k)
  rw [pre40_length] at this
  rw [this]
  exact u32At_le32s _ _ k _ hb

theorem fromReader_layout (streams : List Stream) (L : Layout)
    (hb : ∀ v ∈ hdrFields streams L, v < 4294967296) (hd : ∀ v ∈ hdrDifat L, v < 4294967296) :
    Header.fromReader (layoutCfb streams L) = .ok (hdrOf streams L, hdrDifat L, mainBody streams L) := by
  have hlen := header512_length streams L
  have htake : (layoutCfb streams L).take 512 = header512 streams L := by
    unfold layoutCfb
    rw [List.append_assoc, List.take_left' hlen]
  have hdrop : (layoutCfb streams L).drop 512 = List.replicate (L.ss - 512) (0 : UInt8) ++ mainBody streams L := by
    unfold layoutCfb
    rw [List.append_assoc, List.drop_left' hlen]
  have hsig : (header512 streams L).take 8 = signature := by
    unfold header512
    simp only [List.append_assoc]
    exact List.take_left' rfl
  have h30 : u16At (header512 streams L) 30 = if L.v4 then 12 else 9 := by
    rw [header512_eq, u16At_append_left _ _ 30 (by rw [pre40_length]; omega)]
    cases L.v4 <;> rfl
  have h32 : u16At (header512 streams L) 32 = 6 := by
    rw [header512_eq, u16At_append_left _ _ 32 (by rw [pre40_length]; omega)]
    cases L.v4 <;> rfl
  have hdif : u32s ((header512 streams L).drop 76) = hdrDifat L := by
    rw [header512_eq, ← List.append_assoc, List.drop_left' (by simp [pre40_length, le32s_length, hdrFields])]
    exact u32s_le32s _ hd
  have f0 := hdr_u32 streams L 0 (by omega) hb
  have f1 := hdr_u32 streams L 1 (by omega) hb
  have f2 := hdr_u32 streams L 2 (by omega) hb
  have f5 := hdr_u32 streams L 5 (by omega) hb
  have f6 := hdr_u32 streams L 6 (by omega) hb
  have f7 := hdr_u32 streams L 7 (by omega) hb
  simp only [hdrFields, List.getElem_cons_zero, List.getElem_cons_succ, Nat.reduceMul, Nat.reduceAdd] at f0 f1 f2 f5 f6 f7
  unfold Header.fromReader
  have hl : ¬ (layoutCfb streams L).length < 512 := by
    unfold layoutCfb; simp only [List.length_append, hlen]; omega
  simp only [hl, if_false, htake, hdrop, hsig, ne_eq, not_true_eq_false, h30, h32]
  simp only [f0, f1, f2, f5, f6, f7]
  rw [hdif]
  cases hv : L.v4
  · simp only [Layout.ss, hv, hdrOf, Bool.false_eq_true, ↓reduceIte, Nat.sub_self, List.replicate_zero, List.nil_append]
    simp
  · simp only [Layout.ss, hv, hdrOf, ↓reduceIte, Nat.reduceSub]
    have hr : (List.replicate 3584 (0 : UInt8)).length = 3584 := by rw [List.length_replicate]
    generalize List.replicate 3584 (0 : UInt8) = pad at hr ⊢
    have : List.drop 3584 (pad ++ mainBody streams L) = mainBody streams L := List.drop_left' hr
    simp only [this, List.length_append, hr]
    simp



/-! ## what `Valid` says -/



structure ValidP (streams : List Stream) (L : Layout) : Prop where
  total_le : L.total ≤ RESERVED
  total_fat : L.total ≤ L.nfat * L.perFat
  mini_small : 64 * L.mtotal < 4294967296
  nfat_le : L.nfat ≤ 109 + L.ndif * (L.perFat - 1)
  fatIds : idsOK L.main.owner L.fatIds Slot.fat = true
  difIds : idsOK L.main.owner L.difIds Slot.difat = true
  nchains : L.main.chains.size = 3 + streams.length
  chains : ∀ c, c < 3 + streams.length →
    chainOK L.main c (nsect L.ss ((mainData streams L).getD c []).length) = true
  nmini : L.mini.chains.size = streams.length
  minis : ∀ s, s < streams.length → chainOK L.mini s
    (match streams[s]? with | some st => if isMini st then nsect 64 st.data.length else 0 | none => 0) = true
  dirAll : ∀ s, s < streams.length → some s ∈ L.dirOrder
  dirRange : ∀ o ∈ L.dirOrder, ∀ s, o = some s → s < streams.length
  names : ∀ st ∈ streams, nameOK st.name = true ∧ (L.v4 = true ∨ st.data.length < 4294967296)
  nodup : (streams.map (·.name)).Nodup

theorem valid_unpack (streams : List Stream) (L : Layout) (h : Valid streams L) : ValidP streams L := by
  unfold Valid validB at h
  simp only [Bool.and_eq_true, decide_eq_true_eq, beq_iff_eq, List.all_eq_true, List.mem_range,
    Bool.or_eq_true, List.contains_iff_mem] at h
  obtain ⟨⟨⟨⟨⟨⟨⟨⟨⟨⟨⟨⟨⟨h1, h2⟩, h3⟩, h4⟩, h5⟩, h6⟩, h7⟩, h8⟩, h9⟩, h10⟩, h11⟩, h12⟩, h13⟩, h14⟩ := h
  refine ⟨h1, h2, h3, h4, h5, h6, h7, h8, h9, h10, h11, ?_, ?_, h14⟩
  · intro o ho s hs
    have := h12 o ho
    subst hs
    simpa using this
  · intro st hst
    exact h13 st hst

theorem idsOK_spec (owner : Array Slot) (ids : Array Nat) (mk : Nat → Slot) (h : idsOK owner ids mk = true) :
    ∀ j, j < ids.size → ∃ k, ids[j]? = some k ∧ owner[k]? = some (mk j) := by
  unfold idsOK at h
  simp only [List.all_eq_true, List.mem_range] at h
  intro j hj
  have := h j hj
  split at this
  · rename_i k hk; exact ⟨k, hk, by simpa using this⟩
  · simp at this

theorem owner_lt (owner : Array Slot) (k : Nat) (s : Slot) (h : owner[k]? = some s) : k < owner.size := by
  by_cases hlt : k < owner.size
  · exact hlt
  · rw [Array.getElem?_eq_none (by omega)] at h; cases h

/-- pigeonhole for id tables: as many distinct sectors as entries -/
theorem idsOK_size_le (owner : Array Slot) (ids : Array Nat) (mk : Nat → Slot) (hinj : ∀ a b, mk a = mk b → a = b)
    (h : idsOK owner ids mk = true) : ids.size ≤ owner.size := by
  have hs := idsOK_spec owner ids mk h
  have hnd : ids.toList.Nodup := by
    rw [List.Nodup, List.pairwise_iff_getElem]
    intro i j hi hj hij heq
    obtain ⟨k1, hk1, ho1⟩ := hs i (by simpa using hi)
    obtain ⟨k2, hk2, ho2⟩ := hs j (by simpa using hj)
    have e1 : ids.toList[i] = k1 := by
      have : ids.toList[i]? = some k1 := by simpa using hk1
      rw [List.getElem?_eq_getElem hi] at this; exact Option.some.inj this
    have e2 : ids.toList[j] = k2 := by
      have : ids.toList[j]? = some k2 := by simpa using hk2
      rw [List.getElem?_eq_getElem hj] at this; exact Option.some.inj this
    rw [e1, e2] at heq
    subst heq
    rw [ho1] at ho2
    have := hinj _ _ (Option.some.inj ho2)
    omega
  have hsub : ids.toList ⊆ List.range owner.size := by
    intro x hx
    obtain ⟨i, hi, rfl⟩ := List.getElem_of_mem hx
    obtain ⟨k1, hk1, ho1⟩ := hs i (by simpa using hi)
    have e1 : ids.toList[i] = k1 := by
      have : ids.toList[i]? = some k1 := by simpa using hk1
      rw [List.getElem?_eq_getElem hi] at this; exact Option.some.inj this
    rw [e1]
    simpa using owner_lt owner k1 _ ho1
  have := List.Nodup.length_le_of_subset hnd hsub
  simpa using this



/-! ## main body sectors, DIFAT walk -/


theorem ss_cases (L : Layout) : (L.ss = 512 ∧ L.perFat = 128) ∨ (L.ss = 4096 ∧ L.perFat = 1024) := by
  unfold Layout.perFat Layout.ss
  cases L.v4 <;> simp

theorem ss_pos (L : Layout) : 0 < L.ss := by rcases ss_cases L with ⟨h, _⟩ | ⟨h, _⟩ <;> omega
theorem slot_fat_inj : ∀ a b, Slot.fat a = Slot.fat b → a = b := by intro a b h; injection h
theorem slot_difat_inj : ∀ a b, Slot.difat a = Slot.difat b → a = b := by intro a b h; injection h

theorem mainPieces_get (streams : List Stream) (L : Layout) (c : Nat) (D : Bytes)
    (h : (mainData streams L)[c]? = some D) : (mainPieces streams L)[c]? = some (pieces L.ss L.fill D) := by
  unfold mainPieces
  simp [h]

theorem mainPieces_uniform (streams : List Stream) (L : Layout) : UniformP L.ss (mainPieces streams L) := by
  intro c p hp i x hx
  unfold mainPieces at hp
  simp only [List.getElem?_toArray, List.getElem?_map, Option.map_eq_some_iff] at hp
  obtain ⟨D, _, rfl⟩ := hp
  exact pieces_uniform _ _ D i x hx

theorem fatSector_length (L : Layout) (j : Nat) : (fatSector L j).length = L.ss := by
  unfold fatSector
  rw [le32s_length]
  simp only [List.length_map, List.length_range']
  rcases ss_cases L with ⟨h1, h2⟩ | ⟨h1, h2⟩ <;> omega

theorem difSector_length (L : Layout) (j : Nat) : (difSector L j).length = L.ss := by
  unfold difSector
  rw [le32s_length]
  simp only [List.length_append, List.length_map, List.length_range', List.length_cons, List.length_nil]
  rcases ss_cases L with ⟨h1, h2⟩ | ⟨h1, h2⟩ <;> omega

/-- sector `k` of the generated body -/
theorem mainBody_sec (streams : List Stream) (L : Layout) (k : Nat) (s : Slot) (hk : L.main.owner[k]? = some s) :
    sec (mainBody streams L) L.ss k = sectorOf L.ss L.fill (mainPieces streams L) (fatSector L) (difSector L) s :=
  Space.body_sec L.main L.ss L.fill _ _ _ (mainPieces_uniform streams L) (fatSector_length L) (difSector_length L) k s hk


theorem mainBody_length (streams : List Stream) (L : Layout) : (mainBody streams L).length = L.ss * L.total :=
  Space.body_length L.main L.ss L.fill _ _ _ (mainPieces_uniform streams L) (fatSector_length L) (difSector_length L)

theorem fatIdAt_lt (streams : List Stream) (L : Layout) (hv : ValidP streams L) (t : Nat) :
    fatIdAt L t < 4294967296 := by
  unfold fatIdAt
  cases h : L.fatIds[t]? with
  | none => simp [FREESECT]
  | some k =>
    have ht : t < L.fatIds.size := by
      by_cases hlt : t < L.fatIds.size
      · exact hlt
      · rw [Array.getElem?_eq_none (by omega)] at h; cases h
    obtain ⟨k', hk', ho⟩ := idsOK_spec _ _ _ hv.fatIds t ht
    rw [h] at hk'; cases hk'
    have := owner_lt _ _ _ ho
    have := hv.total_le
    simp only [Layout.total, RESERVED] at *
    simp; omega

theorem difId_lt (streams : List Stream) (L : Layout) (hv : ValidP streams L) (j k : Nat)
    (h : L.difIds[j]? = some k) : k < L.total ∧ L.main.owner[k]? = some (Slot.difat j) := by
  have ht : j < L.difIds.size := by
    by_cases hlt : j < L.difIds.size
    · exact hlt
    · rw [Array.getElem?_eq_none (by omega)] at h; cases h
  obtain ⟨k', hk', ho⟩ := idsOK_spec _ _ _ hv.difIds j ht
  rw [h] at hk'; cases hk'
  exact ⟨owner_lt _ _ _ ho, ho⟩

theorem difNext_lt (streams : List Stream) (L : Layout) (hv : ValidP streams L) (j : Nat) :
    L.difIds[j]?.getD ENDOFCHAIN < 4294967296 := by
  cases h : L.difIds[j]? with
  | none => simp [ENDOFCHAIN]
  | some k =>
    have := (difId_lt streams L hv j k h).1
    have := hv.total_le
    simp only [Layout.total, RESERVED] at *
    simp; omega

/-- the DIFAT entries collected after `j` DIFAT sectors -/
def difatUpTo (L : Layout) (j : Nat) : List Nat := (List.range (109 + j * (L.perFat - 1))).map (fatIdAt L)

theorem difatUpTo_succ (L : Layout) (j : Nat) :
    difatUpTo L (j + 1) = difatUpTo L j ++ (List.range' (109 + j * (L.perFat - 1)) (L.perFat - 1)).map (fatIdAt L) := by
  unfold difatUpTo
  rw [← List.map_append]
  congr 1
  rw [List.range_eq_range', List.range_eq_range']
  have : 109 + (j + 1) * (L.perFat - 1) = (109 + j * (L.perFat - 1)) + (L.perFat - 1) := by
    rw [Nat.add_mul]; omega
  rw [this, ← List.range'_append_1]
  simp

/-- id of DIFAT sector `i` -/
def difIdAt (L : Layout) (i : Nat) : Nat := L.difIds[i]?.getD ENDOFCHAIN

theorem difIdAt_spec (streams : List Stream) (L : Layout) (hv : ValidP streams L) (i : Nat) (hi : i < L.ndif) :
    difIdAt L i < L.total ∧ L.main.owner[difIdAt L i]? = some (Slot.difat i) := by
  obtain ⟨kk, hkk⟩ : ∃ kk, L.difIds[i]? = some kk := ⟨L.difIds[i]'(by simpa [Layout.ndif] using hi), by
    simp only [Layout.ndif] at hi; simp [hi]⟩
  have := difId_lt streams L hv i kk hkk
  unfold difIdAt
  rw [hkk]; exact this

theorem nodup_of_owner (owner : Array Slot) (mk : Nat → Slot) (hinj : ∀ a b, mk a = mk b → a = b) (f : Nat → Nat)
    (n : Nat) (h : ∀ i, i < n → owner[f i]? = some (mk i)) : ((List.range n).map f).Nodup := by
  rw [List.Nodup, List.pairwise_iff_getElem]
  intro i j hi hj hij heq
  simp only [List.length_map, List.length_range] at hi hj
  simp only [List.getElem_map, List.getElem_range] at heq
  have h1 := h i hi
  have h2 := h j hj
  rw [heq, h2] at h1
  have := hinj _ _ (Option.some.inj h1)
  omega

theorem difatLoop_layout (streams : List Stream) (L : Layout) (hv : ValidP streams L) :
    ∀ (k j : Nat), j + k = L.ndif → ∀ (fuel : Nat) (s : Sectors) (rd : Bytes), k ≤ fuel →
      s.data ++ rd = mainBody streams L → s.size = L.ss → s.lazy = true →
      (∀ i, i < j → (difIdAt L i + 1) * L.ss ≤ s.data.length) →
      ∃ s' rd', difatLoop fuel (L.difIds[j]?.getD ENDOFCHAIN) (difatUpTo L j) s rd j =
          .ok (difatUpTo L L.ndif, s', rd') ∧ s'.data ++ rd' = mainBody streams L ∧ s'.size = L.ss := by
  intro k
  induction k with
  | zero =>
    intro j hj fuel s rd _ hinv hsz _ _
    have hj' : j = L.ndif := by omega
    subst hj'
    have : L.difIds[L.ndif]? = none := Array.getElem?_eq_none (by simp [Layout.ndif])
    rw [this]
    refine ⟨s, rd, ?_, hinv, hsz⟩
    cases fuel <;> simp [difatLoop, ENDOFCHAIN, RESERVED]
  | succ k ih =>
    intro j hj fuel s rd hrem hinv hsz hlz hcov
    obtain ⟨rem', rfl⟩ : ∃ r, fuel = r + 1 := ⟨fuel - 1, by omega⟩
    have hjlt : j < L.difIds.size := by simp only [Layout.ndif] at hj; omega
    obtain ⟨kk, hkk⟩ : ∃ kk, L.difIds[j]? = some kk := ⟨L.difIds[j], by simp [hjlt]⟩
    obtain ⟨hklt, hown⟩ := difId_lt streams L hv j kk hkk
    have hkkid : difIdAt L j = kk := by unfold difIdAt; rw [hkk]; rfl
    obtain ⟨hg1, hg2, hg3⟩ := Sectors.get_spec s kk rd _ hinv (Or.inl hlz)
    rw [hsz, mainBody_sec streams L kk _ hown] at hg1
    simp only [sectorOf] at hg1
    have hres : kk < RESERVED := by have := hv.total_le; omega
    have hE : ∀ v ∈ (List.range' (109 + j * (L.perFat - 1)) (L.perFat - 1)).map (fatIdAt L) ++
        [L.difIds[j + 1]?.getD ENDOFCHAIN], v < 4294967296 := by
      intro v hv'
      simp only [List.mem_append, List.mem_map, List.mem_cons, List.not_mem_nil, or_false] at hv'
      rcases hv' with ⟨t, _, rfl⟩ | rfl
      · exact fatIdAt_lt streams L hv t
      · exact difNext_lt streams L hv (j + 1)
    have hu : u32s (difSector L j) = (List.range' (109 + j * (L.perFat - 1)) (L.perFat - 1)).map (fatIdAt L) ++
        [L.difIds[j + 1]?.getD ENDOFCHAIN] := by
      unfold difSector; exact u32s_le32s _ hE
    have hlen := difSector_length L j
    have hfullk : (kk + 1) * s.size ≤ (mainBody streams L).length := by
      rw [mainBody_length, hsz, Nat.mul_comm]; exact Nat.mul_le_mul_left _ (by omega)
    have hcovk := Sectors.get_covers s kk rd _ hinv (Or.inl hlz) hfullk
    have hmono := Sectors.get_data_mono s kk rd
    have hcov' : ∀ i, i < j + 1 → (difIdAt L i + 1) * L.ss ≤ (s.get kk rd).2.1.data.length := by
      intro i hi
      by_cases hij : i < j
      · exact Nat.le_trans (hcov i hij) hmono
      · have : i = j := by omega
        subst this; rw [hkkid, ← hsz]; exact hcovk
    have hnd : ((List.range (j + 1)).map (difIdAt L)).Nodup :=
      nodup_of_owner L.main.owner Slot.difat slot_difat_inj (difIdAt L) (j + 1)
        (fun i hi => (difIdAt_spec streams L hv i (by simp only [Layout.ndif]; omega)).2)
    have hcnt := covered_count L.ss _ (ss_pos L) _ hnd (by
      intro x hx
      simp only [List.mem_map, List.mem_range] at hx
      obtain ⟨i, hi, rfl⟩ := hx
      exact hcov' i hi)
    simp only [List.length_map, List.length_range] at hcnt
    obtain ⟨s', rd', he, hi', hs'⟩ := ih (j + 1) (by omega) rem' (s.get kk rd).2.1 (s.get kk rd).2.2 (by omega) hg2
      (by rw [hg3, hsz]) (by rw [Sectors.get_lazy]; exact hlz) hcov'
    refine ⟨s', rd', ?_, hi', hs'⟩
    rw [hkk]
    simp only [Option.getD_some]
    unfold difatLoop
    have hchk : ¬ ((j + 1) * L.ss > (s.get kk rd).2.1.data.length) := by omega
    simp only [hres, if_true, hg1, hlen, hsz, ne_eq, not_true_eq_false, if_false, hu, hchk]
    rw [← List.append_assoc, List.getLastD_concat, List.dropLast_concat, ← difatUpTo_succ]
    exact he



/-! ## FAT loading -/


theorem Space.entry_lt (sp : Space) (hall : ∀ c, c < sp.chains.size → ∃ n, chainOK sp c n = true)
    (hres : sp.owner.size ≤ RESERVED) (k : Nat) : sp.entry k < 4294967296 := by
  unfold Space.entry
  cases ho : sp.owner[k]? with
  | none => simp [FREESECT]
  | some s =>
    cases s with
    | free => simp [fatEntry, FREESECT]
    | fat j => simp [fatEntry, FATSECT]
    | difat j => simp [fatEntry, DIFSECT]
    | data c i =>
      simp only [fatEntry]
      cases hc : sp.chains[c]? with
      | none => simp [ENDOFCHAIN]
      | some ch =>
        simp only
        cases hx : ch[i + 1]? with
        | none => simp [ENDOFCHAIN]
        | some x =>
          have hcl : c < sp.chains.size := by
            by_cases hlt : c < sp.chains.size
            · exact hlt
            · rw [Array.getElem?_eq_none (by omega)] at hc; cases hc
          obtain ⟨n, hn⟩ := hall c hcl
          have hmem : x ∈ sp.ids c := by
            unfold Space.ids; simp only [hc]
            have : ch.toList[i + 1]? = some x := by simpa using hx
            exact List.mem_of_getElem? this
          have := Space.ids_lt sp c n hn x hmem
          simp only [RESERVED] at hres
          simp; omega

theorem main_entry_lt (streams : List Stream) (L : Layout) (hv : ValidP streams L) (k : Nat) :
    L.main.entry k < 4294967296 :=
  Space.entry_lt L.main (fun c hc => ⟨_, hv.chains c (by rw [hv.nchains] at hc; exact hc)⟩) hv.total_le k

/-- row `j` of the FAT (the content of FAT sector `j`) -/
def fatRow (L : Layout) (j : Nat) : List Nat := (List.range' (j * L.perFat) L.perFat).map L.main.entry

theorem fatId_spec (streams : List Stream) (L : Layout) (hv : ValidP streams L) (j : Nat) (hj : j < L.nfat) :
    fatIdAt L j < L.total ∧ L.main.owner[fatIdAt L j]? = some (Slot.fat j) := by
  obtain ⟨k, hk, ho⟩ := idsOK_spec _ _ _ hv.fatIds j hj
  unfold fatIdAt
  rw [hk]
  exact ⟨owner_lt _ _ _ ho, ho⟩

theorem loadFats_layout (streams : List Stream) (L : Layout) (hv : ValidP streams L) :
    ∀ (m a : Nat) (s : Sectors) (rd : Bytes), s.data ++ rd = mainBody streams L → s.size = L.ss → s.lazy = true →
      (∀ j, j < min a L.nfat → (fatIdAt L j + 1) * L.ss ≤ s.data.length) →
      ∃ s' rd', loadFats ((List.range' a m).map (fatIdAt L)) s rd (min a L.nfat * L.perFat) (L.nfat - min a L.nfat) =
          .ok (((List.range' a m).map fun j => if j < L.nfat then fatRow L j else []).flatten, s', rd') ∧
        s'.data ++ rd' = mainBody streams L ∧ s'.size = L.ss := by
  intro m
  induction m with
  | zero => intro a s rd hinv hsz _ _; exact ⟨s, rd, by simp [loadFats], hinv, hsz⟩
  | succ m ih =>
    intro a s rd hinv hsz hlz hcov
    rw [List.range'_succ]
    simp only [List.map_cons, List.flatten_cons]
    by_cases ha : a < L.nfat
    · obtain ⟨hlt, hown⟩ := fatId_spec streams L hv a ha
      obtain ⟨hg1, hg2, hg3⟩ := Sectors.get_spec s (fatIdAt L a) rd _ hinv (Or.inl hlz)
      rw [hsz, mainBody_sec streams L _ _ hown] at hg1
      simp only [sectorOf] at hg1
      have hu : u32s (fatSector L a) = fatRow L a := by
        unfold fatSector fatRow
        apply u32s_le32s
        intro v hv'
        simp only [List.mem_map] at hv'
        obtain ⟨t, _, rfl⟩ := hv'
        exact main_entry_lt streams L hv t
      have hrow : (fatRow L a).length = L.perFat := by simp [fatRow]
      have hmin : min a L.nfat = a := by omega
      have hmin' : min (a + 1) L.nfat = a + 1 := by omega
      have hfullk : (fatIdAt L a + 1) * s.size ≤ (mainBody streams L).length := by
        rw [mainBody_length, hsz, Nat.mul_comm]; exact Nat.mul_le_mul_left _ (by omega)
      have hcovk := Sectors.get_covers s (fatIdAt L a) rd _ hinv (Or.inl hlz) hfullk
      have hmono := Sectors.get_data_mono s (fatIdAt L a) rd
      have hcov' : ∀ j, j < min (a + 1) L.nfat →
          (fatIdAt L j + 1) * L.ss ≤ (s.get (fatIdAt L a) rd).2.1.data.length := by
        intro j hj
        by_cases hja : j < a
        · exact Nat.le_trans (hcov j (by omega)) hmono
        · have : j = a := by omega
          subst this; rw [← hsz]; exact hcovk
      have hnd : ((List.range (a + 1)).map (fatIdAt L)).Nodup :=
        nodup_of_owner L.main.owner Slot.fat slot_fat_inj (fatIdAt L) (a + 1)
          (fun i hi => (fatId_spec streams L hv i (by omega)).2)
      have hcnt := covered_count L.ss _ (ss_pos L) _ hnd (by
        intro x hx
        simp only [List.mem_map, List.mem_range] at hx
        obtain ⟨i, hi, rfl⟩ := hx
        exact hcov' i (by omega))
      simp only [List.length_map, List.length_range] at hcnt
      obtain ⟨s', rd', he, hi', hs'⟩ := ih (a + 1) (s.get (fatIdAt L a) rd).2.1 (s.get (fatIdAt L a) rd).2.2 hg2
        (by rw [hg3, hsz]) (by rw [Sectors.get_lazy]; exact hlz) hcov'
      refine ⟨s', rd', ?_, hi', hs'⟩
      have hd : fatIdAt L a < DIFSECT := by have := hv.total_le; simp only [RESERVED, DIFSECT] at *; omega
      have hchk : ¬ ((a * L.perFat + L.perFat) * 4 > (s.get (fatIdAt L a) rd).2.1.data.length) := by
        rcases ss_cases L with ⟨h1, h2⟩ | ⟨h1, h2⟩ <;> rw [h1] at hcnt <;> rw [h2] <;> omega
      have hacc : a * L.perFat + L.perFat = (a + 1) * L.perFat := by rw [Nat.add_mul, Nat.one_mul]
      have hn : L.nfat - a = (L.nfat - (a + 1)) + 1 := by omega
      rw [hmin', ← hacc] at he
      unfold loadFats
      simp only [hd, if_true, hmin, hn]
      simp only [hg1, hu, hrow, hchk, if_false, he, ha, if_true]
    · have hmin : min a L.nfat = L.nfat := by omega
      have hmin' : min (a + 1) L.nfat = L.nfat := by omega
      obtain ⟨s', rd', he, hi', hs'⟩ := ih (a + 1) s rd hinv hsz hlz (by rw [hmin']; rw [hmin] at hcov; exact hcov)
      refine ⟨s', rd', ?_, hi', hs'⟩
      have hfree : fatIdAt L a = FREESECT := by
        unfold fatIdAt
        rw [Array.getElem?_eq_none (by simp only [Layout.nfat] at ha; omega)]; rfl
      rw [hmin'] at he
      unfold loadFats
      simp only [hfree, FREESECT, DIFSECT, ha, if_false, List.nil_append, hmin]
      simpa [FREESECT, DIFSECT] using he


theorem fatRows_flatten (L : Layout) : ∀ n, ((List.range' 0 n).map (fatRow L)).flatten =
    (List.range' 0 (n * L.perFat)).map L.main.entry := by
  intro n
  induction n with
  | zero => simp
  | succ n ih =>
    rw [List.range'_1_concat, List.map_append, List.flatten_append, ih]
    simp only [List.map_cons, List.map_nil, List.flatten_cons, List.flatten_nil, List.append_nil, fatRow, Nat.zero_add]
    rw [← List.map_append]
    congr 1
    rw [Nat.add_mul, Nat.one_mul, ← List.range'_append_1]
    simp

theorem fat_rows_all (L : Layout) (M : Nat) (hM : L.nfat ≤ M) :
    ((List.range' 0 M).map fun j => if j < L.nfat then fatRow L j else []).flatten =
      L.main.fats (L.nfat * L.perFat) := by
  obtain ⟨e, rfl⟩ : ∃ e, M = L.nfat + e := ⟨M - L.nfat, by omega⟩
  rw [← List.range'_append_1, List.map_append, List.flatten_append]
  have h1 : (List.range' 0 L.nfat).map (fun j => if j < L.nfat then fatRow L j else []) =
      (List.range' 0 L.nfat).map (fatRow L) := by
    apply List.map_congr_left
    intro j hj
    have : j < L.nfat := by simpa using (List.mem_range'_1.mp hj).2
    simp [this]
  have h2 : ((List.range' (0 + L.nfat) e).map (fun j => if j < L.nfat then fatRow L j else [])).flatten = [] := by
    rw [List.flatten_eq_nil_iff]
    intro l hl
    simp only [List.mem_map] at hl
    obtain ⟨j, hj, rfl⟩ := hl
    have : ¬ j < L.nfat := by have := (List.mem_range'_1.mp hj).1; omega
    simp [this]
  rw [h1, h2, List.append_nil, fatRows_flatten]
  simp [Space.fats, List.range_eq_range']



/-! ## general chain read -/


/-- `get_chain` on chain `c` of a space, for any `len` argument; the reader may hold more than the space -/
theorem Space.getChain_gen (sp : Space) (ss : Nat) (hss : 0 < ss) (fill : UInt8) (P : Array (Array Bytes))
    (fatSec difSec : Nat → Bytes)
    (hP : UniformP ss P) (hf : ∀ j, (fatSec j).length = ss) (hd : ∀ j, (difSec j).length = ss)
    (c : Nat) (D : Bytes) (hPc : P[c]? = some (pieces ss fill D))
    (hok : chainOK sp c (nsect ss D.length) = true)
    (len : Nat) (hlen : sp.owner.size ≤ len) (hres : sp.owner.size ≤ RESERVED)
    (s : Sectors) (rd extra : Bytes) (hsz : s.size = ss)
    (hinv : s.data ++ rd = sp.body ss fill P fatSec difSec ++ extra)
    (hlz : s.lazy = true ∨ ss * sp.owner.size ≤ s.data.length) (len0 : Nat) :
    ∃ s' rd', s.getChain (chainStart sp c) (sp.fats len) rd len0 =
        .ok (if len0 > 0 then (padChunks ss fill D.length D).flatten.take len0
             else (padChunks ss fill D.length D).flatten, s', rd') ∧
      s'.data ++ rd' = sp.body ss fill P fatSec difSec ++ extra ∧ s'.size = ss := by
  have hbl := Space.body_length sp ss fill P fatSec difSec hP hf hd
  have hfull : ∀ x ∈ sp.ids c, (x + 1) * s.size ≤ (sp.body ss fill P fatSec difSec ++ extra).length := by
    intro x hx
    have := Space.ids_lt sp c _ hok x hx
    rw [List.length_append, hbl, hsz, Nat.mul_comm]
    exact Nat.le_trans (Nat.mul_le_mul_left ss (by omega : x + 1 ≤ sp.owner.size)) (Nat.le_add_right _ _)
  have hmap : (sp.ids c).map (sec (sp.body ss fill P fatSec difSec ++ extra) s.size) =
      padChunks ss fill D.length D := by
    rw [← Space.read_chain sp ss hss fill P fatSec difSec hP hf hd c D hPc hok]
    apply List.map_congr_left
    intro id hid
    rw [hsz]
    apply sec_append_left
    rw [hbl]
    have := Space.ids_lt sp c _ hok id hid
    rw [Nat.mul_comm]
    exact Nat.mul_le_mul_left ss (by omega)
  have hfol := chainLoop_follow (sp.fats len) _ (sp.ids c) (sp.fats len).length s rd hinv
    (by rw [Space.fats_length]; exact Nat.le_trans (Space.ids_length_le sp c _ hok) hlen) (by rw [hsz]; exact hss)
    (by
      rcases hlz with h | h
      · exact Or.inl h
      · right
        intro x hx
        have := Space.ids_lt sp c _ hok x hx
        rw [hsz, Nat.mul_comm]
        exact Nat.le_trans (Nat.mul_le_mul_left ss (by omega : x + 1 ≤ sp.owner.size)) h)
    (Space.fats_chain sp c _ len hok hlen hres) (Space.ids_nodup sp c _ hok) hfull
  obtain ⟨s', rd', he, hi, hs⟩ := hfol
  refine ⟨s', rd', ?_, hi, by rw [hs, hsz]⟩
  unfold Sectors.getChain
  rw [chainStart_eq, he]
  simp only
  rw [hmap]

theorem padChunks_flatten_exact (ss : Nat) (fill : UInt8) (hss : 0 < ss) :
    ∀ (f : Nat) (d : Bytes), d.length ≤ f → d.length % ss = 0 → (padChunks ss fill f d).flatten = d := by
  intro f
  induction f with
  | zero => intro d hd _; have : d = [] := List.eq_nil_of_length_eq_zero (by omega); subst this; simp [padChunks]
  | succ f ih =>
    intro d hd hmod
    unfold padChunks
    split
    · rename_i h; subst h; simp
    · rename_i hne
      have hpos : 0 < d.length := List.length_pos_iff.mpr hne
      have hge : ss ≤ d.length := Nat.le_of_dvd hpos (Nat.dvd_of_mod_eq_zero hmod)
      have h1 : (List.take ss d).length = ss := by rw [List.length_take]; omega
      simp only [List.flatten_cons]
      rw [h1, Nat.sub_self, List.replicate_zero, List.append_nil]
      rw [ih (d.drop ss) (by simp; omega) (by
        rw [List.length_drop]
        obtain ⟨q, hq⟩ := Nat.dvd_of_mod_eq_zero hmod
        rw [hq]
        have : ss * q - ss = ss * (q - 1) := by rw [Nat.mul_sub_one]
        rw [this]; exact Nat.mul_mod_right ss (q - 1))]
      exact List.take_append_drop ss d



/-! ## UTF-16 names -/


theorem char_valid (c : Char) : c.toNat < 0xD800 ∨ (0xDFFF < c.toNat ∧ c.toNat < 0x110000) := by
  have := c.valid
  unfold UInt32.isValidChar Nat.isValidChar at this
  exact this

theorem decode_cons_plain (u : Nat) (t : List Nat) (h : ¬ (0xD800 ≤ u ∧ u < 0xE000)) :
    decodeUtf16 (u :: t) = Char.ofNat u :: decodeUtf16 t := by
  cases t with
  | nil => simp [decodeUtf16, h]
  | cons v r =>
    have h1 : ¬ (0xD800 ≤ u ∧ u < 0xDC00) := by omega
    have h2 : ¬ (0xDC00 ≤ u ∧ u < 0xE000) := by omega
    simp [decodeUtf16, h1, h2]

theorem decode_pair (u v : Nat) (t : List Nat) (hu : 0xD800 ≤ u ∧ u < 0xDC00) (hv : 0xDC00 ≤ v ∧ v < 0xE000) :
    decodeUtf16 (u :: v :: t) = Char.ofNat (0x10000 + (u - 0xD800) * 0x400 + (v - 0xDC00)) :: decodeUtf16 t := by
  simp [decodeUtf16, hu, hv]

/-- UTF-16 round trip (followed by anything) -/
theorem decode_units (cs : List Char) (t : List Nat) :
    decodeUtf16 (utf16Units cs ++ t) = cs ++ decodeUtf16 t := by
  induction cs with
  | nil => simp [utf16Units]
  | cons c cs ih =>
    have hval := char_valid c
    unfold utf16Units
    split
    · rename_i hlt
      simp only [List.cons_append]
      rw [decode_cons_plain _ _ (by omega), ih, Char.ofNat_toNat]
    · rename_i hge
      simp only [List.cons_append]
      obtain ⟨hi, hhi⟩ : ∃ hi, hi = (c.toNat - 0x10000) / 0x400 := ⟨_, rfl⟩
      obtain ⟨lo, hlo⟩ : ∃ lo, lo = (c.toNat - 0x10000) % 0x400 := ⟨_, rfl⟩
      rw [← hhi, ← hlo]
      have hc : 0x10000 + hi * 0x400 + lo = c.toNat := by omega
      have hu : 0xD800 ≤ 0xD800 + hi ∧ 0xD800 + hi < 0xDC00 := by omega
      have hv : 0xDC00 ≤ 0xDC00 + lo ∧ 0xDC00 + lo < 0xE000 := by omega
      clear hhi hlo
      have : 0x10000 + (0xD800 + hi - 0xD800) * 0x400 + (0xDC00 + lo - 0xDC00) = c.toNat := by
        rw [Nat.add_sub_cancel_left, Nat.add_sub_cancel_left]; exact hc
      rewrite [decode_pair _ _ _ hu hv, ih, this, Char.ofNat_toNat]
      exact rfl

theorem decode_zeros (k : Nat) : decodeUtf16 (List.replicate k 0) = List.replicate k (Char.ofNat 0) := by
  induction k with
  | zero => simp [decodeUtf16]
  | succ k ih => rw [List.replicate_succ, decode_cons_plain _ _ (by omega), ih, List.replicate_succ]

theorem untilNul_name (cs : List Char) (k : Nat) (h : ∀ c ∈ cs, c ≠ Char.ofNat 0) :
    untilNul (cs ++ List.replicate k (Char.ofNat 0)) = cs := by
  unfold untilNul
  induction cs with
  | nil => cases k <;> simp [List.replicate_succ]
  | cons c cs ih =>
    have := h c (by simp)
    simp only [List.cons_append]
    rw [List.takeWhile_cons_of_pos (by simpa using this), ih (fun d hd => h d (by simp [hd]))]



/-! ## directory entries -/


theorem le16s_length (us : List Nat) : (le16s us).length = 2 * us.length := by
  induction us with
  | nil => rfl
  | cons u us ih => simp only [le16s, List.flatMap_cons, List.length_append, List.length_cons] at *; rw [ih]; simp [le16]; omega

theorem u16s_le16s (us : List Nat) (t : Bytes) (h : ∀ u ∈ us, u < 65536) : u16s (le16s us ++ t) = us ++ u16s t := by
  induction us with
  | nil => simp [le16s]
  | cons u us ih =>
    simp only [le16s, List.flatMap_cons, le16, List.cons_append, List.nil_append, u16s]
    have hu := h u (by simp)
    congr 1
    · simp only [UInt8.toNat_ofNat']; omega
    · exact ih (fun w hw => h w (by simp [hw]))

theorem u16s_zeros (k : Nat) : u16s (List.replicate (2 * k) (0 : UInt8)) = List.replicate k 0 := by
  induction k with
  | zero => simp [u16s]
  | succ k ih =>
    have : 2 * (k + 1) = (2 * k + 1) + 1 := by omega
    rw [this, List.replicate_succ, List.replicate_succ, u16s, ih, List.replicate_succ]
    simp

theorem utf16Units_lt (cs : List Char) : ∀ u ∈ utf16Units cs, u < 65536 := by
  induction cs with
  | nil => simp [utf16Units]
  | cons c cs ih =>
    have := char_valid c
    unfold utf16Units
    split
    · intro u hu; simp only [List.mem_cons] at hu; rcases hu with rfl | hu; · assumption
      exact ih u hu
    · intro u hu; simp only [List.mem_cons] at hu
      rcases hu with h | h | hu
      · omega
      · omega
      · exact ih u hu


/-- the 64-byte name field of a directory entry -/
def nameField (name : List Char) : Bytes :=
  le16s (utf16Units name) ++ List.replicate (64 - (le16s (utf16Units name)).length) 0

theorem nameEncOK_spec (name : List Char) (h : nameEncOK name = true) :
    0 < (utf16Units name).length ∧ (utf16Units name).length ≤ 31 ∧ (∀ c ∈ name, c ≠ Char.ofNat 0) := by
  unfold nameEncOK at h
  simp only [Bool.and_eq_true, decide_eq_true_eq, Bool.not_eq_true', List.contains_eq_mem,
    decide_eq_false_iff_not] at h
  obtain ⟨⟨h1, h2⟩, h3⟩ := h
  refine ⟨h1, h2, ?_⟩
  intro c hc he; subst he; exact h3 hc

theorem decodeName64_field (name : List Char) (h : nameEncOK name = true) :
    untilNul (decodeName64 (nameField name)) = name := by
  obtain ⟨hpos, hle, hnul⟩ := nameEncOK_spec name h
  have hlt := utf16Units_lt name
  obtain ⟨m, hm⟩ : ∃ m, m = (utf16Units name).length := ⟨_, rfl⟩
  have hpad : 64 - (le16s (utf16Units name)).length = 2 * (32 - m) := by rw [le16s_length]; omega
  have hU : u16s (nameField name) = utf16Units name ++ List.replicate (32 - m) 0 := by
    unfold nameField
    rw [hpad, u16s_le16s _ _ hlt, u16s_zeros]
  unfold decodeName64
  rw [hU, decode_units, decode_zeros]
  exact untilNul_name name _ hnul


theorem nameField_length (name : List Char) (h : (utf16Units name).length ≤ 31) : (nameField name).length = 64 := by
  unfold nameField
  simp only [List.length_append, List.length_replicate, le16s_length]
  omega

/-- everything of a directory entry before the start-sector field -/
def entryHead (name : List Char) (typ : UInt8) : Bytes :=
  nameField name ++ le16 ((le16s (utf16Units name)).length + 2) ++ [typ, 1] ++
    le32 FREESECT ++ le32 FREESECT ++ le32 FREESECT ++ List.replicate 36 0

theorem dirEntry_eq (name : List Char) (typ : UInt8) (start size : Nat) :
    dirEntry name typ start size = entryHead name typ ++ (le32 start ++ le64 size) := by
  simp only [dirEntry, entryHead, nameField, List.append_assoc]

theorem entryHead_length (name : List Char) (typ : UInt8) (h : (utf16Units name).length ≤ 31) :
    (entryHead name typ).length = 116 := by
  unfold entryHead
  simp only [List.length_append, nameField_length name h, List.length_replicate, le32_length, List.length_cons,
    List.length_nil, le16]

theorem u32At_le64_lo (v : Nat) : u32At (le64 v) 0 = v % 4294967296 := by
  unfold le64
  exact u32At_le32_zero _ _ (Nat.mod_lt _ (by omega))

theorem u32At_le64_hi (v : Nat) (h : v < 18446744073709551616) : u32At (le64 v) 4 = v / 4294967296 := by
  unfold le64
  have := u32At_append_right (le32 (v % 4294967296)) (le32 (v / 4294967296)) 0
  rw [le32_length] at this
  rw [this]
  have h2 := u32At_le32_zero (v / 4294967296) [] (by omega)
  rwa [List.append_nil] at h2

theorem fromSlice_dirEntry (name : List Char) (typ : UInt8) (start size ss : Nat) (hn : nameEncOK name = true)
    (hs : start < 4294967296) (hsz : (ss = 512 ∧ size < 4294967296) ∨ (ss ≠ 512 ∧ size < 18446744073709551616)) :
    Dir.fromSlice (dirEntry name typ start size) ss = .ok ⟨name, start, size, typ.toNat⟩ := by
  obtain ⟨_, hle, _⟩ := nameEncOK_spec name hn
  have hH := entryHead_length name typ hle
  have h66 : byteAt (dirEntry name typ start size) 66 = typ.toNat := by
    rw [dirEntry_eq, byteAt_append_left _ _ 66 (by rw [hH]; omega)]
    unfold entryHead
    simp only [List.append_assoc]
    rw [← List.append_assoc (nameField name)]
    have hp : (nameField name ++ le16 ((le16s (utf16Units name)).length + 2)).length = 66 := by
      simp only [List.length_append, nameField_length name hle, le16, List.length_cons, List.length_nil]
    have := byteAt_append_right (nameField name ++ le16 ((le16s (utf16Units name)).length + 2))
      ([typ, 1] ++ (le32 FREESECT ++ (le32 FREESECT ++ (le32 FREESECT ++ List.replicate 36 0)))) 0
    rw [hp] at this
    rw [this]
    simp [byteAt]
  have hlen : (dirEntry name typ start size).length = 128 := by
    rw [dirEntry_eq]; simp only [List.length_append, hH, le32_length, le64]
  have htake : (dirEntry name typ start size).take 64 = nameField name := by
    rw [dirEntry_eq]; unfold entryHead
    simp only [List.append_assoc]
    exact List.take_left' (nameField_length name hle)
  have h116 : u32At (dirEntry name typ start size) 116 = start := by
    rw [dirEntry_eq]
    have := u32At_append_right (entryHead name typ) (le32 start ++ le64 size) 0
    rw [hH] at this
    rw [this]; exact u32At_le32_zero _ _ hs
  have h120 : u32At (dirEntry name typ start size) 120 = size % 4294967296 := by
    rw [dirEntry_eq, ← List.append_assoc]
    have := u32At_append_right (entryHead name typ ++ le32 start) (le64 size) 0
    simp only [List.length_append, hH, le32_length] at this
    rw [this]; exact u32At_le64_lo size
  have hname := decodeName64_field name hn
  unfold Dir.fromSlice
  simp only [hlen, htake]
  have n1 : ¬ (128 < 120) := by omega
  have n2 : ¬ (128 < 124) := by omega
  simp only [Nat.lt_irrefl, if_false, n1, n2, hname, h116, h66]
  rcases hsz with ⟨h1, h2⟩ | ⟨h1, h2⟩
  · simp only [h1, if_true, h120]
    rw [Nat.mod_eq_of_lt h2]
  · simp only [h1, if_false]
    have h124 : u32At (dirEntry name typ start size) 124 = size / 4294967296 := by
      rw [dirEntry_eq, ← List.append_assoc]
      have := u32At_append_right (entryHead name typ ++ le32 start) (le64 size) 4
      simp only [List.length_append, hH, le32_length] at this
      rw [this]; exact u32At_le64_hi size h2
    simp only [u64At, h120, h124]
    congr 2
    have := Nat.mod_add_div size 4294967296
    omega

/-! ## parsing the directory -/


def unusedDir : Dir := ⟨[], 0, 0, 0⟩

theorem fromSlice_unused (ss : Nat) : Dir.fromSlice unusedEntry ss = .ok unusedDir := by
  have hlen : unusedEntry.length = 128 := rfl
  have hname : decodeName64 (unusedEntry.take 64) = List.replicate 32 (Char.ofNat 0) := by decide
  have hnul : untilNul (List.replicate 32 (Char.ofNat 0)) = [] := by decide
  have h116 : u32At unusedEntry 116 = 0 := by decide
  have h120 : u32At unusedEntry 120 = 0 := by decide
  have h64 : u64At unusedEntry 120 = 0 := by decide
  have h66 : byteAt unusedEntry 66 = 0 := by decide
  unfold Dir.fromSlice
  simp only [hlen, hname, hnul, h116, h120, h64, h66]
  have n1 : ¬ (128 < 120) := by omega
  have n2 : ¬ (128 < 124) := by omega
  simp only [n1, n2, Nat.lt_irrefl, if_false]
  split <;> rfl

theorem chunksAux_flatten (n : Nat) (hn : 0 < n) : ∀ (Ls : List Bytes) (fuel : Nat), Ls.length ≤ fuel →
    (∀ x ∈ Ls, x.length = n) → chunksAux n fuel Ls.flatten = Ls := by
  intro Ls
  induction Ls with
  | nil => intro fuel _ _; cases fuel <;> simp [chunksAux]; omega
  | cons x xs ih =>
    intro fuel hf hall
    obtain ⟨f, rfl⟩ : ∃ f, fuel = f + 1 := ⟨fuel - 1, by simp at hf; omega⟩
    have hx : x.length = n := hall x (by simp)
    simp only [List.flatten_cons, chunksAux]
    have : ¬ (x ++ xs.flatten).length < n := by simp [hx]
    simp only [this, if_false]
    rw [List.take_left' hx, List.drop_left' hx, ih f (by simp at hf; omega) (fun y hy => hall y (by simp [hy]))]

theorem chunksExact_flatten (n : Nat) (hn : 0 < n) (Ls : List Bytes) (hall : ∀ x ∈ Ls, x.length = n) :
    chunksExact n Ls.flatten = Ls := by
  unfold chunksExact
  apply chunksAux_flatten n hn Ls _ _ hall
  rw [flatten_uniform_length n Ls hall]
  exact Nat.le_mul_of_pos_left _ hn

theorem parseDirs_map {α : Type} (ss : Nat) (enc : α → Bytes) (dec : α → Dir) : ∀ (xs : List α),
    (∀ x ∈ xs, Dir.fromSlice (enc x) ss = .ok (dec x)) → parseDirs ss (xs.map enc) = .ok (xs.map dec) := by
  intro xs
  induction xs with
  | nil => intro _; rfl
  | cons e es ih =>
    intro h
    simp only [List.map_cons]
    unfold parseDirs
    rw [h e (by simp), ih (fun x hx => h x (by simp [hx]))]

theorem parseDirs_append (ss : Nat) : ∀ (a b : List Bytes) (da db : List Dir), parseDirs ss a = .ok da →
    parseDirs ss b = .ok db → parseDirs ss (a ++ b) = .ok (da ++ db) := by
  intro a
  induction a with
  | nil => intro b da db ha hb; simp only [parseDirs] at ha; cases ha; simpa using hb
  | cons e es ih =>
    intro b da db ha hb
    simp only [List.cons_append]
    unfold parseDirs at ha ⊢
    cases he : Dir.fromSlice e ss with
    | ok d =>
      rw [he] at ha
      simp only at ha ⊢
      cases hes : parseDirs ss es with
      | ok ds =>
        rw [hes] at ha
        simp only at ha
        cases ha
        rw [ih b ds db hes hb]
        rfl
      | err _ => rw [hes] at ha; cases ha
      | panic _ => rw [hes] at ha; cases ha
      | outOfFuel => rw [hes] at ha; cases ha
    | err _ => rw [he] at ha; cases ha
    | panic _ => rw [he] at ha; cases ha
    | outOfFuel => rw [he] at ha; cases ha

theorem parseDirs_unused (ss k : Nat) : parseDirs ss (List.replicate k unusedEntry) = .ok (List.replicate k unusedDir) := by
  induction k with
  | zero => rfl
  | succ k ih =>
    rw [List.replicate_succ, List.replicate_succ]
    unfold parseDirs
    rw [fromSlice_unused, ih]



/-! ## the directory of a layout -/


def streamDir (streams : List Stream) (L : Layout) (s : Nat) : Dir :=
  match streams[s]? with
  | some st => ⟨st.name, if isMini st then chainStart L.mini s else chainStart L.main (3 + s), st.data.length, 2⟩
  | none => unusedDir

def slotDir (streams : List Stream) (L : Layout) : Option Nat → Dir
  | some s => streamDir streams L s
  | none => unusedDir

def rootDir (L : Layout) : Dir := ⟨rootName, chainStart L.main 2, 64 * L.mtotal, 5⟩

def dirPad (L : Layout) : Nat :=
  nsect (L.ss / 128) (1 + L.dirOrder.length) * (L.ss / 128) - (1 + L.dirOrder.length)

/-- the directory the reader must recover -/
def parsedDirs (streams : List Stream) (L : Layout) : List Dir :=
  rootDir L :: L.dirOrder.map (slotDir streams L) ++ List.replicate (dirPad L) unusedDir

theorem chainStart_lt (sp : Space) (c n : Nat) (h : chainOK sp c n = true) (hres : sp.owner.size ≤ RESERVED) :
    chainStart sp c < 4294967296 := by
  rw [chainStart_eq]
  cases hx : (sp.ids c)[0]? with
  | none => simp [ENDOFCHAIN]
  | some x =>
    have := Space.ids_lt sp c n h x (List.mem_of_getElem? hx)
    simp only [RESERVED] at hres
    simp; omega

theorem le_nsect_mul (ss len : Nat) (hss : 0 < ss) : len ≤ nsect ss len * ss := by
  unfold nsect
  have := Nat.div_add_mod (len + ss - 1) ss
  have := Nat.mod_lt (len + ss - 1) hss
  rw [Nat.mul_comm]
  omega

theorem mainData_stream (streams : List Stream) (L : Layout) (s : Nat) (st : Stream) (h : streams[s]? = some st) :
    (mainData streams L)[3 + s]? = some (if isMini st then [] else st.data) := by
  unfold mainData
  have : 3 + s = s + 1 + 1 + 1 := by omega
  rw [this]
  simp only [List.getElem?_cons_succ, List.getElem?_map, h, Option.map_some]


theorem stream_size_lt (streams : List Stream) (L : Layout) (hv : ValidP streams L) (s : Nat) (st : Stream)
    (h : streams[s]? = some st) : st.data.length < 18446744073709551616 := by
  by_cases hm : isMini st = true
  · simp only [isMini, decide_eq_true_eq] at hm; omega
  · have hs : s < streams.length := by
      by_cases hlt : s < streams.length
      · exact hlt
      · rw [List.getElem?_eq_none (by omega)] at h; cases h
    have hc := hv.chains (3 + s) (by omega)
    have hd : (mainData streams L).getD (3 + s) [] = st.data := by
      rw [List.getD_eq_getElem?_getD, mainData_stream streams L s st h]; simp [hm]
    rw [hd] at hc
    have h1 := Space.ids_length_le L.main _ _ hc
    have h2 := (Space.ids_spec L.main _ _ hc).1
    have h3 := le_nsect_mul L.ss st.data.length (ss_pos L)
    have h4 := hv.total_le
    simp only [Layout.total, RESERVED] at h4
    have h5 : nsect L.ss st.data.length * L.ss ≤ 4294967290 * 4096 := by
      apply Nat.mul_le_mul
      · omega
      · rcases ss_cases L with ⟨h, _⟩ | ⟨h, _⟩ <;> omega
    omega

theorem nameOK_enc (name : List Char) (h : nameOK name = true) : nameEncOK name = true ∧ True := ⟨h, trivial⟩

theorem fromSlice_streamEntry (streams : List Stream) (L : Layout) (hv : ValidP streams L) (s : Nat)
    (hs : s < streams.length) :
    Dir.fromSlice (streamEntry streams L s) L.ss = .ok (streamDir streams L s) := by
  obtain ⟨st, hst⟩ : ∃ st, streams[s]? = some st := ⟨streams[s], by simp [hs]⟩
  unfold streamEntry streamDir
  simp only [hst]
  have hmem : st ∈ streams := List.mem_of_getElem? hst
  obtain ⟨hn, hsz⟩ := hv.names st hmem
  apply fromSlice_dirEntry _ _ _ _ _ (nameOK_enc _ hn).1
  · split
    · exact chainStart_lt L.mini s _ (hv.minis s hs) (by have := hv.mini_small; simp only [Layout.mtotal, RESERVED] at *; omega)
    · exact chainStart_lt L.main (3 + s) _ (hv.chains (3 + s) (by omega)) hv.total_le
  · rcases ss_cases L with ⟨h1, _⟩ | ⟨h1, _⟩
    · left
      refine ⟨h1, ?_⟩
      rcases hsz with h | h
      · simp only [Layout.ss, h, if_true] at h1; omega
      · exact h
    · right
      exact ⟨by omega, stream_size_lt streams L hv s st hst⟩

theorem fromSlice_root (streams : List Stream) (L : Layout) (hv : ValidP streams L) :
    Dir.fromSlice (dirEntry rootName 5 (chainStart L.main 2) (64 * L.mtotal)) L.ss = .ok (rootDir L) := by
  apply fromSlice_dirEntry _ _ _ _ _ (by decide)
  · exact chainStart_lt L.main 2 _ (hv.chains 2 (by omega)) hv.total_le
  · have := hv.mini_small
    rcases ss_cases L with ⟨h1, _⟩ | ⟨h1, _⟩
    · left; exact ⟨h1, this⟩
    · right; exact ⟨by omega, by omega⟩


theorem dirEntry_length (name : List Char) (typ : UInt8) (start size : Nat) (h : (utf16Units name).length ≤ 31) :
    (dirEntry name typ start size).length = 128 := by
  rw [dirEntry_eq]; simp only [List.length_append, entryHead_length name typ h, le32_length, le64]

theorem streamEntry_length (streams : List Stream) (L : Layout) (hv : ValidP streams L) (s : Nat) :
    (streamEntry streams L s).length = 128 := by
  unfold streamEntry
  cases hst : streams[s]? with
  | none => rfl
  | some st =>
    simp only
    have hmem : st ∈ streams := List.mem_of_getElem? hst
    exact dirEntry_length _ _ _ _ (nameEncOK_spec _ (nameOK_enc _ (hv.names st hmem).1).1).2.1

theorem dirEntries_len (streams : List Stream) (L : Layout) (hv : ValidP streams L) :
    ∀ x ∈ dirEntries streams L, x.length = 128 := by
  intro x hx
  unfold dirEntries at hx
  simp only [List.mem_append, List.mem_cons, List.mem_map, List.mem_replicate] at hx
  rcases hx with (rfl | ⟨o, _, rfl⟩) | ⟨_, rfl⟩
  · exact dirEntry_length _ _ _ _ (by decide)
  · cases o with
    | none => rfl
    | some s => exact streamEntry_length streams L hv s
  · rfl

theorem parse_dirEntries (streams : List Stream) (L : Layout) (hv : ValidP streams L) :
    parseDirs L.ss (dirEntries streams L) = .ok (parsedDirs streams L) := by
  unfold dirEntries parsedDirs
  simp only [List.length_cons, List.length_map]
  have hpad : nsect (L.ss / 128) (L.dirOrder.length + 1) * (L.ss / 128) - (L.dirOrder.length + 1) = dirPad L := by
    unfold dirPad; rw [Nat.add_comm]
  rw [hpad]
  apply parseDirs_append _ _ _ _ _ ?_ (parseDirs_unused _ _)
  unfold parseDirs
  rw [fromSlice_root streams L hv]
  have := parseDirs_map L.ss (slotEntry streams L) (slotDir streams L) L.dirOrder (by
    intro o ho
    cases o with
    | none => exact fromSlice_unused _
    | some s => exact fromSlice_streamEntry streams L hv s (hv.dirRange _ ho s rfl))
  rw [this]

theorem parse_dirBytes (streams : List Stream) (L : Layout) (hv : ValidP streams L) :
    parseDirs L.ss (chunksExact 128 (dirBytes streams L)) = .ok (parsedDirs streams L) := by
  unfold dirBytes
  rw [chunksExact_flatten 128 (by omega) _ (dirEntries_len streams L hv)]
  exact parse_dirEntries streams L hv



/-! ## bounds and lengths -/


theorem nsect_mul (ss q : Nat) (hss : 0 < ss) : nsect ss (q * ss) = q := by
  unfold nsect
  have : q * ss + ss - 1 = (ss - 1) + q * ss := by omega
  rw [this, Nat.add_mul_div_right _ _ hss, Nat.div_eq_of_lt (by omega)]; omega


theorem chain_size_le (sp : Space) (c n : Nat) (h : chainOK sp c n = true) : n ≤ sp.owner.size := by
  have := Space.ids_length_le sp c n h
  rw [(Space.ids_spec sp c n h).1] at this; exact this

theorem chain_size_eq (sp : Space) (c n : Nat) (h : chainOK sp c n = true) :
    chainLen sp c = n := by
  obtain ⟨ch, hch, hn, _⟩ := chainOK_spec sp c n h
  simp [chainLen, hch, hn]

theorem hdrFields_lt (streams : List Stream) (L : Layout) (hv : ValidP streams L) :
    ∀ v ∈ hdrFields streams L, v < 4294967296 := by
  have ht := hv.total_le
  simp only [Layout.total, RESERVED] at ht
  have h0 := chain_size_le L.main 0 _ (hv.chains 0 (by omega))
  have h1 := chain_size_le L.main 1 _ (hv.chains 1 (by omega))
  have e1 := chain_size_eq L.main 1 _ (hv.chains 1 (by omega))
  have hf := idsOK_size_le _ _ _ slot_fat_inj hv.fatIds
  have hd := idsOK_size_le _ _ _ slot_difat_inj hv.difIds
  have c0 := chainStart_lt L.main 0 _ (hv.chains 0 (by omega)) hv.total_le
  have c1 := chainStart_lt L.main 1 _ (hv.chains 1 (by omega)) hv.total_le
  have d0 := difNext_lt streams L hv 0
  have hd0 : (mainData streams L).getD 0 [] = dirBytes streams L := rfl
  rw [hd0] at h0
  intro v hvm
  simp only [hdrFields, List.mem_cons, List.not_mem_nil, or_false] at hvm
  rcases hvm with rfl | rfl | rfl | rfl | rfl | rfl | rfl | rfl | rfl
  · split <;> omega
  · simp only [Layout.nfat]; omega
  · exact c0
  · omega
  · omega
  · exact c1
  · rw [e1]; omega
  · exact d0
  · simp only [Layout.ndif]; omega

theorem hdrDifat_lt (streams : List Stream) (L : Layout) (hv : ValidP streams L) :
    ∀ v ∈ hdrDifat L, v < 4294967296 := by
  intro v hvm
  simp only [hdrDifat, List.mem_map] at hvm
  obtain ⟨t, _, rfl⟩ := hvm
  exact fatIdAt_lt streams L hv t

theorem layoutCfb_length (streams : List Stream) (L : Layout) : (layoutCfb streams L).length = L.ss * (1 + L.total) := by
  unfold layoutCfb
  simp only [List.length_append, header512_length, List.length_replicate, mainBody_length]
  rcases ss_cases L with ⟨h, _⟩ | ⟨h, _⟩ <;> rw [h] <;> omega

theorem dirBytes_length (streams : List Stream) (L : Layout) (hv : ValidP streams L) :
    (dirBytes streams L).length = nsect (L.ss / 128) (1 + L.dirOrder.length) * L.ss := by
  unfold dirBytes
  rw [flatten_uniform_length 128 _ (dirEntries_len streams L hv)]
  unfold dirEntries
  simp only [List.length_append, List.length_cons, List.length_map, List.length_replicate]
  have hle := le_nsect_mul (L.ss / 128) (L.dirOrder.length + 1) (by rcases ss_cases L with ⟨h, _⟩ | ⟨h, _⟩ <;> rw [h] <;> omega)
  rw [Nat.add_comm 1]
  rcases ss_cases L with ⟨h, _⟩ | ⟨h, _⟩
  · rw [h] at hle ⊢
    simp only [Nat.reduceDiv] at hle ⊢
    generalize nsect 4 (L.dirOrder.length + 1) = q at *
    omega
  · rw [h] at hle ⊢
    simp only [Nat.reduceDiv] at hle ⊢
    generalize nsect 32 (L.dirOrder.length + 1) = q at *
    omega



/-! ## mini stream -/


theorem miniPieces_uniform (streams : List Stream) (L : Layout) : UniformP 64 (miniPieces streams L) := by
  intro c p hp i x hx
  unfold miniPieces at hp
  simp only [List.getElem?_toArray, List.getElem?_map, Option.map_eq_some_iff] at hp
  obtain ⟨st, _, rfl⟩ := hp
  split at hx
  · exact pieces_uniform _ _ _ i x hx
  · simp at hx

theorem miniPieces_get (streams : List Stream) (L : Layout) (s : Nat) (st : Stream) (h : streams[s]? = some st)
    (hm : isMini st = true) : (miniPieces streams L)[s]? = some (pieces 64 L.fill st.data) := by
  unfold miniPieces
  simp [h, hm]

theorem miniBody_length (streams : List Stream) (L : Layout) : (miniBody streams L).length = 64 * L.mtotal :=
  Space.body_length L.mini 64 L.fill _ _ _ (miniPieces_uniform streams L) (by simp) (by simp)

theorem mtotal_le (streams : List Stream) (L : Layout) (hv : ValidP streams L) : L.mini.owner.size ≤ RESERVED := by
  have := hv.mini_small; simp only [Layout.mtotal, RESERVED] at *; omega

theorem mini_entry_lt (streams : List Stream) (L : Layout) (hv : ValidP streams L) (k : Nat) :
    L.mini.entry k < 4294967296 :=
  Space.entry_lt L.mini (fun c hc => ⟨_, hv.minis c (by rw [hv.nmini] at hc; exact hc)⟩) (mtotal_le streams L hv) k

theorem miniFatTable_eq (L : Layout) : miniFatTable L = L.mini.fats (nsect L.perFat L.mtotal * L.perFat) := rfl

theorem miniFat_bytes_length (L : Layout) :
    (le32s (miniFatTable L)).length = nsect L.perFat L.mtotal * L.ss := by
  rw [le32s_length, miniFatTable_eq, Space.fats_length]
  rcases ss_cases L with ⟨h1, h2⟩ | ⟨h1, h2⟩ <;> rw [h1, h2] <;> omega

theorem miniFat_u32s (streams : List Stream) (L : Layout) (hv : ValidP streams L) :
    u32s (le32s (miniFatTable L)) = miniFatTable L := by
  apply u32s_le32s
  intro v hvm
  simp only [miniFatTable, List.mem_map] at hvm
  obtain ⟨t, _, rfl⟩ := hvm
  exact mini_entry_lt streams L hv t



/-! ## `Cfb::new` on a generated container -/


theorem dir_chain_result (D : Bytes) (len0 : Nat) (h : len0 = 0 ∨ len0 = D.length) :
    (if len0 > 0 then D.take len0 else D) = D := by
  rcases h with h | h
  · simp [h]
  · split
    · rw [h]; exact List.take_length
    · rfl

theorem getChain_params (s : Sectors) (start : Nat) (fats : List Nat) (rd : Bytes) (len : Nat)
    (x : Bytes) (s' : Sectors) (rd' : Bytes) (h : s.getChain start fats rd len = .ok (x, s', rd')) :
    s'.size = s.size ∧ s'.data.length + rd'.length = s.data.length + rd.length ∧ s.data.length ≤ s'.data.length ∧
    x.length ≤ s'.data.length := by
  unfold Sectors.getChain at h
  split at h
  · rename_i chain s'' rd'' heq
    injection h with h; injection h with h0 h; injection h with h1 h2
    obtain ⟨p1, p2, p3, p4⟩ := chainLoop_params fats _ _ _ _ _ _ _ _ heq
    subst h0 h1 h2
    refine ⟨p1, p2, p3, ?_⟩
    have := p4 (Nat.zero_le _)
    split
    · rw [List.length_take]; omega
    · omega
  · cases h
  · cases h
  · cases h

theorem difatLoop_params : ∀ (fuel id : Nat) (difat : List Nat) (s : Sectors) (rd : Bytes) (count : Nat)
    (d : List Nat) (s' : Sectors) (rd' : Bytes),
    difatLoop fuel id difat s rd count = .ok (d, s', rd') →
    s'.size = s.size ∧ s'.data.length + rd'.length = s.data.length + rd.length ∧ s.data.length ≤ s'.data.length := by
  intro fuel
  induction fuel with
  | zero =>
    intro id difat s rd count d s' rd' h
    unfold difatLoop at h
    split at h
    · cases h
    · injection h with h; injection h with _ h; injection h with h1 h2; subst h1 h2
      exact ⟨rfl, rfl, Nat.le_refl _⟩
  | succ fuel ih =>
    intro id difat s rd count d s' rd' h
    unfold difatLoop at h
    split at h
    · dsimp only at h
      split at h
      · cases h
      · split at h
        · cases h
        · obtain ⟨p1, p2, p3⟩ := ih _ _ _ _ _ _ _ _ h
          exact ⟨p1.trans (Sectors.get_size s id rd), by rw [p2]; exact Sectors.get_conserve s id rd,
            Nat.le_trans (Sectors.get_data_mono s id rd) p3⟩
    · injection h with h; injection h with _ h; injection h with h1 h2; subst h1 h2
      exact ⟨rfl, rfl, Nat.le_refl _⟩

theorem getChain_lazy (s : Sectors) (start : Nat) (fats : List Nat) (rd : Bytes) (len : Nat)
    (x : Bytes) (s' : Sectors) (rd' : Bytes) (h : s.getChain start fats rd len = .ok (x, s', rd')) :
    s'.lazy = s.lazy := by
  unfold Sectors.getChain at h
  split at h
  · rename_i chain s'' rd'' heq
    injection h with h; injection h with _ h; injection h with h1 _
    subst h1
    exact chainLoop_lazy fats _ _ _ _ _ _ _ _ heq
  · cases h
  · cases h
  · cases h

theorem difatLoop_lazy : ∀ (fuel id : Nat) (difat : List Nat) (s : Sectors) (rd : Bytes) (count : Nat)
    (d : List Nat) (s' : Sectors) (rd' : Bytes),
    difatLoop fuel id difat s rd count = .ok (d, s', rd') → s'.lazy = s.lazy := by
  intro fuel
  induction fuel with
  | zero =>
    intro id difat s rd count d s' rd' h
    unfold difatLoop at h
    split at h
    · cases h
    · injection h with h; injection h with _ h; injection h with h1 _; subst h1; rfl
  | succ fuel ih =>
    intro id difat s rd count d s' rd' h
    unfold difatLoop at h
    split at h
    · dsimp only at h
      split at h
      · cases h
      · split at h
        · cases h
        · exact (ih _ _ _ _ _ _ _ _ h).trans (Sectors.get_lazy s id rd)
    · injection h with h; injection h with _ h; injection h with h1 _; subst h1; rfl

theorem loadFats_lazy : ∀ (ids : List Nat) (s : Sectors) (rd : Bytes) (acc n : Nat)
    (x : List Nat) (s' : Sectors) (rd' : Bytes), loadFats ids s rd acc n = .ok (x, s', rd') → s'.lazy = s.lazy := by
  intro ids
  induction ids with
  | nil =>
    intro s rd acc n x s' rd' h
    simp only [loadFats] at h
    injection h with h; injection h with _ h; injection h with h1 _; subst h1; rfl
  | cons id ids ih =>
    intro s rd acc n x s' rd' h
    unfold loadFats at h
    split at h
    · split at h
      · injection h with h; injection h with _ h; injection h with h1 _; subst h1; rfl
      · dsimp only at h
        split at h
        · cases h
        · split at h
          · rename_i rest s'' rd'' heq
            injection h with h; injection h with _ h; injection h with h1 _
            subst h1
            exact (ih _ _ _ _ _ _ _ heq).trans (Sectors.get_lazy s id rd)
          · cases h
          · cases h
          · cases h
    · exact ih _ _ _ _ _ _ _ h

theorem new_layout (streams : List Stream) (L : Layout) (hv : ValidP streams L) :
    ∃ s rd, Cfb.new (layoutCfb streams L) (layoutCfb streams L).length =
        .ok (⟨parsedDirs streams L, s, L.main.fats (L.nfat * L.perFat), ⟨miniBody streams L, 64, false⟩, miniFatTable L⟩, rd) ∧
      s.data ++ rd = mainBody streams L ∧ s.size = L.ss ∧ s.lazy = true := by
  have hss := ss_pos L
  have hLf := layoutCfb_length streams L
  have h1 := fromReader_layout streams L (hdrFields_lt streams L hv) (hdrDifat_lt streams L hv)
  have hdN : L.ndif ≤ L.total := idsOK_size_le _ _ _ slot_difat_inj hv.difIds
  have hrem : L.ndif ≤ (layoutCfb streams L).length + 1 := by
    rw [hLf]
    have : 1 + L.total ≤ L.ss * (1 + L.total) := Nat.le_mul_of_pos_left _ hss
    omega
  obtain ⟨s1, rd1, e2, i2, z2⟩ := difatLoop_layout streams L hv L.ndif 0 (by omega) _
    ⟨[], L.ss, true⟩ (mainBody streams L) hrem (by simp) rfl rfl (by intro i hi; omega)
  have z1l : s1.lazy = true := difatLoop_lazy _ _ _ _ _ _ _ _ _ e2
  have hd0 : difatUpTo L 0 = hdrDifat L := by simp [difatUpTo, hdrDifat]
  rw [hd0] at e2
  obtain ⟨s2, rd2, e3, i3, z3⟩ := loadFats_layout streams L hv (109 + L.ndif * (L.perFat - 1)) 0 s1 rd1 i2 z2 z1l
    (by intro j hj; simp at hj)
  have z2l : s2.lazy = true := (loadFats_lazy _ _ _ _ _ _ _ _ e3).trans z1l
  simp only [Nat.zero_min, Nat.zero_mul, Nat.sub_zero] at e3
  have hdN' : difatUpTo L L.ndif = (List.range' 0 (109 + L.ndif * (L.perFat - 1))).map (fatIdAt L) := by
    simp [difatUpTo, List.range_eq_range']
  rw [← hdN', fat_rows_all L _ hv.nfat_le] at e3
  have hdl := dirBytes_length streams L hv
  have hc0 := hv.chains 0 (by omega)
  have hd0' : (mainData streams L).getD 0 [] = dirBytes streams L := rfl
  rw [hd0'] at hc0
  obtain ⟨s3, rd3, e4, i4, z4⟩ := Space.getChain_gen L.main L.ss hss L.fill (mainPieces streams L) (fatSector L)
    (difSector L) (mainPieces_uniform streams L) (fatSector_length L) (difSector_length L) 0 (dirBytes streams L)
    (mainPieces_get streams L 0 _ rfl) hc0 (L.nfat * L.perFat) hv.total_fat hv.total_le s2 rd2 [] z3
    (by rw [List.append_nil]; exact i3) (Or.inl z2l) ((hdrOf streams L).dirLen * L.ss)
  have z3l : s3.lazy = true := (getChain_lazy _ _ _ _ _ _ _ _ e4).trans z2l
  rw [padChunks_flatten_exact L.ss L.fill hss _ _ (Nat.le_refl _) (by rw [hdl]; exact Nat.mul_mod_left _ _)] at e4
  rw [dir_chain_result] at e4
  · unfold Cfb.new
    rw [h1]
    simp only [Res.bind_ok, hdrOf] at e4 ⊢
    rw [e2]
    simp only [Res.bind_ok]
    rw [e3]
    simp only [Res.bind_ok]
    rw [e4]
    simp only [Res.bind_ok]
    rw [parse_dirBytes streams L hv]
    simp only [Res.bind_ok, parsedDirs, List.cons_append]
    have hc1 := hv.chains 1 (by omega)
    have hc2 := hv.chains 2 (by omega)
    have hd1 : (mainData streams L).getD 1 [] = le32s (miniFatTable L) := rfl
    have hd2 : (mainData streams L).getD 2 [] = miniBody streams L := rfl
    rw [hd1] at hc1
    rw [hd2] at hc2
    have hml := miniFat_bytes_length L
    have hcl : chainLen L.main 1 = nsect L.perFat L.mtotal := by
      rw [chain_size_eq L.main 1 _ hc1, hml, nsect_mul _ _ hss]
    by_cases hmf : chainLen L.main 1 > 0
    · simp only [hmf, if_true, rootDir]
      rw [List.append_nil] at i4
      obtain ⟨s4, rd4, e5, i5, z5⟩ := Space.getChain_gen L.main L.ss hss L.fill (mainPieces streams L) (fatSector L)
        (difSector L) (mainPieces_uniform streams L) (fatSector_length L) (difSector_length L) 2 (miniBody streams L)
        (mainPieces_get streams L 2 _ rfl) hc2 (L.nfat * L.perFat) hv.total_fat hv.total_le s3 rd3 [] z4
        (by rw [List.append_nil]; exact i4) (Or.inl z3l) (64 * L.mtotal)
      have z4l : s4.lazy = true := (getChain_lazy _ _ _ _ _ _ _ _ e5).trans z3l
      rw [List.append_nil] at i5
      have hmini : (if 64 * L.mtotal > 0 then
          (padChunks L.ss L.fill (miniBody streams L).length (miniBody streams L)).flatten.take (64 * L.mtotal)
          else (padChunks L.ss L.fill (miniBody streams L).length (miniBody streams L)).flatten) = miniBody streams L := by
        have hl := miniBody_length streams L
        split
        · rw [← hl]; exact padChunks_flatten_take L.ss L.fill hss _ _ (Nat.le_refl _)
        · have : miniBody streams L = [] := List.eq_nil_of_length_eq_zero (by omega)
          rw [this]; simp [padChunks]
      rw [hmini] at e5
      obtain ⟨s5, rd5, e6, i6, z6⟩ := Space.getChain_gen L.main L.ss hss L.fill (mainPieces streams L) (fatSector L)
        (difSector L) (mainPieces_uniform streams L) (fatSector_length L) (difSector_length L) 1 (le32s (miniFatTable L))
        (mainPieces_get streams L 1 _ rfl) hc1 (L.nfat * L.perFat) hv.total_fat hv.total_le s4 rd4 [] z5
        (by rw [List.append_nil]; exact i5) (Or.inl z4l) (chainLen L.main 1 * L.ss)
      have z5l : s5.lazy = true := (getChain_lazy _ _ _ _ _ _ _ _ e6).trans z4l
      rw [List.append_nil] at i6
      rw [padChunks_flatten_exact L.ss L.fill hss _ _ (Nat.le_refl _) (by rw [hml]; exact Nat.mul_mod_left _ _)] at e6
      rw [dir_chain_result _ _ (Or.inr (by rw [hcl, hml]))] at e6
      refine ⟨s5, rd5, ?_, i6, z6, z5l⟩
      rw [e5]
      simp only [Res.bind_ok]
      rw [e6]
      simp only [Res.bind_ok, miniFat_u32s streams L hv]
    · simp only [hmf, if_false]
      rw [List.append_nil] at i4
      refine ⟨s3, rd3, ?_, i4, z4, z3l⟩
      have hm0 : L.mtotal = 0 := by
        have h0 : nsect L.perFat L.mtotal = 0 := by omega
        have := le_nsect_mul L.perFat L.mtotal (by rcases ss_cases L with ⟨_, h⟩ | ⟨_, h⟩ <;> omega)
        rw [h0] at this; omega
      have hb : miniBody streams L = [] := List.eq_nil_of_length_eq_zero (by rw [miniBody_length, hm0])
      have hf : miniFatTable L = [] := by
        rw [miniFatTable_eq, hm0]
        have : nsect L.perFat 0 = 0 := nsect_zero _ (by rcases ss_cases L with ⟨_, h⟩ | ⟨_, h⟩ <;> omega)
        rw [this, Nat.zero_mul]; rfl
      rw [hb, hf]
  · rcases ss_cases L with ⟨h, _⟩ | ⟨h, _⟩
    · left
      simp only [hdrOf, Layout.ss] at h ⊢
      split
      · rename_i hv4; simp [hv4] at h
      · simp
    · right
      simp only [hdrOf, Layout.ss] at h ⊢
      split
      · rename_i hv4
        have h2 := hdl
        simp only [Layout.ss, hv4, if_true] at h2 ⊢
        rw [h2, nsect_mul _ _ (by omega)]
      · rename_i hv4; simp [hv4] at h



/-! ## chains inside the cached data -/


theorem Sectors.get_inrange (s : Sectors) (id : Nat) (rd : Bytes) (h : id * s.size + s.size ≤ s.data.length) :
    (s.get id rd).2 = (s, rd) := by
  unfold Sectors.get
  have : ¬ (id * s.size + s.size > s.data.length) := by omega
  simp only [this, and_false, if_false]

/-- a chain that stays inside the cached data reads nothing from the reader -/
theorem chainLoop_follow_state (fats : List Nat) :
    ∀ (ids : List Nat) (rem : Nat) (s : Sectors) (rd : Bytes) (acc : Nat), ids.length ≤ rem →
      (∀ i (h : i < ids.length), ids[i] ≠ ENDOFCHAIN ∧ fats[ids[i]]? = some (ids[i+1]?.getD ENDOFCHAIN)) →
      (∀ x ∈ ids, x * s.size + s.size ≤ s.data.length) →
      ∀ (x : Bytes) (s' : Sectors) (rd' : Bytes),
        Sectors.chainLoop fats rem (ids[0]?.getD ENDOFCHAIN) s rd acc = .ok (x, s', rd') → s' = s ∧ rd' = rd := by
  intro ids
  induction ids with
  | nil =>
    intro rem s rd acc _ _ _ x s' rd' h
    simp only [List.getElem?_nil, Option.getD_none, chainLoop_end] at h
    injection h with h; injection h with _ h; injection h with h1 h2; exact ⟨h1.symm, h2.symm⟩
  | cons a rest ih =>
    intro rem s rd acc hrem hch hin x s' rd' h
    obtain ⟨rem', rfl⟩ : ∃ r, rem = r + 1 := ⟨rem - 1, by simp at hrem; omega⟩
    have h0 := hch 0 (by simp)
    simp only [List.getElem_cons_zero, Nat.zero_add, List.getElem?_cons_succ] at h0
    obtain ⟨hne, hfat⟩ := h0
    have hg := Sectors.get_inrange s a rd (hin a (by simp))
    simp only [List.getElem?_cons_zero, Option.getD_some] at h
    unfold Sectors.chainLoop at h
    simp only [hne, if_false, hfat] at h
    split at h
    · cases h
    · rw [hg] at h
      simp only at h
      split at h
      · rename_i rest' s'' rd'' heq
        injection h with h; injection h with _ h; injection h with h1 h2
        have := ih rem' s rd _ (by simp at hrem; omega) (by
          intro i hi
          have := hch (i + 1) (by simp; omega)
          simpa using this) (fun y hy => hin y (by simp [hy])) rest' s'' rd'' heq
        rw [← h1, ← h2]; exact this
      · cases h
      · cases h
      · cases h


/-- reading a chain of a space whose sectors are all cached: the result of `getChain_gen`, state unchanged -/
theorem Space.getChain_cached (sp : Space) (ss : Nat) (hss : 0 < ss) (fill : UInt8) (P : Array (Array Bytes))
    (fatSec difSec : Nat → Bytes)
    (hP : UniformP ss P) (hf : ∀ j, (fatSec j).length = ss) (hd : ∀ j, (difSec j).length = ss)
    (c : Nat) (D : Bytes) (hPc : P[c]? = some (pieces ss fill D))
    (hok : chainOK sp c (nsect ss D.length) = true)
    (len : Nat) (hlen : sp.owner.size ≤ len) (hres : sp.owner.size ≤ RESERVED) (rd : Bytes) (len0 : Nat) :
    (⟨sp.body ss fill P fatSec difSec, ss, false⟩ : Sectors).getChain (chainStart sp c) (sp.fats len) rd len0 =
        .ok (if len0 > 0 then (padChunks ss fill D.length D).flatten.take len0
             else (padChunks ss fill D.length D).flatten, ⟨sp.body ss fill P fatSec difSec, ss, false⟩, rd) := by
  obtain ⟨s', rd', he, _, _⟩ := Space.getChain_gen sp ss hss fill P fatSec difSec hP hf hd c D hPc hok len hlen hres
    ⟨sp.body ss fill P fatSec difSec, ss, false⟩ rd rd rfl rfl
    (Or.inr (by rw [Space.body_length sp ss fill P fatSec difSec hP hf hd]; exact Nat.le_refl _)) len0
  rw [he]
  have hst : s' = ⟨sp.body ss fill P fatSec difSec, ss, false⟩ ∧ rd' = rd := by
    unfold Sectors.getChain at he
    split at he
    · rename_i chain s'' rd'' heq
      injection he with he; injection he with _ he; injection he with h1 h2
      rw [chainStart_eq] at heq
      have := chainLoop_follow_state (sp.fats len) (sp.ids c) _ _ rd 0
        (by rw [Space.fats_length]; exact Nat.le_trans (Space.ids_length_le sp c _ hok) hlen)
        (Space.fats_chain sp c _ len hok hlen hres)
        (by
          intro x hx
          have := Space.ids_lt sp c _ hok x hx
          simp only [Space.body_length sp ss fill P fatSec difSec hP hf hd]
          have h2 : (x + 1) * ss ≤ sp.owner.size * ss := Nat.mul_le_mul_right ss (by omega)
          rw [Nat.add_mul, Nat.one_mul] at h2
          rw [Nat.mul_comm ss]; exact h2)
        chain s'' rd'' heq
      rw [← h1, ← h2]; exact this
    · cases he
    · cases he
    · cases he
  rw [hst.1, hst.2]



/-! ## `get_stream` on a generated container -/


theorem find?_unique {α : Type} (p : α → Bool) (l : List α) (d0 : α) (hex : d0 ∈ l) (hp : p d0 = true)
    (huniq : ∀ d ∈ l, p d = true → d = d0) : l.find? p = some d0 := by
  cases h : l.find? p with
  | none =>
    rw [List.find?_eq_none] at h
    exact absurd hp (h d0 hex)
  | some d =>
    have h1 := List.mem_of_find?_eq_some h
    have h2 := List.find?_some h
    rw [huniq d h1 h2]

theorem name_nonempty (name : List Char) (h : nameEncOK name = true) : name ≠ [] := by
  intro he
  subst he
  have := (nameEncOK_spec [] h).1
  simp [utf16Units] at this

theorem stream_idx_unique (streams : List Stream) (hnd : (streams.map (·.name)).Nodup) (s s0 : Nat) (st st0 : Stream)
    (h1 : streams[s]? = some st) (h2 : streams[s0]? = some st0) (hn : st.name = st0.name) : s = s0 := by
  have hs : s < streams.length := by
    by_cases hlt : s < streams.length
    · exact hlt
    · rw [List.getElem?_eq_none (by omega)] at h1; cases h1
  have hs0 : s0 < streams.length := by
    by_cases hlt : s0 < streams.length
    · exact hlt
    · rw [List.getElem?_eq_none (by omega)] at h2; cases h2
  rw [List.Nodup, List.pairwise_iff_getElem] at hnd
  have e1 : (streams.map (·.name))[s]'(by simpa using hs) = st.name := by
    simp only [List.getElem_map]
    rw [List.getElem?_eq_getElem hs] at h1; rw [Option.some.inj h1]
  have e2 : (streams.map (·.name))[s0]'(by simpa using hs0) = st0.name := by
    simp only [List.getElem_map]
    rw [List.getElem?_eq_getElem hs0] at h2; rw [Option.some.inj h2]
  rcases Nat.lt_trichotomy s s0 with hlt | heq | hgt
  · exact absurd (e1.trans (hn.trans e2.symm)) (hnd s s0 (by simpa using hs) (by simpa using hs0) hlt)
  · exact heq
  · exact absurd (e2.trans (hn.symm.trans e1.symm)) (hnd s0 s (by simpa using hs0) (by simpa using hs) hgt)

theorem find_stream (streams : List Stream) (L : Layout) (hv : ValidP streams L) (s0 : Nat) (st : Stream)
    (hst : streams[s0]? = some st) :
    (parsedDirs streams L).find? (fun d => d.kind = STREAM_OBJECT ∧ d.name = st.name) =
      some (streamDir streams L s0) := by
  have hs0 : s0 < streams.length := by
    by_cases hlt : s0 < streams.length
    · exact hlt
    · rw [List.getElem?_eq_none (by omega)] at hst; cases hst
  have hname0 : (streamDir streams L s0).name = st.name := by simp [streamDir, hst]
  have hkind0 : (streamDir streams L s0).kind = STREAM_OBJECT := by simp [streamDir, hst, STREAM_OBJECT]
  apply find?_unique
  · unfold parsedDirs
    simp only [List.cons_append, List.mem_cons, List.mem_append, List.mem_map]
    right; left
    exact ⟨some s0, hv.dirAll s0 hs0, rfl⟩
  · simp [hname0, hkind0]
  · intro d hd hp
    have hp' : d.kind = STREAM_OBJECT ∧ d.name = st.name := by simpa using hp
    unfold parsedDirs at hd
    simp only [List.cons_append, List.mem_cons, List.mem_append, List.mem_map, List.mem_replicate] at hd
    rcases hd with rfl | ⟨o, ho, rfl⟩ | ⟨_, rfl⟩
    · exact absurd hp'.1 (by simp [rootDir, STREAM_OBJECT])
    · cases o with
      | none => exact absurd hp'.1 (by simp [slotDir, unusedDir, STREAM_OBJECT])
      | some s =>
        have hs := hv.dirRange _ ho s rfl
        obtain ⟨st', hst'⟩ : ∃ st', streams[s]? = some st' := ⟨streams[s], by simp [hs]⟩
        have hn' : st'.name = st.name := by
          have := hp'.2
          simp only [slotDir, streamDir, hst'] at this; exact this
        have := stream_idx_unique streams hv.nodup s s0 st' st hst' hst hn'
        subst this; rfl
    · exact absurd hp'.1 (by simp [unusedDir, STREAM_OBJECT])


/-- the reader state after `Cfb::new` on a generated container, and after any number of `get_stream` calls -/
structure Good (streams : List Stream) (L : Layout) (c : CfbSt) (rd : Bytes) : Prop where
  dirs : c.dirs = parsedDirs streams L
  fats : c.fats = L.main.fats (L.nfat * L.perFat)
  mini : c.mini = ⟨miniBody streams L, 64, false⟩
  miniFats : c.miniFats = miniFatTable L
  inv : c.sectors.data ++ rd = mainBody streams L
  size : c.sectors.size = L.ss
  lazy : c.sectors.lazy = true

theorem stream_read_result (ss : Nat) (fill : UInt8) (hss : 0 < ss) (D : Bytes) :
    (if D.length > 0 then (padChunks ss fill D.length D).flatten.take D.length
      else (padChunks ss fill D.length D).flatten) = D := by
  split
  · exact padChunks_flatten_take ss fill hss _ D (Nat.le_refl _)
  · have : D = [] := List.eq_nil_of_length_eq_zero (by omega)
    subst this; simp [padChunks]

theorem getStream_layout (streams : List Stream) (L : Layout) (hv : ValidP streams L) (c : CfbSt) (rd : Bytes)
    (hg : Good streams L c rd) (s0 : Nat) (st : Stream) (hst : streams[s0]? = some st) :
    ∃ c' rd', getStream c st.name rd = .ok (st.data, c', rd') ∧ Good streams L c' rd' := by
  have hs0 : s0 < streams.length := by
    by_cases hlt : s0 < streams.length
    · exact hlt
    · rw [List.getElem?_eq_none (by omega)] at hst; cases hst
  obtain ⟨dirs, sectors, fats, mini, miniFats⟩ := c
  obtain ⟨g1, g2, g3, g4, g5, g6, g7⟩ := hg
  simp only at g1 g2 g3 g4 g5 g6 g7
  subst g1 g2 g3 g4
  unfold getStream getStreamAt
  simp only
  rw [find_stream streams L hv s0 st hst]
  simp only [streamDir, hst]
  by_cases hm : isMini st = true
  · have hlt : st.data.length < 4096 := by simpa [isMini] using hm
    simp only [hlt, if_true, hm]
    have hok := hv.minis s0 hs0
    simp only [hst, hm, if_true] at hok
    have hN : L.mini.owner.size ≤ nsect L.perFat L.mtotal * L.perFat :=
      le_nsect_mul L.perFat L.mtotal (by rcases ss_cases L with ⟨_, h⟩ | ⟨_, h⟩ <;> omega)
    have := Space.getChain_cached L.mini 64 (by omega) L.fill (miniPieces streams L)
      (fun _ => List.replicate 64 L.fill) (fun _ => List.replicate 64 L.fill) (miniPieces_uniform streams L)
      (by simp) (by simp) s0 st.data (miniPieces_get streams L s0 st hst hm) hok _ hN (mtotal_le streams L hv) rd
      st.data.length
    rw [stream_read_result 64 L.fill (by omega)] at this
    rw [miniFatTable_eq]
    unfold miniBody
    rw [this]
    exact ⟨_, rd, rfl, ⟨rfl, rfl, rfl, rfl, g5, g6, g7⟩⟩
  · have hge : ¬ st.data.length < 4096 := by simpa [isMini] using hm
    have hm' : isMini st = false := by simpa using hm
    simp only [hge, if_false, hm', Bool.false_eq_true]
    have hok := hv.chains (3 + s0) (by omega)
    have hd : (mainData streams L).getD (3 + s0) [] = st.data := by
      rw [List.getD_eq_getElem?_getD, mainData_stream streams L s0 st hst]; simp [hm]
    rw [hd] at hok
    have hP : (mainPieces streams L)[3 + s0]? = some (pieces L.ss L.fill st.data) := by
      apply mainPieces_get
      rw [mainData_stream streams L s0 st hst]; simp [hm]
    obtain ⟨s', rd', he, hi, hz⟩ := Space.getChain_gen L.main L.ss (ss_pos L) L.fill (mainPieces streams L) (fatSector L)
      (difSector L) (mainPieces_uniform streams L) (fatSector_length L) (difSector_length L) (3 + s0) st.data hP hok
      (L.nfat * L.perFat) hv.total_fat hv.total_le sectors rd [] g6
      (by rw [List.append_nil]; exact g5) (Or.inl g7) st.data.length
    have hl' := (getChain_lazy _ _ _ _ _ _ _ _ he).trans g7
    rw [stream_read_result L.ss L.fill (ss_pos L)] at he
    rw [List.append_nil] at hi
    rw [he]
    exact ⟨_, rd', rfl, ⟨rfl, rfl, rfl, rfl, hi, hz, hl'⟩⟩

theorem hasDirectory_layout (streams : List Stream) (L : Layout) (hv : ValidP streams L) (c : CfbSt) (rd : Bytes)
    (hg : Good streams L c rd) (st : Stream) (hst : st ∈ streams) : hasDirectory c st.name = true := by
  obtain ⟨s0, hs0, rfl⟩ := List.getElem_of_mem hst
  have h := find_stream streams L hv s0 streams[s0] (by simp [hs0])
  unfold hasDirectory
  rw [hg.dirs, List.any_eq_true]
  have hmem := List.mem_of_find?_eq_some h
  have hp := List.find?_some h
  have hp' : (streamDir streams L s0).kind = STREAM_OBJECT ∧ (streamDir streams L s0).name = streams[s0].name := by
    simpa using hp
  exact ⟨_, hmem, by simpa using hp'.2⟩

theorem new_layout_good (streams : List Stream) (L : Layout) (hv : ValidP streams L) :
    ∃ c rd, Cfb.new (layoutCfb streams L) (layoutCfb streams L).length = .ok (c, rd) ∧ Good streams L c rd := by
  obtain ⟨s, rd, he, hi, hz, hl⟩ := new_layout streams L hv
  exact ⟨_, rd, he, ⟨rfl, rfl, rfl, rfl, hi, hz, hl⟩⟩



/-! ## no panic, no hang, bounded accumulation (C06 flavour) -/

theorem chainLoop_clean (fats : List Nat) (rem id : Nat) (s : Sectors) (rd : Bytes) (acc : Nat) :
    (∀ m, Sectors.chainLoop fats rem id s rd acc ≠ .panic m) ∧ Sectors.chainLoop fats rem id s rd acc ≠ .outOfFuel := by
  induction rem generalizing id s rd acc with
  | zero => unfold Sectors.chainLoop; split <;> simp
  | succ rem ih =>
    unfold Sectors.chainLoop
    split; · simp
    split; · simp
    rename_i next _
    dsimp only
    split; · simp
    have := ih next (s.get id rd).2.1 (s.get id rd).2.2 (acc + (s.get id rd).1.length)
    split <;> simp_all

theorem getChain_clean (s : Sectors) (start : Nat) (fats : List Nat) (rd : Bytes) (len : Nat) :
    (∀ m, s.getChain start fats rd len ≠ .panic m) ∧ s.getChain start fats rd len ≠ .outOfFuel := by
  unfold Sectors.getChain
  have := chainLoop_clean fats fats.length start s rd 0
  split <;> simp_all

/-- what `get_chain` returns never exceeds what has been read of the file (the final cache) -/
theorem getChain_alloc (s : Sectors) (start : Nat) (fats : List Nat) (rd : Bytes) (len : Nat)
    (x : Bytes) (s' : Sectors) (rd' : Bytes) (h : s.getChain start fats rd len = .ok (x, s', rd')) :
    x.length ≤ s'.data.length ∧ s'.data.length + rd'.length = s.data.length + rd.length :=
  ⟨(getChain_params s start fats rd len x s' rd' h).2.2.2, (getChain_params s start fats rd len x s' rd' h).2.1⟩

theorem difatLoop_no_panic (fuel id : Nat) (difat : List Nat) (s : Sectors) (rd : Bytes) (count : Nat) (m : String) :
    difatLoop fuel id difat s rd count ≠ .panic m := by
  induction fuel generalizing id difat s rd count with
  | zero => unfold difatLoop; split <;> simp
  | succ fuel ih =>
    unfold difatLoop
    split
    · dsimp only
      split
      · simp
      · split
        · simp
        · exact ih _ _ _ _ _
    · simp

/-- the DIFAT walk is bounded by the bytes the reader can deliver: `count * size ≤ data.len() ≤ N` -/
theorem difatLoop_fuel : ∀ (fuel id : Nat) (difat : List Nat) (s : Sectors) (rd : Bytes) (count N : Nat),
    0 < s.size → s.data.length + rd.length = N → count * s.size ≤ N → N < (count + fuel) * s.size →
    difatLoop fuel id difat s rd count ≠ .outOfFuel := by
  intro fuel
  induction fuel with
  | zero =>
    intro id difat s rd count N hss hN hle hlt
    unfold difatLoop
    split
    · exfalso
      rw [Nat.add_zero] at hlt; omega
    · simp
  | succ fuel ih =>
    intro id difat s rd count N hss hN hle hlt
    unfold difatLoop
    split
    · dsimp only
      split
      · simp
      · split
        · simp
        · rename_i hchk
          apply ih _ _ _ _ _ N
          · rw [(Sectors.get_size s id rd)]; exact hss
          · rw [Sectors.get_conserve]; exact hN
          · rw [(Sectors.get_size s id rd)]
            have hc := Sectors.get_conserve s id rd
            omega
          · rw [(Sectors.get_size s id rd)]
            have : count + 1 + fuel = count + (fuel + 1) := by omega
            rw [this]; exact hlt
    · simp


theorem loadFats_clean (ids : List Nat) (s : Sectors) (rd : Bytes) (acc n : Nat) :
    (∀ m, loadFats ids s rd acc n ≠ .panic m) ∧ loadFats ids s rd acc n ≠ .outOfFuel := by
  induction ids generalizing s rd acc n with
  | nil => simp [loadFats]
  | cons id ids ih =>
    unfold loadFats
    split
    · split
      · simp
      · rename_i n'
        dsimp only
        split
        · simp
        · have := ih (s.get id rd).2.1 (s.get id rd).2.2 (acc + (u32s (s.get id rd).1).length) n'
          split <;> simp_all
    · exact ih s rd acc n

/-- the allocation table never takes more room than what has been read of the file -/
theorem loadFats_params : ∀ (ids : List Nat) (s : Sectors) (rd : Bytes) (acc n : Nat)
    (x : List Nat) (s' : Sectors) (rd' : Bytes), loadFats ids s rd acc n = .ok (x, s', rd') →
    s'.size = s.size ∧ s'.data.length + rd'.length = s.data.length + rd.length ∧ s.data.length ≤ s'.data.length ∧
    (acc * 4 ≤ s.data.length → (acc + x.length) * 4 ≤ s'.data.length) := by
  intro ids
  induction ids with
  | nil =>
    intro s rd acc n x s' rd' h
    simp only [loadFats] at h
    injection h with h; injection h with h0 h; injection h with h1 h2; subst h0 h1 h2
    exact ⟨rfl, rfl, Nat.le_refl _, fun ha => by simpa using ha⟩
  | cons id ids ih =>
    intro s rd acc n x s' rd' h
    unfold loadFats at h
    split at h
    · split at h
      · injection h with h; injection h with h0 h; injection h with h1 h2; subst h0 h1 h2
        exact ⟨rfl, rfl, Nat.le_refl _, fun ha => by simpa using ha⟩
      · dsimp only at h
        split at h
        · cases h
        · split at h
          · rename_i rest s'' rd'' heq
            injection h with h; injection h with h0 h; injection h with h1 h2
            obtain ⟨p1, p2, p3, p4⟩ := ih _ _ _ _ _ _ _ heq
            subst h0 h1 h2
            refine ⟨p1.trans (Sectors.get_size s id rd), by rw [p2]; exact Sectors.get_conserve s id rd,
              Nat.le_trans (Sectors.get_data_mono s id rd) p3, ?_⟩
            intro _
            have := p4 (by omega)
            simp only [List.length_append]; omega
          · cases h
          · cases h
          · cases h
    · exact ih _ _ _ _ _ _ _ h

theorem chunksAux_len (n : Nat) : ∀ (f : Nat) (l : Bytes), ∀ x ∈ chunksAux n f l, x.length = n := by
  intro f
  induction f with
  | zero => intro l x hx; simp [chunksAux] at hx
  | succ f ih =>
    intro l x hx
    unfold chunksAux at hx
    split at hx
    · simp at hx
    · simp only [List.mem_cons] at hx
      rcases hx with rfl | hx
      · rw [List.length_take]; omega
      · exact ih _ x hx

theorem fromSlice_ok128 (buf : Bytes) (ss : Nat) (h : buf.length = 128) : ∃ d, Dir.fromSlice buf ss = .ok d := by
  unfold Dir.fromSlice
  have n1 : ¬ (128 < 120) := by omega
  have n2 : ¬ (128 < 124) := by omega
  simp only [h, n1, n2, Nat.lt_irrefl, if_false]
  split <;> exact ⟨_, rfl⟩

theorem parseDirs_ok (ss : Nat) : ∀ (cs : List Bytes), (∀ x ∈ cs, x.length = 128) → ∃ ds, parseDirs ss cs = .ok ds := by
  intro cs
  induction cs with
  | nil => intro _; exact ⟨[], rfl⟩
  | cons c cs ih =>
    intro h
    obtain ⟨d, hd⟩ := fromSlice_ok128 c ss (h c (by simp))
    obtain ⟨ds, hds⟩ := ih (fun x hx => h x (by simp [hx]))
    unfold parseDirs
    rw [hd, hds]
    exact ⟨_, rfl⟩

theorem fromReader_clean (rd : Bytes) :
    (∀ m, Header.fromReader rd ≠ .panic m) ∧ Header.fromReader rd ≠ .outOfFuel := by
  unfold Header.fromReader
  split; · simp
  dsimp only
  split; · simp
  split; · simp
  split; · simp
  split <;> simp

/-- the header fixes a positive sector size and consumes part of the reader -/
theorem fromReader_ok (rd : Bytes) (h : Header) (d : List Nat) (rd' : Bytes)
    (hr : Header.fromReader rd = .ok (h, d, rd')) : 0 < h.sectorSize ∧ rd'.length ≤ rd.length := by
  unfold Header.fromReader at hr
  split at hr; · cases hr
  dsimp only at hr
  split at hr; · cases hr
  split at hr; · cases hr
  split at hr; · cases hr
  split at hr; · cases hr
  injection hr with hr; injection hr with h0 hr; injection hr with _ h2
  subst h0 h2
  refine ⟨by dsimp only; split <;> omega, ?_⟩
  split <;> simp only [List.length_drop] <;> omega

/-- `Cfb::new` is total on arbitrary bytes: it returns `Ok` or `Err`, never panics, never runs out of fuel
    (whatever `len` hint is given); and what it returns is bounded by what was read of the file: the allocation
    table takes at most as many bytes as the sector cache, so does the mini stream, and cache plus unread bytes
    are at most the file -/
theorem new_clean (file : Bytes) (len : Nat) :
    (∀ m, Cfb.new file len ≠ .panic m) ∧ Cfb.new file len ≠ .outOfFuel ∧
    ∀ c rd, Cfb.new file len = .ok (c, rd) →
      c.fats.length * 4 ≤ c.sectors.data.length ∧ c.mini.data.length ≤ c.sectors.data.length ∧
      c.miniFats.length * 4 ≤ c.sectors.data.length ∧ c.sectors.data.length + rd.length ≤ file.length := by
  unfold Cfb.new
  have c1 := fromReader_clean file
  cases h1 : Header.fromReader file with
  | err e => simp
  | panic m => exact absurd h1 (c1.1 m)
  | outOfFuel => exact absurd h1 c1.2
  | ok v1 =>
    obtain ⟨h, difat0, rd⟩ := v1
    obtain ⟨hss, hrd⟩ := fromReader_ok file h difat0 rd h1
    simp only [Res.bind_ok]
    have c2f := difatLoop_fuel (file.length + 1) h.difatStart difat0 ⟨[], h.sectorSize, true⟩ rd 0 rd.length hss
      (by simp) (by simp) (by
        simp only [Nat.zero_add]
        have : file.length + 1 ≤ (file.length + 1) * h.sectorSize := Nat.le_mul_of_pos_right _ hss
        omega)
    cases h2 : difatLoop (file.length + 1) h.difatStart difat0 ⟨[], h.sectorSize, true⟩ rd 0 with
    | err e => simp
    | panic m => exact absurd h2 (difatLoop_no_panic _ _ _ _ _ _ m)
    | outOfFuel => exact absurd h2 c2f
    | ok v2 =>
      obtain ⟨difat, s1, rd1⟩ := v2
      obtain ⟨_, q1, _⟩ := difatLoop_params _ _ _ _ _ _ _ _ _ h2
      simp only [List.length_nil, Nat.zero_add] at q1
      simp only [Res.bind_ok]
      have c3 := loadFats_clean difat s1 rd1 0 h.fatLen
      cases h3 : loadFats difat s1 rd1 0 h.fatLen with
      | err e => simp
      | panic m => exact absurd h3 (c3.1 m)
      | outOfFuel => exact absurd h3 c3.2
      | ok v3 =>
        obtain ⟨fats, s2, rd2⟩ := v3
        obtain ⟨_, q2, _, a2⟩ := loadFats_params _ _ _ _ _ _ _ _ h3
        have a2' := a2 (by omega)
        simp only [Nat.zero_add] at a2'
        simp only [Res.bind_ok]
        have c4 := getChain_clean s2 h.dirStart fats rd2 (h.dirLen * h.sectorSize)
        cases h4 : s2.getChain h.dirStart fats rd2 (h.dirLen * h.sectorSize) with
        | err e => simp
        | panic m => exact absurd h4 (c4.1 m)
        | outOfFuel => exact absurd h4 c4.2
        | ok v4 =>
          obtain ⟨dirBytes, s3, rd3⟩ := v4
          obtain ⟨_, q3, m3, _⟩ := getChain_params _ _ _ _ _ _ _ _ h4
          simp only [Res.bind_ok]
          obtain ⟨dirs, hdirs⟩ := parseDirs_ok h.sectorSize (chunksExact 128 dirBytes) (chunksAux_len 128 _ _)
          rw [hdirs]
          simp only [Res.bind_ok]
          cases dirs with
          | nil => simp
          | cons root tl =>
            simp only
            split
            · have c5 := getChain_clean s3 root.start fats rd3 root.len
              cases h5 : s3.getChain root.start fats rd3 root.len with
              | err e => simp
              | panic m => exact absurd h5 (c5.1 m)
              | outOfFuel => exact absurd h5 c5.2
              | ok v5 =>
                obtain ⟨ms, s4, rd4⟩ := v5
                obtain ⟨_, q4, m4, a4⟩ := getChain_params _ _ _ _ _ _ _ _ h5
                simp only [Res.bind_ok]
                have c6 := getChain_clean s4 h.miniFatStart fats rd4 (h.miniFatLen * h.sectorSize)
                cases h6 : s4.getChain h.miniFatStart fats rd4 (h.miniFatLen * h.sectorSize) with
                | err e => simp
                | panic m => exact absurd h6 (c6.1 m)
                | outOfFuel => exact absurd h6 c6.2
                | ok v6 =>
                  obtain ⟨mf, s5, rd5⟩ := v6
                  obtain ⟨_, q5, m5, a5⟩ := getChain_params _ _ _ _ _ _ _ _ h6
                  have hu := u32s_length mf
                  simp only [Res.bind_ok]
                  refine ⟨by simp, by simp, ?_⟩
                  intro c rd' hc
                  injection hc with hc; injection hc with hc hr; subst hc hr
                  dsimp only
                  refine ⟨by omega, by omega, by omega, by omega⟩
            · refine ⟨by simp, by simp, ?_⟩
              intro c rd' hc
              injection hc with hc; injection hc with hc hr; subst hc hr
              dsimp only
              refine ⟨by omega, by simp, by simp, by omega⟩

/-- `get_stream` never unwinds and never runs out of fuel, whatever the state and the allocation tables -/
theorem getStream_clean (c : CfbSt) (name : List Char) (rd : Bytes) :
    (∀ m, getStream c name rd ≠ .panic m) ∧ getStream c name rd ≠ .outOfFuel := by
  unfold getStream getStreamAt
  split
  · simp
  · rename_i d _
    split
    · have := getChain_clean c.mini d.start c.miniFats rd d.len
      split <;> simp_all
    · have := getChain_clean c.sectors d.start c.fats rd d.len
      split <;> simp_all

/-- bytes held by a reader state: both caches and what is still unread -/
def CfbSt.bytes (c : CfbSt) (rd : Bytes) : Nat := c.sectors.data.length + c.mini.data.length + rd.length

/-- `get_stream` conserves the bytes held and never returns more than that -/
theorem getStream_alloc (c : CfbSt) (name : List Char) (rd : Bytes) (x : Bytes) (c' : CfbSt) (rd' : Bytes)
    (h : getStream c name rd = .ok (x, c', rd')) :
    x.length ≤ c.bytes rd ∧ c'.bytes rd' = c.bytes rd := by
  unfold getStream getStreamAt at h
  split at h
  · cases h
  · rename_i d _
    split at h
    · split at h
      · rename_i y m' rd'' heq
        injection h with h; injection h with h0 h; injection h with h3 h4; subst h0 h3 h4
        obtain ⟨_, q, _, a⟩ := getChain_params _ _ _ _ _ _ _ _ heq
        simp only [CfbSt.bytes]
        exact ⟨by omega, by omega⟩
      · cases h
      · cases h
      · cases h
    · split at h
      · rename_i y s' rd'' heq
        injection h with h; injection h with h0 h; injection h with h3 h4; subst h0 h3 h4
        obtain ⟨_, q, _, a⟩ := getChain_params _ _ _ _ _ _ _ _ heq
        simp only [CfbSt.bytes]
        exact ⟨by omega, by omega⟩
      · cases h
      · cases h
      · cases h


/-! ## which path a read takes -/

/-- on a generated container a name lookup reaches the entry of that stream, whatever the directory order -/
theorem getStream_entry (streams : List Stream) (L : Layout) (hv : ValidP streams L) (c : CfbSt) (rd : Bytes)
    (hg : Good streams L c rd) (s0 : Nat) (st : Stream) (hst : streams[s0]? = some st) :
    getStream c st.name rd = getStreamAt c (streamDir streams L s0) rd := by
  unfold getStream
  rw [hg.dirs, find_stream streams L hv s0 st hst]

/-- the bytes of a stream shorter than 4096 bytes are, in chain order, the 64-byte mini sectors `L.mini.ids s0`
    of the mini stream, truncated to the size -/
theorem mini_stream_sectors (streams : List Stream) (L : Layout) (hv : ValidP streams L) (s0 : Nat) (st : Stream)
    (hst : streams[s0]? = some st) (hm : isMini st = true) :
    st.data = (((L.mini.ids s0).map (sec (miniBody streams L) 64)).flatten).take st.data.length := by
  have hs0 : s0 < streams.length := by
    by_cases hlt : s0 < streams.length
    · exact hlt
    · rw [List.getElem?_eq_none (by omega)] at hst; cases hst
  have hok := hv.minis s0 hs0
  simp only [hst, hm, if_true] at hok
  unfold miniBody
  rw [Space.read_chain L.mini 64 (by omega) L.fill (miniPieces streams L) _ _ (miniPieces_uniform streams L)
    (by simp) (by simp) s0 st.data (miniPieces_get streams L s0 st hst hm) hok]
  exact (padChunks_flatten_take 64 L.fill (by omega) _ st.data (Nat.le_refl _)).symm

/-- the bytes of a stream of at least 4096 bytes are, in chain order, the sectors `L.main.ids (3 + s0)` of the
    file, truncated to the size -/
theorem regular_stream_sectors (streams : List Stream) (L : Layout) (hv : ValidP streams L) (s0 : Nat) (st : Stream)
    (hst : streams[s0]? = some st) (hm : isMini st = false) :
    st.data = (((L.main.ids (3 + s0)).map (sec (mainBody streams L) L.ss)).flatten).take st.data.length := by
  have hs0 : s0 < streams.length := by
    by_cases hlt : s0 < streams.length
    · exact hlt
    · rw [List.getElem?_eq_none (by omega)] at hst; cases hst
  have hok := hv.chains (3 + s0) (by omega)
  have hd : (mainData streams L).getD (3 + s0) [] = st.data := by
    rw [List.getD_eq_getElem?_getD, mainData_stream streams L s0 st hst]; simp [hm]
  rw [hd] at hok
  have hP : (mainPieces streams L)[3 + s0]? = some (pieces L.ss L.fill st.data) := by
    apply mainPieces_get
    rw [mainData_stream streams L s0 st hst]; simp [hm]
  unfold mainBody
  rw [Space.read_chain L.main L.ss (ss_pos L) L.fill (mainPieces streams L) _ _ (mainPieces_uniform streams L)
    (fatSector_length L) (difSector_length L) (3 + s0) st.data hP hok]
  exact (padChunks_flatten_take L.ss L.fill (ss_pos L) _ st.data (Nat.le_refl _)).symm

/-- the mini-stream sub-read of `get_stream`: the chain is followed in the mini FAT, over the mini stream the
    state holds; nothing is read from the file -/
theorem mini_subread (streams : List Stream) (L : Layout) (hv : ValidP streams L) (s0 : Nat) (st : Stream)
    (hst : streams[s0]? = some st) (hm : isMini st = true) (rd : Bytes) :
    (⟨miniBody streams L, 64, false⟩ : Sectors).getChain (chainStart L.mini s0) (miniFatTable L) rd st.data.length =
      .ok (st.data, ⟨miniBody streams L, 64, false⟩, rd) := by
  have hs0 : s0 < streams.length := by
    by_cases hlt : s0 < streams.length
    · exact hlt
    · rw [List.getElem?_eq_none (by omega)] at hst; cases hst
  have hok := hv.minis s0 hs0
  simp only [hst, hm, if_true] at hok
  have hN : L.mini.owner.size ≤ nsect L.perFat L.mtotal * L.perFat :=
    le_nsect_mul L.perFat L.mtotal (by rcases ss_cases L with ⟨_, h⟩ | ⟨_, h⟩ <;> omega)
  have := Space.getChain_cached L.mini 64 (by omega) L.fill (miniPieces streams L)
    (fun _ => List.replicate 64 L.fill) (fun _ => List.replicate 64 L.fill) (miniPieces_uniform streams L)
    (by simp) (by simp) s0 st.data (miniPieces_get streams L s0 st hst hm) hok _ hN (mtotal_le streams L hv) rd
    st.data.length
  rw [stream_read_result 64 L.fill (by omega)] at this
  rw [miniFatTable_eq]
  unfold miniBody
  exact this

/-- the regular sub-read of `get_stream`: the chain is followed in the FAT over the sectors of the file -/
theorem main_subread (streams : List Stream) (L : Layout) (hv : ValidP streams L) (s0 : Nat) (st : Stream)
    (hst : streams[s0]? = some st) (hm : isMini st = false) (s : Sectors) (rd : Bytes)
    (hinv : s.data ++ rd = mainBody streams L) (hsz : s.size = L.ss) (hlz : s.lazy = true) :
    ∃ s' rd', s.getChain (chainStart L.main (3 + s0)) (L.main.fats (L.nfat * L.perFat)) rd st.data.length =
        .ok (st.data, s', rd') ∧ s'.data ++ rd' = mainBody streams L ∧ s'.size = L.ss := by
  have hs0 : s0 < streams.length := by
    by_cases hlt : s0 < streams.length
    · exact hlt
    · rw [List.getElem?_eq_none (by omega)] at hst; cases hst
  have hok := hv.chains (3 + s0) (by omega)
  have hd : (mainData streams L).getD (3 + s0) [] = st.data := by
    rw [List.getD_eq_getElem?_getD, mainData_stream streams L s0 st hst]; simp [hm]
  rw [hd] at hok
  have hP : (mainPieces streams L)[3 + s0]? = some (pieces L.ss L.fill st.data) := by
    apply mainPieces_get
    rw [mainData_stream streams L s0 st hst]; simp [hm]
  obtain ⟨s', rd', he, hi, hz⟩ := Space.getChain_gen L.main L.ss (ss_pos L) L.fill (mainPieces streams L) (fatSector L)
    (difSector L) (mainPieces_uniform streams L) (fatSector_length L) (difSector_length L) (3 + s0) st.data hP hok
    (L.nfat * L.perFat) hv.total_fat hv.total_le s rd [] hsz (by rw [List.append_nil]; exact hinv) (Or.inl hlz)
    st.data.length
  rw [stream_read_result L.ss L.fill (ss_pos L)] at he
  rw [List.append_nil] at hi
  exact ⟨s', rd', he, hi, hz⟩

/-! ## the reader as a lookup function -/

theorem lookupOf_stream (streams : List Stream) (L : Layout) (hv : ValidP streams L) (c : CfbSt) (rd : Bytes)
    (hg : Good streams L c rd) (st : Stream) (hst : st ∈ streams) : lookupOf c rd st.name = some st.data := by
  obtain ⟨s0, hs0, rfl⟩ := List.getElem_of_mem hst
  obtain ⟨c', rd', he, _⟩ := getStream_layout streams L hv c rd hg s0 streams[s0] (by simp [hs0])
  unfold lookupOf
  rw [he]

theorem parsedDirs_names (streams : List Stream) (L : Layout) (hv : ValidP streams L) :
    ∀ d ∈ parsedDirs streams L, d.name = rootName ∨ d.name = [] ∨ ∃ st ∈ streams, st.name = d.name := by
  intro d hd
  unfold parsedDirs at hd
  simp only [List.cons_append, List.mem_cons, List.mem_append, List.mem_map, List.mem_replicate] at hd
  rcases hd with rfl | ⟨o, ho, rfl⟩ | ⟨_, rfl⟩
  · left; rfl
  · cases o with
    | none => right; left; rfl
    | some s =>
      have hs := hv.dirRange _ ho s rfl
      right; right
      refine ⟨streams[s], List.getElem_mem hs, ?_⟩
      simp [slotDir, streamDir, hs]
  · right; left; rfl

/-- the stream-typed entries of the directory of a generated container are the streams -/
theorem parsedDirs_stream_kind (streams : List Stream) (L : Layout) (hv : ValidP streams L) :
    ∀ d ∈ parsedDirs streams L, d.kind = STREAM_OBJECT → ∃ st ∈ streams, st.name = d.name := by
  intro d hd hk
  unfold parsedDirs at hd
  simp only [List.cons_append, List.mem_cons, List.mem_append, List.mem_map, List.mem_replicate] at hd
  rcases hd with rfl | ⟨o, ho, rfl⟩ | ⟨_, rfl⟩
  · simp [rootDir, STREAM_OBJECT] at hk
  · cases o with
    | none => simp [slotDir, unusedDir, STREAM_OBJECT] at hk
    | some s =>
      have hs := hv.dirRange _ ho s rfl
      refine ⟨streams[s], List.getElem_mem hs, ?_⟩
      simp [slotDir, streamDir, hs]
  · simp [unusedDir, STREAM_OBJECT] at hk

theorem lookupOf_absent (streams : List Stream) (L : Layout) (hv : ValidP streams L) (c : CfbSt) (rd : Bytes)
    (hg : Good streams L c rd) (name : List Char)
    (h3 : ∀ st ∈ streams, st.name ≠ name) : lookupOf c rd name = none := by
  unfold lookupOf getStream
  have : c.dirs.find? (fun d => d.kind = STREAM_OBJECT ∧ d.name = name) = none := by
    rw [hg.dirs, List.find?_eq_none]
    intro d hd hp
    have hp' : d.kind = STREAM_OBJECT ∧ d.name = name := by simpa using hp
    obtain ⟨st, hst, h⟩ := parsedDirs_stream_kind streams L hv d hd hp'.1
    exact h3 st hst (h.trans hp'.2)
  rw [this]

/-- entries that are not stream entries (storages, the root, unused entries) are invisible to `get_stream`,
    whatever their names, start sectors, sizes and positions in the directory: on ANY reader state the result is
    the one obtained from the directory restricted to its stream entries -/
theorem getStream_streams_only (c : CfbSt) (name : List Char) (rd : Bytes) :
    getStream c name rd =
      match (c.dirs.filter (fun d => d.kind = STREAM_OBJECT)).find? (fun d => d.name = name) with
      | none => .err "notfound"
      | some d => getStreamAt c d rd := by
  unfold getStream
  have : c.dirs.find? (fun d => d.kind = STREAM_OBJECT ∧ d.name = name) =
      (c.dirs.filter (fun d => d.kind = STREAM_OBJECT)).find? (fun d => d.name = name) := by
    rw [List.find?_filter]
    congr 1
    funext d
    simp [Bool.decide_and]
  rw [this]
  generalize (c.dirs.filter (fun d => d.kind = STREAM_OBJECT)).find? (fun d => d.name = name) = o
  cases o <;> rfl

/-- the `len` argument of `Cfb::new` is a capacity hint only: the model ignores it (definitional) -/
theorem new_len_independent (file : Bytes) (len₁ len₂ : Nat) : Cfb.new file len₁ = Cfb.new file len₂ := rfl

/-! ## cost -/

theorem chainLoopCost_le (fats : List Nat) : ∀ (rem id : Nat) (s : Sectors) (rd : Bytes) (acc : Nat),
    Sectors.chainLoopCost fats rem id s rd acc ≤ rem := by
  intro rem
  induction rem with
  | zero => intro id s rd acc; simp [Sectors.chainLoopCost]
  | succ rem ih =>
    intro id s rd acc
    unfold Sectors.chainLoopCost
    split; · omega
    split; · omega
    dsimp only
    split
    · omega
    · have := ih ‹Nat› (s.get id rd).2.1 (s.get id rd).2.2 (acc + (s.get id rd).1.length); omega

theorem getChainCost_le (s : Sectors) (start : Nat) (fats : List Nat) (rd : Bytes) :
    s.getChainCost start fats rd ≤ fats.length := chainLoopCost_le fats _ _ _ _ _

theorem loadFatsCost_le : ∀ (ids : List Nat) (s : Sectors) (rd : Bytes) (acc n : Nat),
    loadFatsCost ids s rd acc n ≤ ids.length := by
  intro ids
  induction ids with
  | nil => intro s rd acc n; simp [loadFatsCost]
  | cons id ids ih =>
    intro s rd acc n
    unfold loadFatsCost
    split
    · split
      · omega
      · rename_i n'
        dsimp only
        split
        · simp
        · have := ih (s.get id rd).2.1 (s.get id rd).2.2 (acc + (u32s (s.get id rd).1).length) n'
          simp only [List.length_cons]; omega
    · have := ih s rd acc n; simp only [List.length_cons]; omega

theorem difatLoopCost_le : ∀ (fuel id : Nat) (difat : List Nat) (s : Sectors) (rd : Bytes) (count : Nat),
    difatLoopCost fuel id difat s rd count ≤ fuel := by
  intro fuel
  induction fuel with
  | zero => intro id difat s rd count; simp [difatLoopCost]
  | succ fuel ih =>
    intro id difat s rd count
    unfold difatLoopCost
    split
    · dsimp only
      split
      · omega
      · split
        · omega
        · have := ih ((difat ++ u32s (s.get id rd).1).getLastD 0) (difat ++ u32s (s.get id rd).1).dropLast
            (s.get id rd).2.1 (s.get id rd).2.2 (count + 1)
          omega
    · omega

/-- the DIFAT list grows by at most one sector's worth of entries per DIFAT sector, and the sectors visited fit the
    bytes read: the list is linear in the file -/
theorem difatLoop_length : ∀ (fuel id : Nat) (difat : List Nat) (s : Sectors) (rd : Bytes) (count : Nat)
    (d : List Nat) (s' : Sectors) (rd' : Bytes),
    difatLoop fuel id difat s rd count = .ok (d, s', rd') → count * s.size ≤ s.data.length →
    ∃ k, k * s.size ≤ s'.data.length ∧ d.length * 4 + count * s.size ≤ difat.length * 4 + k * s.size := by
  intro fuel
  induction fuel with
  | zero =>
    intro id difat s rd count d s' rd' h hc
    unfold difatLoop at h
    split at h
    · cases h
    · injection h with h; injection h with h0 h; injection h with h1 _; subst h0 h1
      exact ⟨count, hc, Nat.le_refl _⟩
  | succ fuel ih =>
    intro id difat s rd count d s' rd' h hc
    unfold difatLoop at h
    split at h
    · dsimp only at h
      split at h
      · cases h
      · rename_i hlen
        split at h
        · cases h
        · rename_i hchk
          have hsz := (Sectors.get_size s id rd)
          obtain ⟨k, hk1, hk2⟩ := ih _ _ _ _ _ _ _ _ h (by rw [hsz]; omega)
          rw [hsz] at hk1 hk2
          refine ⟨k, hk1, ?_⟩
          have hu := u32s_length (s.get id rd).1
          have hl : (s.get id rd).1.length = s.size := by simpa using hlen
          simp only [List.length_dropLast, List.length_append] at hk2
          rw [Nat.add_mul, Nat.one_mul] at hk2
          omega
    · injection h with h; injection h with h0 h; injection h with h1 _; subst h0 h1
      exact ⟨count, hc, Nat.le_refl _⟩

theorem fromReader_difat (rd : Bytes) (h : Header) (d : List Nat) (rd' : Bytes)
    (hr : Header.fromReader rd = .ok (h, d, rd')) : d.length ≤ 109 := by
  unfold Header.fromReader at hr
  split at hr; · cases hr
  dsimp only at hr
  split at hr; · cases hr
  split at hr; · cases hr
  split at hr; · cases hr
  split at hr; · cases hr
  injection hr with hr; injection hr with _ hr; injection hr with h1 _
  subst h1
  have := u32s_length (List.drop 76 (List.take 512 rd))
  simp only [List.length_drop, List.length_take] at this
  omega

/-- **cost of opening**: `Cfb::new` performs at most `2 · |file| + 110` sector reads on ANY byte string -/
theorem newCost_linear (file : Bytes) : newCost file ≤ 2 * file.length + 110 := by
  unfold newCost
  cases h1 : Header.fromReader file with
  | err e => simp
  | panic m => simp
  | outOfFuel => simp
  | ok v1 =>
    obtain ⟨h, difat0, rd⟩ := v1
    obtain ⟨hss, hrd⟩ := fromReader_ok file h difat0 rd h1
    have hd0 := fromReader_difat file h difat0 rd h1
    have hc1 := difatLoopCost_le (file.length + 1) h.difatStart difat0 ⟨[], h.sectorSize, true⟩ rd 0
    simp only
    cases h2 : difatLoop (file.length + 1) h.difatStart difat0 ⟨[], h.sectorSize, true⟩ rd 0 with
    | err e => simp only; omega
    | panic m => simp only; omega
    | outOfFuel => simp only; omega
    | ok v2 =>
      obtain ⟨difat, s1, rd1⟩ := v2
      obtain ⟨_, q1, _⟩ := difatLoop_params _ _ _ _ _ _ _ _ _ h2
      simp only [List.length_nil, Nat.zero_add] at q1
      obtain ⟨k, hk1, hk2⟩ := difatLoop_length _ _ _ _ _ _ _ _ _ h2 (by simp)
      simp only [Nat.zero_mul, Nat.add_zero] at hk2
      dsimp only at hk1 hk2 q1
      have hc2 := loadFatsCost_le difat s1 rd1 0 h.fatLen
      simp only
      cases h3 : loadFats difat s1 rd1 0 h.fatLen with
      | err e => simp only; omega
      | panic m => simp only; omega
      | outOfFuel => simp only; omega
      | ok v3 =>
        obtain ⟨fats, s2, rd2⟩ := v3
        obtain ⟨_, q2, _, a2⟩ := loadFats_params _ _ _ _ _ _ _ _ h3
        have a2' := a2 (by omega)
        simp only [Nat.zero_add] at a2'
        have hc3 := getChainCost_le s2 h.dirStart fats rd2
        simp only
        cases h4 : s2.getChain h.dirStart fats rd2 (h.dirLen * h.sectorSize) with
        | err e => simp only; omega
        | panic m => simp only; omega
        | outOfFuel => simp only; omega
        | ok v4 =>
          obtain ⟨dirBytes, s3, rd3⟩ := v4
          simp only
          have hc4 : ∀ x, s3.getChainCost x fats rd3 ≤ fats.length := fun x => getChainCost_le s3 x fats rd3
          split
          · split
            · rename_i root _ _ _
              have := hc4 root.start
              split
              · rename_i s4 rd4 _
                have := getChainCost_le s4 h.miniFatStart fats rd4
                omega
              · omega
            · omega
          · omega

/-- sector reads of one `get_stream`: at most the number of entries of the allocation table it follows -/
theorem getStreamCost_le (c : CfbSt) (name : List Char) (rd : Bytes) :
    getStreamCost c name rd ≤ max c.fats.length c.miniFats.length := by
  unfold getStreamCost
  split
  · omega
  · rename_i d _
    split
    · have := getChainCost_le c.mini d.start c.miniFats rd; omega
    · have := getChainCost_le c.sectors d.start c.fats rd; omega

end Cfb
