import CalVerif.Spec.CfbLayout
/-! Helper lemmas for C13 (compound-file reader model `Model/Cfb.lean`, encoder `Spec/CfbLayout.lean`). -/
namespace Cfb

/-! ## little-endian round trips -/

theorem le32_val (v : Nat) (rest : Bytes) (h : v < 4294967296) :
    u32s (le32 v ++ rest) = v :: u32s rest := by
  simp only [le32, List.cons_append, List.nil_append, u32s]
  congr 1
  simp only [UInt8.toNat_ofNat']
  omega

theorem u32s_le32s (vs : List Nat) (h : ∀ v ∈ vs, v < 4294967296) : u32s (le32s vs) = vs := by
  induction vs with
  | nil => simp [le32s, u32s]
  | cons v vs ih =>
    simp only [le32s, List.flatMap_cons]
    rw [le32_val v _ (h v (by simp))]
    congr 1
    exact ih (fun w hw => h w (by simp [hw]))

/-! ## `Sectors::get` is independent of the cache; chain following -/

/-- sector `id` of a sector area `body` (what `Sectors::get` returns, independent of the cache) -/
def sec (body : Bytes) (ss id : Nat) : Bytes := (body.drop (id * ss)).take ss

theorem slice_lemma (body : Bytes) (st size L : Nat) (h1 : min (st + size) body.length ≤ L) (h2 : L ≤ body.length) :
    ((body.take L).drop (min st L)).take (min (st + size) L - min st L) = (body.drop st).take size := by
  apply List.ext_getElem?
  intro i
  rw [List.getElem?_take, List.getElem?_take, List.getElem?_drop, List.getElem?_drop, List.getElem?_take]
  by_cases hi : i < size
  · by_cases hb : st + i < body.length
    · have e1 : min st L = st := by omega
      have c1 : i < min (st+size) L - min st L := by omega
      have c2 : min st L + i < L := by omega
      rw [if_pos c1, if_pos c2, if_pos hi, e1]
    · rw [if_pos hi]
      have : body[st + i]? = none := List.getElem?_eq_none (by omega)
      rw [this]
      split
      · split
        · omega
        · rfl
      · rfl
  · rw [if_neg hi, if_neg (by omega)]

theorem get_core (data body : Bytes) (st size L : Nat) (hp : data = body.take L) (h2 : L ≤ body.length)
    (h1 : min (st + size) body.length ≤ L) :
    (data.drop (min st data.length)).take (min (st + size) data.length - min st data.length) =
      (body.drop st).take size := by
  subst hp
  have : (List.take L body).length = L := by rw [List.length_take]; omega
  rw [this]
  exact slice_lemma body st size L h1 h2

theorem Sectors.get_spec (s : Sectors) (id : Nat) (rd body : Bytes) (h : s.data ++ rd = body) :
    (s.get id rd).1 = sec body s.size id ∧ (s.get id rd).2.1.data ++ (s.get id rd).2.2 = body ∧
    (s.get id rd).2.1.size = s.size := by
  subst h
  unfold Sectors.get sec
  generalize id * s.size = st
  by_cases hc : st + s.size > s.data.length
  · simp only [hc, if_true]
    refine ⟨?_, by simp, trivial⟩
    apply get_core _ _ _ _ (s.data.length + min (st + s.size - s.data.length) rd.length)
    · rw [List.take_append]
      have e1 : List.take (s.data.length + min (st + s.size - s.data.length) rd.length) s.data = s.data :=
        List.take_of_length_le (by omega)
      rw [e1, Nat.add_sub_cancel_left, ← List.take_eq_take_min]
    · simp only [List.length_append]; omega
    · simp only [List.length_append]; omega
  · simp only [hc, if_false]
    refine ⟨?_, trivial, trivial⟩
    apply get_core _ _ _ _ s.data.length
    · simp
    · simp only [List.length_append]; omega
    · simp only [List.length_append]; omega
theorem chainLoop_end (fats : List Nat) (rem : Nat) (s : Sectors) (rd : Bytes) :
    Sectors.chainLoop fats rem ENDOFCHAIN s rd = .ok ([], s, rd) := by
  cases rem <;> simp [Sectors.chainLoop]

theorem chainLoop_follow (fats : List Nat) (body : Bytes) :
    ∀ (ids : List Nat) (rem : Nat) (s : Sectors) (rd : Bytes),
      s.data ++ rd = body → ids.length ≤ rem →
      (∀ i (h : i < ids.length), ids[i] ≠ ENDOFCHAIN ∧ fats[ids[i]]? = some (ids[i+1]?.getD ENDOFCHAIN)) →
      ∃ s' rd', Sectors.chainLoop fats rem (ids[0]?.getD ENDOFCHAIN) s rd =
          .ok ((ids.map (sec body s.size)).flatten, s', rd') ∧ s'.data ++ rd' = body ∧ s'.size = s.size := by
  intro ids
  induction ids with
  | nil =>
    intro rem s rd hinv _ _
    exact ⟨s, rd, by simp [chainLoop_end], hinv, rfl⟩
  | cons a rest ih =>
    intro rem s rd hinv hrem hch
    obtain ⟨rem', rfl⟩ : ∃ r, rem = r + 1 := ⟨rem - 1, by simp at hrem; omega⟩
    have h0 := hch 0 (by simp)
    simp only [List.getElem_cons_zero, Nat.zero_add, List.getElem?_cons_succ] at h0
    obtain ⟨hne, hfat⟩ := h0
    obtain ⟨hg1, hg2, hg3⟩ := Sectors.get_spec s a rd body hinv
    have hrest := ih rem' (s.get a rd).2.1 (s.get a rd).2.2 hg2 (by simp at hrem; omega) (by
      intro i hi
      have := hch (i + 1) (by simp; omega)
      simpa using this)
    obtain ⟨s', rd', he, hi', hs'⟩ := hrest
    refine ⟨s', rd', ?_, hi', by rw [hs', hg3]⟩
    simp only [List.getElem?_cons_zero, Option.getD_some]
    unfold Sectors.chainLoop
    simp only [hne, if_false, hfat]
    rw [he]
    simp only [List.map_cons, List.flatten_cons, hg1, hg3]

/-! ## sector-sized pieces -/

theorem padChunks_all_len (ss : Nat) (fill : UInt8) : ∀ (f : Nat) (d : Bytes), ∀ x ∈ padChunks ss fill f d, x.length = ss := by
  intro f
  induction f with
  | zero => intro d x hx; simp [padChunks] at hx
  | succ f ih =>
    intro d x hx
    unfold padChunks at hx
    split at hx
    · simp at hx
    · simp only [List.mem_cons] at hx
      rcases hx with rfl | hx
      · simp only [List.length_append, List.length_take, List.length_replicate]; omega
      · exact ih _ x hx

theorem padChunks_flatten_take (ss : Nat) (fill : UInt8) (hss : 0 < ss) :
    ∀ (f : Nat) (d : Bytes), d.length ≤ f → ((padChunks ss fill f d).flatten).take d.length = d := by
  intro f
  induction f with
  | zero => intro d hd; have : d = [] := List.eq_nil_of_length_eq_zero (by omega); subst this; simp [padChunks]
  | succ f ih =>
    intro d hd
    unfold padChunks
    split
    · rename_i h; subst h; simp
    · rename_i hne
      simp only [List.flatten_cons]
      by_cases hle : d.length ≤ ss
      · rw [List.take_of_length_le hle, List.append_assoc, List.take_append_of_le_length (by omega)]
        simp
      · have h1 : (List.take ss d).length = ss := by rw [List.length_take]; omega
        rw [h1, Nat.sub_self, List.replicate_zero, List.append_nil, List.take_append]
        rw [h1, List.take_of_length_le (by omega)]
        have := ih (d.drop ss) (by simp; omega)
        rw [List.length_drop] at this
        rw [this, List.take_append_drop]

theorem nsect_zero (ss : Nat) (hss : 0 < ss) : nsect ss 0 = 0 := by
  unfold nsect; apply Nat.div_eq_of_lt; omega

theorem padChunks_length (ss : Nat) (fill : UInt8) (hss : 0 < ss) :
    ∀ (f : Nat) (d : Bytes), d.length ≤ f → (padChunks ss fill f d).length = nsect ss d.length := by
  intro f
  induction f with
  | zero => intro d hd; have : d = [] := List.eq_nil_of_length_eq_zero (by omega); subst this; simp [padChunks, nsect_zero ss hss]
  | succ f ih =>
    intro d hd
    unfold padChunks
    split
    · rename_i h; subst h; simp [nsect_zero ss hss]
    · rename_i hne
      have hpos : 0 < d.length := List.length_pos_iff.mpr hne
      simp only [List.length_cons]
      rw [ih (d.drop ss) (by simp; omega), List.length_drop]
      unfold nsect
      by_cases hle : d.length ≤ ss
      · have : d.length - ss = 0 := by omega
        rw [this]
        have e1 : (0 + ss - 1) / ss = 0 := by apply Nat.div_eq_of_lt; omega
        have e2 : (d.length + ss - 1) / ss = 1 := by
          apply Nat.div_eq_of_lt_le <;> omega
        omega
      · have : d.length + ss - 1 = (d.length - ss + ss - 1) + ss := by omega
        rw [this, Nat.add_div_right _ hss]

theorem sec_flatten (ss : Nat) : ∀ (L : List Bytes) (k : Nat) (hk : k < L.length),
    (∀ x ∈ L, x.length = ss) → sec L.flatten ss k = L[k] := by
  intro L
  induction L with
  | nil => intro k hk; simp at hk
  | cons x xs ih =>
    intro k hk hall
    have hx : x.length = ss := hall x (by simp)
    cases k with
    | zero =>
      simp only [sec, Nat.zero_mul, List.drop_zero, List.flatten_cons, List.getElem_cons_zero]
      rw [List.take_append_of_le_length (by omega), List.take_of_length_le (by omega)]
    | succ k =>
      simp only [List.getElem_cons_succ]
      rw [← ih k (by simpa using hk) (fun y hy => hall y (by simp [hy]))]
      simp only [sec, List.flatten_cons]
      have : (k + 1) * ss = x.length + k * ss := by rw [hx, Nat.add_mul]; omega
      rw [this, List.drop_append, List.drop_of_length_le (by omega), Nat.add_sub_cancel_left, List.nil_append]

/-! ## allocation tables of a space -/


/-- the allocation table of a space, `len` entries -/
def Space.fats (sp : Space) (len : Nat) : List Nat := (List.range len).map sp.entry

/-- sector numbers of chain `c` -/
def Space.ids (sp : Space) (c : Nat) : List Nat :=
  match sp.chains[c]? with
  | some ch => ch.toList
  | none => []

theorem chainOK_spec (sp : Space) (c n : Nat) (h : chainOK sp c n = true) :
    ∃ ch, sp.chains[c]? = some ch ∧ ch.size = n ∧
      ∀ i, i < n → ∃ k, ch[i]? = some k ∧ sp.owner[k]? = some (Slot.data c i) := by
  unfold chainOK at h
  split at h
  · simp at h
  · rename_i ch hch
    simp only [Bool.and_eq_true, beq_iff_eq, List.all_eq_true, List.mem_range] at h
    refine ⟨ch, hch, h.1, ?_⟩
    intro i hi
    have := h.2 i hi
    split at this
    · rename_i k hk; exact ⟨k, hk, by simpa using this⟩
    · simp at this

theorem Space.ids_spec (sp : Space) (c n : Nat) (h : chainOK sp c n = true) :
    (sp.ids c).length = n ∧ ∀ i (hi : i < (sp.ids c).length), sp.owner[(sp.ids c)[i]]? = some (Slot.data c i) := by
  obtain ⟨ch, hch, hn, hall⟩ := chainOK_spec sp c n h
  unfold Space.ids
  simp only [hch]
  refine ⟨by simpa using hn, ?_⟩
  intro i hi
  obtain ⟨k, hk, ho⟩ := hall i (by simpa [hn] using hi)
  have : ch.toList[i] = k := by
    have h2 : ch.toList[i]? = some k := by simpa using hk
    rw [List.getElem?_eq_getElem hi] at h2
    exact Option.some.inj h2
  rw [this]; exact ho

theorem Space.ids_lt (sp : Space) (c n : Nat) (h : chainOK sp c n = true) :
    ∀ x ∈ sp.ids c, x < sp.owner.size := by
  intro x hx
  obtain ⟨i, hi, rfl⟩ := List.getElem_of_mem hx
  have := (Space.ids_spec sp c n h).2 i hi
  by_cases hlt : (sp.ids c)[i] < sp.owner.size
  · exact hlt
  · rw [Array.getElem?_eq_none (by omega)] at this; cases this

theorem Space.ids_nodup (sp : Space) (c n : Nat) (h : chainOK sp c n = true) : (sp.ids c).Nodup := by
  rw [List.Nodup, List.pairwise_iff_getElem]
  intro i j hi hj hij heq
  have h1 := (Space.ids_spec sp c n h).2 i hi
  have h2 := (Space.ids_spec sp c n h).2 j hj
  rw [heq, h2] at h1
  injection h1 with h1
  injection h1 with _ h1
  omega

theorem Space.ids_length_le (sp : Space) (c n : Nat) (h : chainOK sp c n = true) :
    (sp.ids c).length ≤ sp.owner.size := by
  have := List.Nodup.length_le_of_subset (Space.ids_nodup sp c n h) (l₂ := List.range sp.owner.size)
    (fun x hx => by simpa using Space.ids_lt sp c n h x hx)
  simpa using this

theorem Space.fats_get (sp : Space) (len k : Nat) (hk : k < len) : (sp.fats len)[k]? = some (sp.entry k) := by
  simp [Space.fats, List.getElem?_map, List.getElem?_range hk]

/-- the allocation table of a space records each of its chains -/
theorem Space.fats_chain (sp : Space) (c n len : Nat) (h : chainOK sp c n = true)
    (hlen : sp.owner.size ≤ len) (hres : sp.owner.size ≤ RESERVED) :
    ∀ i (hi : i < (sp.ids c).length), (sp.ids c)[i] ≠ ENDOFCHAIN ∧
      (sp.fats len)[(sp.ids c)[i]]? = some ((sp.ids c)[i + 1]?.getD ENDOFCHAIN) := by
  intro i hi
  have hlt := Space.ids_lt sp c n h _ (List.getElem_mem hi)
  have hown := (Space.ids_spec sp c n h).2 i hi
  refine ⟨by simp only [RESERVED, ENDOFCHAIN] at *; omega, ?_⟩
  rw [Space.fats_get sp len _ (by omega)]
  congr 1
  unfold Space.entry
  rw [hown]
  simp only [fatEntry]
  unfold Space.ids
  split
  · rename_i ch hch; simp [hch]
  · rename_i hch; simp [hch]


/-! ## sector contents of a space -/

/-- every sector written by the encoder has exactly `ss` bytes -/
def UniformP (ss : Nat) (P : Array (Array Bytes)) : Prop :=
  ∀ (c : Nat) (p : Array Bytes), P[c]? = some p → ∀ (i : Nat) (x : Bytes), p[i]? = some x → x.length = ss

theorem sectorOf_length (ss : Nat) (fill : UInt8) (P : Array (Array Bytes)) (fatSec difSec : Nat → Bytes)
    (hP : UniformP ss P) (hf : ∀ j, (fatSec j).length = ss) (hd : ∀ j, (difSec j).length = ss) (s : Slot) :
    (sectorOf ss fill P fatSec difSec s).length = ss := by
  cases s with
  | free => simp [sectorOf]
  | fat j => exact hf j
  | difat j => exact hd j
  | data c i =>
    simp only [sectorOf]
    split
    · rename_i p hp
      cases hx : p[i]? with
      | none => simp
      | some x => simpa using hP c p hp i x hx
    · simp

theorem Space.body_sec (sp : Space) (ss : Nat) (fill : UInt8) (P : Array (Array Bytes)) (fatSec difSec : Nat → Bytes)
    (hP : UniformP ss P) (hf : ∀ j, (fatSec j).length = ss) (hd : ∀ j, (difSec j).length = ss)
    (k : Nat) (s : Slot) (hk : sp.owner[k]? = some s) :
    sec (sp.body ss fill P fatSec difSec) ss k = sectorOf ss fill P fatSec difSec s := by
  unfold Space.body
  have hlt : k < sp.owner.size := by
    by_cases h : k < sp.owner.size
    · exact h
    · rw [Array.getElem?_eq_none (by omega)] at hk; cases hk
  rw [sec_flatten ss _ k (by simpa using hlt)]
  · simp only [List.getElem_map]
    congr 1
    have : sp.owner.toList[k]? = some s := by simpa using hk
    rw [List.getElem?_eq_getElem (by simpa using hlt)] at this
    exact Option.some.inj this
  · intro x hx
    simp only [List.mem_map] at hx
    obtain ⟨s', _, rfl⟩ := hx
    exact sectorOf_length ss fill P fatSec difSec hP hf hd s'

theorem pieces_uniform (ss : Nat) (fill : UInt8) (d : Bytes) (i : Nat) (x : Bytes)
    (h : (pieces ss fill d)[i]? = some x) : x.length = ss := by
  unfold pieces at h
  have : x ∈ padChunks ss fill d.length d := by
    have h2 : (padChunks ss fill d.length d)[i]? = some x := by simpa using h
    exact List.mem_of_getElem? h2
  exact padChunks_all_len ss fill _ _ x this

/-- reading the sectors of chain `c` in chain order yields the chain's data cut into padded pieces -/
theorem Space.read_chain (sp : Space) (ss : Nat) (hss : 0 < ss) (fill : UInt8) (P : Array (Array Bytes))
    (fatSec difSec : Nat → Bytes)
    (hP : UniformP ss P) (hf : ∀ j, (fatSec j).length = ss) (hd : ∀ j, (difSec j).length = ss)
    (c : Nat) (D : Bytes) (hPc : P[c]? = some (pieces ss fill D))
    (hok : chainOK sp c (nsect ss D.length) = true) :
    (sp.ids c).map (sec (sp.body ss fill P fatSec difSec) ss) = padChunks ss fill D.length D := by
  obtain ⟨hlen, hown⟩ := Space.ids_spec sp c _ hok
  have hpl := padChunks_length ss fill hss D.length D (Nat.le_refl _)
  apply List.ext_getElem
  · simp [hlen, hpl]
  · intro i h1 h2
    simp only [List.getElem_map]
    have hi : i < (sp.ids c).length := by simpa using h1
    rw [Space.body_sec sp ss fill P fatSec difSec hP hf hd _ _ (hown i hi)]
    simp only [sectorOf, hPc, pieces]
    simp [List.getElem?_eq_getElem h2]


/-! ## reading a chain of a space -/

theorem chainStart_eq (sp : Space) (c : Nat) : chainStart sp c = (sp.ids c)[0]?.getD ENDOFCHAIN := by
  unfold chainStart Space.ids
  cases h : sp.chains[c]? with
  | none => rfl
  | some ch => simp

theorem Space.fats_length (sp : Space) (len : Nat) : (sp.fats len).length = len := by simp [Space.fats]

/-- `get_chain` on chain `c` of a space returns the chain's data, truncated to its length -/
theorem Space.getChain_data (sp : Space) (ss : Nat) (hss : 0 < ss) (fill : UInt8) (P : Array (Array Bytes))
    (fatSec difSec : Nat → Bytes)
    (hP : UniformP ss P) (hf : ∀ j, (fatSec j).length = ss) (hd : ∀ j, (difSec j).length = ss)
    (c : Nat) (D : Bytes) (hPc : P[c]? = some (pieces ss fill D))
    (hok : chainOK sp c (nsect ss D.length) = true)
    (len : Nat) (hlen : sp.owner.size ≤ len) (hres : sp.owner.size ≤ RESERVED)
    (s : Sectors) (rd : Bytes) (hsz : s.size = ss) (hinv : s.data ++ rd = sp.body ss fill P fatSec difSec) :
    ∃ s' rd', s.getChain (chainStart sp c) (sp.fats len) rd D.length = .ok (D, s', rd') ∧
      s'.data ++ rd' = sp.body ss fill P fatSec difSec ∧ s'.size = ss := by
  have hfol := chainLoop_follow (sp.fats len) _ (sp.ids c) (sp.fats len).length s rd hinv
    (by rw [Space.fats_length]; exact Nat.le_trans (Space.ids_length_le sp c _ hok) hlen)
    (Space.fats_chain sp c _ len hok hlen hres)
  obtain ⟨s', rd', he, hi, hs⟩ := hfol
  refine ⟨s', rd', ?_, hi, by rw [hs, hsz]⟩
  unfold Sectors.getChain
  rw [chainStart_eq, he]
  simp only
  rw [hsz, Space.read_chain sp ss hss fill P fatSec difSec hP hf hd c D hPc hok]
  congr 2
  split
  · exact padChunks_flatten_take ss fill hss _ D (Nat.le_refl _)
  · rename_i h
    have : D = [] := List.eq_nil_of_length_eq_zero (by omega)
    subst this
    simp [padChunks]

end Cfb
