import CalVerif.Spec.CfbLayout
/-! Helper lemmas for C13 (compound-file reader model `Model/Cfb.lean`, encoder `Spec/CfbLayout.lean`). -/
namespace Cfb

/-! ## little-endian round trips -/

theorem le32_val (v : Nat) (rest : Bytes) (h : v < 4294967296) :
    u32s (le32 v ++ rest) = v :: u32s rest := by
  simp only [le32, List.cons_append, List.nil_append, u32s]
  congr 1
  simp only [UInt8.toNat_ofNat']
  omega

theorem u32s_le32s (vs : List Nat) (h : ∀ v ∈ vs, v < 4294967296) : u32s (le32s vs) = vs := by
  induction vs with
  | nil => simp [le32s, u32s]
  | cons v vs ih =>
    simp only [le32s, List.flatMap_cons]
    rw [le32_val v _ (h v (by simp))]
    congr 1
    exact ih (fun w hw => h w (by simp [hw]))

end Cfb
