import CalVerif.Model.OdsCell
/-! Helper lemmas for the attribute loop of `get_datatype` (C04). -/
namespace OdsCell

/-- the formula after the attributes `l`: the last `table:formula` wins -/
def formulaAfter (f0 : String) (l : List Attr) : String :=
  l.foldl (fun f a => (a.formulaOf).getD f) f0

/-- `is_string` after the attributes `l` (no value attribute seen): the last `office:value-type` decides -/
def stringAfter (b0 : Bool) (l : List Attr) : Bool :=
  l.foldl (fun b a => match a with | .valueType raw => decide (raw = "string") | _ => b) b0

theorem loop_append : ∀ (l1 l2 : List Attr) (s : St),
    loop s (l1 ++ l2) = (loop s l1).bind fun s' => loop s' l2
  | [], l2, s => rfl
  | a :: l1, l2, s => by
    simp only [List.cons_append, loop]
    cases step s a with
    | none => rfl
    | some s' => exact loop_append l1 l2 s'

/-- once a value is set, only the formula can still change -/
theorem loop_set : ∀ (l : List Attr) (s : St), s.isValueSet = true →
    loop s l = some { s with formula := formulaAfter s.formula l }
  | [], s, _ => rfl
  | a :: l, s, h => by
    obtain ⟨v, vs, st, f⟩ := s
    simp only at h; subst h
    cases a <;> simp only [loop, step, if_true, formulaAfter, List.foldl_cons, Attr.formulaOf, Option.getD_none,
      Option.getD_some] <;> exact loop_set l _ rfl

/-- before any value attribute: the value stays, `is_string` and the formula follow the last such attribute -/
theorem loop_unset : ∀ (l : List Attr) (s : St), s.isValueSet = false → (∀ x ∈ l, x.isValue = false) →
    loop s l = some { s with formula := formulaAfter s.formula l, isString := stringAfter s.isString l }
  | [], s, _, _ => rfl
  | a :: l, s, h, hl => by
    obtain ⟨v, vs, st, f⟩ := s
    simp only at h; subst h
    have ha := hl a (by simp)
    have hl' : ∀ x ∈ l, x.isValue = false := fun x hx => hl x (by simp [hx])
    cases a <;>
      first
      | (simp [Attr.isValue] at ha; done)
      | (simp only [loop, step, formulaAfter, stringAfter, List.foldl_cons, Attr.formulaOf, Option.getD_none,
          Option.getD_some, Bool.false_eq_true, if_false]
         exact loop_unset l _ rfl hl')

theorem formulaAfter_append (f0 : String) (l1 l2 : List Attr) :
    formulaAfter f0 (l1 ++ l2) = formulaAfter (formulaAfter f0 l1) l2 := by
  simp [formulaAfter, List.foldl_append]

end OdsCell
