import CalVerif.Spec.OdsCell
/-! Helper lemmas for the attribute loop of `get_datatype` (C04). -/
namespace OdsCell

theorem loop_append : ∀ (l1 l2 : List Attr) (s : St),
    loop s (l1 ++ l2) = (loop s l1).bind fun s' => loop s' l2
  | [], l2, s => rfl
  | a :: l1, l2, s => by
    simp only [List.cons_append, loop]
    cases step s a with
    | none => rfl
    | some s' => exact loop_append l1 l2 s'

/-- once a value is set, only the formula can still change -/
theorem loop_set : ∀ (l : List Attr) (s : St), s.isValueSet = true →
    loop s l = some { s with formula := formulaAfter s.formula l }
  | [], s, _ => rfl
  | a :: l, s, h => by
    obtain ⟨v, vs, st, f⟩ := s
    simp only at h; subst h
    cases a <;> simp only [loop, step, if_true, formulaAfter, List.foldl_cons, Attr.formulaOf, Option.getD_none,
      Option.getD_some] <;> exact loop_set l _ rfl

/-- before any value attribute: the value stays, `is_string` and the formula follow the last such attribute -/
theorem loop_unset : ∀ (l : List Attr) (s : St), s.isValueSet = false → (∀ x ∈ l, x.isValue = false) →
    loop s l = some { s with formula := formulaAfter s.formula l, isString := stringAfter s.isString l }
  | [], s, _, _ => rfl
  | a :: l, s, h, hl => by
    obtain ⟨v, vs, st, f⟩ := s
    simp only at h; subst h
    have ha := hl a (by simp)
    have hl' : ∀ x ∈ l, x.isValue = false := fun x hx => hl x (by simp [hx])
    cases a <;>
      first
      | (simp [Attr.isValue] at ha; done)
      | (simp only [loop, step, formulaAfter, stringAfter, List.foldl_cons, Attr.formulaOf, Option.getD_none,
          Option.getD_some, Bool.false_eq_true, if_false]
         exact loop_unset l _ rfl hl')

theorem formulaAfter_append (f0 : String) (l1 l2 : List Attr) :
    formulaAfter f0 (l1 ++ l2) = formulaAfter (formulaAfter f0 l1) l2 := by
  simp [formulaAfter, List.foldl_append]

theorem getDatatype_first_value (pre post : List Attr) (a : Attr) (ha : a.isValue = true) (hp : a ≠ .value none)
    (hpre : ∀ x ∈ pre, x.isValue = false) :
    getDatatype (pre ++ a :: post) = some ⟨a.valOf, formulaAfter "" (pre ++ a :: post), false⟩ := by
  unfold getDatatype
  rw [loop_append, loop_unset pre {} rfl hpre]
  simp only [Option.bind_some, loop]
  have hstep : step { formula := formulaAfter "" pre, isString := stringAfter false pre } a =
      some { val := a.valOf, isValueSet := true, isString := stringAfter false pre, formula := formulaAfter "" pre } := by
    cases a with
    | value parsed =>
      cases parsed with
      | none => exact absurd rfl hp
      | some bits => rfl
    | stringValue t => rfl
    | dateValue t => rfl
    | timeValue t => rfl
    | boolValue raw => rfl
    | valueType raw => simp [Attr.isValue] at ha
    | formula f => simp [Attr.isValue] at ha
    | other => simp [Attr.isValue] at ha
  rw [hstep]
  simp only
  rw [loop_set post _ rfl]
  simp only [Bool.not_true, Bool.false_and, Option.some.injEq, Out.mk.injEq, true_and, and_true]
  rw [formulaAfter_append]
  have : formulaAfter (formulaAfter "" pre) (a :: post) = formulaAfter (formulaAfter "" pre) post := by
    cases a <;> first | rfl | (simp [Attr.isValue] at ha; done)
  rw [this]

theorem getDatatype_no_value (attrs : List Attr) (h : ∀ x ∈ attrs, x.isValue = false) :
    getDatatype attrs = some ⟨.empty, formulaAfter "" attrs, stringAfter false attrs⟩ := by
  unfold getDatatype
  rw [loop_unset attrs {} rfl h]
  simp

/-- `get_datatype`'s attribute loop computes `cellValue` / `cellFormula` (`content` is only used when the
    result says so) -/
theorem getDatatype_spec (attrs : List Attr) (hp : attrs.find? Attr.isValue ≠ some (.value none)) :
    ∃ o, getDatatype attrs = some o ∧ o.formula = cellFormula attrs ∧
      (o.useText = false → ∀ content, cellValue attrs content = o.val) ∧
      (o.useText = true → attrs.find? Attr.isValue = none ∧ stringAfter false attrs = true ∧
        ∀ content, cellValue attrs content = .str content) := by
  cases hf : attrs.find? Attr.isValue with
  | some a =>
    obtain ⟨ha, pre, post, rfl, hpre⟩ := List.find?_eq_some_iff_append.1 hf
    refine ⟨_, getDatatype_first_value pre post a ha (by rw [hf] at hp; intro h; exact hp (by rw [h]))
      (fun x hx => by simpa using hpre x hx), rfl, ?_, ?_⟩
    · intro _ content; simp only [cellValue, hf]
    · intro h; simp at h
  | none =>
    have hall : ∀ x ∈ attrs, x.isValue = false := by
      intro x hx
      have := List.find?_eq_none.1 hf x hx
      simpa using this
    refine ⟨_, getDatatype_no_value attrs hall, rfl, ?_, ?_⟩
    · intro h content
      simp at h
      simp only [cellValue, hf, h, Bool.false_eq_true, if_false]
    · intro h
      simp at h
      exact ⟨rfl, h, fun content => by simp only [cellValue, hf, h, if_true]⟩

/-- with every `office:value-type` equal to `string` (and at least one present) the type is string -/
theorem stringAfter_of_all (attrs : List Attr) (b0 : Bool)
    (hall : ∀ raw, Attr.valueType raw ∈ attrs → raw = "string")
    (hex : b0 = true ∨ Attr.valueType "string" ∈ attrs) : stringAfter b0 attrs = true := by
  induction attrs generalizing b0 with
  | nil => rcases hex with h | h; exact h; simp at h
  | cons a rest ih =>
    simp only [stringAfter, List.foldl_cons]
    have hall' : ∀ raw, Attr.valueType raw ∈ rest → raw = "string" := fun raw h => hall raw (by simp [h])
    cases a with
    | valueType raw =>
      have : raw = "string" := hall raw (by simp)
      subst this
      exact ih true hall' (Or.inl rfl)
    | value p => exact ih b0 hall' (by rcases hex with h | h; exact Or.inl h; right; simpa using h)
    | stringValue p => exact ih b0 hall' (by rcases hex with h | h; exact Or.inl h; right; simpa using h)
    | dateValue p => exact ih b0 hall' (by rcases hex with h | h; exact Or.inl h; right; simpa using h)
    | timeValue p => exact ih b0 hall' (by rcases hex with h | h; exact Or.inl h; right; simpa using h)
    | boolValue p => exact ih b0 hall' (by rcases hex with h | h; exact Or.inl h; right; simpa using h)
    | formula p => exact ih b0 hall' (by rcases hex with h | h; exact Or.inl h; right; simpa using h)
    | other => exact ih b0 hall' (by rcases hex with h | h; exact Or.inl h; right; simpa using h)

end OdsCell
