import CalVerif.Spec.Formula
/-! Helper lemmas for Props/C14 (formula tokens). -/

namespace Ptg
open Formula

theorem toNat_ofNat_valid (n : Nat) (h : n.isValidChar) : (Char.ofNat n).toNat = n := by
  simp [Char.toNat, Char.ofNat, h, Char.ofNatAux]

theorem toNat_letter (k : Nat) (h : k < 26) : (Char.ofNat (65 + k)).toNat = 65 + k :=
  toNat_ofNat_valid _ (by left; omega)

theorem colLettersRev_succ (n : Nat) :
    colLettersRev (n + 1) = Char.ofNat (65 + n % 26) :: colLettersRev (n / 26) := by
  rw [colLettersRev]; simp

theorem foldl_letters (m : Nat) :
    (colLettersRev m).reverse.foldl (fun acc c => acc * 26 + (c.toNat - 64)) 0 = m := by
  induction m using Nat.strongRecOn with
  | _ m ih =>
    rw [colLettersRev]
    by_cases h : m = 0
    · simp [h]
    · simp only [h, if_false, List.reverse_cons, List.foldl_append, List.foldl_cons, List.foldl_nil]
      rw [ih _ (by omega), toNat_letter _ (by omega)]
      omega

end Ptg
