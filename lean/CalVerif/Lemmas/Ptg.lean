import CalVerif.Spec.Formula
/-! Helper lemmas for Props/C14 (formula tokens). -/

namespace Ptg
open Formula

theorem toNat_ofNat_valid (n : Nat) (h : n.isValidChar) : (Char.ofNat n).toNat = n := by
  simp [Char.toNat, Char.ofNat, h, Char.ofNatAux]

theorem toNat_letter (k : Nat) (h : k < 26) : (Char.ofNat (65 + k)).toNat = 65 + k :=
  toNat_ofNat_valid _ (by left; omega)

theorem colLettersRev_succ (n : Nat) :
    colLettersRev (n + 1) = Char.ofNat (65 + n % 26) :: colLettersRev (n / 26) := by
  rw [colLettersRev]; simp

theorem foldl_letters (m : Nat) :
    (colLettersRev m).reverse.foldl (fun acc c => acc * 26 + (c.toNat - 64)) 0 = m := by
  induction m using Nat.strongRecOn with
  | _ m ih =>
    rw [colLettersRev]
    by_cases h : m = 0
    · simp [h]
    · simp only [h, if_false, List.reverse_cons, List.foldl_append, List.foldl_cons, List.foldl_nil]
      rw [ih _ (by omega), toNat_letter _ (by omega)]
      omega

/-- the loop of `push_column` computes the textbook spreadsheet column name -/
theorem pushColumn_eq_colName (n : Nat) : pushColumn n = colName n := by
  induction n using Nat.strongRecOn with
  | _ n ih =>
    unfold pushColumn
    rw [colLettersRev_succ, colName]
    by_cases h : n < 26
    · have : n / 26 = 0 := by omega
      have h2 : n % 26 = n := by omega
      simp [h, this, h2, colLettersRev]
    · have h1 : n / 26 = (n / 26 - 1) + 1 := by omega
      have := ih (n / 26 - 1) (by omega)
      unfold pushColumn at this
      rw [← h1] at this
      simp [h, this]

end Ptg

/-! ## the abstract stack machine -/

namespace Formula
open Ptg

/-- the edits of a token list, one after the other -/
def runActs : List Act → St → Res St
  | [], s => .ok s
  | a :: as, s =>
    match applyAct a s with
    | .ok s' => runActs as s'
    | .err e => .err e
    | .panic e => .panic e
    | .outOfFuel => .outOfFuel

/-- what each token does to (text, stack): the reading of the token language the property describes -/
def actOf (env : Env) (checked : Bool) : Tok → Act
  | .ref _ a => .push (cellText a)
  | .area _ a b => .push (cellText a ++ ':' :: cellText b)
  | .ref3d _ i a => .push (env.sheet i ++ '!' :: cellText a)
  | .area3d _ i a b => .push (env.sheet i ++ '!' :: cellText a ++ ':' :: cellText b)
  | .refErr _ => .push "#REF!".toList
  | .areaErr _ => .push "#REF!".toList
  | .refErr3d _ i => .push (env.sheet i ++ '!' :: "#REF!".toList)
  | .areaErr3d _ i => .push (env.sheet i ++ '!' :: "#REF!".toList)
  | .name _ i => .push (env.name i)
  | .int n => .push (natText n)
  | .num b => .push (env.fmtNum b)
  | .str _ s => .push ('"' :: s ++ ['"'])
  | .bool b => .push (if b then "TRUE".toList else "FALSE".toList)
  | .err code => .push (errName code)
  | .missArg => .push []
  | .binop op => .binop (opName op)
  | .uplus => .pre '+'
  | .uminus => .pre '-'
  | .percent => .percent
  | .paren => .paren
  | .attrSum => .sum
  | .attrSkip _ _ => .nop
  | .attrChoose _ => .nop
  | .func _ iftab => .func iftab ((Gen.ftabArgc[iftab]?).getD 0) checked
  | .funcVar _ argc iftab => .func iftab argc checked

mutual
/-- arities match: a fixed-arity function node has as many arguments as `FTAB_ARGC` says -/
def Expr.arityOk : Expr → Prop
  | .uplus e => e.arityOk
  | .uminus e => e.arityOk
  | .percent e => e.arityOk
  | .paren e => e.arityOk
  | .sum e => e.arityOk
  | .bin _ a b => a.arityOk ∧ b.arityOk
  | .func _ iftab args => iftab < Gen.ftabLen ∧ Gen.ftabArgc[iftab]? = some args.length ∧ argsOk args
  | .funcVar _ iftab args => iftab < Gen.ftabLen ∧ argsOk args
  | .inert t e => t.isInert = true ∧ e.arityOk
  | _ => True
def argsOk : List Expr → Prop
  | [] => True
  | a :: rest => a.arityOk ∧ argsOk rest
end

def argOffs (env : Env) (base : Nat) : List Expr → List Nat
  | [] => []
  | a :: rest => base :: argOffs env (base + (renderA1 env a).length) rest

def concatArgs (env : Env) : List Expr → List Char
  | [] => []
  | a :: rest => renderA1 env a ++ concatArgs env rest

theorem argOffs_length (env : Env) (base : Nat) (args : List Expr) :
    (argOffs env base args).length = args.length := by
  induction args generalizing base with
  | nil => rfl
  | cons a rest ih => simp [argOffs, ih]

theorem joinArgs_concat (env : Env) (pre : List Char) (args : List Expr) (hne : args ≠ []) :
    joinArgs (pre ++ concatArgs env args)
      (argOffs env pre.length args ++ [pre.length + (concatArgs env args).length]) = .ok (renderArgs env args) := by
  induction args generalizing pre with
  | nil => exact absurd rfl hne
  | cons a rest ih =>
    cases rest with
    | nil =>
      simp [argOffs, joinArgs, concatArgs, renderArgs]
    | cons b rest' =>
      have ih' := ih (pre ++ renderA1 env a) (by simp)
      simp only [List.length_append, List.append_assoc] at ih'
      have hne2 : (argOffs env (pre.length + (renderA1 env a).length + (renderA1 env b).length) rest' ++
          [pre.length + ((renderA1 env a).length + ((renderA1 env b).length + (concatArgs env rest').length))]).isEmpty = false := by
        simp
      have hslice : List.take (pre.length + (renderA1 env a).length - pre.length)
          (List.drop pre.length (pre ++ (renderA1 env a ++ (renderA1 env b ++ concatArgs env rest')))) = renderA1 env a := by
        rw [List.drop_left' rfl]; simp
      simp only [argOffs, concatArgs, renderArgs, List.cons_append, List.length_append] at *
      rw [joinArgs]
      simp only [hne2]
      simp only [Nat.add_assoc] at ih' hslice ⊢
      rw [ih', hslice]
      simp

theorem not_add_lt (a b : Nat) : ¬ a + b < a := by omega

theorem insertAt_append (buf r : List Char) (c : Char) :
    insertAt (buf ++ r) buf.length c = buf ++ c :: r := by
  simp [insertAt, List.take_left', List.drop_left']

theorem argOffs_shift (env : Env) (base k : Nat) (l : List Expr) :
    (argOffs env (base + k) l).map (· - base) = argOffs env k l := by
  induction l generalizing k with
  | nil => rfl
  | cons x xs ih => simp [argOffs, Nat.add_assoc, ih]

theorem argOffs_ge (env : Env) (base : Nat) (l : List Expr) : ∀ x ∈ argOffs env base l, base ≤ x := by
  induction l generalizing base with
  | nil => simp [argOffs]
  | cons a rest ih =>
    intro x hx
    simp only [argOffs, List.mem_cons] at hx
    rcases hx with rfl | hx
    · exact Nat.le_refl _
    · have := ih _ x hx; omega

theorem ftabName_some (iftab : Nat) (h : iftab < Gen.ftabLen) : ftabName iftab = some (funcName iftab) := by
  have hs : Gen.ftab.size = Gen.ftabLen := by decide +kernel
  have : iftab < Gen.ftab.size := by omega
  simp [ftabName, funcName, this]

/-- the func edit on a state whose top `args.length` stack entries are the starts of the argument texts -/
theorem applyAct_func (env : Env) (iftab : Nat) (chk : Bool) (args : List Expr) (buf : List Char) (stk : List Nat)
    (hi : iftab < Gen.ftabLen) :
    applyAct (.func iftab args.length chk) ⟨buf ++ concatArgs env args, stk ++ argOffs env buf.length args⟩ =
      .ok ⟨buf ++ (funcName iftab ++ '(' :: renderArgs env args ++ [')']), stk ++ [buf.length]⟩ := by
  have hl : (argOffs env buf.length args).length = args.length := argOffs_length _ _ _
  cases args with
  | nil => simp [applyAct, argOffs, concatArgs, renderArgs, ftabName_some _ hi]
  | cons a rest' =>
    have hlt : ¬ (stk ++ argOffs env buf.length (a :: rest')).length < (a :: rest').length := by
      simp [hl]
    have hdrop : List.drop ((stk ++ argOffs env buf.length (a :: rest')).length - (a :: rest').length)
        (stk ++ argOffs env buf.length (a :: rest')) = argOffs env buf.length (a :: rest') := by
      rw [List.length_append, hl]; simp
    have htake : List.take ((stk ++ argOffs env buf.length (a :: rest')).length - (a :: rest').length)
        (stk ++ argOffs env buf.length (a :: rest')) = stk := by
      rw [List.length_append, hl]; simp
    have hpos : (a :: rest').length > 0 := by simp
    unfold applyAct
    simp only [hlt, if_false, hpos, if_true, hdrop, htake]
    have hany : (argOffs env buf.length (a :: rest')).any (· < (argOffs env buf.length (a :: rest')).headD 0) = false := by
      rw [List.any_eq_false]
      intro x hx
      have := argOffs_ge env buf.length (a :: rest') x hx
      simp [argOffs]; omega
    simp only [hany]
    have hhead : (argOffs env buf.length (a :: rest')).headD 0 = buf.length := by simp [argOffs]
    simp only [hhead]
    have hd : List.drop buf.length (buf ++ concatArgs env (a :: rest')) = concatArgs env (a :: rest') :=
      List.drop_left' rfl
    have htk : List.take buf.length (buf ++ concatArgs env (a :: rest')) = buf := List.take_left' rfl
    have hle : ¬ buf.length > (buf ++ concatArgs env (a :: rest')).length := by simp
    simp only [hd, htk, ftabName_some _ hi, hle]
    have hrel := argOffs_shift env buf.length 0 (a :: rest')
    simp only [Nat.add_zero] at hrel
    rw [hrel]
    have hj := joinArgs_concat env [] (a :: rest') (by simp)
    simp only [List.nil_append, List.length_nil, Nat.zero_add] at hj
    rw [hj]
    simp

mutual
theorem machine_correct (env : Env) (chk : Bool) : ∀ (e : Expr), e.arityOk → ∀ (buf : List Char) (stk : List Nat) (rest : List Act),
    runActs ((toRpn e).map (actOf env chk) ++ rest) ⟨buf, stk⟩ =
      runActs rest ⟨buf ++ renderA1 env e, stk ++ [buf.length]⟩
  | .ref _ _, _, buf, stk, rest => by simp [toRpn, runActs, actOf, applyAct, renderA1]
  | .area _ _ _, _, buf, stk, rest => by simp [toRpn, runActs, actOf, applyAct, renderA1]
  | .ref3d _ _ _, _, buf, stk, rest => by simp [toRpn, runActs, actOf, applyAct, renderA1]
  | .area3d _ _ _ _, _, buf, stk, rest => by simp [toRpn, runActs, actOf, applyAct, renderA1]
  | .name _ _, _, buf, stk, rest => by simp [toRpn, runActs, actOf, applyAct, renderA1]
  | .int _, _, buf, stk, rest => by simp [toRpn, runActs, actOf, applyAct, renderA1]
  | .num _, _, buf, stk, rest => by simp [toRpn, runActs, actOf, applyAct, renderA1]
  | .str _ _, _, buf, stk, rest => by simp [toRpn, runActs, actOf, applyAct, renderA1]
  | .bool _, _, buf, stk, rest => by simp [toRpn, runActs, actOf, applyAct, renderA1]
  | .err _, _, buf, stk, rest => by simp [toRpn, runActs, actOf, applyAct, renderA1]
  | .missing, _, buf, stk, rest => by simp [toRpn, runActs, actOf, applyAct, renderA1]
  | .uplus e, h, buf, stk, rest => by
    simp only [toRpn, List.map_append, List.append_assoc, List.map_cons, List.map_nil, List.singleton_append]
    rw [machine_correct env chk e (by simpa [Expr.arityOk] using h)]
    simp [runActs, actOf, applyAct, renderA1, insertAt_append, not_add_lt]
  | .uminus e, h, buf, stk, rest => by
    simp only [toRpn, List.map_append, List.append_assoc, List.map_cons, List.map_nil, List.singleton_append]
    rw [machine_correct env chk e (by simpa [Expr.arityOk] using h)]
    simp [runActs, actOf, applyAct, renderA1, insertAt_append, not_add_lt]
  | .percent e, h, buf, stk, rest => by
    simp only [toRpn, List.map_append, List.append_assoc, List.map_cons, List.map_nil, List.singleton_append]
    rw [machine_correct env chk e (by simpa [Expr.arityOk] using h)]
    simp [runActs, actOf, applyAct, renderA1]
  | .paren e, h, buf, stk, rest => by
    simp only [toRpn, List.map_append, List.append_assoc, List.map_cons, List.map_nil, List.singleton_append]
    rw [machine_correct env chk e (by simpa [Expr.arityOk] using h)]
    simp [runActs, actOf, applyAct, renderA1, insertAt_append, not_add_lt]
  | .sum e, h, buf, stk, rest => by
    simp only [toRpn, List.map_append, List.append_assoc, List.map_cons, List.map_nil, List.singleton_append]
    rw [machine_correct env chk e (by simpa [Expr.arityOk] using h)]
    simp [runActs, actOf, applyAct, renderA1, List.take_left', List.drop_left', not_add_lt]
  | .bin op a b, h, buf, stk, rest => by
    have h' : a.arityOk ∧ b.arityOk := by simpa [Expr.arityOk] using h
    simp only [toRpn, List.map_append, List.append_assoc, List.map_cons, List.map_nil, List.singleton_append]
    rw [machine_correct env chk a h'.1, machine_correct env chk b h'.2]
    have ht : List.take (buf.length + (renderA1 env a).length) (buf ++ (renderA1 env a ++ renderA1 env b)) =
        buf ++ renderA1 env a := by
      rw [← List.append_assoc]; exact List.take_left' (by simp)
    have hd : List.drop (buf.length + (renderA1 env a).length) (buf ++ (renderA1 env a ++ renderA1 env b)) =
        renderA1 env b := by
      rw [← List.append_assoc]; exact List.drop_left' (by simp)
    simp [runActs, actOf, applyAct, renderA1, List.getLast?_append, List.dropLast_append_of_ne_nil, ht, hd, not_add_lt]
  | .func c iftab args, h, buf, stk, rest => by
    have h' : iftab < Gen.ftabLen ∧ Gen.ftabArgc[iftab]? = some args.length ∧ argsOk args := by
      simpa [Expr.arityOk] using h
    simp only [toRpn, List.map_append, List.append_assoc, List.map_cons, List.map_nil, List.singleton_append]
    rw [machine_correctArgs env chk args h'.2.2]
    simp only [runActs, actOf, h'.2.1, Option.getD_some]
    rw [applyAct_func env iftab chk args buf stk h'.1]
    simp [renderA1]
  | .funcVar c iftab args, h, buf, stk, rest => by
    have h' : iftab < Gen.ftabLen ∧ argsOk args := by simpa [Expr.arityOk] using h
    simp only [toRpn, List.map_append, List.append_assoc, List.map_cons, List.map_nil, List.singleton_append]
    rw [machine_correctArgs env chk args h'.2]
    simp only [runActs, actOf]
    rw [applyAct_func env iftab chk args buf stk h'.1]
    simp [renderA1]
  | .inert t e, h, buf, stk, rest => by
    have h' : t.isInert = true ∧ e.arityOk := by simpa [Expr.arityOk] using h
    have hn : actOf env chk t = .nop := by
      cases t <;> simp [Tok.isInert] at h' <;> rfl
    simp only [toRpn, List.map_append, List.append_assoc, List.map_cons, List.map_nil, List.singleton_append]
    rw [machine_correct env chk e h'.2, hn]
    simp [runActs, applyAct, renderA1]
theorem machine_correctArgs (env : Env) (chk : Bool) : ∀ (args : List Expr), argsOk args →
    ∀ (buf : List Char) (stk : List Nat) (rest : List Act),
    runActs ((toRpnArgs args).map (actOf env chk) ++ rest) ⟨buf, stk⟩ =
      runActs rest ⟨buf ++ concatArgs env args, stk ++ argOffs env buf.length args⟩
  | [], _, buf, stk, rest => by simp [toRpnArgs, concatArgs, argOffs]
  | a :: as, h, buf, stk, rest => by
    have h' : a.arityOk ∧ argsOk as := by simpa [argsOk] using h
    simp only [toRpnArgs, List.map_append, List.append_assoc]
    rw [machine_correct env chk a h'.1, machine_correctArgs env chk as h'.2]
    simp [concatArgs, argOffs, List.append_assoc]
end
/-! ## offsets stay sorted and inside the buffer -/

/-- stack entries are sorted and inside the buffer -/
def Inv (s : St) : Prop := s.stk.Pairwise (· ≤ ·) ∧ ∀ x ∈ s.stk, x ≤ s.buf.length

theorem joinArgs_ok (fargs : List Char) : ∀ (l : List Nat), l.Pairwise (· ≤ ·) → (∀ x ∈ l, x ≤ fargs.length) →
    ∃ t, joinArgs fargs l = .ok t
  | [], _, _ => ⟨[], by simp [joinArgs]⟩
  | [_], _, _ => ⟨[], by simp [joinArgs]⟩
  | a :: b :: rest, hp, hb => by
    have hab : a ≤ b := List.rel_of_pairwise_cons hp (List.mem_cons_self)
    have hbl : b ≤ fargs.length := hb b (by simp)
    have hrec := joinArgs_ok fargs (b :: rest) (List.Pairwise.of_cons hp) (fun x hx => hb x (by simp [hx]))
    obtain ⟨t, ht⟩ := hrec
    have hc : ¬ (a > b ∨ b > fargs.length) := by omega
    rw [joinArgs]
    simp only [hc, if_false]
    by_cases he : rest.isEmpty = true
    · simp [he]
    · simp only [he, ht]
      exact ⟨_, rfl⟩

theorem pairwise_append_single (l : List Nat) (n : Nat) (hp : l.Pairwise (· ≤ ·)) (hb : ∀ x ∈ l, x ≤ n) :
    (l ++ [n]).Pairwise (· ≤ ·) := by
  rw [List.pairwise_append]
  refine ⟨hp, by simp, ?_⟩
  intro a ha b hb'
  simp at hb'; subst hb'; exact hb a ha

theorem getLast_mem {l : List Nat} {e : Nat} (h : l.getLast? = some e) : e ∈ l := by
  exact List.mem_of_getLast? h

theorem inv_dropLast {buf buf' : List Char} {stk : List Nat} (h : Inv ⟨buf, stk⟩) (hl : buf.length ≤ buf'.length) :
    Inv ⟨buf', stk.dropLast⟩ := by
  obtain ⟨hp, hb⟩ := h
  refine ⟨hp.sublist (List.dropLast_sublist _), ?_⟩
  intro x hx
  have := hb x (List.dropLast_subset _ hx)
  simp only at this ⊢; omega

theorem inv_grow {buf buf' : List Char} {stk : List Nat} (h : Inv ⟨buf, stk⟩) (hl : buf.length ≤ buf'.length) :
    Inv ⟨buf', stk⟩ := by
  obtain ⟨hp, hb⟩ := h
  refine ⟨hp, ?_⟩
  intro x hx
  have := hb x hx
  simp only at this ⊢; omega

theorem inv_push {buf : List Char} {stk : List Nat} (t : List Char) (h : Inv ⟨buf, stk⟩) :
    Inv ⟨buf ++ t, stk ++ [buf.length]⟩ := by
  obtain ⟨hp, hb⟩ := h
  refine ⟨pairwise_append_single _ _ hp hb, ?_⟩
  intro x hx
  simp only [List.mem_append, List.mem_singleton] at hx
  simp only [List.length_append]
  rcases hx with hx | rfl
  · have := hb x hx; simp only at this; omega
  · omega

theorem last_le {buf : List Char} {stk : List Nat} {e : Nat} (h : Inv ⟨buf, stk⟩) (he : stk.getLast? = some e) :
    e ≤ buf.length := h.2 e (getLast_mem he)

theorem applyAct_push_like (_a : Act) (s : St) (h : Inv s) (e : Nat) (he : s.stk.getLast? = some e) :
    ¬ e > s.buf.length := by
  have := last_le (buf := s.buf) (stk := s.stk) h he
  omega

theorem applyAct_inv_simple (a : Act) (s : St) (h : Inv s) (hf : ∀ i n c, a ≠ .func i n c) :
    (∀ s', applyAct a s = .ok s' → Inv s') ∧ (∀ m, applyAct a s ≠ .panic m) := by
  obtain ⟨buf, stk⟩ := s
  cases a with
  | push t =>
    refine ⟨?_, by simp [applyAct]⟩
    intro s' hs; simp only [applyAct, Res.ok.injEq] at hs; subst hs; exact inv_push t h
  | binop op =>
    simp only [applyAct]
    cases he : stk.getLast? with
    | none => simp
    | some e =>
      have hle := last_le h he
      have : ¬ e > buf.length := by omega
      simp only [this, if_false]
      refine ⟨?_, by simp⟩
      intro s' hs; simp only [Res.ok.injEq] at hs; subst hs
      exact inv_dropLast h (by simp; omega)
  | pre c =>
    simp only [applyAct]
    cases he : stk.getLast? with
    | none => simp
    | some e =>
      have hle := last_le h he
      have : ¬ e > buf.length := by omega
      simp only [this, if_false]
      refine ⟨?_, by simp⟩
      intro s' hs; simp only [Res.ok.injEq] at hs; subst hs
      exact inv_grow h (by simp [insertAt]; omega)
  | percent =>
    refine ⟨?_, by simp [applyAct]⟩
    intro s' hs; simp only [applyAct, Res.ok.injEq] at hs; subst hs
    exact inv_grow h (by simp)
  | paren =>
    simp only [applyAct]
    cases he : stk.getLast? with
    | none => simp
    | some e =>
      have hle := last_le h he
      have : ¬ e > buf.length := by omega
      simp only [this, if_false]
      refine ⟨?_, by simp⟩
      intro s' hs; simp only [Res.ok.injEq] at hs; subst hs
      exact inv_grow h (by simp [insertAt]; omega)
  | sum =>
    simp only [applyAct]
    cases he : stk.getLast? with
    | none => simp
    | some e =>
      have hle := last_le h he
      have : ¬ e > buf.length := by omega
      simp only [this, if_false]
      refine ⟨?_, by simp⟩
      intro s' hs; simp only [Res.ok.injEq] at hs; subst hs
      exact inv_grow h (by simp; omega)
  | spaces c n =>
    simp only [applyAct]
    cases he : stk.getLast? with
    | none => simp
    | some e =>
      have hle := last_le h he
      have : ¬ (n > 0 ∧ e > buf.length) := by omega
      simp only [this, if_false]
      refine ⟨?_, by simp⟩
      intro s' hs; simp only [Res.ok.injEq] at hs; subst hs
      exact inv_grow h (by simp; omega)
  | nop =>
    refine ⟨?_, by simp [applyAct]⟩
    intro s' hs; simp only [applyAct, Res.ok.injEq] at hs; subst hs; exact h
  | func i n c => exact absurd rfl (hf i n c)

theorem ite_bool_false {α : Type} (b : Bool) (hb : b = false) (x y : α) :
    (if b = true then x else y) = y := by simp [hb]

theorem applyAct_inv_func (iftab argc : Nat) (chk : Bool) (s : St) (h : Inv s) :
    (∀ s', applyAct (.func iftab argc chk) s = .ok s' → Inv s') ∧
    (∀ m, applyAct (.func iftab argc chk) s = .panic m → False) := by
  obtain ⟨buf, stk⟩ := s
  obtain ⟨hp, hb⟩ := h
  simp only at hb
  unfold applyAct
  simp only
  by_cases hlen : stk.length < argc
  · simp [hlen]
  simp only [hlen, if_false]
  by_cases hpos : argc > 0
  · simp only [hpos, if_true]
    have hsplit : stk = stk.take (stk.length - argc) ++ stk.drop (stk.length - argc) := (List.take_append_drop _ _).symm
    generalize hk : stk.take (stk.length - argc) = keep at *
    generalize ha : stk.drop (stk.length - argc) = args at *
    have halen : args.length = argc := by rw [← ha]; simp; omega
    rw [hsplit] at hp hb
    rw [List.pairwise_append] at hp
    obtain ⟨hpk, hpa, hka⟩ := hp
    generalize hs0 : args.headD 0 = start0
    cases args with
    | nil => simp at halen; omega
    | cons start rest =>
      simp only [List.headD_cons] at hs0
      subst hs0
      have hstart_le : ∀ x ∈ start :: rest, start ≤ x := by
        intro x hx
        rcases List.mem_cons.mp hx with rfl | hx
        · exact Nat.le_refl _
        · exact List.rel_of_pairwise_cons hpa hx
      have hany : (start :: rest).any (· < start) = false := by
        rw [List.any_eq_false]; intro x hx; have := hstart_le x hx; simp; omega
      have hsb : start ≤ buf.length := hb start (by simp)
      have hnot : ¬ start > buf.length := by omega
      simp only [ite_bool_false _ hany]
      simp only [hnot, if_false]
      cases hn : ftabName iftab with
      | none => cases chk <;> simp
      | some name =>
        simp only
        have hj : ∃ t, joinArgs (buf.drop start) ((start :: rest).map (· - start) ++ [(buf.drop start).length]) = .ok t := by
          apply joinArgs_ok
          · apply pairwise_append_single
            · exact (List.Pairwise.map (· - start) (fun a b hab => Nat.sub_le_sub_right hab start) hpa)
            · intro x hx
              obtain ⟨y, hy, rfl⟩ := List.mem_map.mp hx
              have := hb y (by simp only [List.mem_append]; exact Or.inr hy)
              simp only [List.length_drop]; omega
          · intro x hx
            simp only [List.mem_append, List.mem_singleton] at hx
            rcases hx with hx | rfl
            · obtain ⟨y, hy, rfl⟩ := List.mem_map.mp hx
              have := hb y (by simp only [List.mem_append]; exact Or.inr hy)
              simp only [List.length_drop]; omega
            · exact Nat.le_refl _
        obtain ⟨t, ht⟩ := hj
        simp only [ht]
        refine ⟨?_, by simp⟩
        intro s' hs; simp only [Res.ok.injEq] at hs; subst hs
        have htl : (buf.take start).length = start := by simp; omega
        refine ⟨?_, ?_⟩
        · simp only [htl]
          apply pairwise_append_single _ _ hpk
          intro x hx; exact hka x hx start (by simp)
        · intro x hx
          simp only [htl, List.mem_append, List.mem_singleton] at hx
          simp only [List.length_append, htl]
          rcases hx with hx | rfl
          · have := hka x hx start (by simp); omega
          · omega
  · simp only [hpos, if_false]
    cases hn : ftabName iftab with
    | none => simp
    | some name =>
      simp only
      refine ⟨?_, by simp⟩
      intro s' hs; simp only [Res.ok.injEq] at hs; subst hs
      have := inv_push (buf := buf) (stk := stk) (name ++ ['(', ')']) ⟨hp, hb⟩
      simpa [List.append_assoc] using this

/-- every edit keeps the offsets sorted and inside the buffer, and no edit panics from such a state:
    `split_off`, `insert`, `*s -= start` and the `fargs[..]` slices never fail (the function name is looked up
    with `FTAB.get`) -/
theorem applyAct_inv (a : Act) (s : St) (h : Inv s) :
    (∀ s', applyAct a s = .ok s' → Inv s') ∧ (∀ m, applyAct a s = .panic m → False) := by
  by_cases hf : ∃ i n c, a = .func i n c
  · obtain ⟨i, n, c, rfl⟩ := hf
    exact applyAct_inv_func i n c s h
  · have hf' : ∀ i n c, a ≠ .func i n c := fun i n c he => hf ⟨i, n, c, he⟩
    have := applyAct_inv_simple a s h hf'
    exact ⟨this.1, fun m hm => this.2 m hm⟩

theorem runActs_inv (as : List Act) (s : St) (h : Inv s) :
    (∀ s', runActs as s = .ok s' → Inv s') ∧ (∀ m, runActs as s = .panic m → False) := by
  induction as generalizing s with
  | nil => simp [runActs]; exact h
  | cons a as ih =>
    have ha := applyAct_inv a s h
    simp only [runActs]
    cases hr : applyAct a s with
    | ok s1 => simp only; exact ih s1 (ha.1 s1 hr)
    | err e => simp
    | panic m => exact absurd hr (fun h => ha.2 m h)
    | outOfFuel => simp

theorem inv_init : Inv ⟨[], []⟩ := ⟨List.Pairwise.nil, by simp⟩
end Formula
