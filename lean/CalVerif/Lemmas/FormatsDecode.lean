import CalVerif.Spec.StylesEnc
import CalVerif.Lemmas.FormatsCompose
import CalVerif.Lemmas.Metadata
/-! Lemmas for the style-table decoders (`Model/FormatsDecode.lean`): no panic on arbitrary input, and
    decode ∘ encode = the logical style table for each container (`Spec/StylesEnc.lean`). -/
namespace Formats
open StylesEnc NumFmt

/-! ## no panic -/

theorem detect_ne_panic (cs : List Char) (m : String) : detect cs ≠ .panic m := scan_no_panic St.init cs m

theorem detectAll_ne_panic (m : String) : ∀ (defs : List (Nat × List Char)), detectAll defs ≠ .panic m
  | [] => by simp [detectAll]
  | d :: ds => by
    have h1 := detect_ne_panic d.2 m
    have h2 := detectAll_ne_panic m ds
    unfold detectAll
    cases hd : detect d.2 with
    | ok f => cases hr : detectAll ds <;> simp_all
    | err e => simp
    | panic x => simp_all
    | outOfFuel => simp

theorem xlsStyles_ne_panic (defs : List (Nat × List Char)) (xfs : List Nat) (m : String) :
    xlsStyles defs xfs ≠ .panic m := by
  have := detectAll_ne_panic m defs
  unfold xlsStyles
  cases h : detectAll defs <;> simp_all

theorem xlsbStyles_ne_panic (defs : List (Nat × List Char)) (xfs : List Nat) (m : String) :
    xlsbStyles defs xfs ≠ .panic m := by
  have := detectAll_ne_panic m defs
  unfold xlsbStyles
  cases h : detectAll defs <;> simp_all

theorem xlsxStyles_ne_panic (defs : List (List UInt8 × List Char)) (m : String) :
    ∀ (xfs : List (Option (List UInt8))), xlsxStyles defs xfs ≠ .panic m
  | [] => by simp [xlsxStyles]
  | xf :: xfs => by
    have ih := xlsxStyles_ne_panic defs m xfs
    unfold xlsxStyles
    cases xf with
    | none => cases h : xlsxStyles defs xfs <;> simp_all
    | some id =>
      simp only
      cases hl : lastDef (defs.filter fun d => !d.2.isEmpty) id with
      | none => cases h : xlsxStyles defs xfs <;> simp_all
      | some fmt =>
        have hd := detect_ne_panic fmt m
        cases hdd : detect fmt with
        | ok f => cases h : xlsxStyles defs xfs <;> simp_all
        | err e => simp [hdd]
        | panic x => simp_all
        | outOfFuel => simp [hdd]

theorem xlsParseXf_ne_panic (d : Bytes) (m : String) : xlsParseXf d ≠ .panic m := by
  unfold xlsParseXf; split <;> simp

theorem xlsParseFormat_ne_panic (d : Bytes) (m : String) : xlsParseFormat d ≠ .panic m := by
  unfold xlsParseFormat; split <;> simp

theorem xlsStyleFold_ne_panic (m : String) : ∀ (recs : List (Nat × Bytes)) (defs : List (Nat × List Char)) (xfs : List Nat),
    xlsStyleFold recs defs xfs ≠ .panic m
  | [], _, _ => by simp [xlsStyleFold]
  | (typ, data) :: rest, defs, xfs => by
    unfold xlsStyleFold
    split
    · simp
    · split
      · have := xlsParseFormat_ne_panic data m
        cases h : xlsParseFormat data with
        | ok d => exact xlsStyleFold_ne_panic m rest _ _
        | err e => simp
        | panic x => simp_all
        | outOfFuel => simp
      · split
        · have := xlsParseXf_ne_panic data m
          cases h : xlsParseXf data with
          | ok d => exact xlsStyleFold_ne_panic m rest _ _
          | err e => simp
          | panic x => simp_all
          | outOfFuel => simp
        · exact xlsStyleFold_ne_panic m rest _ _

theorem xlsStylesOfRecords_ne_panic (recs : List (Nat × Bytes)) (m : String) : xlsStylesOfRecords recs ≠ .panic m := by
  have h1 := xlsStyleFold_ne_panic m recs [] []
  unfold xlsStylesOfRecords
  cases h : xlsStyleFold recs [] [] with
  | ok p => exact xlsStyles_ne_panic p.1 p.2 m
  | err e => simp
  | panic x => simp_all
  | outOfFuel => simp

theorem xlsStyleStream_ne_panic (m : String) : ∀ (fuel : Nat) (s : Bytes) (defs : List (Nat × List Char)) (xfs : List Nat),
    xlsStyleStream fuel s defs xfs ≠ .panic m
  | 0, _, _, _ => by simp [xlsStyleStream]
  | fuel + 1, s, defs, xfs => by
    unfold xlsStyleStream
    cases hn : Biff.nextRecord s with
    | none => simp
    | some x =>
      cases x with
      | ok p =>
        simp only
        split
        · simp
        · split
          · have := xlsParseFormat_ne_panic p.1.data m
            cases h : xlsParseFormat p.1.data with
            | ok d => exact xlsStyleStream_ne_panic m fuel _ _ _
            | err e => simp
            | panic x => simp_all
            | outOfFuel => simp
          · split
            · have := xlsParseXf_ne_panic p.1.data m
              cases h : xlsParseXf p.1.data with
              | ok d => exact xlsStyleStream_ne_panic m fuel _ _ _
              | err e => simp
              | panic x => simp_all
              | outOfFuel => simp
            · exact xlsStyleStream_ne_panic m fuel _ _ _
      | err e => simp
      | panic x => exact absurd hn (Biff.nextRecord_noPanic s x)
      | outOfFuel => simp

theorem xlsStylesOfStream_ne_panic (s : Bytes) (m : String) : xlsStylesOfStream s ≠ .panic m := by
  have h1 := xlsStyleStream_ne_panic m (s.length + 1) s [] []
  unfold xlsStylesOfStream
  cases h : xlsStyleStream (s.length + 1) s [] [] with
  | ok p => exact xlsStyles_ne_panic p.1 p.2 m
  | err e => simp
  | panic x => simp_all
  | outOfFuel => simp

theorem xlsbFmtLoop_ne_panic (m : String) : ∀ (n : Nat) (bs : Bytes) (defs : List (Nat × List Char)),
    xlsbFmtLoop n bs defs ≠ .panic m
  | 0, _, _ => by simp [xlsbFmtLoop]
  | n + 1, bs, defs => by
    unfold xlsbFmtLoop
    have h1 := Xlsb.nextSkipBlocks_ne_panic 0x002C [] m (bs.length + 1) [] bs
    cases h : Xlsb.nextSkipBlocks 0x002C [] (bs.length + 1) [] bs with
    | ok p =>
      simp only
      split
      · simp
      · have h2 := Xlsb.wideStr_ne_panic (p.2.1.drop 2) m
        cases hw : Xlsb.wideStr (p.2.1.drop 2) with
        | ok q => exact xlsbFmtLoop_ne_panic m n _ _
        | err e => simp
        | panic x => simp_all
        | outOfFuel => simp
    | err e => simp
    | panic x => simp_all
    | outOfFuel => simp

theorem xlsbXfLoop_ne_panic (m : String) : ∀ (n : Nat) (bs : Bytes) (xfs : List Nat), xlsbXfLoop n bs xfs ≠ .panic m
  | 0, _, _ => by simp [xlsbXfLoop]
  | n + 1, bs, xfs => by
    unfold xlsbXfLoop
    have h1 := Xlsb.nextSkipBlocks_ne_panic 0x002F [] m (bs.length + 1) [] bs
    cases h : Xlsb.nextSkipBlocks 0x002F [] (bs.length + 1) [] bs with
    | ok p =>
      simp only
      split
      · simp
      · exact xlsbXfLoop_ne_panic m n _ _
    | err e => simp
    | panic x => simp_all
    | outOfFuel => simp

theorem xlsbStylesLoop_ne_panic (m : String) : ∀ (fuel : Nat) (bs : Bytes) (defs : List (Nat × List Char)),
    xlsbStylesLoop fuel bs defs ≠ .panic m
  | 0, _, _ => by simp [xlsbStylesLoop]
  | fuel + 1, bs, defs => by
    unfold xlsbStylesLoop
    have h1 := Xlsb.readType_ne_panic bs m
    cases ht : Xlsb.readType bs with
    | ok p =>
      simp only
      have h2 := Xlsb.fillBuffer_ne_panic [] p.2 m
      cases hf : Xlsb.fillBuffer [] p.2 with
      | ok q =>
        simp only
        split
        · split
          · simp
          · have h3 := xlsbFmtLoop_ne_panic m (Xlsb.u32le q.2.1) q.2.2 defs
            cases hl : xlsbFmtLoop (Xlsb.u32le q.2.1) q.2.2 defs with
            | ok r => exact xlsbStylesLoop_ne_panic m fuel _ _
            | err e => simp
            | panic x => simp_all
            | outOfFuel => simp
        · split
          · split
            · simp
            · have h3 := xlsbXfLoop_ne_panic m (Xlsb.u32le q.2.1) q.2.2 []
              cases hl : xlsbXfLoop (Xlsb.u32le q.2.1) q.2.2 [] with
              | ok r => simp
              | err e => simp
              | panic x => simp_all
              | outOfFuel => simp
          · exact xlsbStylesLoop_ne_panic m fuel _ _
      | err e => simp
      | panic x => simp_all
      | outOfFuel => simp
    | err e => simp
    | panic x => simp_all
    | outOfFuel => simp

theorem xlsbStylesOfBytes_ne_panic (bs : Bytes) (m : String) : xlsbStylesOfBytes bs ≠ .panic m := by
  have h1 := xlsbStylesLoop_ne_panic m (bs.length + 1) bs []
  unfold xlsbStylesOfBytes
  cases h : xlsbStylesLoop (bs.length + 1) bs [] with
  | ok p => exact xlsbStyles_ne_panic p.1 p.2 m
  | err e => simp
  | panic x => simp_all
  | outOfFuel => simp

theorem xlsxStylesLoop_ne_panic (m : String) : ∀ (evs : List SEv) (mode : SMode) (defs : List (Bytes × List Char))
    (fmts : List CellFormat), xlsxStylesLoop mode evs defs fmts ≠ .panic m
  | [], mode, _, _ => by cases mode <;> simp [xlsxStylesLoop]
  | ev :: rest, .top, defs, fmts => by
    unfold xlsxStylesLoop
    cases ev with
    | start n a =>
      simp only
      split
      · exact xlsxStylesLoop_ne_panic m rest _ _ _
      · split <;> exact xlsxStylesLoop_ne_panic m rest _ _ _
    | end_ n =>
      simp only
      split
      · simp
      · exact xlsxStylesLoop_ne_panic m rest _ _ _
    | other => exact xlsxStylesLoop_ne_panic m rest _ _ _
  | ev :: rest, .numFmts, defs, fmts => by
    unfold xlsxStylesLoop
    cases ev with
    | start n a =>
      simp only
      split
      · cases attr "formatCode" a with
        | none => exact xlsxStylesLoop_ne_panic m rest _ _ _
        | some code =>
          simp only
          cases Utf8.utf8Decode (code.map (·.toNat)) with
          | none => simp
          | some cs => exact xlsxStylesLoop_ne_panic m rest _ _ _
      · exact xlsxStylesLoop_ne_panic m rest _ _ _
    | end_ n =>
      simp only
      split <;> exact xlsxStylesLoop_ne_panic m rest _ _ _
    | other => exact xlsxStylesLoop_ne_panic m rest _ _ _
  | ev :: rest, .cellXfs, defs, fmts => by
    unfold xlsxStylesLoop
    cases ev with
    | start n a =>
      simp only
      split
      · have h1 := xlsxStyles_ne_panic defs m [(attr "numFmtId" a).map formatId]
        cases h : xlsxStyles defs [(attr "numFmtId" a).map formatId] with
        | ok cls => exact xlsxStylesLoop_ne_panic m rest _ _ _
        | err e => simp
        | panic x => simp_all
        | outOfFuel => simp
      · exact xlsxStylesLoop_ne_panic m rest _ _ _
    | end_ n =>
      simp only
      split <;> exact xlsxStylesLoop_ne_panic m rest _ _ _
    | other => exact xlsxStylesLoop_ne_panic m rest _ _ _

theorem xlsxStylesOfEvents_ne_panic (evs : List SEv) (m : String) : xlsxStylesOfEvents evs ≠ .panic m :=
  xlsxStylesLoop_ne_panic m evs .top [] []

/-! ## text -/

theorem utf16Decode_bmp (u : Nat) (rest : List Nat) (h : u < 0xD800 ∨ 0xDFFF < u) :
    utf16Decode (u :: rest) = Char.ofNat u :: utf16Decode rest := by
  cases rest with
  | nil =>
    have : ¬ (0xD800 ≤ u ∧ u < 0xE000) := by omega
    simp [utf16Decode, this]
  | cons v rest =>
    have h1 : ¬ (0xD800 ≤ u ∧ u < 0xDC00) := by omega
    have h2 : ¬ (0xDC00 ≤ u ∧ u < 0xE000) := by omega
    simp [utf16Decode, h1, h2]

theorem utf16Decode_pair (u v : Nat) (rest : List Nat) (hu : 0xD800 ≤ u ∧ u < 0xDC00) (hv : 0xDC00 ≤ v ∧ v < 0xE000) :
    utf16Decode (u :: v :: rest) = Char.ofNat (0x10000 + (u - 0xD800) * 1024 + (v - 0xDC00)) :: utf16Decode rest := by
  simp [utf16Decode, hu, hv]

/-- decoding the UTF-16 form of a text gives the text back -/
theorem utf16Decode_units (s : List Char) : utf16Decode (utf16Units s) = s := by
  induction s with
  | nil => simp [utf16Units, utf16Decode]
  | cons c s ih =>
    have hv := Utf8.char_valid c
    unfold utf16Units
    split
    · rw [utf16Decode_bmp _ _ (by omega), ih, Char.ofNat_toNat]
    · rw [utf16Decode_pair _ _ _ (by omega) (by omega), ih]
      have : 0x10000 + (0xD800 + (c.toNat - 0x10000) / 1024 - 0xD800) * 1024 +
          (0xDC00 + (c.toNat - 0x10000) % 1024 - 0xDC00) = c.toNat := by omega
      rw [this, Char.ofNat_toNat]

theorem utf16Units_lt (s : List Char) : ∀ u ∈ utf16Units s, u < 65536 := by
  induction s with
  | nil => simp [utf16Units]
  | cons c s ih =>
    have hv := Utf8.char_valid c
    unfold utf16Units
    split
    · intro u hu
      rcases List.mem_cons.mp hu with rfl | hu
      · assumption
      · exact ih u hu
    · intro u hu
      rcases List.mem_cons.mp hu with h1 | hu
      · omega
      · rcases List.mem_cons.mp hu with h2 | hu
        · omega
        · exact ih u hu

/-! ## xls: decode ∘ encode -/

theorem xlsParseFormat_enc (id : Nat) (s : List Char) (w : Bool) (hid : id < 65536) (hl : (utf16Units s).length < 65536)
    (hn : w = false → ∀ u ∈ utf16Units s, u < 256) : xlsParseFormat (xlsFormatPayload id s w) = .ok (id, s) := by
  have hu : ∀ u ∈ utf16Units s, u < (if w then 65536 else 256) := by
    intro u hu
    cases w with
    | true => exact utf16Units_lt s u hu
    | false => exact hn rfl u hu
  unfold xlsParseFormat xlsFormatPayload
  have hlen : ¬ (Biff.le16 id ++ Biff.le16 (utf16Units s).length ++ [if w then 1 else 0] ++
      MetaEnc.encUnits w (utf16Units s)).length < 5 := by
    simp [Biff.le16]
  rw [if_neg hlen]
  have h1 : Biff.u16 (Biff.le16 id ++ Biff.le16 (utf16Units s).length ++ [if w then 1 else 0] ++
      MetaEnc.encUnits w (utf16Units s)) = id := by
    rw [List.append_assoc, List.append_assoc]; exact MetaLemmas.u16_le16 id _ hid
  have h2 : (Biff.le16 id ++ Biff.le16 (utf16Units s).length ++ [if w then 1 else 0] ++
      MetaEnc.encUnits w (utf16Units s)).drop 2 =
      Biff.le16 (utf16Units s).length ++ ([if w then 1 else 0] ++ MetaEnc.encUnits w (utf16Units s)) := by
    simp [Biff.le16]
  have h3 : (Biff.le16 id ++ Biff.le16 (utf16Units s).length ++ [if w then 1 else 0] ++
      MetaEnc.encUnits w (utf16Units s)).getD 4 0 = (if w then 1 else 0 : UInt8) := by
    simp [Biff.le16]
  have h4 : (Biff.le16 id ++ Biff.le16 (utf16Units s).length ++ [if w then 1 else 0] ++
      MetaEnc.encUnits w (utf16Units s)).drop 5 = MetaEnc.encUnits w (utf16Units s) := by
    simp [Biff.le16]
  simp only [h1, h2, h3, h4, MetaLemmas.u16_le16 _ _ hl, MetaLemmas.flagHigh_flag]
  have := MetaLemmas.decodeTo_encUnits (utf16Units s) w [] hu
  rw [List.append_nil] at this
  rw [this, utf16Decode_units]

theorem xlsParseXf_enc (id font : Nat) (tail : Bytes) (hid : id < 65536) :
    xlsParseXf (xlsXfPayload id font tail) = .ok id := by
  unfold xlsParseXf xlsXfPayload
  have hlen : ¬ (Biff.le16 font ++ Biff.le16 id ++ tail).length < 4 := by simp [Biff.le16]
  rw [if_neg hlen]
  have : (Biff.le16 font ++ Biff.le16 id ++ tail).drop 2 = Biff.le16 id ++ tail := by simp [Biff.le16]
  rw [this, MetaLemmas.u16_le16 id tail hid]

theorem xlsStyleFold_format (data : Bytes) (rest : List (Nat × Bytes)) (defs : List (Nat × List Char)) (xfs : List Nat)
    (d : Nat × List Char) (h : xlsParseFormat data = .ok d) :
    xlsStyleFold ((0x041E, data) :: rest) defs xfs = xlsStyleFold rest (defs ++ [d]) xfs := by
  simp [xlsStyleFold, h]

theorem xlsStyleFold_xf (data : Bytes) (rest : List (Nat × Bytes)) (defs : List (Nat × List Char)) (xfs : List Nat)
    (x : Nat) (h : xlsParseXf data = .ok x) :
    xlsStyleFold ((0x00E0, data) :: rest) defs xfs = xlsStyleFold rest defs (xfs ++ [x]) := by
  simp [xlsStyleFold, h]

theorem xlsStyleFold_other (t : Nat) (data : Bytes) (rest : List (Nat × Bytes)) (defs : List (Nat × List Char))
    (xfs : List Nat) (h1 : t ≠ 0x000A) (h2 : t ≠ 0x041E) (h3 : t ≠ 0x00E0) :
    xlsStyleFold ((t, data) :: rest) defs xfs = xlsStyleFold rest defs xfs := by
  simp [xlsStyleFold, h1, h2, h3]

theorem xlsStyleFold_enc (after : List (Nat × Bytes)) : ∀ (items : List XlsItem), (∀ i ∈ items, i.WF) →
    ∀ (defs : List (Nat × List Char)) (xfs : List Nat),
    xlsStyleFold (xlsEncode items after) defs xfs = .ok (defs ++ xlsFormatsOf items, xfs ++ xlsXfsOf items)
  | [], _, defs, xfs => by simp [xlsEncode, xlsStyleFold, xlsFormatsOf, xlsXfsOf]
  | it :: items, hwf, defs, xfs => by
    have hw := hwf it (by simp)
    have ih := xlsStyleFold_enc after items (fun i hi => hwf i (by simp [hi]))
    unfold xlsEncode at ih ⊢
    rw [List.map_cons, List.cons_append]
    cases it with
    | format id s w =>
      obtain ⟨h1, h2, h3⟩ := hw
      show xlsStyleFold ((0x041E, xlsFormatPayload id s w) :: _) defs xfs = _
      rw [xlsStyleFold_format _ _ _ _ _ (xlsParseFormat_enc id s w h1 h2 h3), ih]
      simp [xlsFormatsOf, xlsXfsOf]
    | xf id font tail =>
      obtain ⟨h1, _⟩ := hw
      show xlsStyleFold ((0x00E0, xlsXfPayload id font tail) :: _) defs xfs = _
      rw [xlsStyleFold_xf _ _ _ _ _ (xlsParseXf_enc id font tail h1), ih]
      simp [xlsFormatsOf, xlsXfsOf]
    | other t d =>
      obtain ⟨h1, h2, h3⟩ := hw
      show xlsStyleFold ((t, d) :: _) defs xfs = _
      rw [xlsStyleFold_other _ _ _ _ _ h1 h2 h3, ih]
      simp [xlsFormatsOf, xlsXfsOf]

/-- xls: the style table decoded from the globals records is the table the builder makes from the logical lists -/
theorem xlsStylesOfRecords_enc (items : List XlsItem) (hwf : ∀ i ∈ items, i.WF) (after : List (Nat × Bytes)) :
    xlsStylesOfRecords (xlsEncode items after) = xlsStyles (xlsFormatsOf items) (xlsXfsOf items) := by
  unfold xlsStylesOfRecords
  rw [xlsStyleFold_enc after items hwf [] []]
  simp

/-! ## `format_id`: leading zeros of a decimal id are not significant -/

theorem toDigits_head (n : Nat) (hn : 0 < n) : ∃ c cs, Nat.toDigits 10 n = c :: cs ∧ c ≠ '0' := by
  induction n using Nat.strongRecOn with
  | _ n ih =>
    rw [Nat.toDigits_eq_if (by decide : 1 < 10)]
    split
    · rename_i h
      refine ⟨Nat.digitChar n, [], rfl, ?_⟩
      have : n = 1 ∨ n = 2 ∨ n = 3 ∨ n = 4 ∨ n = 5 ∨ n = 6 ∨ n = 7 ∨ n = 8 ∨ n = 9 := by omega
      rcases this with rfl | rfl | rfl | rfl | rfl | rfl | rfl | rfl | rfl <;> decide
    · rename_i h
      obtain ⟨c, cs, hc, hne⟩ := ih (n / 10) (by omega) (by omega)
      exact ⟨c, cs ++ [Nat.digitChar (n % 10)], by rw [hc]; rfl, hne⟩

theorem digit_byte (c : Char) (h : c.isDigit = true) :
    isDigitByte (UInt8.ofNat c.toNat) = true ∧ (UInt8.ofNat c.toNat = 48 → c = '0') := by
  have hd := Char.isDigit_iff_toNat.mp h
  have h0 : '0'.toNat = 48 := by decide
  have h9 : '9'.toNat = 57 := by decide
  rw [h0, h9] at hd
  have ht : (UInt8.ofNat c.toNat).toNat = c.toNat := by simp [UInt8.toNat_ofNat]; omega
  refine ⟨by simp [isDigitByte, ht, hd.1, hd.2], ?_⟩
  intro he
  have : c.toNat = 48 := by rw [← ht, he]; rfl
  exact Char.toNat_inj.mp (by rw [this, h0])

theorem decimal_digits (n : Nat) : (decimal n).all isDigitByte = true := by
  simp only [decimal, List.all_map, List.all_eq_true, Function.comp]
  intro c hc
  exact (digit_byte c (Nat.isDigit_of_mem_toDigits (by decide) (by decide) hc)).1

theorem decimal_zero : decimal 0 = [48] := by decide

theorem decimal_head (n : Nat) (hn : 0 < n) : ∃ d ds, decimal n = d :: ds ∧ d ≠ 48 := by
  obtain ⟨c, cs, hc, hne⟩ := toDigits_head n hn
  refine ⟨UInt8.ofNat c.toNat, cs.map (fun c => UInt8.ofNat c.toNat), by simp [decimal, hc], ?_⟩
  intro he
  have hdig : c.isDigit = true := Nat.isDigit_of_mem_toDigits (b := 10) (n := n) (by decide) (by decide) (by rw [hc]; simp)
  exact hne ((digit_byte c hdig).2 he)

theorem takeWhile_zeros (z : Nat) (rest : Bytes) :
    ((List.replicate z (48 : UInt8) ++ rest).takeWhile (· == 48)).length = z + (rest.takeWhile (· == 48)).length := by
  induction z with
  | zero => simp
  | succ z ih => simp [List.replicate_succ, List.takeWhile_cons, ih]; omega

theorem all_digits_pad (z n : Nat) : (padId z n).all isDigitByte = true := by
  simp only [padId, List.all_append, Bool.and_eq_true]
  refine ⟨?_, decimal_digits n⟩
  simp [List.all_replicate, isDigitByte]

/-- every decimal spelling of `n` with leading zeros is read as the canonical spelling -/
theorem formatId_padId (z n : Nat) : formatId (padId z n) = decimal n := by
  have hall := all_digits_pad z n
  unfold formatId
  have hne : (padId z n).isEmpty = false := by
    by_cases hn : 0 < n
    · obtain ⟨d, ds, hd, _⟩ := decimal_head n hn
      simp [padId, hd]
    · have : n = 0 := by omega
      subst this; simp [padId, decimal_zero]
  rw [hne, hall]
  simp only [Bool.not_true, Bool.or_false, Bool.false_eq_true, if_false]
  by_cases hn : 0 < n
  · obtain ⟨d, ds, hd, hd48⟩ := decimal_head n hn
    have htw : ((d :: ds).takeWhile (· == 48)).length = 0 := by
      simp [List.takeWhile_cons, hd48]
    simp only [padId, hd, takeWhile_zeros, htw, List.length_append, List.length_replicate, List.length_cons]
    rw [show min (z + 0) (z + (ds.length + 1) - 1) = z by omega]
    simp [List.drop_left']
  · have : n = 0 := by omega
    subst this
    simp only [padId, decimal_zero, takeWhile_zeros, List.length_append, List.length_replicate, List.length_cons, List.length_nil]
    have : ((([48] : Bytes)).takeWhile (· == 48)).length = 1 := by decide
    rw [this, show min (z + 1) (z + (0 + 1) - 1) = z by omega]
    simp [List.drop_left']

/-- … in particular `formatId` leaves a canonical spelling alone -/
theorem formatId_decimal (n : Nat) : formatId (decimal n) = decimal n := by
  have := formatId_padId 0 n
  simpa [padId] using this

/-! ## xlsx: decode ∘ encode -/

theorem afterColon_none : ∀ (l : List Char), ':' ∉ l → afterColon l = none
  | [], _ => rfl
  | c :: cs, h => by
    have hc : c ≠ ':' := fun e => h (by simp [e])
    simp only [afterColon, if_neg hc]
    exact afterColon_none cs (fun hm => h (by simp [hm]))

theorem afterColon_pfx : ∀ (p l : List Char), ':' ∉ p → afterColon (p ++ ':' :: l) = some l
  | [], l, _ => by simp [afterColon]
  | c :: cs, l, h => by
    have hc : c ≠ ':' := fun e => h (by simp [e])
    simp only [List.cons_append, afterColon, if_neg hc]
    exact afterColon_pfx cs l (fun hm => h (by simp [hm]))

theorem localName_qn (pfx : Option (List Char)) (hp : ∀ p, pfx = some p → ':' ∉ p) (n : String) (hn : ':' ∉ n.toList) :
    localName (qn pfx n) = n.toList := by
  cases pfx with
  | none => simp [qn, localName, afterColon_none _ hn]
  | some p => simp [qn, localName, afterColon_pfx p _ (hp p rfl)]

/-- the class `read_styles` gives one `<xf>` under the definitions `defs` -/
def xlsxClass (defs : List (Bytes × List Char)) : Option Bytes → CellFormat
  | none => .other
  | some id =>
    match lastDef (defs.filter fun d => !d.2.isEmpty) id with
    | some fmt => match detect fmt with
      | .ok f => f
      | _ => .other
    | none => builtinById id

theorem xlsxStyles_eq_map (defs : List (Bytes × List Char)) : ∀ (xfs : List (Option Bytes)),
    xlsxStyles defs xfs = .ok (xfs.map (xlsxClass defs))
  | [] => rfl
  | xf :: xfs => by
    have ih := xlsxStyles_eq_map defs xfs
    unfold xlsxStyles
    cases xf with
    | none => simp [ih, xlsxClass]
    | some id =>
      simp only
      cases hl : lastDef (defs.filter fun d => !d.2.isEmpty) id with
      | none => simp [ih, xlsxClass, hl]
      | some fmt =>
        obtain ⟨c, hc⟩ := scan_total St.init fmt
        have hc' : detect fmt = .ok c := hc
        simp [ih, xlsxClass, hl, hc']

theorem xlsxClass_filter (defs : List (Bytes × List Char)) (xf : Option Bytes) :
    xlsxClass (defs.filter fun d => !d.2.isEmpty) xf = xlsxClass defs xf := by
  cases xf with
  | none => rfl
  | some id => simp [xlsxClass, List.filter_filter]

theorem loop_top_inert : ∀ (l : List SEv), l.all topInert = true → ∀ (rest : List SEv) (defs : List (Bytes × List Char))
    (fmts : List CellFormat), xlsxStylesLoop .top (l ++ rest) defs fmts = xlsxStylesLoop .top rest defs fmts
  | [], _, _, _, _ => rfl
  | ev :: l, h, rest, defs, fmts => by
    simp only [List.all_cons, Bool.and_eq_true] at h
    have ih := loop_top_inert l h.2 rest defs fmts
    rw [List.cons_append]
    cases ev with
    | start n a =>
      have h1 := h.1
      simp only [topInert, Bool.and_eq_true, bne_iff_ne, ne_eq] at h1
      simp only [xlsxStylesLoop, if_neg h1.1, if_neg h1.2]
      exact ih
    | end_ n =>
      have h1 := h.1
      simp only [topInert, bne_iff_ne, ne_eq] at h1
      simp only [xlsxStylesLoop, if_neg h1]
      exact ih
    | other => simp only [xlsxStylesLoop]; exact ih

theorem loop_xf_inert : ∀ (l : List SEv), l.all xfInert = true → ∀ (rest : List SEv) (defs : List (Bytes × List Char))
    (fmts : List CellFormat), xlsxStylesLoop .cellXfs (l ++ rest) defs fmts = xlsxStylesLoop .cellXfs rest defs fmts
  | [], _, _, _, _ => rfl
  | ev :: l, h, rest, defs, fmts => by
    simp only [List.all_cons, Bool.and_eq_true] at h
    have ih := loop_xf_inert l h.2 rest defs fmts
    rw [List.cons_append]
    cases ev with
    | start n a =>
      have h1 := h.1
      simp only [xfInert, bne_iff_ne, ne_eq] at h1
      simp only [xlsxStylesLoop, if_neg h1]
      exact ih
    | end_ n =>
      have h1 := h.1
      simp only [xfInert, bne_iff_ne, ne_eq] at h1
      simp only [xlsxStylesLoop, if_neg h1]
      exact ih
    | other => simp only [xlsxStylesLoop]; exact ih

theorem encodeNat_lt (c : Char) : ∀ b ∈ Utf8.encodeNat c.toNat, b < 256 := by
  have hv := Utf8.char_valid c
  intro b hb
  unfold Utf8.encodeNat at hb
  split at hb
  · simp at hb; omega
  · split at hb
    · simp at hb; omega
    · split at hb
      · simp at hb; omega
      · simp at hb; omega

theorem utf8Bytes_toNat (s : List Char) : (utf8Bytes s).map (·.toNat) = Utf8.utf8Encode s := by
  unfold utf8Bytes
  rw [List.map_map]
  have : ∀ b ∈ Utf8.utf8Encode s, b < 256 := by
    intro b hb
    simp only [Utf8.utf8Encode, List.mem_flatMap] at hb
    obtain ⟨c, _, hc⟩ := hb
    exact encodeNat_lt c b hc
  calc (Utf8.utf8Encode s).map ((fun x => x.toNat) ∘ UInt8.ofNat)
      = (Utf8.utf8Encode s).map id := by
        apply List.map_congr_left
        intro b hb
        have := this b hb
        simp only [Function.comp, id]
        simp [UInt8.toNat_ofNat]; omega
    _ = Utf8.utf8Encode s := List.map_id _

/-- the definitions the `<numFmts>` block adds: empty format codes are not recorded -/
def fmtDefs (formats : List (Nat × List Char)) : List (Bytes × List Char) :=
  (formats.filter fun f => !f.2.isEmpty).map fun f => (decimal f.1, f.2)

theorem loop_numFmts_items (pfx : Option (List Char)) (hp : ∀ p, pfx = some p → ':' ∉ p) (idFirst : Bool) (z : Nat) :
    ∀ (formats : List (Nat × List Char)) (rest : List SEv) (defs : List (Bytes × List Char)) (fmts : List CellFormat),
    xlsxStylesLoop .numFmts (formats.flatMap (numFmtEvs pfx idFirst z) ++ rest) defs fmts =
      xlsxStylesLoop .numFmts rest (defs ++ fmtDefs formats) fmts
  | [], rest, defs, fmts => by simp [fmtDefs]
  | f :: formats, rest, defs, fmts => by
    have hn := localName_qn pfx hp "numFmt" (by decide)
    have hne : "numFmt".toList ≠ "numFmts".toList := by decide
    have hid : attr "numFmtId" (if idFirst then [("numFmtId".toList, padId z f.1), ("formatCode".toList, utf8Bytes f.2)]
        else [("formatCode".toList, utf8Bytes f.2), ("numFmtId".toList, padId z f.1)]) = some (padId z f.1) := by
      cases idFirst <;> simp [attr, List.find?]
    have hcode : attr "formatCode" (if idFirst then [("numFmtId".toList, padId z f.1), ("formatCode".toList, utf8Bytes f.2)]
        else [("formatCode".toList, utf8Bytes f.2), ("numFmtId".toList, padId z f.1)]) = some (utf8Bytes f.2) := by
      cases idFirst <;> simp [attr, List.find?]
    have hdec : Utf8.utf8Decode ((utf8Bytes f.2).map (·.toNat)) = some f.2 := by
      rw [utf8Bytes_toNat]; exact Utf8.utf8Decode_encode f.2
    rw [List.flatMap_cons, List.append_assoc]
    simp only [numFmtEvs, List.cons_append, List.nil_append]
    simp only [xlsxStylesLoop, hn, if_true, hid, hcode, hdec, Option.getD_some, if_neg hne, formatId_padId]
    rw [loop_numFmts_items pfx hp idFirst z formats rest _ fmts]
    congr 1
    by_cases he : f.2.isEmpty = true
    · simp [fmtDefs, List.filter_cons, he]
    · simp [fmtDefs, List.filter_cons, he]

theorem attr_mid (before after : List (List Char × Bytes)) (v : Bytes)
    (hb : ∀ a ∈ before, a.1 ≠ "numFmtId".toList) :
    attr "numFmtId" (before ++ ("numFmtId".toList, v) :: after) = some v := by
  unfold attr
  induction before with
  | nil => simp [List.find?]
  | cons a before ih =>
    have ha : (a.1 == "numFmtId".toList) = false := by simpa using hb a (by simp)
    simp only [List.cons_append, List.find?_cons, ha]
    exact ih (fun b hb' => hb b (by simp [hb']))

theorem loop_cellXfs_items (pfx : Option (List Char)) (hp : ∀ p, pfx = some p → ':' ∉ p)
    (before after : List (List Char × Bytes)) (inner : List SEv) (hb : ∀ a ∈ before, a.1 ≠ "numFmtId".toList)
    (hin : inner.all xfInert = true) (defs : List (Bytes × List Char)) (z : Nat) :
    ∀ (xfs : List Nat) (rest : List SEv) (fmts : List CellFormat),
    xlsxStylesLoop .cellXfs (xfs.flatMap (xfEvs pfx before after inner z) ++ rest) defs fmts =
      xlsxStylesLoop .cellXfs rest defs (fmts ++ xfs.map fun x => xlsxClass defs (some (decimal x)))
  | [], rest, fmts => by simp
  | x :: xfs, rest, fmts => by
    have hn := localName_qn pfx hp "xf" (by decide)
    have hne : "xf".toList ≠ "cellXfs".toList := by decide
    rw [List.flatMap_cons, List.append_assoc]
    simp only [xfEvs, List.cons_append, List.append_assoc]
    simp only [xlsxStylesLoop, hn, if_true, attr_mid before after _ hb, xlsxStyles_eq_map, List.map_cons, List.map_nil,
      Option.map_some, formatId_padId]
    rw [loop_xf_inert inner hin]
    simp only [List.cons_append, List.nil_append, xlsxStylesLoop, hn, if_neg hne]
    rw [loop_cellXfs_items pfx hp before after inner hb hin defs z xfs rest _]
    simp

/-- xlsx: the style table decoded from the events of the styles part is the table the builder makes from the
    logical lists — whatever stands in the inert places (cellStyleXfs, dxfs with `numFmt` elements of clashing ids,
    fonts, unknown elements, children and other attributes of `<xf>`), under any namespace prefix and attribute order -/
theorem xlsxStylesOfEvents_enc (d : StyleDesc) (l : XlsxLayout) (hl : l.WF) :
    xlsxStylesOfEvents (xlsxEncode d l) =
      xlsxStyles (d.formats.map fun f => (decimal f.1, f.2)) (d.xfs.map fun x => some (decimal x)) := by
  obtain ⟨hp, hpre, hmid, hpost, hin, hb⟩ := hl
  have n1 := localName_qn l.pfx hp "styleSheet" (by decide)
  have n2 := localName_qn l.pfx hp "numFmts" (by decide)
  have n3 := localName_qn l.pfx hp "cellXfs" (by decide)
  have e1 : "styleSheet".toList ≠ "numFmts".toList := by decide
  have e2 : "styleSheet".toList ≠ "cellXfs".toList := by decide
  have e3 : "cellXfs".toList ≠ "numFmts".toList := by decide
  unfold xlsxStylesOfEvents xlsxEncode
  simp only [xlsxStylesLoop, n1, if_neg e1, if_neg e2]
  rw [loop_top_inert l.pre hpre]
  simp only [xlsxStylesLoop, n2, if_true]
  rw [loop_numFmts_items l.pfx hp l.idFirst l.fmtZeros]
  simp only [xlsxStylesLoop, n2, if_true, List.nil_append]
  rw [loop_top_inert l.mid hmid]
  simp only [xlsxStylesLoop, n3, if_neg e3, if_true]
  rw [loop_cellXfs_items l.pfx hp l.xfBefore l.xfAfter l.xfInner hb hin _ l.xfZeros]
  simp only [xlsxStylesLoop, n3, if_true, List.nil_append]
  rw [loop_top_inert l.post hpost]
  simp only [xlsxStylesLoop, n1, if_true]
  rw [xlsxStyles_eq_map]
  congr 1
  rw [List.map_map]
  apply List.map_congr_left
  intro x _
  simp only [Function.comp]
  have : fmtDefs d.formats = (d.formats.map fun f => (decimal f.1, f.2)).filter fun q => !q.2.isEmpty := by
    simp [fmtDefs, List.filter_map, Function.comp_def]
  rw [this, xlsxClass_filter]

/-! ## xlsb: decode ∘ encode -/

theorem u16le_le16 (n : Nat) (h : n < 65536) (rest : Bytes) : Xlsb.u16le (Xlsb.le16 n ++ rest) = n := by
  simp [Xlsb.u16le, Xlsb.le16, Xlsb.toNat_ofNat']
  omega

theorem nextSkip_here (target : Nat) (ht : target < 16384) (tp : Bytes) (htp : tp.length < 268435456) (w : Bool) (lw : Nat)
    (rest : Bytes) (f : Nat) (hf : 0 < f) :
    Xlsb.nextSkipBlocks target [] f [] (Xlsb.frame target tp w lw ++ rest) = .ok (tp.length, tp, rest) := by
  obtain ⟨buf', h⟩ := Xlsb.nextSkipBlocks_segs target ht [] tp htp w lw rest [] f [] (by simp) (by simpa [Xlsb.segsSize] using hf)
  simpa [Xlsb.encodeSegs, Xlsb.fillBuf] using h

theorem xlsbFmtLoop_enc (frs : List Fr) : ∀ (formats : List (Nat × List Char)) (i : Nat) (rest : Bytes)
    (defs : List (Nat × List Char)),
    (∀ f ∈ formats, f.1 < 65536 ∧ (utf16Units f.2).length < 100000000) →
    xlsbFmtLoop formats.length (encFmts formats frs i ++ rest) defs = .ok (defs ++ formats, rest)
  | [], i, rest, defs, _ => by simp [xlsbFmtLoop, encFmts]
  | (id, s) :: formats, i, rest, defs, h => by
    obtain ⟨hid, hlen0⟩ := h (id, s) (by simp)
    have hlen : (utf16Units s).length < 100000000 := hlen0
    have hpl : (brtFmtPayload id s).length < 268435456 := by
      simp [brtFmtPayload, Xlsb.le16, Xlsb.wideBytes, Xlsb.le32, Xlsb.unitsBytes_length]; omega
    simp only [List.length_cons, xlsbFmtLoop, encFmts, List.append_assoc]
    rw [nextSkip_here 0x002C (by decide) _ hpl _ _ _ _ (by omega)]
    simp only
    have h2 : ¬ (brtFmtPayload id s).length < 2 := by simp [brtFmtPayload, Xlsb.le16]
    rw [if_neg h2]
    have hd : (brtFmtPayload id s).drop 2 = Xlsb.wideBytes (utf16Units s) ++ [] := by
      simp [brtFmtPayload, Xlsb.le16]
    rw [hd, Xlsb.wideStr_wideBytes _ (by omega) (utf16Units_lt s)]
    simp only
    have hu : Xlsb.u16le (brtFmtPayload id s) = id := u16le_le16 id hid _
    rw [hu, utf16Decode_units, xlsbFmtLoop_enc frs formats (i + 1) rest _ (fun f hf => h f (by simp [hf]))]
    simp

theorem xlsbXfLoop_enc (frs : List Fr) : ∀ (xfs : List Nat) (i : Nat) (rest : Bytes) (acc : List Nat),
    (∀ x ∈ xfs, x < 65536) → xlsbXfLoop xfs.length (encXfs xfs frs i ++ rest) acc = .ok (acc ++ xfs)
  | [], i, rest, acc, _ => by simp [xlsbXfLoop, encXfs]
  | x :: xfs, i, rest, acc, h => by
    have hx := h x (by simp)
    have hpl : (brtXfPayload x 0xFFFF (List.replicate 12 0)).length < 268435456 := by
      simp [brtXfPayload, Xlsb.le16]
    simp only [List.length_cons, xlsbXfLoop, encXfs, List.append_assoc]
    rw [nextSkip_here 0x002F (by decide) _ hpl _ _ _ _ (by omega)]
    simp only
    have h2 : ¬ (brtXfPayload x 0xFFFF (List.replicate 12 0)).length < 4 := by simp [brtXfPayload, Xlsb.le16]
    rw [if_neg h2]
    have hd : (brtXfPayload x 0xFFFF (List.replicate 12 0)).drop 2 = Xlsb.le16 x ++ List.replicate 12 0 := by
      simp [brtXfPayload, Xlsb.le16]
    rw [hd, u16le_le16 x hx, xlsbXfLoop_enc frs xfs (i + 1) rest _ (fun y hy => h y (by simp [hy]))]
    simp

/-- records the outer loop skips -/
theorem xlsbLoop_skip : ∀ (recs : List BRec), (∀ r ∈ recs, r.Fits ∧ r.id ≠ 0x0267 ∧ r.id ≠ 0x0269) →
    ∀ (fuel : Nat) (rest : Bytes) (defs : List (Nat × List Char)),
    xlsbStylesLoop (fuel + recs.length) (encRecs recs ++ rest) defs = xlsbStylesLoop fuel rest defs
  | [], _, fuel, rest, defs => by simp [encRecs]
  | r :: recs, h, fuel, rest, defs => by
    obtain ⟨⟨hid, hpl⟩, h1, h2⟩ := h r (by simp)
    have ih := xlsbLoop_skip recs (fun x hx => h x (by simp [hx])) fuel rest defs
    rw [List.length_cons, ← Nat.add_assoc]
    simp only [encRecs, BRec.bytes, List.append_assoc]
    rw [Xlsb.frame_eq, xlsbStylesLoop, Xlsb.readType_encId _ hid]
    simp only
    rw [Xlsb.fillBuffer_enc _ _ hpl]
    simp only
    rw [if_neg h1, if_neg h2]
    exact ih

theorem encRecs_length_ge : ∀ (recs : List BRec), 2 * recs.length ≤ (encRecs recs).length
  | [] => by simp [encRecs]
  | r :: recs => by
    have := encRecs_length_ge recs
    have h2 := Xlsb.frame_length_ge r.id r.payload r.wide r.lenW
    simp only [encRecs, BRec.bytes, List.length_append, List.length_cons]
    omega

theorem xlsbLoop_beginFmts (fuel : Nat) (bs r r' buf : Bytes) (n : Nat) (defs defs' : List (Nat × List Char)) (r'' : Bytes)
    (ht : Xlsb.readType bs = .ok (0x0267, r)) (hf : Xlsb.fillBuffer [] r = .ok (n, buf, r')) (hl : ¬ buf.length < 4)
    (hloop : xlsbFmtLoop (Xlsb.u32le buf) r' defs = .ok (defs', r'')) :
    xlsbStylesLoop (fuel + 1) bs defs = xlsbStylesLoop fuel r'' defs' := by
  simp [xlsbStylesLoop, ht, hf, hl, hloop]

theorem xlsbLoop_beginXfs (fuel : Nat) (bs r r' buf : Bytes) (n : Nat) (defs : List (Nat × List Char)) (xfs : List Nat)
    (ht : Xlsb.readType bs = .ok (0x0269, r)) (hf : Xlsb.fillBuffer [] r = .ok (n, buf, r')) (hl : ¬ buf.length < 4)
    (hloop : xlsbXfLoop (Xlsb.u32le buf) r' [] = .ok xfs) :
    xlsbStylesLoop (fuel + 1) bs defs = .ok (defs, xfs) := by
  simp [xlsbStylesLoop, ht, hf, hl, hloop]

theorem xlsbStylesLoop_enc (d : StyleDesc) (l : XlsbLayout) (hd : d.WFb) (hl : l.WF) (fuel : Nat)
    (hf : l.pre.length + l.mid.length + 3 ≤ fuel) :
    xlsbStylesLoop fuel (xlsbEncode d l) [] = .ok (d.formats, d.xfs) := by
  obtain ⟨hfm, hxf, hn1, hn2⟩ := hd
  obtain ⟨hpre, hmid⟩ := hl
  obtain ⟨f1, rfl⟩ : ∃ f1, fuel = (f1 + 1 + (l.mid.length + 1) + 1) + l.pre.length := ⟨fuel - (l.pre.length + l.mid.length + 3), by omega⟩
  unfold xlsbEncode
  rw [xlsbLoop_skip l.pre hpre]
  -- BrtBeginFmts
  have hu : Xlsb.u32le (Xlsb.fillBuf [] (Xlsb.le32 d.formats.length)) = d.formats.length := by
    have := Xlsb.u32le_le32 d.formats.length hn1 []
    rwa [List.append_nil] at this
  rw [Xlsb.frame_eq]
  rw [xlsbLoop_beginFmts _ _ _ _ _ _ [] d.formats _ (Xlsb.readType_encId _ (by decide) _ _)
    (Xlsb.fillBuffer_enc _ _ (by simp [Xlsb.le32]) _ _) (by simp [Xlsb.fillBuf, Xlsb.le32])
    (by rw [hu]; simpa using xlsbFmtLoop_enc l.fmtFr d.formats 0 _ [] hfm)]
  -- BrtEndFmts and the records up to the cell XFs
  have hskip := xlsbLoop_skip (⟨0x0268, [], false, 0⟩ :: l.mid)
    (by
      intro r hr
      rcases List.mem_cons.mp hr with rfl | hr
      · exact ⟨⟨by decide, by simp⟩, by decide, by decide⟩
      · exact hmid r hr)
    (f1 + 1) (Xlsb.frame 0x0269 (Xlsb.le32 d.xfs.length) l.hdrFr.wide l.hdrFr.lenW ++ (encXfs d.xfs l.xfFr 0 ++ l.post)) d.formats
  simp only [encRecs, BRec.bytes, List.length_cons, List.append_assoc] at hskip
  rw [hskip]
  -- BrtBeginCellXFs
  have hu' : Xlsb.u32le (Xlsb.fillBuf [] (Xlsb.le32 d.xfs.length)) = d.xfs.length := by
    have := Xlsb.u32le_le32 d.xfs.length hn2 []
    rwa [List.append_nil] at this
  rw [Xlsb.frame_eq]
  exact xlsbLoop_beginXfs _ _ _ _ _ _ _ _ (Xlsb.readType_encId _ (by decide) _ _)
    (Xlsb.fillBuffer_enc _ _ (by simp [Xlsb.le32]) _ _) (by simp [Xlsb.fillBuf, Xlsb.le32])
    (by rw [hu']; simpa using xlsbXfLoop_enc l.xfFr d.xfs 0 l.post [] hxf)

/-- xlsb: the style table decoded from the bytes of the styles part is the table the builder makes from the logical
    lists — whatever records stand before the format table, between it and the cell XFs (among them the cell-STYLE XF
    block with its own BrtXF records) and after the cell XFs, under any legal framing of the records -/
theorem xlsbStylesOfBytes_enc (d : StyleDesc) (l : XlsbLayout) (hd : d.WFb) (hl : l.WF) :
    xlsbStylesOfBytes (xlsbEncode d l) = xlsbStyles d.formats d.xfs := by
  have hlen : l.pre.length + l.mid.length + 3 ≤ (xlsbEncode d l).length + 1 := by
    have h1 := encRecs_length_ge l.pre
    have h2 := encRecs_length_ge l.mid
    have h3 := Xlsb.frame_length_ge 0x0267 (Xlsb.le32 d.formats.length) l.hdrFr.wide l.hdrFr.lenW
    have h4 := Xlsb.frame_length_ge 0x0269 (Xlsb.le32 d.xfs.length) l.hdrFr.wide l.hdrFr.lenW
    simp only [xlsbEncode, List.length_append]
    omega
  unfold xlsbStylesOfBytes
  rw [xlsbStylesLoop_enc d l hd hl _ hlen]

/-! ## xlsx: the event loop always ends with a table or an error -/

theorem xlsxStylesLoop_total : ∀ (evs : List SEv) (mode : SMode) (defs : List (Bytes × List Char)) (fmts : List CellFormat),
    (∃ t, xlsxStylesLoop mode evs defs fmts = .ok t) ∨ (∃ e, xlsxStylesLoop mode evs defs fmts = .err e)
  | [], mode, _, _ => by cases mode <;> simp [xlsxStylesLoop]
  | ev :: rest, .top, defs, fmts => by
    unfold xlsxStylesLoop
    cases ev with
    | start n a =>
      simp only
      split
      · exact xlsxStylesLoop_total rest _ _ _
      · split <;> exact xlsxStylesLoop_total rest _ _ _
    | end_ n =>
      simp only
      split
      · exact Or.inl ⟨_, rfl⟩
      · exact xlsxStylesLoop_total rest _ _ _
    | other => exact xlsxStylesLoop_total rest _ _ _
  | ev :: rest, .numFmts, defs, fmts => by
    unfold xlsxStylesLoop
    cases ev with
    | start n a =>
      simp only
      split
      · cases attr "formatCode" a with
        | none => exact xlsxStylesLoop_total rest _ _ _
        | some code =>
          simp only
          cases Utf8.utf8Decode (code.map (·.toNat)) with
          | none => exact Or.inr ⟨_, rfl⟩
          | some cs => exact xlsxStylesLoop_total rest _ _ _
      · exact xlsxStylesLoop_total rest _ _ _
    | end_ n =>
      simp only
      split <;> exact xlsxStylesLoop_total rest _ _ _
    | other => exact xlsxStylesLoop_total rest _ _ _
  | ev :: rest, .cellXfs, defs, fmts => by
    unfold xlsxStylesLoop
    cases ev with
    | start n a =>
      simp only
      split
      · rw [xlsxStyles_eq_map]
        exact xlsxStylesLoop_total rest _ _ _
      · exact xlsxStylesLoop_total rest _ _ _
    | end_ n =>
      simp only
      split <;> exact xlsxStylesLoop_total rest _ _ _
    | other => exact xlsxStylesLoop_total rest _ _ _

end Formats
