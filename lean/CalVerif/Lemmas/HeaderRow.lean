import CalVerif.Model.HeaderRow
import CalVerif.Props.C05
/-! Helper lemmas for C08 (header-row windowing): `lastAt` under filtering, row-sorted lists. -/
namespace HeaderRow
open Range
set_option linter.unusedSectionVars false
variable {α : Type} [Inhabited α] [DecidableEq α]

theorem lastAt_filter (l : List (Nat × Nat × α)) (f : Nat × Nat × α → Bool) (p q : Nat)
    (h : ∀ c ∈ l, c.1 = p → c.2.1 = q → f c = true) : lastAt (l.filter f) p q = lastAt l p q := by
  unfold lastAt
  rw [← List.filter_reverse, List.find?_filter]
  congr 1
  apply find?_congr'
  intro c hc
  have hc' := List.mem_reverse.mp hc
  by_cases hpos : c.1 = p ∧ c.2.1 = q
  · simp [hpos, h c hc' hpos.1 hpos.2]
  · simp [hpos]

theorem lastAt_cons_default (l : List (Nat × Nat × α)) (a b p q : Nat) :
    (lastAt ((a, b, default) :: l) p q).getD default = (lastAt l p q).getD default := by
  unfold lastAt
  rw [List.reverse_cons, List.find?_append]
  cases h : l.reverse.find? (fun c => decide (c.1 = p ∧ c.2.1 = q)) with
  | some v => simp
  | none =>
    simp only [Option.none_or, List.find?_singleton]
    split <;> simp

/-- rows are non-decreasing in document order (what a well-formed sheet part gives) -/
def RowSorted (cells : List (Nat × Nat × α)) : Prop := cells.Pairwise (fun a b => a.1 ≤ b.1)

theorem sorted_le_last : ∀ (l : List (Nat × Nat × α)) (hne : l ≠ []), RowSorted l →
    ∀ c ∈ l, c.1 ≤ (l.getLast hne).1
  | [a], _, _, c, hc => by simp at hc; subst hc; simp
  | a :: b :: rest, _, hs, c, hc => by
    have hs' : RowSorted (b :: rest) := (List.pairwise_cons.mp hs).2
    rw [List.getLast_cons (by simp)]
    rcases List.mem_cons.mp hc with rfl | hc'
    · have h1 := (List.pairwise_cons.mp hs).1 _ (List.getLast_mem (l := b :: rest) (by simp))
      exact h1
    · exact sorted_le_last (b :: rest) (by simp) hs' c hc'

theorem sorted_head_le : ∀ (l : List (Nat × Nat × α)) (hne : l ≠ []), RowSorted l →
    ∀ c ∈ l, (l.head hne).1 ≤ c.1
  | a :: rest, _, hs, c, hc => by
    rcases List.mem_cons.mp hc with rfl | hc'
    · simp
    · exact (List.pairwise_cons.mp hs).1 c hc'

abbrev K0 (cells : List (Nat × Nat × α)) := cells.filter (fun c => c.2.2 ≠ default)
abbrev Kn (cells : List (Nat × Nat × α)) (n : Nat) := cells.filter (fun c => c.2.2 ≠ default ∧ c.1 ≥ n)

theorem Kn_eq (cells : List (Nat × Nat × α)) (n : Nat) :
    Kn cells n = (K0 cells).filter (fun c => decide (c.1 ≥ n)) := by
  simp only [Kn, K0, List.filter_filter]
  congr 1; funext c; simp [Bool.and_comm]

theorem lastAt_none_of (l : List (Nat × Nat × α)) (p q : Nat) (h : ∀ c ∈ l, c.1 ≠ p) : lastAt l p q = none := by
  unfold lastAt
  rw [Option.map_eq_none_iff, List.find?_eq_none]
  intro c hc
  have := h c (List.mem_reverse.mp hc)
  simp [this]

/-- coordinates of a real sheet: rows < 2^20, columns < 2^14 (`MAX_ROWS`, `MAX_COLUMNS`) -/
def InSheet (cells : List (Nat × Nat × α)) : Prop := ∀ c ∈ cells, c.1 < 1048576 ∧ c.2.1 < 16384

theorem sparsePreSorted_of_sorted (L : List (Nat × Nat × α)) (hs : RowSorted L) (hb : InSheet L) : sparsePreSorted L := by
  cases L with
  | nil => trivial
  | cons c0 rest =>
    have hne : (c0 :: rest) ≠ [] := by simp
    have hlast : ((c0 :: rest).getLast?.getD c0) = (c0 :: rest).getLast hne := by
      rw [List.getLast?_eq_some_getLast hne]; rfl
    have hl := sorted_le_last (c0 :: rest) hne hs
    have hlm := hb _ (List.getLast_mem hne)
    have h0 := hb c0 (List.mem_cons_self ..)
    refine ⟨?_, ?_, ?_⟩
    · intro c hc
      have := hb c hc
      refine ⟨?_, by rw [hlast]; exact hl c hc, by simp only [U32]; omega, by simp only [U32]; omega⟩
      rcases List.mem_cons.mp hc with rfl | hc'
      · exact Nat.le_refl _
      · exact (List.pairwise_cons.mp hs).1 c hc'
    · rw [hlast]; simp only [U32]; omega
    · intro c hc c' hc'
      have := hb c hc; have := hb c' hc'
      simp only [U32]; omega

theorem sparsePre_of_sorted (L : List (Nat × Nat × α)) (hs : RowSorted L) (hb : InSheet L) : sparsePre L :=
  sparsePre_of_old L (sparsePreSorted_of_sorted L hs hb)

theorem keepLazy_sorted (cells : List (Nat × Nat × α)) (hs : RowSorted cells) (hb : InSheet cells) (h : Hdr) :
    RowSorted (keepLazy cells h) ∧ InSheet (keepLazy cells h) := by
  cases h with
  | firstNonEmpty =>
    exact ⟨List.Pairwise.filter _ hs, fun c hc => hb c (List.mem_filter.mp hc).1⟩
  | row n =>
    simp only [keepLazy]
    have hsK : RowSorted (cells.filter (fun c => decide (c.2.2 ≠ default ∧ c.1 ≥ n))) := List.Pairwise.filter _ hs
    have hbK : InSheet (cells.filter (fun c => decide (c.2.2 ≠ default ∧ c.1 ≥ n))) :=
      fun c hc => hb c (List.mem_filter.mp hc).1
    have hge : ∀ c ∈ cells.filter (fun c => decide (c.2.2 ≠ default ∧ c.1 ≥ n)), n ≤ c.1 := by
      intro c hc; have := (List.mem_filter.mp hc).2; simp only [decide_eq_true_eq] at this; exact this.2
    generalize cells.filter (fun c => decide (c.2.2 ≠ default ∧ c.1 ≥ n)) = K at *
    cases K with
    | nil => exact ⟨List.Pairwise.nil, fun c hc => by simp at hc⟩
    | cons c rest =>
      simp only
      split
      · refine ⟨List.pairwise_cons.mpr ⟨fun x hx => hge x hx, hsK⟩, ?_⟩
        intro x hx
        rcases List.mem_cons.mp hx with rfl | hx'
        · have := hbK c (List.mem_cons_self ..); have := hge c (List.mem_cons_self ..)
          exact ⟨by simp only; omega, by simp only; omega⟩
        · exact hbK x hx'
      · exact ⟨hsK, hbK⟩

/-- the list handed to `from_sparse` under `Row(n)`: every kept cell has row ≥ n, and when there is one, some
    element of the list sits exactly in row n (the first kept cell, or the anchor) -/
theorem keepLazy_row_facts (cells : List (Nat × Nat × α)) (n : Nat) (hex : Kn cells n ≠ []) :
    keepLazy cells (.row n) ≠ [] ∧ (∀ x ∈ keepLazy cells (.row n), n ≤ x.1) ∧
    (∃ x ∈ keepLazy cells (.row n), x.1 = n) ∧
    (∀ x ∈ Kn cells n, x ∈ keepLazy cells (.row n)) ∧
    (∀ x ∈ keepLazy cells (.row n), x ∈ Kn cells n ∨ (x.1 = n ∧ x.2.2 = default)) ∧
    (∀ p q, (lastAt (keepLazy cells (.row n)) p q).getD default = (lastAt (Kn cells n) p q).getD default) := by
  have hge : ∀ c ∈ Kn cells n, n ≤ c.1 := by
    intro c hc; have := (List.mem_filter.mp hc).2; simp only [decide_eq_true_eq] at this; exact this.2
  obtain ⟨c, rest, hk⟩ := List.exists_cons_of_ne_nil hex
  have hk' : cells.filter (fun c => decide (c.2.2 ≠ default ∧ c.1 ≥ n)) = c :: rest := hk
  simp only [keepLazy, hk']
  by_cases hc : c.1 ≠ n
  · rw [if_pos hc]
    refine ⟨by simp, ?_, ⟨_, List.mem_cons_self .., rfl⟩, ?_, ?_, ?_⟩
    · intro x hx
      rcases List.mem_cons.mp hx with rfl | hx'
      · simp
      · exact hge x (by rw [hk]; exact hx')
    · intro x hx; exact List.mem_cons_of_mem _ hx
    · intro x hx
      rcases List.mem_cons.mp hx with rfl | hx'
      · exact Or.inr ⟨rfl, rfl⟩
      · exact Or.inl hx'
    · intro p q; exact lastAt_cons_default _ _ _ _ _
  · rw [if_neg hc]
    have hcn : c.1 = n := Classical.not_not.mp hc
    refine ⟨by simp, ?_, ⟨c, List.mem_cons_self .., hcn⟩, ?_, ?_, ?_⟩
    · intro x hx; exact hge x (by rw [hk]; exact hx)
    · intro x hx; exact hx
    · intro x hx; exact Or.inl hx
    · intro p q; rfl


end HeaderRow
