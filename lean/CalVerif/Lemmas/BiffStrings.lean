import CalVerif.Model.BiffStrings
import CalVerif.Spec.SstEnc
/-! Helper lemmas for C12 (BIFF8 strings under CONTINUE splits). -/
namespace Biff

/-! ### `lay` -/

@[simp] theorem lay_nil : lay [] = ([], []) := rfl
@[simp] theorem lay_b (x : Bytes) (ts : List Tok) : lay (.b x :: ts) = (x ++ (lay ts).1, (lay ts).2) := rfl
@[simp] theorem lay_cut (ts : List Tok) : lay (.cut :: ts) = ([], (lay ts).1 :: (lay ts).2) := rfl

/-! ### `skip` -/

theorem skip_zero (data : Bytes) (cont : List Bytes) : skip 0 data cont = .ok ⟨data, cont⟩ := by
  cases cont <;> simp [skip]

/-- skipping exactly a prefix of the current fragment -/
theorem skip_prefix (x tail : Bytes) (cont : List Bytes) :
    skip x.length (x ++ tail) cont = .ok ⟨tail, cont⟩ := by
  by_cases h : x.length = 0
  · have : x = [] := List.eq_nil_of_length_eq_zero h
    subst this; simpa using skip_zero tail cont
  · cases cont <;> simp [skip, h]

/-- the current fragment is used up and the skip goes on in the next CONTINUE fragment -/
theorem skip_next (n : Nat) (x f : Bytes) (fs : List Bytes) (h : x.length < n) :
    skip n x (f :: fs) = skip (n - x.length) f fs := by
  rw [skip]
  have h1 : n ≠ 0 := by omega
  have h2 : ¬ n ≤ x.length := by omega
  simp [h1, h2]

end Biff
