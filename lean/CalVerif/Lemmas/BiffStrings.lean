import CalVerif.Model.BiffStrings
import CalVerif.Spec.SstEnc
/-! Helper lemmas for C12 (BIFF8 strings under CONTINUE splits): byte readers, one packed segment,
    `Record::skip` over chunked blocks, UTF-16 decoding of a segmented string, one table entry under a layout,
    the whole table, record framing. The property theorems are in `Props/C12.lean`. -/
namespace Biff

theorem hasLen_iff (s : Bytes) (n : Nat) : hasLen s n = decide (n ≤ s.length) := by
  cases n with
  | zero => simp [hasLen]
  | succ n =>
    simp only [hasLen]
    by_cases h : n + 1 ≤ s.length
    · simp [h]; omega
    · simp [h]; omega

theorem byte_toNat (n : Nat) : (byte n).toNat = n % 256 := by simp [byte]

theorem u16_le16 (n : Nat) (h : n < 65536) (rest : Bytes) : u16 (le16 n ++ rest) = n := by
  simp [u16, le16, byte]; omega

theorem u32_le32 (n : Nat) (h : n < 4294967296) (rest : Bytes) : u32 (le32 n ++ rest) = n := by
  simp [u32, le32, byte]; omega

@[simp] theorem le16_length (n : Nat) : (le16 n).length = 2 := rfl
@[simp] theorem le32_length (n : Nat) : (le32 n).length = 4 := rfl

theorem flagHigh_flagByte (w : Bool) : flagHigh (flagByte w) = w := by cases w <;> decide

/-! ### one segment of characters -/

theorem encUnits_length (w : Bool) (us : List Nat) :
    (encUnits w us).length = (if w then 2 else 1) * us.length := by
  cases w
  · simp [encUnits]
  · simp only [encUnits, if_true]
    induction us with
    | nil => rfl
    | cons u us ih => simp [List.flatMap_cons, ih]; omega

theorem units16_wide (us : List Nat) (h : ∀ u ∈ us, u < 65536) : units16 (encUnits true us) = us := by
  simp only [encUnits, if_true]
  induction us with
  | nil => rfl
  | cons u us ih =>
    have hu : u < 65536 := h u (by simp)
    have ih := ih (fun v hv => h v (by simp [hv]))
    simp only [List.flatMap_cons, le16, List.cons_append, List.nil_append, units16, ih, byte_toNat]
    congr 1; omega

theorem narrow_units (us : List Nat) (h : ∀ u ∈ us, u < 256) : (encUnits false us).map (·.toNat) = us := by
  simp only [encUnits, Bool.false_eq_true, if_false, List.map_map]
  induction us with
  | nil => rfl
  | cons u us ih =>
    have hu : u < 256 := h u (by simp)
    simp only [List.map_cons, Function.comp, byte_toNat]
    rw [show u % 256 = u by omega]
    congr 1
    exact ih (fun v hv => h v (by simp [hv]))

/-- `decode_to` on a fragment that starts with a whole segment `us` (packing `w`): the segment is read
    exactly when it is the last one owed (`us.length = n`) or the fragment ends with it -/
theorem decodeTo_segment (w : Bool) (us : List Nat) (tail : Bytes) (n : Nat)
    (hlt : ∀ u ∈ us, u < 65536) (hp : packOk (us, w)) (hn : us.length ≤ n)
    (ht : tail = [] ∨ us.length = n) :
    decodeTo (encUnits w us ++ tail) n w = (us, us.length, (encUnits w us).length) := by
  have hl := encUnits_length w us
  cases w
  · simp only [if_false, Bool.false_eq_true, Nat.one_mul] at hl
    have hm : min (encUnits false us ++ tail).length n = us.length := by
      rw [List.length_append, hl]
      rcases ht with ht | ht
      · subst ht; simp; omega
      · omega
    simp only [decodeTo, Bool.false_eq_true, if_false, hm]
    rw [← hl, List.take_left', hl]
    · rw [narrow_units us (hp rfl)]
    · rfl
  · simp only [if_true, ] at hl
    have hm : min ((encUnits true us ++ tail).length / 2) n = us.length := by
      rw [List.length_append, hl]
      rcases ht with ht | ht
      · subst ht; simp; omega
      · omega
    simp only [decodeTo, if_true, hm]
    rw [← hl, List.take_left', hl]
    · rw [units16_wide us hlt]
    · rfl

theorem readDbcs_zero (w : Bool) (data : Bytes) (cont : List Bytes) :
    readDbcs 0 w data cont = .ok ([], ⟨data, cont⟩) := by
  unfold readDbcs; simp

/-- the last segment owed is read exactly, whatever follows in the fragment -/
theorem readDbcs_last (w : Bool) (us : List Nat) (tail : Bytes) (cont : List Bytes)
    (hlt : ∀ u ∈ us, u < 65536) (hp : packOk (us, w)) :
    readDbcs us.length w (encUnits w us ++ tail) cont = .ok (us, ⟨tail, cont⟩) := by
  by_cases h0 : us.length = 0
  · have : us = [] := List.eq_nil_of_length_eq_zero h0
    subst this
    cases w <;> simp [readDbcs_zero, encUnits]
  · have hd := decodeTo_segment w us tail us.length hlt hp (Nat.le_refl _) (Or.inr rfl)
    unfold readDbcs
    simp only [h0, if_false, hd, Nat.sub_self, if_true, List.drop_left']

/-- a segment that ends its fragment while characters are still owed: the reader moves to the next
    CONTINUE fragment and takes its first byte as the new packing flag -/
theorem readDbcs_step (w w' : Bool) (us : List Nat) (n : Nat) (d : Bytes) (fs : List Bytes)
    (hlt : ∀ u ∈ us, u < 65536) (hp : packOk (us, w)) (hn : us.length < n)
    (t : List Nat) (r : Rd) (hrec : readDbcs (n - us.length) w' d fs = .ok (t, r)) :
    readDbcs n w (encUnits w us) ((flagByte w' :: d) :: fs) = .ok (us ++ t, r) := by
  have hd := decodeTo_segment w us [] n hlt hp (Nat.le_of_lt hn) (Or.inl rfl)
  rw [List.append_nil] at hd
  rw [readDbcs]
  have h1 : n ≠ 0 := by omega
  have h2 : n - us.length ≠ 0 := by omega
  simp only [h1, if_false, hd, h2, flagHigh_flagByte, hrec]
  rfl



/-! ### `lay` and `skip` -/

@[simp] theorem lay_nil : lay [] = ([], []) := rfl
@[simp] theorem lay_b (x : Bytes) (ts : List Tok) : lay (.b x :: ts) = (x ++ (lay ts).1, (lay ts).2) := rfl
@[simp] theorem lay_cut (ts : List Tok) : lay (.cut :: ts) = ([], (lay ts).1 :: (lay ts).2) := rfl

theorem skip_zero (data : Bytes) (cont : List Bytes) : skip 0 data cont = .ok ⟨data, cont⟩ := by
  cases cont <;> simp [skip]

theorem skip_prefix (x tail : Bytes) (cont : List Bytes) :
    skip x.length (x ++ tail) cont = .ok ⟨tail, cont⟩ := by
  by_cases h : x.length = 0
  · have : x = [] := List.eq_nil_of_length_eq_zero h
    subst this; simpa using skip_zero tail cont
  · cases cont <;> simp [skip, h]

theorem skip_next (n : Nat) (x f : Bytes) (fs : List Bytes) (h : x.length < n) :
    skip n x (f :: fs) = skip (n - x.length) f fs := by
  rw [skip]
  have h1 : n ≠ 0 := by omega
  have h2 : ¬ n ≤ x.length := by omega
  simp [h1, h2]

/-- a block written as `c0`, then one CONTINUE record per further (non-empty) chunk, is skipped exactly:
    the reader ends on the first byte after the block -/
theorem skip_chunks (cs : List Bytes) : ∀ (c0 : Bytes) (rest : List Tok), (∀ c ∈ cs, c ≠ []) →
    skip (c0.length + (cs.map List.length).sum) (lay (.b c0 :: (chunkToks cs ++ rest))).1
      (lay (.b c0 :: (chunkToks cs ++ rest))).2 = .ok ⟨(lay rest).1, (lay rest).2⟩ := by
  induction cs with
  | nil =>
    intro c0 rest _
    simp only [List.map_nil, List.sum_nil, Nat.add_zero, chunkToks, List.nil_append, lay_b]
    exact skip_prefix c0 _ _
  | cons c1 cs ih =>
    intro c0 rest hne
    have h1 : c1 ≠ [] := hne c1 (by simp)
    have hpos : 0 < c1.length := List.length_pos_iff.mpr h1
    simp only [chunkToks, List.cons_append, lay_b, lay_cut, List.append_nil, List.map_cons, List.sum_cons]
    rw [skip_next _ _ _ _ (by omega)]
    have := ih c1 rest (fun c hc => hne c (by simp [hc]))
    simp only [lay_b] at this
    rw [← this]
    congr 1; omega

/-! ### splitting into pieces -/

theorem splitSizes_ne_nil {α : Type} (l : List α) (ns : List Nat) : splitSizes l ns ≠ [] := by
  cases ns <;> simp [splitSizes]

theorem splitSizes_flatten {α : Type} (ns : List Nat) : ∀ (l : List α), (splitSizes l ns).flatten = l := by
  induction ns with
  | nil => intro l; simp [splitSizes]
  | cons n ns ih => intro l; simp [splitSizes, ih]

theorem splitSizes_length {α : Type} (ns : List Nat) : ∀ (l : List α), (splitSizes l ns).length = ns.length + 1 := by
  induction ns with
  | nil => intro l; simp [splitSizes]
  | cons n ns ih => intro l; simp [splitSizes, ih]

theorem cons_headD_tail {α : Type} (l : List (List α)) (h : l ≠ []) : l.headD [] :: l.tail = l := by
  cases l with
  | nil => exact absurd rfl h
  | cons a l => rfl

theorem sum_length_flatten {α : Type} (l : List (List α)) : (l.map List.length).sum = l.flatten.length := by
  exact List.length_flatten.symm

/-- lengths of the pieces add up -/
theorem splitSizes_total {α : Type} (l : List α) (ns : List Nat) :
    ((splitSizes l ns).headD []).length + ((splitSizes l ns).tail.map List.length).sum = l.length := by
  have h := cons_headD_tail (splitSizes l ns) (splitSizes_ne_nil l ns)
  have h2 := sum_length_flatten (splitSizes l ns)
  rw [← h, List.map_cons, List.sum_cons, h, splitSizes_flatten] at h2
  exact h2

/-- skipping a whole block (rgRun or ExtRst) under any chunking whose continuation chunks are non-empty -/
theorem skip_block (bs : Bytes) (cuts : List Nat) (rest : List Tok) (h : blockOk (some bs) cuts) :
    skip bs.length (lay (blockToks (some bs) cuts ++ rest)).1 (lay (blockToks (some bs) cuts ++ rest)).2
      = .ok ⟨(lay rest).1, (lay rest).2⟩ := by
  have := skip_chunks (splitSizes bs cuts).tail ((splitSizes bs cuts).headD []) rest h
  rw [splitSizes_total] at this
  simpa [blockToks] using this


/-! ### UTF-16 decoding of a string cut into segments -/

theorem isHigh_false (c : Nat) (h : c < 55296 ∨ 57344 ≤ c) : isHigh c = false := by
  unfold isHigh
  rcases h with h | h
  · have : ¬ (55296 ≤ c) := by omega
    simp [this]
  · have : ¬ (c < 56320) := by omega
    simp [this]
theorem isLow_false (c : Nat) (h : c < 55296 ∨ 57344 ≤ c) : isLow c = false := by
  unfold isLow
  rcases h with h | h
  · have : ¬ (56320 ≤ c) := by omega
    simp [this]
  · have : ¬ (c < 57344) := by omega
    simp [this]
theorem isHigh_true (c : Nat) (h : 55296 ≤ c ∧ c < 56320) : isHigh c = true := by
  unfold isHigh; simp [h.1, h.2]
theorem isLow_true (c : Nat) (h : 56320 ≤ c ∧ c < 57344) : isLow c = true := by
  unfold isLow; simp [h.1, h.2]

theorem noPairSplit_nil_left (b : List Nat) : noPairSplit [] b := by simp [noPairSplit]

theorem noPairSplit_tail (u : Nat) (a b : List Nat) (ha : a ≠ []) (h : noPairSplit (u :: a) b) : noPairSplit a b := by
  unfold noPairSplit at *
  rwa [List.getLast?_cons_of_ne_nil ha] at h  

theorem decodeUtf16_cons2 (u v : Nat) (rest : List Nat) :
    decodeUtf16 (u :: v :: rest) =
      if isHigh u then
        if isLow v then (0x10000 + (u - 0xD800) * 0x400 + (v - 0xDC00)) :: decodeUtf16 rest
        else 0xFFFD :: decodeUtf16 (v :: rest)
      else if isLow u then 0xFFFD :: decodeUtf16 (v :: rest)
      else u :: decodeUtf16 (v :: rest) := by
  rw [decodeUtf16]

theorem decodeUtf16_append : ∀ (a b : List Nat), noPairSplit a b →
    decodeUtf16 (a ++ b) = decodeUtf16 a ++ decodeUtf16 b
  | [], b, _ => by simp [decodeUtf16]
  | [u], [], _ => by simp [decodeUtf16]
  | [u], v :: rest, h => by
    simp only [noPairSplit, List.getLast?_singleton, Option.map_some, List.head?_cons, Option.some.injEq, not_and] at h
    rw [List.singleton_append, decodeUtf16_cons2]
    by_cases hu : isHigh u
    · have hv : isLow v = false := by simpa using h hu
      simp [decodeUtf16, hu, hv]
    · by_cases hl : isLow u <;> simp [decodeUtf16, hu, hl]
  | u :: v :: rest, b, h => by
    have h1 : noPairSplit (v :: rest) b := noPairSplit_tail u (v :: rest) b (by simp) h
    have h2 : noPairSplit rest b := by
      by_cases hr : rest = []
      · subst hr; exact noPairSplit_nil_left b
      · exact noPairSplit_tail v rest b hr h1
    have ih1 := decodeUtf16_append (v :: rest) b h1
    have ih2 := decodeUtf16_append rest b h2
    rw [List.cons_append, List.cons_append, decodeUtf16_cons2, decodeUtf16_cons2, ← List.cons_append, ih1, ih2]
    by_cases hu : isHigh u <;> by_cases hv : isLow v <;> by_cases hl : isLow u <;> simp [hu, hv, hl]

theorem noPairSplit_append_right (a b c : List Nat) (hb : b ≠ []) (h : noPairSplit a b) : noPairSplit a (b ++ c) := by
  unfold noPairSplit at *
  cases b with
  | nil => exact absurd rfl hb
  | cons x b => simpa using h

/-- decoding segment by segment = decoding the whole string, when no surrogate pair straddles a break -/
theorem decodeUtf16_segments (segs : List (List Nat)) : ∀ (s0 : List Nat),
    pairsKept (s0 :: segs) → (∀ s ∈ segs, s ≠ []) →
    decodeUtf16 s0 ++ (segs.map decodeUtf16).flatten = decodeUtf16 (s0 ++ segs.flatten) := by
  induction segs with
  | nil => intro s0 _ _; simp
  | cons s1 ss ih =>
    intro s0 hp hne
    have h1 : s1 ≠ [] := hne s1 (by simp)
    obtain ⟨hp0, hp1⟩ := hp
    rw [List.map_cons, List.flatten_cons, List.flatten_cons, ih s1 hp1 (fun s hs => hne s (by simp [hs]))]
    rw [decodeUtf16_append s0 _ (noPairSplit_append_right s0 s1 _ h1 hp0)]


/-! ### the characters of one string across CONTINUE records -/

/-- the last continuation segment (if any) is not empty -/
def lastOk (segs : List (List Nat × Bool)) : Prop := ∀ p, segs.getLast? = some p → p.1 ≠ []

theorem lastOk_tail (p : List Nat × Bool) (ss : List (List Nat × Bool)) (h : lastOk (p :: ss)) : lastOk ss := by
  intro q hq
  cases ss with
  | nil => simp at hq
  | cons a as => exact h q (by rw [List.getLast?_cons_cons]; exact hq)

theorem lastOk_sum_pos : ∀ (segs : List (List Nat × Bool)), segs ≠ [] → lastOk segs →
    0 < (segs.map (·.1.length)).sum
  | [], h, _ => absurd rfl h
  | [p], _, hl => by
    have := hl p (by simp)
    have := List.length_pos_iff.mpr this
    simp; omega
  | p :: q :: ss, _, hl => by
    have := lastOk_sum_pos (q :: ss) (by simp) (lastOk_tail p (q :: ss) hl)
    simp only [List.map_cons, List.sum_cons] at this ⊢
    omega

/-- Invariant of the split read: `data` = unread rest of the current fragment, `cont` = the fragments still
    queued, `n` = characters still owed. Reading the first segment `s0` (packing `w0`) and then one CONTINUE
    record per further segment — any of which but the last may hold the flag byte alone — gathers the units of
    all segments in order and stops right after the last character. -/
theorem readDbcs_segs (segs : List (List Nat × Bool)) : ∀ (s0 : List Nat) (w0 : Bool) (n : Nat) (rest : List Tok),
    n = s0.length + (segs.map (·.1.length)).sum →
    (∀ u ∈ s0, u < 65536) → packOk (s0, w0) →
    (∀ p ∈ segs, (∀ u ∈ p.1, u < 65536) ∧ packOk p) → lastOk segs →
    readDbcs n w0 (lay (.b (encUnits w0 s0) :: (contToks segs ++ rest))).1
        (lay (.b (encUnits w0 s0) :: (contToks segs ++ rest))).2
      = .ok (s0 ++ (segs.map (·.1)).flatten, ⟨(lay rest).1, (lay rest).2⟩) := by
  induction segs with
  | nil =>
    intro s0 w0 n rest hn hlt hp _ _
    simp only [List.map_nil, List.sum_nil, Nat.add_zero] at hn
    subst hn
    simp only [contToks, List.nil_append, lay_b, List.map_nil, List.flatten_nil, List.append_nil]
    exact readDbcs_last w0 s0 _ _ hlt hp
  | cons p ss ih =>
    intro s0 w0 n rest hn hlt hp hall hlast
    have hpos := lastOk_sum_pos (p :: ss) (by simp) hlast
    obtain ⟨s1, w1⟩ := p
    obtain ⟨hlt1, hp1⟩ := hall (s1, w1) (by simp)
    simp only [List.map_cons, List.sum_cons] at hn hpos
    have hrec := ih s1 w1 (n - s0.length) rest (by omega) hlt1 hp1 (fun q hq => hall q (by simp [hq]))
      (lastOk_tail (s1, w1) ss hlast)
    simp only [lay_b] at hrec
    simp only [contToks, List.cons_append, lay_b, lay_cut, List.append_nil, List.map_cons, List.flatten_cons]
    rw [readDbcs_step w0 w1 s0 n _ _ hlt hp (by omega) _ _ hrec]

/-! ### one table entry -/

def optRuns (e : Entry) : Bytes := match e.runs with | some r => le16 (r.length / 4) | none => []
def optExt (e : Entry) : Bytes := match e.ext with | some x => le32 x.length | none => []

theorem header_eq (e : Entry) (w0 : Bool) (X : Bytes) :
    header e w0 ++ X = le16 e.units.length ++
      (byte (headerFlags w0 e.runs.isSome e.ext.isSome) :: (optRuns e ++ (optExt e ++ X))) := by
  simp only [header, optRuns, optExt, List.append_assoc, List.cons_append, List.nil_append]
  rfl

theorem drop_le16 (n : Nat) (X : Bytes) : (le16 n ++ X).drop 2 = X := rfl
theorem drop_le32 (n : Nat) (X : Bytes) : (le32 n ++ X).drop 4 = X := rfl
theorem drop_le16_le32 (n m : Nat) (X : Bytes) : (le16 n ++ (le32 m ++ X)).drop 6 = X := rfl

theorem header_len3 (e : Entry) (w0 : Bool) (X : Bytes) : ¬ (header e w0 ++ X).length < 3 := by
  rw [header_eq]; simp [le16]

theorem header_drop3 (e : Entry) (w0 : Bool) (X : Bytes) :
    (header e w0 ++ X).drop 3 = optRuns e ++ (optExt e ++ X) := by
  rw [header_eq]; simp [le16]

theorem header_flags (e : Entry) (w0 : Bool) (X : Bytes) :
    ((header e w0 ++ X).getD 2 0).toNat = headerFlags w0 e.runs.isSome e.ext.isSome := by
  rw [header_eq]
  simp only [le16, List.cons_append, List.nil_append, List.getD_cons_succ, List.getD_cons_zero, byte_toNat]
  cases w0 <;> cases e.runs.isSome <;> cases e.ext.isSome <;> rfl

theorem flags_wide (w r x : Bool) : (headerFlags w r x % 2 == 1) = w := by
  cases w <;> cases r <;> cases x <;> rfl
theorem flags_rich (w r x : Bool) : (headerFlags w r x / 8 % 2 == 1) = r := by
  cases w <;> cases r <;> cases x <;> rfl
theorem flags_ext (w r x : Bool) : (headerFlags w r x / 4 % 2 == 1) = x := by
  cases w <;> cases r <;> cases x <;> rfl

/-- the number of bytes `read_rich_extended_string` skips for rgRun / ExtRst -/
def optLen : Option Bytes → Nat | some r => r.length | none => 0
def runBytes (e : Entry) : Nat := optLen e.runs
def extBytes (e : Entry) : Nat := optLen e.ext

/-- parsing the 3..9-byte header: what is left is a `read_dbcs` of `cch` characters followed by the two skips -/
theorem readRichAt_header (e : Entry) (w0 : Bool) (X : Bytes) (cont : List Bytes)
    (hc : e.units.length < 65536) (hr : runsLenOk e.runs) (hx : extLenOk e.ext) :
    readRichAt ⟨header e w0 ++ X, cont⟩ = (do
      let (us, r) ← readDbcs e.units.length w0 X cont
      let r ← skip (runBytes e) r.data r.cont
      let r ← skip (extBytes e) r.data r.cont
      pure (decodeUtf16 us, r)) := by
  unfold readRichAt
  simp only [header_len3, if_false, header_drop3, header_flags, flags_wide, flags_rich, flags_ext]
  have hcch : u16 (header e w0 ++ X) = e.units.length := by rw [header_eq]; exact u16_le16 _ hc _
  rw [hcch]
  cases hruns : e.runs with
  | none =>
    cases hext : e.ext with
    | none =>
      simp only [optRuns, optExt, runBytes, extBytes, optLen, hruns, hext, Option.isSome_none, Bool.false_eq_true,
        Bool.false_and, if_false, List.nil_append, Nat.zero_mul]
    | some x =>
      have hx' : x.length < 2147483648 := by simpa [hext, extLenOk] using hx
      have h2 : u32 (le32 x.length ++ X) = x.length := u32_le32 _ (by omega) _
      have h3 : ¬ (le32 x.length ++ X).length < 4 := by simp
      simp only [optRuns, optExt, runBytes, extBytes, optLen, hruns, hext, Option.isSome_none, Option.isSome_some,
        Bool.false_eq_true, Bool.false_and, if_false, if_true, List.nil_append, Nat.zero_mul, Bool.true_and,
        decide_eq_true_eq, h3, h2, i32AsUsize, hx', drop_le32]
  | some r =>
    have hr' : r.length % 4 = 0 ∧ r.length / 4 < 65536 := by simpa [hruns, runsLenOk] using hr
    have h4 : r.length / 4 * 4 = r.length := by omega
    cases hext : e.ext with
    | none =>
      have h1 : u16 (le16 (r.length / 4) ++ X) = r.length / 4 := u16_le16 _ hr'.2 _
      have h3 : ¬ (le16 (r.length / 4) ++ X).length < 2 := by simp
      simp only [optRuns, optExt, runBytes, extBytes, optLen, hruns, hext, Option.isSome_none, Option.isSome_some,
        Bool.false_eq_true, Bool.false_and, if_false, if_true, List.nil_append, Bool.true_and,
        decide_eq_true_eq, h3, h1, h4, drop_le16]
    | some x =>
      have hx' : x.length < 2147483648 := by simpa [hext, extLenOk] using hx
      have h1 : u16 (le16 (r.length / 4) ++ (le32 x.length ++ X)) = r.length / 4 := u16_le16 _ hr'.2 _
      have h2 : u32 (le32 x.length ++ X) = x.length := u32_le32 _ (by omega) _
      have h3 : ¬ (le16 (r.length / 4) ++ (le32 x.length ++ X)).length < 2 := by simp
      have h5 : ¬ (le32 x.length ++ X).length < 4 := by simp
      simp only [optRuns, optExt, runBytes, extBytes, optLen, hruns, hext, Option.isSome_some,
        if_false, if_true, Bool.true_and, decide_eq_true_eq, h3, h5, h1, h2, h4, i32AsUsize, hx',
        drop_le16, drop_le32]


theorem skip_blockOpt (block : Option Bytes) (cuts : List Nat) (rest : List Tok) (h : blockOk block cuts) :
    skip (optLen block)
      (lay (blockToks block cuts ++ rest)).1 (lay (blockToks block cuts ++ rest)).2
      = .ok ⟨(lay rest).1, (lay rest).2⟩ := by
  cases block with
  | none => simp [blockToks, skip_zero, optLen]
  | some bs => exact skip_block bs cuts rest h

theorem zip_map_fst {α β : Type} : ∀ (l : List α) (m : List β), l.length = m.length → (l.zip m).map (·.1) = l
  | [], _, _ => by simp
  | a :: l, [], h => by simp at h
  | a :: l, b :: m, h => by
    simp only [List.zip_cons_cons, List.map_cons]
    rw [zip_map_fst l m (by simpa using h)]

theorem segments_tail_length (e : Entry) (ly : EntryLayout) :
    (segments e ly).tail.length = (ly.cuts.map (·.2)).length := by
  simp [segments, splitSizes_length]

/-- the characters of an entry, gathered across its CONTINUE breaks -/
theorem readDbcs_chars (e : Entry) (ly : EntryLayout) (hok : EntryOk e ly) (rest : List Tok) :
    readDbcs e.units.length ly.wide0 (lay (charToks e ly ++ rest)).1 (lay (charToks e ly ++ rest)).2
      = .ok (e.units, ⟨(lay rest).1, (lay rest).2⟩) := by
  have hz := zip_map_fst (segments e ly).tail (ly.cuts.map (·.2)) (segments_tail_length e ly)
  have hcons := cons_headD_tail (segments e ly) (splitSizes_ne_nil _ _)
  have hflat : (segments e ly).headD [] ++ (segments e ly).tail.flatten = e.units := by
    have := splitSizes_flatten (ly.cuts.map (·.1)) e.units
    unfold segments at hcons ⊢
    rw [← hcons, List.flatten_cons] at this
    exact this
  have hmem : ∀ s ∈ segments e ly, ∀ u ∈ s, u < 65536 := by
    intro s hs u hu
    apply hok.unitsLt
    rw [← hflat, ← List.flatten_cons, hcons]
    exact List.mem_flatten.mpr ⟨s, hs, hu⟩
  have hn : e.units.length = ((segments e ly).headD []).length +
      (((segments e ly).tail.zip (ly.cuts.map (·.2))).map (·.1.length)).sum := by
    have := splitSizes_total e.units (ly.cuts.map (·.1))
    rw [← this]
    congr 2
    rw [show (fun (x : List Nat × Bool) => x.1.length) = List.length ∘ (·.1) from rfl, ← List.map_map, hz]
    rfl
  have hlast : lastOk ((segments e ly).tail.zip (ly.cuts.map (·.2))) := by
    intro p hp
    apply hok.segsLast p.1
    rw [← hz, List.getLast?_map, hp]; rfl
  have h := readDbcs_segs ((segments e ly).tail.zip (ly.cuts.map (·.2))) ((segments e ly).headD []) ly.wide0
    e.units.length rest hn
    (fun u hu => by
      apply hmem _ _ u hu
      rw [← hcons]; simp)
    hok.pack0
    (fun p hp => by
      have hp1 : p.1 ∈ (segments e ly).tail := by
        rw [← hz]; exact List.mem_map_of_mem (f := (·.1)) hp
      refine ⟨fun u hu => hmem p.1 ?_ u hu, hok.packs p hp⟩
      rw [← hcons]; exact List.mem_cons_of_mem _ hp1)
    hlast
  unfold charToks
  rw [List.cons_append, h, hz, hflat]

/-- **one entry, any legal layout**: the reader returns the entry's text and stops exactly after the entry
    (rich-text runs and the extended block skipped, nothing of what follows consumed) -/
theorem readRichAt_entry (e : Entry) (ly : EntryLayout) (hok : EntryOk e ly) (rest : List Tok) :
    readRichAt ⟨(lay (entryBody e ly ++ rest)).1, (lay (entryBody e ly ++ rest)).2⟩
      = .ok (decodeUtf16 e.units, ⟨(lay rest).1, (lay rest).2⟩) := by
  unfold entryBody
  rw [List.cons_append, lay_b, readRichAt_header e ly.wide0 _ _ hok.cch hok.runsLen hok.extLen]
  rw [List.append_assoc, readDbcs_chars e ly hok]
  simp only [Res.bind_ok]
  have h1 := skip_blockOpt e.runs ly.runCuts (blockToks e.ext ly.extCuts ++ rest) hok.runsOk
  have h2 := skip_blockOpt e.ext ly.extCuts rest hok.extOk
  rw [List.append_assoc]
  unfold runBytes extBytes
  rw [h1]
  simp only [Res.bind_ok]
  rw [h2]
  rfl

theorem readRich_entry (e : Entry) (ly : EntryLayout) (hok : EntryOk e ly) (rest : List Tok) :
    readRich ⟨(lay (entryToks e ly ++ rest)).1, (lay (entryToks e ly ++ rest)).2⟩
      = .ok (decodeUtf16 e.units, ⟨(lay rest).1, (lay rest).2⟩) := by
  have hne : (lay (entryBody e ly ++ rest)).1 ≠ [] := by
    unfold entryBody
    rw [List.cons_append, lay_b, header_eq]
    simp [le16]
  unfold readRich entryToks
  cases ly.cutBefore
  · simp only [Bool.false_eq_true, if_false]
    have : (lay (entryBody e ly ++ rest)).1.isEmpty = false := by simpa using hne
    simp only [this, Bool.false_eq_true, if_false]
    exact readRichAt_entry e ly hok rest
  · simp only [if_true, List.cons_append, lay_cut, List.isEmpty_nil, continueRecord]
    exact readRichAt_entry e ly hok rest


/-! ### the whole table -/

theorem readStrings_table : ∀ (table : List Entry) (lys : List EntryLayout) (rest : List Tok),
    TableOk table lys →
    readStrings table.length ⟨(lay (tableToks table lys ++ rest)).1, (lay (tableToks table lys ++ rest)).2⟩
      = .ok (table.map fun e => decodeUtf16 e.units)
  | [], [], _, _ => by simp [readStrings]
  | [], _ :: _, _, h => by simp [TableOk] at h
  | _ :: _, [], _, h => by simp [TableOk] at h
  | e :: es, ly :: lys, rest, h => by
    obtain ⟨he, hes⟩ := h
    have ih := readStrings_table es lys rest hes
    simp only [tableToks, List.length_cons, readStrings, List.append_assoc]
    rw [readRich_entry e ly he]
    simp only [Res.bind_ok, ih, List.map_cons]
    rfl

theorem parseSst_encode (cstTotal : Nat) (table : List Entry) (lys : List EntryLayout)
    (hok : TableOk table lys) (hcount : table.length < 2147483648) (typ : Nat) :
    parseSst ⟨typ, (lay (.b (le32 cstTotal ++ le32 table.length) :: tableToks table lys)).1,
        (lay (.b (le32 cstTotal ++ le32 table.length) :: tableToks table lys)).2⟩
      = .ok (table.map fun e => decodeUtf16 e.units) := by
  have h := readStrings_table table lys [] hok
  rw [List.append_nil] at h
  unfold parseSst
  simp only [lay_b, List.append_assoc]
  have h8 : ¬ (le32 cstTotal ++ (le32 table.length ++ (lay (tableToks table lys)).1)).length < 8 := by simp; omega
  have hd4 : (le32 cstTotal ++ (le32 table.length ++ (lay (tableToks table lys)).1)).drop 4
      = le32 table.length ++ (lay (tableToks table lys)).1 := rfl
  have hd8 : (le32 cstTotal ++ (le32 table.length ++ (lay (tableToks table lys)).1)).drop 8
      = (lay (tableToks table lys)).1 := rfl
  have hu : u32 (le32 table.length ++ (lay (tableToks table lys)).1) = table.length := u32_le32 _ (by omega) _
  have hn : ¬ 2147483648 ≤ table.length := by omega
  simp only [h8, if_false, hd4, hd8, hu, hn, h]

/-! ### record framing -/

theorem recHdr_length (t n : Nat) : (recHdr t n).length = 4 := rfl

theorem frameConts_length_ge (conts : List Bytes) : 4 * conts.length ≤ (frameConts conts).length := by
  induction conts with
  | nil => simp [frameConts]
  | cons f fs ih => simp [frameConts, recHdr_length]; omega

theorem u16_recHdr (t n : Nat) (ht : t < 65536) (X : Bytes) : u16 (recHdr t n ++ X) = t := by
  unfold recHdr; rw [List.append_assoc]; exact u16_le16 t ht _

theorem u16_recHdr_len (t n : Nat) (hn : n < 65536) (X : Bytes) : u16 ((recHdr t n ++ X).drop 2) = n := by
  have : (recHdr t n ++ X).drop 2 = le16 n ++ X := rfl
  rw [this]; exact u16_le16 n hn _

/-- what follows the last CONTINUE record is not a CONTINUE record -/
def notCont (rest : Bytes) : Prop := ¬ (hasLen rest 5 = true ∧ u16 rest = 0x3C)

theorem gather_frameConts (conts : List Bytes) : ∀ (rest : Bytes) (fuel : Nat),
    (∀ f ∈ conts, f ≠ [] ∧ f.length < 65536) → notCont rest → conts.length < fuel →
    gather fuel (frameConts conts ++ rest) = .ok (conts, rest) := by
  induction conts with
  | nil =>
    intro rest fuel _ hrest hf
    obtain ⟨k, rfl⟩ : ∃ k, fuel = k + 1 := ⟨fuel - 1, by simp at hf; omega⟩
    unfold notCont at hrest
    simp only [frameConts, List.nil_append, gather]
    by_cases h5 : hasLen rest 5 = true
    · have : ¬ u16 rest = 0x3C := fun h => hrest ⟨h5, h⟩
      simp [h5, this]
    · simp [h5]
  | cons f fs ih =>
    intro rest fuel hall hrest hf
    obtain ⟨k, rfl⟩ : ∃ k, fuel = k + 1 := ⟨fuel - 1, by simp at hf; omega⟩
    obtain ⟨hne, hlen⟩ := hall f (by simp)
    have hpos : 0 < f.length := List.length_pos_iff.mpr hne
    have ih := ih rest k (fun g hg => hall g (by simp [hg])) hrest (by simpa using hf)
    simp only [frameConts, List.append_assoc, gather]
    have e1 : hasLen (recHdr 60 f.length ++ (f ++ (frameConts fs ++ rest))) 5 = true := by
      rw [hasLen_iff]; simp [recHdr_length]; omega
    have e2 : u16 (recHdr 60 f.length ++ (f ++ (frameConts fs ++ rest))) = 0x3C := u16_recHdr _ _ (by omega) _
    have e3 : u16 ((recHdr 60 f.length ++ (f ++ (frameConts fs ++ rest))).drop 2) = f.length := u16_recHdr_len _ _ hlen _
    have e4 : hasLen (recHdr 60 f.length ++ (f ++ (frameConts fs ++ rest))) (f.length + 4) = true := by
      rw [hasLen_iff]; simp [recHdr_length]; omega
    have e5 : (recHdr 60 f.length ++ (f ++ (frameConts fs ++ rest))).drop (f.length + 4) = frameConts fs ++ rest := by
      rw [← List.append_assoc, ← List.append_assoc, List.append_assoc (recHdr 60 f.length ++ f)]
      apply List.drop_left'
      simp [recHdr_length]; omega
    have e6 : ((recHdr 60 f.length ++ (f ++ (frameConts fs ++ rest))).take (f.length + 4)).drop 4 = f := by
      rw [← List.append_assoc, List.take_left' (by simp [recHdr_length]; omega)]
      exact List.drop_left' (recHdr_length _ _)
    simp only [e1, e2, e3, e4, e5, e6, ih, Bool.true_and, decide_true, if_true, Bool.not_true, Bool.false_eq_true, if_false,
      Res.bind_ok]
    rfl

/-- **framing round trip**: `RecordIter` gives back a record's payload and its CONTINUE fragments -/
theorem nextRecord_frameRec (typ : Nat) (d : Bytes) (conts : List Bytes) (rest : Bytes)
    (ht : typ < 65536) (hd : d.length < 65536) (hall : ∀ f ∈ conts, f ≠ [] ∧ f.length < 65536)
    (hrest : notCont rest) :
    nextRecord (frameRec typ d conts ++ rest) = some (.ok (⟨typ, d, conts⟩, rest)) := by
  unfold nextRecord frameRec
  simp only [List.append_assoc]
  have e1 : hasLen (recHdr typ d.length ++ (d ++ (frameConts conts ++ rest))) 4 = true := by
    rw [hasLen_iff]; simp [recHdr_length]
  have e2 : u16 (recHdr typ d.length ++ (d ++ (frameConts conts ++ rest))) = typ := u16_recHdr _ _ ht _
  have e3 : u16 ((recHdr typ d.length ++ (d ++ (frameConts conts ++ rest))).drop 2) = d.length := u16_recHdr_len _ _ hd _
  have e4 : hasLen (recHdr typ d.length ++ (d ++ (frameConts conts ++ rest))) (d.length + 4) = true := by
    rw [hasLen_iff]; simp [recHdr_length]; omega
  have e5 : (recHdr typ d.length ++ (d ++ (frameConts conts ++ rest))).drop (d.length + 4) = frameConts conts ++ rest := by
    rw [← List.append_assoc]
    apply List.drop_left'
    simp [recHdr_length]; omega
  have e6 : ((recHdr typ d.length ++ (d ++ (frameConts conts ++ rest))).take (d.length + 4)).drop 4 = d := by
    rw [← List.append_assoc, List.take_left' (by simp [recHdr_length]; omega)]
    exact List.drop_left' (recHdr_length _ _)
  have hfuel : conts.length < (frameConts conts ++ rest).length / 4 + 1 := by
    have := frameConts_length_ge conts
    rw [List.length_append]; omega
  simp only [e1, e3, e4, e5, e6, e2, Bool.not_true, Bool.false_eq_true, if_false,
    gather_frameConts conts rest _ hall hrest hfuel, Res.bind_ok]
  rfl


/-! ### no CONTINUE record of an encoded table is empty -/

/-- every `cut` is directly followed by a non-empty payload -/
def goodToks : List Tok → Prop
  | [] => True
  | .b _ :: ts => goodToks ts
  | .cut :: .b x :: ts => x ≠ [] ∧ goodToks ts
  | .cut :: _ => False

theorem goodToks_append : ∀ (a b : List Tok), goodToks a → goodToks b → goodToks (a ++ b)
  | [], b, _, hb => hb
  | .b _ :: ts, b, ha, hb => by
    simp only [List.cons_append, goodToks] at ha ⊢
    exact goodToks_append ts b ha hb
  | [.cut], _, ha, _ => by simp [goodToks] at ha
  | .cut :: .cut :: _, _, ha, _ => by simp [goodToks] at ha
  | .cut :: .b x :: ts, b, ha, hb => by
    simp only [List.cons_append, goodToks] at ha ⊢
    exact ⟨ha.1, goodToks_append ts b ha.2 hb⟩

theorem lay_good : ∀ (ts : List Tok), goodToks ts → ∀ f ∈ (lay ts).2, f ≠ []
  | [], _, f, hf => by simp at hf
  | .b _ :: ts, h, f, hf => by
    simp only [lay_b] at hf
    exact lay_good ts (by simpa [goodToks] using h) f hf
  | [.cut], h, _, _ => by simp [goodToks] at h
  | .cut :: .cut :: _, h, _, _ => by simp [goodToks] at h
  | .cut :: .b x :: ts, h, f, hf => by
    simp only [goodToks] at h
    simp only [lay_cut, lay_b, List.mem_cons] at hf
    rcases hf with hf | hf
    · subst hf; simp [h.1]
    · exact lay_good ts h.2 f hf

theorem goodToks_contToks : ∀ (segs : List (List Nat × Bool)), goodToks (contToks segs)
  | [] => trivial
  | (s, w) :: rest => by
    simp only [contToks, goodToks]
    exact ⟨by simp, goodToks_contToks rest⟩

theorem goodToks_chunkToks : ∀ (cs : List Bytes), (∀ c ∈ cs, c ≠ []) → goodToks (chunkToks cs)
  | [], _ => trivial
  | c :: cs, h => by
    simp only [chunkToks, goodToks]
    exact ⟨h c (by simp), goodToks_chunkToks cs (fun x hx => h x (by simp [hx]))⟩

theorem goodToks_blockToks (block : Option Bytes) (cuts : List Nat) (h : blockOk block cuts) :
    goodToks (blockToks block cuts) := by
  cases block with
  | none => trivial
  | some bs => simp only [blockToks, goodToks]; exact goodToks_chunkToks _ h

theorem header_ne_nil (e : Entry) (w : Bool) : header e w ≠ [] := by
  have := header_eq e w []
  rw [List.append_nil] at this
  rw [this]; simp [le16]

theorem goodToks_entryToks (e : Entry) (ly : EntryLayout) (hok : EntryOk e ly) : goodToks (entryToks e ly) := by
  have hb : goodToks (entryBody e ly) := by
    unfold entryBody charToks
    simp only [goodToks, List.cons_append]
    exact goodToks_append _ _ (goodToks_contToks _)
      (goodToks_append _ _ (goodToks_blockToks _ _ hok.runsOk) (goodToks_blockToks _ _ hok.extOk))
  unfold entryToks
  cases ly.cutBefore
  · simpa using hb
  · simp only [if_true]
    unfold entryBody at hb ⊢
    simp only [goodToks] at hb ⊢
    exact ⟨header_ne_nil e _, hb⟩

theorem goodToks_tableToks : ∀ (table : List Entry) (lys : List EntryLayout), TableOk table lys →
    goodToks (tableToks table lys)
  | [], [], _ => trivial
  | [], _ :: _, h => by simp [TableOk] at h
  | _ :: _, [], h => by simp [TableOk] at h
  | e :: es, ly :: lys, h => by
    simp only [tableToks]
    exact goodToks_append _ _ (goodToks_entryToks e ly h.1) (goodToks_tableToks es lys h.2)

/-! ### whole stream -/

theorem notCont_nil : notCont [] := by simp [notCont, hasLen]

theorem sstFromStream_encode (cstTotal : Nat) (table : List Entry) (lys : List EntryLayout)
    (hok : TableOk table lys) (hcount : table.length < 2147483648)
    (hsizes : ∀ f ∈ encodeSst cstTotal table lys, f.length < 65536) (fuel : Nat)
    (rest : Bytes) (hrest : notCont rest) :
    sstFromStream (fuel + 1) (frameSst (encodeSst cstTotal table lys) ++ rest)
      = .ok (table.map fun e => decodeUtf16 e.units) := by
  have hgood : goodToks (.b (le32 cstTotal ++ le32 table.length) :: tableToks table lys) := by
    simp only [goodToks]; exact goodToks_tableToks table lys hok
  have hne := lay_good _ hgood
  unfold encodeSst at hsizes ⊢
  simp only [frameSst]
  have hnr := nextRecord_frameRec 0xFC
    (lay (.b (le32 cstTotal ++ le32 table.length) :: tableToks table lys)).1
    (lay (.b (le32 cstTotal ++ le32 table.length) :: tableToks table lys)).2 rest (by omega)
    (hsizes _ (List.mem_cons_self ..)) (fun f hf => ⟨hne f hf, hsizes f (List.mem_cons_of_mem _ hf)⟩) hrest
  simp only [sstFromStream, hnr, Res.bind_ok, if_true]
  exact parseSst_encode cstTotal table lys hok hcount 0xFC

/-! ### strings inside one record -/

theorem parseString_roundtrip (wide : Bool) (us : List Nat) (trail : Bytes)
    (hlt : ∀ u ∈ us, u < 65536) (hcch : us.length < 65536) (hpack : wide = false → ∀ u ∈ us, u < 256) :
    parseString (xlUnicodeString wide us ++ trail) true = .ok (decodeUtf16 us) := by
  unfold parseString parseStringWith xlUnicodeString
  have hl : ¬ (le16 us.length ++ (flagByte wide :: encUnits wide us) ++ trail).length < 3 := by simp; omega
  have hc : u16 (le16 us.length ++ (flagByte wide :: encUnits wide us) ++ trail) = us.length := by
    rw [List.append_assoc]; exact u16_le16 _ hcch _
  have hf : (le16 us.length ++ (flagByte wide :: encUnits wide us) ++ trail).getD 2 0 = flagByte wide := rfl
  have hd : (le16 us.length ++ (flagByte wide :: encUnits wide us) ++ trail).drop 3 = encUnits wide us ++ trail := rfl
  simp only [if_true, hl, if_false, hc, hf, hd, flagHigh_flagByte]
  rw [decodeTo_segment wide us trail us.length hlt hpack (Nat.le_refl _) (Or.inr rfl)]

theorem parseShortString_roundtrip (wide : Bool) (us : List Nat) (trail : Bytes)
    (hlt : ∀ u ∈ us, u < 65536) (hcch : us.length < 256) (hpack : wide = false → ∀ u ∈ us, u < 256) :
    parseShortString (shortXlUnicodeString wide us ++ trail) true = .ok (decodeUtf16 us) := by
  unfold parseShortString shortXlUnicodeString
  have hl : ¬ (byte us.length :: flagByte wide :: (encUnits wide us ++ trail)).length < 2 := by simp
  have hb : (byte us.length).toNat = us.length := by rw [byte_toNat]; omega
  simp only [if_true, List.cons_append, List.getD_cons_zero, List.drop_succ_cons, List.drop_zero, hb,
    flagHigh_flagByte]
  rw [decodeTo_segment wide us trail us.length hlt hpack (Nat.le_refl _) (Or.inr rfl)]
  simp only [hl, if_false]


/-! ### the readers never run out of fuel -/

theorem bind_ne_fuel {α β : Type} (x : Res α) (f : α → Res β) (hx : x ≠ .outOfFuel) (hf : ∀ a, f a ≠ .outOfFuel) :
    (x >>= f) ≠ .outOfFuel := by
  cases x with
  | ok a => exact hf a
  | err e => simp [bind, Res.bind]
  | panic e => simp [bind, Res.bind]
  | outOfFuel => exact absurd rfl hx

theorem ite_ne_fuel {α : Type} (c : Prop) [Decidable c] (a b : Res α) (ha : a ≠ .outOfFuel) (hb : b ≠ .outOfFuel) :
    (if c then a else b) ≠ .outOfFuel := by split <;> assumption

theorem skip_ne_fuel : ∀ (cont : List Bytes) (n : Nat) (data : Bytes), skip n data cont ≠ .outOfFuel
  | [], n, data => by rw [skip]; split <;> (try split) <;> simp
  | f :: fs, n, data => by
    rw [skip]; split <;> (try split) <;> (try simp)
    exact skip_ne_fuel fs _ f

theorem readDbcs_ne_fuel : ∀ (cont : List Bytes) (n : Nat) (w : Bool) (data : Bytes), readDbcs n w data cont ≠ .outOfFuel
  | [], n, w, data => by
    rw [readDbcs]
    by_cases h0 : n = 0 <;> by_cases h1 : n - (decodeTo data n w).2.1 = 0 <;> simp [h0, h1]
  | [] :: _, n, w, data => by
    rw [readDbcs]
    by_cases h0 : n = 0 <;> by_cases h1 : n - (decodeTo data n w).2.1 = 0 <;> simp [h0, h1]
  | (b :: rest) :: fs, n, w, data => by
    rw [readDbcs]
    by_cases h0 : n = 0
    · simp [h0]
    · by_cases h1 : n - (decodeTo data n w).2.1 = 0
      · simp [h0, h1]
      · simp only [h0, h1, if_false]
        exact bind_ne_fuel _ _ (readDbcs_ne_fuel fs _ _ rest) (fun a => by simp [pure])

theorem readRichAt_ne_fuel (r : Rd) : readRichAt r ≠ .outOfFuel := by
  unfold readRichAt
  simp only []
  refine ite_ne_fuel _ _ _ (by simp) ?_
  refine ite_ne_fuel _ _ _ (by simp) ?_
  refine ite_ne_fuel _ _ _ (by simp) ?_
  refine bind_ne_fuel _ _ (readDbcs_ne_fuel _ _ _ _) (fun a => ?_)
  refine bind_ne_fuel _ _ (skip_ne_fuel _ _ _) (fun b => ?_)
  refine bind_ne_fuel _ _ (skip_ne_fuel _ _ _) (fun c => by simp [pure])

theorem readRich_ne_fuel (r : Rd) : readRich r ≠ .outOfFuel := by
  unfold readRich
  split
  · simp
  · exact readRichAt_ne_fuel _

theorem readStrings_ne_fuel : ∀ (n : Nat) (r : Rd), readStrings n r ≠ .outOfFuel
  | 0, _ => by simp [readStrings]
  | n + 1, r => by
    rw [readStrings]
    refine bind_ne_fuel _ _ (readRich_ne_fuel r) (fun a => ?_)
    refine bind_ne_fuel _ _ (readStrings_ne_fuel n _) (fun b => by simp [pure])

theorem parseSst_ne_fuel (r : Rec) : parseSst r ≠ .outOfFuel := by
  unfold parseSst
  simp only []
  refine ite_ne_fuel _ _ _ (by simp) ?_
  refine ite_ne_fuel _ _ _ (by simp) ?_
  exact readStrings_ne_fuel _ _

theorem gather_fuel : ∀ (fuel : Nat) (s : Bytes), s.length / 4 < fuel → gather fuel s ≠ .outOfFuel
  | 0, _, h => by omega
  | fuel + 1, s, h => by
    rw [gather]
    by_cases hc : (hasLen s 5 && decide (u16 s = 0x3C)) = true
    · simp only [hc, if_true]
      simp only [Bool.and_eq_true, decide_eq_true_eq, hasLen_iff] at hc
      by_cases h2 : (!hasLen s (u16 (s.drop 2) + 4)) = true
      · simp [h2]
      · simp only [h2, Bool.false_eq_true, if_false]
        have hlen : ((s.drop (u16 (s.drop 2) + 4)).length) / 4 < fuel := by
          rw [List.length_drop]; omega
        have ih := gather_fuel fuel _ hlen
        cases hg : gather fuel (s.drop (u16 (s.drop 2) + 4)) with
        | ok v => simp [bind, Res.bind]
        | err e => simp [bind, Res.bind]
        | panic e => simp [bind, Res.bind]
        | outOfFuel => exact absurd hg ih
    · simp [hc]



theorem gather_rest_le : ∀ (fuel : Nat) (s : Bytes) (fs : List Bytes) (rest : Bytes),
    gather fuel s = .ok (fs, rest) → rest.length ≤ s.length
  | 0, _, _, _, h => by simp [gather] at h
  | fuel + 1, s, fs, rest, h => by
    rw [gather] at h
    by_cases hc : (hasLen s 5 && decide (u16 s = 0x3C)) = true
    · simp only [hc, if_true] at h
      by_cases h2 : (!hasLen s (u16 (s.drop 2) + 4)) = true
      · simp [h2] at h
      · simp only [h2, Bool.false_eq_true, if_false] at h
        cases hg : gather fuel (s.drop (u16 (s.drop 2) + 4)) with
        | ok v =>
          obtain ⟨fs', rest'⟩ := v
          have ih := gather_rest_le fuel _ fs' rest' hg
          rw [hg] at h
          simp only [bind, Res.bind, pure, Res.ok.injEq, Prod.mk.injEq] at h
          rw [← h.2]
          rw [List.length_drop] at ih; omega
        | err e => rw [hg] at h; simp [bind, Res.bind] at h
        | panic e => rw [hg] at h; simp [bind, Res.bind] at h
        | outOfFuel => rw [hg] at h; simp [bind, Res.bind] at h
    · simp only [hc, Bool.false_eq_true, if_false, Res.ok.injEq, Prod.mk.injEq] at h
      rw [← h.2]; exact Nat.le_refl _

theorem nextRecord_ne_fuel (s : Bytes) : nextRecord s ≠ some .outOfFuel := by
  unfold nextRecord
  simp only []
  split
  · split <;> simp
  · split
    · simp
    · intro h
      simp only [Option.some.injEq] at h
      exact bind_ne_fuel _ _ (gather_fuel _ _ (by omega)) (fun a => by simp [pure]) h

theorem nextRecord_progress (s : Bytes) (r : Rec) (rest : Bytes) (h : nextRecord s = some (.ok (r, rest))) :
    rest.length + 4 ≤ s.length := by
  unfold nextRecord at h
  simp only [] at h
  split at h
  · split at h <;> simp at h
  · rename_i h4
    split at h
    · simp at h
    · rename_i hl
      simp only [hasLen_iff, Bool.not_eq_eq_eq_not, Bool.not_true, decide_eq_false_iff_not, Nat.not_le] at h4 hl
      simp only [Option.some.injEq] at h
      cases hg : gather ((s.drop (u16 (s.drop 2) + 4)).length / 4 + 1) (s.drop (u16 (s.drop 2) + 4)) with
      | ok v =>
        obtain ⟨fs', rest'⟩ := v
        have := gather_rest_le _ _ _ _ hg
        rw [hg] at h
        simp only [bind, Res.bind, pure, Res.ok.injEq, Prod.mk.injEq] at h
        rw [← h.2]
        rw [List.length_drop] at this
        omega
      | err e => rw [hg] at h; simp [bind, Res.bind] at h
      | panic e => rw [hg] at h; simp [bind, Res.bind] at h
      | outOfFuel => rw [hg] at h; simp [bind, Res.bind] at h

/-- the driver's fuel (`stream length + 1`) is never exhausted -/
theorem sstFromStream_ne_fuel : ∀ (fuel : Nat) (s : Bytes), s.length < fuel → sstFromStream fuel s ≠ .outOfFuel
  | 0, _, h => by omega
  | fuel + 1, s, h => by
    rw [sstFromStream]
    cases hn : nextRecord s with
    | none => simp
    | some x =>
      cases x with
      | ok v =>
        obtain ⟨r, rest⟩ := v
        have hp := nextRecord_progress s r rest hn
        simp only [Res.bind_ok]
        refine ite_ne_fuel _ _ _ (parseSst_ne_fuel r) (sstFromStream_ne_fuel fuel rest (by omega))
      | err e => simp [bind, Res.bind]
      | panic e => simp [bind, Res.bind]
      | outOfFuel => exact absurd hn (nextRecord_ne_fuel s)

/-! ### the readers never panic (after the robustness fixes every unchecked read is guarded) -/

def NoPanic {α : Type} (x : Res α) : Prop := ∀ e, x ≠ .panic e

theorem bind_noPanic {α β : Type} (x : Res α) (f : α → Res β) (hx : NoPanic x) (hf : ∀ a, NoPanic (f a)) :
    NoPanic (x >>= f) := by
  intro e
  cases x with
  | ok a => exact hf a e
  | err e' => simp [bind, Res.bind]
  | panic e' => exact absurd rfl (hx e')
  | outOfFuel => simp [bind, Res.bind]

theorem ite_noPanic {α : Type} (c : Prop) [Decidable c] (a b : Res α) (ha : NoPanic a) (hb : NoPanic b) :
    NoPanic (if c then a else b) := by split <;> assumption

theorem ok_noPanic {α : Type} (a : α) : NoPanic (Res.ok a) := by intro e; simp
theorem err_noPanic {α : Type} (s : String) : NoPanic (Res.err s : Res α) := by intro e; simp
theorem fuel_noPanic {α : Type} : NoPanic (Res.outOfFuel : Res α) := by intro e; simp

theorem skip_noPanic : ∀ (cont : List Bytes) (n : Nat) (data : Bytes), NoPanic (skip n data cont)
  | [], n, data => by
    rw [skip]
    exact ite_noPanic _ _ _ (ok_noPanic _) (ite_noPanic _ _ _ (ok_noPanic _) (err_noPanic _))
  | f :: fs, n, data => by
    rw [skip]
    exact ite_noPanic _ _ _ (ok_noPanic _) (ite_noPanic _ _ _ (ok_noPanic _) (skip_noPanic fs _ f))

theorem readDbcs_noPanic : ∀ (cont : List Bytes) (n : Nat) (w : Bool) (data : Bytes), NoPanic (readDbcs n w data cont)
  | [], n, w, data => by
    rw [readDbcs]
    exact ite_noPanic _ _ _ (ok_noPanic _) (ite_noPanic _ _ _ (ok_noPanic _) (err_noPanic _))
  | [] :: _, n, w, data => by
    rw [readDbcs]
    exact ite_noPanic _ _ _ (ok_noPanic _) (ite_noPanic _ _ _ (ok_noPanic _) (err_noPanic _))
  | (b :: rest) :: fs, n, w, data => by
    rw [readDbcs]
    refine ite_noPanic _ _ _ (ok_noPanic _) (ite_noPanic _ _ _ (ok_noPanic _) ?_)
    exact bind_noPanic _ _ (readDbcs_noPanic fs _ _ rest) (fun a => ok_noPanic _)

theorem readRichAt_noPanic (r : Rd) : NoPanic (readRichAt r) := by
  unfold readRichAt
  simp only []
  refine ite_noPanic _ _ _ (err_noPanic _) ?_
  refine ite_noPanic _ _ _ (err_noPanic _) ?_
  refine ite_noPanic _ _ _ (err_noPanic _) ?_
  refine bind_noPanic _ _ (readDbcs_noPanic _ _ _ _) (fun a => ?_)
  refine bind_noPanic _ _ (skip_noPanic _ _ _) (fun b => ?_)
  refine bind_noPanic _ _ (skip_noPanic _ _ _) (fun c => ok_noPanic _)

theorem readRich_noPanic (r : Rd) : NoPanic (readRich r) := by
  unfold readRich
  split
  · exact err_noPanic _
  · exact readRichAt_noPanic _

theorem readStrings_noPanic : ∀ (n : Nat) (r : Rd), NoPanic (readStrings n r)
  | 0, _ => by rw [readStrings]; exact ok_noPanic _
  | n + 1, r => by
    rw [readStrings]
    refine bind_noPanic _ _ (readRich_noPanic r) (fun a => ?_)
    refine bind_noPanic _ _ (readStrings_noPanic n _) (fun b => ok_noPanic _)

theorem parseSst_noPanic (r : Rec) : NoPanic (parseSst r) := by
  unfold parseSst
  simp only []
  refine ite_noPanic _ _ _ (err_noPanic _) ?_
  refine ite_noPanic _ _ _ (err_noPanic _) ?_
  exact readStrings_noPanic _ _

theorem gather_noPanic : ∀ (fuel : Nat) (s : Bytes), NoPanic (gather fuel s)
  | 0, _ => by rw [gather]; exact fuel_noPanic
  | fuel + 1, s => by
    rw [gather]
    refine ite_noPanic _ _ _ ?_ (ok_noPanic _)
    refine ite_noPanic _ _ _ (err_noPanic _) ?_
    exact bind_noPanic _ _ (gather_noPanic fuel _) (fun a => ok_noPanic _)

theorem nextRecord_noPanic (s : Bytes) (e : String) : nextRecord s ≠ some (.panic e) := by
  unfold nextRecord
  simp only []
  split
  · split <;> simp
  · split
    · simp
    · intro h
      simp only [Option.some.injEq] at h
      exact bind_noPanic _ _ (gather_noPanic _ _) (fun a => ok_noPanic _) e h

theorem sstFromStream_noPanic : ∀ (fuel : Nat) (s : Bytes), NoPanic (sstFromStream fuel s)
  | 0, _ => by rw [sstFromStream]; exact fuel_noPanic
  | fuel + 1, s => by
    rw [sstFromStream]
    cases hn : nextRecord s with
    | none => exact err_noPanic _
    | some x =>
      cases x with
      | ok v =>
        simp only [Res.bind_ok]
        exact ite_noPanic _ _ _ (parseSst_noPanic _) (sstFromStream_noPanic fuel _)
      | err e => intro e'; simp [bind, Res.bind]
      | panic e => exact absurd hn (nextRecord_noPanic s e)
      | outOfFuel => intro e'; simp [bind, Res.bind]

/-- total: with the driver's fuel the stream reader answers `ok` or `err` on every byte string -/
theorem sstFromStream_ok_or_err (s : Bytes) :
    (∃ v, sstFromStream (s.length + 1) s = .ok v) ∨ (∃ e, sstFromStream (s.length + 1) s = .err e) := by
  have h1 := sstFromStream_ne_fuel (s.length + 1) s (Nat.lt_succ_self _)
  have h2 := sstFromStream_noPanic (s.length + 1) s
  cases h : sstFromStream (s.length + 1) s with
  | ok v => exact Or.inl ⟨v, rfl⟩
  | err e => exact Or.inr ⟨e, rfl⟩
  | panic e => exact absurd h (h2 e)
  | outOfFuel => exact absurd h h1


end Biff
